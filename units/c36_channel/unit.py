"""unit c36_channel — the task / channel bookkeeping of `emmylua_check` (C36): `run_check` spawns one task per main-workspace
file, every task sends one `(file_id, diagnostics)` message, `output_result` consumes them, counting up to `total_count`.

Verus verifies sequential code. The rule family `async-seq` (below) turns the async text into its *sequential schedule*:
every spawned task runs its body to completion at the point where it is spawned, `.await` is a plain call, and the channel's
shared state becomes an explicit ghost parameter `ch`. What is proved is therefore WHICH messages are sent and consumed, not when."""
import re

from vc import rustlex as L
from vc.extract import Undecided
from vc.rules import rule

CHECK = 'crates/emmylua_check/src/'
OUT = CHECK + 'output/mod.rs'
ARGS = CHECK + 'cmd_args.rs'
LIB = CHECK + 'lib.rs'
CA = 'crates/emmylua_code_analysis/src/'
MOD = CA + 'db_index/module/'


def _T(text, toks):
    return lambda i: L.tok_text(text, toks[i]) if 0 <= i < len(toks) else ''


# ---------------------------------------------------------------------------------------------
# rule family `async-seq`
# ---------------------------------------------------------------------------------------------
@rule('async-seq-fn')
def async_seq_fn(text, **_):
    """async-seq (a1): `async fn f(..) -> T` -> `fn f(..) -> T`. An async fn is a fn returning a future whose only observable
    behaviour, once awaited to completion, is that of its body; in the sequential schedule the body runs at the call."""
    return re.subn(r'\basync\s+fn\b', 'fn', text)


@rule('async-seq-await')
def async_seq_await(text, **_):
    """async-seq (a2): `E.await` -> `E`. Awaiting a future runs it to completion and yields its output; in the sequential
    schedule (no other task is interleaved at a suspension point) that is the plain call."""
    toks = L.code_tokens(text)
    T = _T(text, toks)
    cuts = []
    for i in range(1, len(toks)):
        if toks[i][0] == 'ident' and T(i) == 'await' and T(i - 1) == '.':
            # also swallow the white space in front of `.await` (rustfmt puts it on its own line)
            a = toks[i - 1][1]
            while a > 0 and text[a - 1] in ' \t\n':
                a -= 1
            cuts.append((a, toks[i][2]))
    for a, b in reversed(cuts):
        text = text[:a] + text[b:]
    return text, len(cuts)


@rule('async-seq-spawn')
def async_seq_spawn(text, owned_senders=(), **_):
    """async-seq (b): `tokio::spawn(async move { BODY });` -> `{ BODY drop(S, ch); }` for the moved-in sender(s) S: the task's
    body runs to completion, exactly once, at the point where it is spawned (the JoinHandle is discarded in the source, so
    nothing else of the task is observable). `async move` moves the captured variables into the task, which drops them when
    its future completes: for the captured channel sender that drop is observable (it closes the channel when it is the last)
    and is therefore written out. NOT modelled: scheduling and interleaving, a task that panics or never runs (runtime
    shutdown), back-pressure of the bounded channel."""
    n = 0
    while True:
        toks = L.code_tokens(text)
        T = _T(text, toks)
        hit = None
        for i in range(len(toks) - 8):
            if (T(i) == 'tokio' and T(i + 1) == ':' and T(i + 2) == ':' and T(i + 3) == 'spawn' and T(i + 4) == '('
                    and T(i + 5) == 'async' and T(i + 6) == 'move' and T(i + 7) == '{'):
                bc = L.match_close(text, toks, i + 7)
                pc = L.match_close(text, toks, i + 4)
                if pc != bc + 1 or T(pc + 1) != ';':
                    raise Undecided('async-seq-spawn: spawn is not a statement `tokio::spawn(async move { .. });`')
                body = text[toks[i + 7][2]:toks[bc][1]]
                used = {T(k) for k in range(i + 8, bc) if toks[k][0] == 'ident'}
                for s in owned_senders:
                    if s not in used:
                        raise Undecided('async-seq-spawn: the task body does not capture `%s`' % s)
                drops = ''.join('drop(%s, ch); ' % s for s in owned_senders)
                hit = (toks[i][1], toks[pc + 1][2], '{' + body.rstrip() + '\n            ' + drops + '\n        }')
                break
        if not hit:
            break
        text = text[:hit[0]] + hit[2] + text[hit[1]:]
        n += 1
    if re.search(r'\basync\b', text):
        raise Undecided('async-seq-spawn: an `async` block remains')
    return text, n


@rule('async-seq-chan')
def async_seq_chan(text, senders=('sender',), receivers=('receiver',), callees=(), ghost_args=(), **_):
    """async-seq (c), state-passing form of the shared channel: the state that `Sender`s and the `Receiver` of one
    `tokio::sync::mpsc` channel share (the queue, the number of live senders) becomes the explicit parameter `ch`:
    `mpsc::channel(N)` -> `mpsc::channel(N, ch)` (initialises it), `S.send(V)` -> `S.send(V, ch)`, `S.clone()` -> `S.clone(ch)`,
    `drop(S)` -> `drop(S, ch)` for the sender variables S, `R.recv()` -> `R.recv(ch)` for the receiver variables R, and `ch` is
    appended to the calls of the listed callees that take the receiver (followed by the callee's ghost out-parameters
    `ghost_args`, see rule `c36c-ghost-params`). Nothing else is touched."""
    n = 0
    while True:
        toks = L.code_tokens(text)
        T = _T(text, toks)
        hit = None
        for i in range(len(toks) - 2):
            if toks[i][0] != 'ident' or T(i + 1) != '(':
                continue
            c = L.match_close(text, toks, i + 1)
            if T(c - 1) == 'ch' or (ghost_args and T(c - 1) == ghost_args[-1]):
                continue
            name = T(i)
            is_method = T(i - 1) == '.'
            recv_var = T(i - 2) if is_method else None
            ok = False
            if name == 'channel' and T(i - 1) == ':' and T(i - 3) == 'mpsc':
                ok = True
            elif is_method and name in ('send', 'clone') and recv_var in senders:
                ok = True
            elif is_method and name == 'recv' and recv_var in receivers:
                ok = True
            elif not is_method and name == 'drop' and T(i + 2) in senders and c == i + 3:
                ok = True
            elif not is_method and name in callees and T(i - 1) != 'fn':
                ok = True
            if not ok:
                continue
            empty = (c == i + 2)
            add = 'ch' + (''.join(', ' + g for g in ghost_args) if (not is_method and name in callees) else '')
            if T(c - 1) == ',':
                hit = (toks[c - 1][2], toks[c][1], ' ' + add)           # multi-line call with a trailing comma
            else:
                hit = (toks[c][1], toks[c][1], add if empty else ', ' + add)
            break
        if not hit:
            break
        text = text[:hit[0]] + hit[2] + text[hit[1]:]
        n += 1
    return text, n


# ---------------------------------------------------------------------------------------------
# contracts
# ---------------------------------------------------------------------------------------------
MSG = '(FileId, Option<Vec<Diagnostic>>)'

OUTPUT_RESULT = {
    'src': {'file': OUT, 'kind': 'fn', 'name': 'output_result'},
    'rules': ['async-seq-fn', ('async-seq-await', {'count': 1}), ('async-seq-chan', {'count': 1}),
              'c36c-ghost-params', 'c36-closure-contract'],
    'attrs': '#[verifier::spinoff_prover]\n#[verifier::loop_isolation(false)]',
    'ret': 'r',
    'requires': '''
            old(ch).wf(), receiver.chan() == old(ch).id@,
            // the completion count the caller hands over is the number of messages that are (will be) in the channel
            total_count == old(ch).unread().len() /*@C36.channel.total-matches-messages*/,
            // every sender handle is gone: the original was dropped, every task has finished and dropped its clone
            // (otherwise `recv` on the empty channel of a workspace without files would wait forever)
            old(ch).live@ == 0 /*@C36.channel.closed-after-last-task*/,
            // input assumption (as in unit c36_exit): the four usize tallies cannot overflow
            total_diags(old(ch).unread()) <= usize::MAX''',
    'ensures': '''
            // every message of the channel was received, each once, in order; none appeared or vanished
            final(ch).sent@ == old(ch).sent@ && final(ch).read@ == final(ch).sent@.len() /*@C36.channel.every-message-consumed*/,
            // the report: when `finish()` is called the writer has been handed, for every message that carries diagnostics, exactly
            // the filtered diagnostics, once, in channel order, under the message's own file id; nothing else
            final(rep)@ == reports(old(ch).unread(), severity_filter) /*@C36.report.every-message-once*/,
            // exit status: non-zero exactly when a REPORTED diagnostic (after the filter) of some message is an error,
            // or a warning under --warnings-as-errors
            (r != 0) == any_reported_err(old(ch).unread(), severity_filter, warnings_as_errors) /*@C36.exit.nonzero-iff-reported-error*/''',
    'body_first': 'let ghost sent0 = ch.sent@; let ghost read0 = ch.read@; let ghost msgs = ch.unread();',
    'iter_names': {1: 'it'},
    'loops': {
        0: '''invariant
                ch.wf(), ch.sent@ == sent0, receiver.chan() == ch.id@, read0 <= ch.read@, msgs == sent0.skip(read0 as int), ch.live@ == 0,
                total_count == msgs.len(), total_diags(msgs) <= usize::MAX,
                count == ch.read@ - read0 /*@C36.channel.count-counts-consumed*/,
                // what the writer was handed so far: the filtered diagnostics of every consumed message, once, in order, under its file
                writer.log() == reports(msgs.take(count as int), severity_filter) /*@C36.report.every-consumed-message-once.inv*/,
                has_error == any_reported_err(msgs.take(count as int), severity_filter, warnings_as_errors) /*@C36.exit.flag.inv*/,
                error_count <= total_diags(msgs.take(count as int)), warning_count <= total_diags(msgs.take(count as int)),
                info_count <= total_diags(msgs.take(count as int)), hint_count <= total_diags(msgs.take(count as int)),
            decreases ch.sent@.len() - ch.read@''',
        1: '''invariant
                has_error == (he0 || exists|i: int| 0 <= i < it.index@ && is_err(#[trigger] diagnostics@[i], warnings_as_errors)) /*@C36.exit.flag.inner-inv*/,
                error_count <= c0.0 + it.index@, warning_count <= c0.1 + it.index@,
                info_count <= c0.2 + it.index@, hint_count <= c0.3 + it.index@,''',
    },
    'proof': [
        (r'while let Some\(\(file_id, diagnostics\)\) = receiver\.recv\(ch\) \{', 'after', '''
                let ghost k = (ch.read@ - read0 - 1) as int;
                proof {
                    assert(msgs[k] == sent0[read0 + k]);
                    assert(msgs[k] == (file_id, diagnostics));
                    lemma_take_step(msgs, k);
                    lemma_total_diags_take(msgs, k);
                    lemma_total_diags_mono(msgs, k + 1);
                }'''),
        (r'if let Some\(severity_filter\) = severity_filter \{', 'before', '''
                let ghost all = diagnostics@;'''),
        (r'diagnostics\.retain\(\|diagnostic[^;]*\);\s*\}', 'after', '''
                proof {
                    if severity_filter is None {
                        lemma_filter_by_all_true(all, Seq::new(all.len(), |i: int| true));
                        assert(is_filtered(all, severity_filter, diagnostics@));
                    } else {
                        assert(exists|keep: Seq<bool>| keep.len() == all.len()
                            && (forall|i: int| 0 <= i < keep.len() ==> #[trigger] keep[i] == passes(severity_filter, all[i]))
                            && diagnostics@ == filter_by(all, keep));
                    }
                    lemma_is_filtered(all, severity_filter, diagnostics@);
                }
                let ghost he0 = has_error; let ghost c0 = (error_count, warning_count, info_count, hint_count);'''),
        (r'writer\.write\(db, file_id, diagnostics\);', 'after', '''
                proof {
                    lemma_reports_step_some(msgs, k, severity_filter);
                    lemma_err_step(msgs, k, severity_filter, warnings_as_errors);
                }'''),
        (r'if count [^{;]*total_count \{', 'before', '''
                proof {
                    if msgs[k].1 is None {
                        lemma_reports_step_none(msgs, k, severity_filter);
                        lemma_err_step(msgs, k, severity_filter, warnings_as_errors);
                    }
                }'''),
        (r'writer\.finish\(\);', 'before', '''
                proof {
                    // both exits of the loop (channel closed and empty / `count == total_count`) leave nothing unread
                    assert(ch.read@ == ch.sent@.len()) /*@C36.channel.every-message-consumed.loop-exit*/;
                    assert(msgs.take(count as int) =~= msgs);
                }
                *rep = Ghost(writer.log());'''),
    ],
}

RUN_CHECK = {
    'src': {'kind': 'slice', 'name': 'run_check_channel', 'in': {'file': LIB, 'kind': 'fn', 'name': 'run_check'},
            'from': r'let db = analysis\.compilation\.get_db\(\);\s*let need_check_files = ',
            'to': r'cmd_args\.severity,\s*\)\s*\.await;',
            'head': 'pub fn run_check_channel(analysis: EmmyLuaAnalysis, main_path: PathBuf, cmd_args: CmdArgs, ch: &mut Chan<%s>, rep: &mut Ghost<Seq<(FileId, Seq<Diagnostic>)>>) -> i32' % MSG,
            'tail': 'exit_code'},
    'rules': ['async-seq-await', ('async-seq-spawn', {'owned_senders': ('sender',), 'count': 1}),
              ('async-seq-chan', {'callees': ('output_result',), 'ghost_args': ('rep',)})],
    'attrs': '#[verifier::spinoff_prover]\n#[verifier::loop_isolation(false)]',
    'ret': 'r',
    'requires': '''
            keys_ok(),
            // index invariant (part of unit c10_module's `module_wf`): every ModuleInfo is stored under its own file id
            forall|f: FileId| #[trigger] index_of(&analysis).file_module_map@.contains_key(f) ==> index_of(&analysis).file_module_map@[f].file_id == f,
            // input assumption: the usize tallies cannot overflow
            forall|ids: Seq<FileId>| #[trigger] is_main_ids(index_of(&analysis).file_module_map@, ids) ==> total_diags(messages_for(&analysis, ids)) <= usize::MAX''',
    'ensures': '''
            // exactly one message per main-workspace file id, carrying that id and diagnose_file's result for it
            exists|ids: Seq<FileId>| is_main_ids(index_of(&analysis).file_module_map@, ids)
                && final(ch).sent@ == messages_for(&analysis, ids) /*@C36.channel.one-message-per-main-file*/,
            // hence the report: for every main-workspace file (each once) for which diagnose_file returned diagnostics, exactly its
            // filtered diagnostics under its own file id; nothing else
            exists|ids: Seq<FileId>| is_main_ids(index_of(&analysis).file_module_map@, ids)
                && final(rep)@ == reports(messages_for(&analysis, ids), cmd_args.severity) /*@C36.report.every-main-file-once*/,
            final(ch).read@ == final(ch).sent@.len() /*@C36.channel.every-message-consumed*/,
            (r != 0) == any_reported_err(final(ch).sent@, cmd_args.severity, cmd_args.warnings_as_errors) /*@C36.exit.nonzero-iff-reported-error*/''',
    'body_first': 'proof { assert(index_of(&analysis) == analysis.compilation.db().module_index()); }',
    'iter_names': {0: 'it'},
    'loops': {0: '''invariant
                ch.wf(), ch.read@ == 0, sender.chan() == ch.id@, receiver.chan() == ch.id@, ch.live@ == 1,
                it.seq() =~= need_check_files@ /*@C36.channel.one-task-per-selected-file.inv*/,
                ch.sent@ =~= messages_for(&*analysis, need_check_files@.take(it.index@ as int)) /*@C36.channel.one-message-per-main-file.inv*/,'''},
    'proof': [
        (r'let sender = sender\.clone\(ch\);', 'before', '''
                proof { lemma_messages_step(&*analysis, need_check_files@, it.index@ as int); }'''),
        (r'let exit_code = output_result\(', 'before', '''
                proof {
                    assert(need_check_files@.take(need_check_files@.len() as int) =~= need_check_files@);
                    assert(ch.unread() =~= ch.sent@);
                    assert(is_main_ids(index_of(&*analysis).file_module_map@, need_check_files@));
                    // the other preconditions of `output_result`, each under its own name (the call below can then only fail on the count)
                    assert(ch.live@ == 0) /*@C36.channel.closed-after-last-task*/;
                    assert(ch.wf() && receiver.chan() == ch.id@ && total_diags(ch.unread()) <= usize::MAX);
                }'''),
        (r'let exit_code = output_result\(', 'after', '/*@C36.channel.total-matches-messages*/'),
    ],
}

MAIN_IDS = {
    'src': {'file': MOD + 'mod.rs', 'kind': 'fn', 'impl': 'LuaModuleIndex', 'name': 'get_main_workspace_file_ids'},
    'attrs': '#[verifier::spinoff_prover]\n#[verifier::loop_isolation(false)]',
    'ret': 'r',
    'requires': '''
            keys_ok(),
            // index invariant (part of unit c10_module's `module_wf`): every ModuleInfo is stored under its own file id
            forall|f: FileId| #[trigger] self.file_module_map@.contains_key(f) ==> self.file_module_map@[f].file_id == f''',
    'ensures': '''
            // exactly the files of `file_module_map` whose workspace is the main workspace, each once (order unspecified)
            is_main_ids(self.file_module_map@, r@) /*@C36.files.exactly-main-workspace*/''',
    'iter_names': {0: 'it'},
    'loops': {0: '''invariant
                it.seq().unref().to_set() == self.file_module_map@.values(), it.seq().len() == self.file_module_map@.dom().len(),
                file_ids@ == main_of(it.seq().unref().take(it.index@ as int)) /*@C36.files.exactly-main-workspace.inv*/,
                it.index@ == it.seq().len() ==> is_main_ids(self.file_module_map@, file_ids@) /*@C36.files.exactly-main-workspace.at-exit*/,'''},
    'proof': [
        (r'for module_info in', 'before', '''
                proof { lemma_main_ids_empty(self.file_module_map@); }'''),
        (r'if module_info\.workspace_id [!=]= WorkspaceId::MAIN \{', 'before', '''
                proof {
                    assert(*module_info == it.seq().unref()[it.index@ as int]);
                    lemma_main_of_step(it.seq().unref(), it.index@ as int);
                }'''),
        (r'file_ids\.push\(module_info\.file_id\);\s*\}', 'after', '''
                proof { lemma_main_ids_last(self.file_module_map@, it.seq().unref(), it.index@ as int); }'''),
    ],
}


UNIT = {
    'items': {
        'FileId': {'src': {'file': CA + 'vfs/file_id.rs', 'kind': 'struct', 'name': 'FileId', 'drop_attrs': False},
                   'attrs': '#[derive(Structural)]'},
        'WorkspaceId': {'src': {'file': MOD + 'workspace.rs', 'kind': 'struct', 'name': 'WorkspaceId', 'drop_attrs': False},
                        'attrs': '#[derive(Structural)]'},
        'WorkspaceId::MAIN': {'src': {'file': MOD + 'workspace.rs', 'kind': 'const', 'impl': 'WorkspaceId', 'name': 'MAIN'},
                              'rules': ['c36c-const-semicolon']},
        'ModuleInfo': {'src': {'file': MOD + 'module_info.rs', 'kind': 'struct', 'name': 'ModuleInfo'},
                       'rules': [('struct-fields', {'keep': ['file_id', 'workspace_id']})]},
        'LuaModuleIndex': {'src': {'file': MOD + 'mod.rs', 'kind': 'struct', 'name': 'LuaModuleIndex'},
                           'rules': [('struct-fields', {'keep': ['file_module_map']})]},
        'LuaModuleIndex::get_main_workspace_file_ids': MAIN_IDS,
        'EmmyLuaAnalysis': {'src': {'file': CA + 'lib.rs', 'kind': 'struct', 'name': 'EmmyLuaAnalysis'},
                            'rules': [('struct-fields', {'keep': ['compilation']})]},
        'CmdArgs': {'src': {'file': ARGS, 'kind': 'struct', 'name': 'CmdArgs'},
                    'rules': [('struct-fields', {'keep': ['output_format', 'output', 'warnings_as_errors', 'severity']})]},
        'OutputFormat': {'src': {'file': ARGS, 'kind': 'enum', 'name': 'OutputFormat'}, 'attrs': '#[derive(Clone, PartialEq)]'},
        'OutputDestination': {'src': {'file': ARGS, 'kind': 'enum', 'name': 'OutputDestination'}},
        'DiagnosticSeverityFilter': {'src': {'file': ARGS, 'kind': 'enum', 'name': 'DiagnosticSeverityFilter'},
                                     'attrs': '#[derive(Clone, Copy)]'},
        'DiagnosticSeverityFilter::into_severity': {
            'src': {'file': ARGS, 'kind': 'fn', 'impl': 'From for DiagnosticSeverity', 'name': 'from'}, 'pub': False},
        'DiagnosticSeverityFilter::allows': {
            'src': {'file': ARGS, 'kind': 'fn', 'impl': 'DiagnosticSeverityFilter', 'name': 'allows'},
            'ret': 'r',
            'ensures': 'r == (severity matches Some(s) && s.0 <= threshold(self)) /*@C36.filter.allows*/'},
        'DiagnosticReceiver': {'src': {'file': OUT, 'kind': 'type', 'name': 'DiagnosticReceiver'}},
        'OutputWriter': {'src': {'file': OUT, 'kind': 'trait', 'name': 'OutputWriter'},
                         'rules': ['c36c-writer-trait-contract'], 'pub': False},
        'output_result': OUTPUT_RESULT,
        'run_check::channel': RUN_CHECK,
        'run_check::exit': {
            'src': {'kind': 'slice', 'name': 'run_check_exit', 'in': {'file': LIB, 'kind': 'fn', 'name': 'run_check'},
                    'from': r'if exit_code != 0 \{', 'to': r'Ok\(\(\)\)',
                    'head': 'pub fn run_check_exit(exit_code: i32) -> Result<(), BoxedError>', 'tail': ''},
            'rules': ['c36c-error-value-opaque', 'c36c-eprintln-drop'],
            'ret': 'r',
            'ensures': 'r is Err <==> exit_code != 0 /*@C36.exit.err-iff-nonzero-code*/'},
    },
    'extra_rules': [
        ('c36c-error-value-opaque', r'Err\(format!\("exit code: \{\}", exit_code\)\.into\(\)\)', 'Err(vx_boxed_error())',
         '`Err(format!(..).into())` -> `Err(vx_boxed_error())`: the error VALUE (a message boxed as `dyn Error + Sync + Send`, a type outside '
         'Verus\' dialect) is opaque; only Ok/Err is under contract. Formatting an i32 does not panic'),
        ('c36c-eprintln-drop', r'eprintln!\("Check finished"\);', '',
         '`eprintln!("lit");` dropped: a line on stderr is no part of any claimed clause'),
        ('c36c-const-semicolon', r'\}\s*$', '};',
         'extractor artefact: a `const X: T = T { .. };` item is cut at the closing brace of its initialiser; the terminating `;` is restored'),
        ('c36-closure-contract', r'\|diagnostic\| severity_filter\.allows\(diagnostic\.severity\)',
         '|diagnostic: &Diagnostic| -> (b: bool) ensures b == passes(Some(severity_filter), *diagnostic) { severity_filter.allows(diagnostic.severity) }',
         'contract overlay on a closure (same rule as unit c36_exit): parameter type, named result and `ensures` are added, the body '
         'expression is kept verbatim and Verus checks the ensures against it'),
        ('c36c-ghost-params', r'(severity_filter: Option<DiagnosticSeverityFilter>,)(\s*\) -> i32)',
         r'\1 ch: &mut Chan<%s>, rep: &mut Ghost<Seq<(FileId, Seq<Diagnostic>)>>,\2' % MSG,
         'async-seq (c), callee side: the fn that takes the Receiver also takes the explicit channel state `ch`; and a ghost OUT-parameter '
         '`rep` (specification only, erased): the overlay stores in it what the locally created writer had been handed when `finish()` is '
         'called, so that the report can be named in the postcondition'),
        ('c36c-writer-trait-contract',
         r'trait OutputWriter \{\s*fn write\(&mut self, db: &DbIndex, file_id: FileId, diagnostics: Vec<Diagnostic>\);\s*fn finish\(&mut self\);\s*\}',
         '''pub trait OutputWriter {
    /// ghost log of the `write` calls (what the three implementations do with a call is proved in unit c36_writers)
    spec fn log(&self) -> Seq<(FileId, Seq<Diagnostic>)>;
    fn write(&mut self, db: &DbIndex, file_id: FileId, diagnostics: Vec<Diagnostic>)
        ensures final(self).log() == old(self).log().push((file_id, diagnostics@));
    fn finish(&mut self)
        ensures final(self).log() == old(self).log();
}''',
         'contract overlay on the trait declaration: the two method signatures are the repository\'s (the rule matches them literally), '
         'a ghost `log` of the write calls and the `ensures` that define it are added'),
    ],
    'allow': [r'external_body', r'uninterp',
              r'assume_specification<T, A: Allocator, F: FnMut\(&T\) -> bool>\[ Vec::<T, A>::retain \]'],
    'min_obligations': 30,
    'trusted': [
        'rule family async-seq = the SEQUENTIAL SCHEDULE of the async text: (a) `async fn`/`.await` are plain fns/calls; (b) '
        '`tokio::spawn(async move { BODY })` runs BODY to completion, exactly once, at the spawn point and then drops the moved-in sender '
        '(the drop is written out by the rule); (c) the state shared by the channel handles is the explicit ghost parameter `ch` '
        '(sent log, read index, live-sender count). ABSTRACTED AWAY: task scheduling and interleaving (every spawned task is assumed to run '
        'its body to completion exactly once before the receiver observes the channel closed); a task that panics or is never polled '
        '(runtime shutdown, cancellation of run_check\'s own future) is not modelled; the capacity 100 / back-pressure is not modelled '
        '(only `buffer > 0`, tokio\'s panic condition, is checked). The clauses proved are about WHICH messages are sent and consumed, not when',
        'tokio mpsc contract as stated on the shims (tokio docs): messages are received in send order, each once; `recv` returns None only '
        'when the queue is empty and every Sender is dropped; with the queue empty and a sender alive it waits (precondition '
        'C36.channel.recv-cannot-wait-forever: in the sequential schedule that wait would never end); `send` succeeds while the receiver '
        'is alive — in the sequential schedule the receiver outlives every task, so `send(..).unwrap()` does not panic; in the real '
        'schedule this holds because output_result returns only after it has consumed every message (proved here)',
        '`EmmyLuaAnalysis::diagnose_file` is modelled as a FUNCTION sp_diagnose(analysis, file_id) of the analysis and the file id '
        '(deterministic, fresh never-cancelled token); nothing is assumed about its value',
        'the three OutputWriter implementations are abstracted to the ghost log of their `write` calls (contract overlay on the trait, '
        'constructors return an empty log); what each does with a call is unit c36_writers. `Box<dyn OutputWriter>` dispatch is Verus\' dyn support',
        'ghost out-parameter `rep` of output_result (rule c36c-ghost-params, specification only): carries the writer log at `finish()` into the postcondition',
        'Vec::retain: std doc contract as assume_specification (same text as unit c36_exit); lsp_types::DiagnosticSeverity / Diagnostic transcribed (as in c36_exit)',
        'HashMap::values: vstd\'s specification (as many items as keys, the same set of values) + obeys_key_model::<FileId>() (derived Hash/Eq of a u32 newtype) as precondition `keys_ok`',
        'index invariant ASSUMED as a precondition of get_main_workspace_file_ids and of the run_check slice: every ModuleInfo is stored under its own '
        'file id (`file_module_map[k].file_id == k`; the fn pushes `module_info.file_id`, not the key). It is a conjunct of unit c10_module\'s `module_wf`; '
        'note that `get_module_mut` hands out `&mut ModuleInfo` with a pub `file_id`, so privacy alone does not protect it',
        'input assumption: the four usize tallies cannot overflow (total number of diagnostics of all messages <= usize::MAX), as in unit c36_exit',
        'opaque shims with unconstrained results: PathBuf, DbIndex/LuaCompilation accessors (get_db/get_module_index return THE db / THE module index), '
        'CancellationToken::new, TerminalDisplay::{new, print_summary}, Arc (vstd)',
        'the process exit status: `main` returns run_check\'s Result and Rust\'s `Termination for Result` maps Err to a non-zero status (std); the error VALUE is opaque (rule c36c-error-value-opaque)',
    ],
    'not_covered': [
        'real concurrency of the tokio runtime (see the async-seq entry of `trusted`): interleavings, task panics (a panicking diagnose_file is swallowed '
        'by the dropped JoinHandle: its file silently sends no message), runtime shutdown, back-pressure',
        'run_check before the slice (argument handling, workspace loading: an Err there also gives a non-zero exit) ',
        'that the module index puts exactly the files under the first workspace root into WorkspaceId::MAIN (add_module_by_path / extract_module_path)',
        'the summary line (print_summary) and the writers\' formatting (unit c36_writers)',
    ],
    'samples': [
        'get_main_workspace_file_ids: is_main_ids(file_module_map, r) — r has no duplicates and contains f  <==>  f is a key whose ModuleInfo.workspace_id == MAIN',
        'run_check slice: exists ids. is_main_ids(index, ids) && ch.sent == [(id, diagnose_file(id)) for id in ids]  (one message per main file, nothing else)',
        'output_result requires total_count == |unread messages| (a caller passing len()/32 fails C36.channel.total-matches-messages) and live senders == 0',
        'output_result ensures read == |sent| (every message consumed once, in order), report == reports(messages, filter), (r != 0) == any_reported_err(messages, filter, wae)',
        'run_check slice: report == reports([(id, diagnose_file(id)) for id in ids], --severity), (exit_code != 0) == a reported diagnostic is an error / warning under --warnings-as-errors',
        'run_check tail: returns Err  <==>  exit_code != 0',
    ],
    'mutants': [
        # the seeded defect C36_2 reduced to its core: the completion count is the number of 32-file batches, the messages are per file
        {'name': 'seeded-count-div-32', 'item': 'run_check::channel',
         'pattern': r'need_check_files\.len\(\),', 'repl': 'need_check_files.len() / 32,', 'expect': r'C36\.channel\.total-matches-messages'},
        {'name': 'break-one-message-early', 'item': 'output_result',
         'pattern': r'if count == total_count \{', 'repl': 'if count + 1 == total_count {', 'expect': r'C36\.channel\.every-message-consumed'},
        {'name': 'count-not-incremented', 'item': 'output_result',
         'pattern': r'\n\s*count \+= 1;', 'repl': '', 'expect': r'C36\.channel\.(count-counts-consumed|recv-cannot-wait-forever)'},
        {'name': 'spawn-skips-first-file', 'item': 'run_check::channel',
         'pattern': r'for file_id in need_check_files\.clone\(\) \{',
         'repl': 'let mut vx = need_check_files.clone(); if vx.len() > 0 { vx.remove(0); } for file_id in vx {',
         'expect': r'C36\.channel\.(one-task-per-selected-file|one-message-per-main-file|total-matches-messages)'},
        {'name': 'original-sender-not-dropped', 'item': 'run_check::channel',
         'pattern': r'\n\s*drop\(sender\);', 'repl': '', 'expect': r'C36\.channel\.closed-after-last-task'},
        {'name': 'message-sent-twice', 'item': 'run_check::channel',
         'pattern': r'sender\.send\(\(file_id, diagnostics\)\)\.await\.unwrap\(\);',
         'repl': 'sender.send((file_id, None)).await.unwrap(); sender.send((file_id, diagnostics)).await.unwrap();',
         'expect': r'C36\.channel\.(one-message-per-main-file|total-matches-messages)'},
        {'name': 'write-skipped', 'item': 'output_result',
         'pattern': r'writer\.write\(db, file_id, diagnostics\);', 'repl': 'if false { writer.write(db, file_id, diagnostics); }', 'expect': r'C36\.report'},
        {'name': 'exit-inverted', 'item': 'output_result',
         'pattern': r'if has_error \{ 1 \} else \{ 0 \}', 'repl': 'if has_error { 0 } else { 1 }', 'expect': r'C36\.exit\.nonzero-iff-reported-error'},
        {'name': 'err-on-zero', 'item': 'run_check::exit',
         'pattern': r'exit_code != 0', 'repl': 'exit_code > 1', 'expect': r'C36\.exit\.err-iff-nonzero-code'},
        {'name': 'selects-non-main-files', 'item': 'LuaModuleIndex::get_main_workspace_file_ids',
         'pattern': r'module_info\.workspace_id == WorkspaceId::MAIN', 'repl': 'module_info.workspace_id != WorkspaceId::MAIN',
         'expect': r'C36\.files\.exactly-main-workspace'},
    ],
}
