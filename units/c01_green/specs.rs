// ---------------------------------------------------------------------------------------------
// spec vocabulary of unit c01_green
// ---------------------------------------------------------------------------------------------
pub type Els = Seq<LuaGreenElement>;

/// child list of an element (empty for tokens and `None`)
pub open spec fn kids(e: LuaGreenElement) -> Seq<usize> {
    match e {
        LuaGreenElement::Node { children, .. } => children@,
        _ => Seq::<usize>::empty(),
    }
}

/// the token ranges below element `i`, left to right
pub open spec fn flat(es: Els, i: int) -> Seq<SourceRange>
    decreases i, 1int, 0int
{
    if 0 <= i < es.len() {
        match es[i] {
            LuaGreenElement::Token { range, .. } => seq![range],
            LuaGreenElement::Node { children, .. } => flat_list(es, children@, i),
            LuaGreenElement::None => Seq::<SourceRange>::empty(),
        }
    } else {
        Seq::<SourceRange>::empty()
    }
}

/// concatenation of `flat` over a list of element indices (indices `>= bound` contribute nothing; under `wf` there
/// are none: the bound only makes the mutual recursion well-founded)
pub open spec fn flat_list(es: Els, ks: Seq<usize>, bound: int) -> Seq<SourceRange>
    decreases bound, 0int, ks.len()
{
    if ks.len() == 0 {
        Seq::<SourceRange>::empty()
    } else {
        flat_list(es, ks.drop_last(), bound) + (if 0 <= bound && (ks.last() as int) < bound { flat(es, ks.last() as int) } else { Seq::<SourceRange>::empty() })
    }
}

/// representation invariant, elements: a node's children are strictly smaller indices than the node, and no element
/// index is referenced twice (neither by two nodes nor twice by one node): the nodes form a forest
pub open spec fn wf_elems(es: Els) -> bool {
    &&& forall|n: int, a: int| 0 <= n < es.len() && 0 <= a < kids(es[n]).len() ==> (#[trigger] kids(es[n])[a] as int) < n
    &&& forall|n: int, a: int, m: int, b: int|
            0 <= n < es.len() && 0 <= a < kids(es[n]).len() && 0 <= m < es.len() && 0 <= b < kids(es[m]).len() && (n != m || a != b)
            ==> #[trigger] kids(es[n])[a] != #[trigger] kids(es[m])[b]
}

/// representation invariant, root list `ch`: in bounds, no duplicates, and no root is the child of a node
pub open spec fn wf_top(ch: Seq<usize>, es: Els) -> bool {
    &&& forall|k: int| 0 <= k < ch.len() ==> (#[trigger] ch[k] as int) < es.len()
    &&& forall|k: int, l: int| 0 <= k < l < ch.len() ==> #[trigger] ch[k] != #[trigger] ch[l]
    &&& forall|k: int, n: int, a: int| 0 <= k < ch.len() && 0 <= n < es.len() && 0 <= a < kids(es[n]).len() ==> #[trigger] ch[k] != #[trigger] kids(es[n])[a]
}

pub open spec fn is_root(es: Els, p: int) -> bool {
    &&& 0 <= p < es.len()
    &&& forall|n: int, a: int| 0 <= n < es.len() && 0 <= a < kids(es[n]).len() ==> (#[trigger] kids(es[n])[a] as int) != p
}

pub open spec fn wf(b: &LuaGreenNodeBuilder) -> bool {
    wf_elems(b.elements@) && wf_top(b.children@, b.elements@)
}

/// all token ranges held by the builder, in order: the leaves below the top-level children
pub open spec fn flat_all(b: &LuaGreenNodeBuilder) -> Seq<SourceRange> {
    flat_list(b.elements@, b.children@, b.elements@.len() as int)
}

/// what `is_trivia` / `is_trivia_whitespace` compute
pub open spec fn sp_trivia(e: LuaGreenElement) -> bool {
    match e {
        LuaGreenElement::Token { kind, .. } => kind is TkWhitespace || kind is TkEndOfLine || kind is TkDocContinue,
        LuaGreenElement::Node { kind, .. } => kind is Comment || kind is DocDescription,
        LuaGreenElement::None => false,
    }
}
pub open spec fn sp_ws(e: LuaGreenElement) -> bool {
    match e {
        LuaGreenElement::Token { kind, .. } => kind is TkWhitespace || kind is TkEndOfLine,
        _ => false,
    }
}

/// the start index recorded for the node being finished lies inside the current child list
/// (assumption A-EV on the event stream, see unit.py)
pub open spec fn top_ok(b: &LuaGreenNodeBuilder) -> bool {
    b.parents@.len() > 0 && b.children@.len() > 0 ==> b.parents@.last().1 <= b.children@.len()
}

/// a builder that holds nothing and whose rowan builder has received nothing
pub open spec fn fresh(b: &LuaGreenNodeBuilder) -> bool {
    b.parents@.len() == 0 && b.children@.len() == 0 && b.elements@.len() == 0 && b.builder.fresh()
}

// ---------------------------------------------------------------------------------------------
// vocabulary of `build_rowan_green` (explicit-stack depth-first walk)
// ---------------------------------------------------------------------------------------------
/// ghost mirror of the local `Vec<StackItem>`: (index, is_close), bottom of the stack first
pub type GS = Seq<(usize, bool)>;

/// what the items still on the stack will emit, top of the stack first
pub open spec fn pend(es: Els, s: GS) -> Seq<SourceRange>
    decreases s.len()
{
    if s.len() == 0 {
        Seq::<SourceRange>::empty()
    } else {
        (if s.last().1 { Seq::<SourceRange>::empty() } else { flat(es, s.last().0 as int) }) + pend(es, s.drop_last())
    }
}

/// number of close items on the stack (= number of rowan nodes this walk has open)
pub open spec fn nclose(s: GS) -> int
    decreases s.len()
{
    if s.len() == 0 { 0 } else { nclose(s.drop_last()) + (if s.last().1 { 1int } else { 0int }) }
}

/// number of elements that are not `None` (termination measure: every taken element becomes `None`)
pub open spec fn count_some(es: Els) -> nat
    decreases es.len()
{
    if es.len() == 0 { 0 } else { count_some(es.drop_last()) + (if es.last() is None { 0nat } else { 1nat }) }
}

/// invariant of the walk. `es0` = the elements at entry, `cur` = now (visited elements have been replaced by `None`).
/// An element is "intact" when `cur[n] == es0[n]`.
pub open spec fn dfs_inv(es0: Els, cur: Els, gs: GS) -> bool {
    &&& cur.len() == es0.len()
    // open items on the stack are in bounds and intact
    &&& forall|k: int| 0 <= k < gs.len() && !(#[trigger] gs[k]).1 ==> (gs[k].0 as int) < es0.len() && cur[gs[k].0 as int] == es0[gs[k].0 as int]
    // ... pairwise distinct
    &&& forall|k: int, l: int| 0 <= k < l < gs.len() && !(#[trigger] gs[k]).1 && !(#[trigger] gs[l]).1 ==> gs[k].0 != gs[l].0
    // ... and not the child of any intact node (so nothing else will ever push them again)
    &&& forall|k: int, n: int, a: int| 0 <= k < gs.len() && !(#[trigger] gs[k]).1 && 0 <= n < es0.len() && cur[n] == es0[n] && 0 <= a < kids(es0[n]).len()
            ==> #[trigger] kids(es0[n])[a] != gs[k].0
    // the children of an intact node are intact
    &&& forall|n: int, a: int| 0 <= n < es0.len() && cur[n] == es0[n] && 0 <= a < kids(es0[n]).len()
            ==> cur[(#[trigger] kids(es0[n])[a]) as int] == es0[kids(es0[n])[a] as int]
}

/// the stack after an open item for node `x` (children `ks`) has been replaced by its close item and the first `t`
/// children in reverse order
pub open spec fn gs_after(base: GS, x: usize, ks: Seq<usize>, t: int) -> GS {
    base.push((x, true)) + Seq::new(t as nat, |j: int| (ks[ks.len() - 1 - j], false))
}

/// nothing has been handed to the rowan builder yet (true from `with_cache`/`new` until `finish`: `token`, `start_node`
/// and `finish_node` do not touch the `builder` field)
pub open spec fn fresh_rowan(b: &LuaGreenNodeBuilder) -> bool {
    b.builder.fresh()
}

pub open spec fn fl_of(es: Els, ch: Seq<usize>) -> Seq<(bool, bool)> {
    Seq::new(ch.len(), |k: int| (sp_trivia(es[ch[k] as int]), sp_ws(es[ch[k] as int])))
}
pub open spec fn abs(b: &LuaGreenNodeBuilder) -> AB {
    AB { parents: b.parents@, fl: fl_of(b.elements@, b.children@) }
}

/// events from `i` on are untouched, except that `NodeStart`s may already have been consumed by a walk
pub open spec fn rest_ok(cur: Seq<MarkEvent>, ev0: Seq<MarkEvent>, i: int) -> bool {
    &&& cur.len() == ev0.len()
    &&& forall|j: int| i <= j < ev0.len() ==> #[trigger] cur[j] == ev0[j] || (ev0[j] is NodeStart && cur[j] == none_ev())
}
