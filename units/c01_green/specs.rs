// ---------------------------------------------------------------------------------------------
// spec vocabulary of unit c01_green
// ---------------------------------------------------------------------------------------------
pub type Els = Seq<LuaGreenElement>;

/// child list of an element (empty for tokens and `None`)
pub open spec fn kids(e: LuaGreenElement) -> Seq<usize> {
    match e {
        LuaGreenElement::Node { children, .. } => children@,
        _ => Seq::<usize>::empty(),
    }
}

/// the token ranges below element `i`, left to right
pub open spec fn flat(es: Els, i: int) -> Seq<SourceRange>
    decreases i, 1int, 0int
{
    if 0 <= i < es.len() {
        match es[i] {
            LuaGreenElement::Token { range, .. } => seq![range],
            LuaGreenElement::Node { children, .. } => flat_list(es, children@, i),
            LuaGreenElement::None => Seq::<SourceRange>::empty(),
        }
    } else {
        Seq::<SourceRange>::empty()
    }
}

/// concatenation of `flat` over a list of element indices (indices `>= bound` contribute nothing; under `wf` there
/// are none: the bound only makes the mutual recursion well-founded)
pub open spec fn flat_list(es: Els, ks: Seq<usize>, bound: int) -> Seq<SourceRange>
    decreases bound, 0int, ks.len()
{
    if ks.len() == 0 {
        Seq::<SourceRange>::empty()
    } else {
        flat_list(es, ks.drop_last(), bound) + (if 0 <= bound && (ks.last() as int) < bound { flat(es, ks.last() as int) } else { Seq::<SourceRange>::empty() })
    }
}

/// representation invariant, elements: a node's children are strictly smaller indices than the node, and no element
/// index is referenced twice (neither by two nodes nor twice by one node): the nodes form a forest
pub open spec fn wf_elems(es: Els) -> bool {
    &&& forall|n: int, a: int| 0 <= n < es.len() && 0 <= a < kids(es[n]).len() ==> (#[trigger] kids(es[n])[a] as int) < n
    &&& forall|n: int, a: int, m: int, b: int|
            0 <= n < es.len() && 0 <= a < kids(es[n]).len() && 0 <= m < es.len() && 0 <= b < kids(es[m]).len() && (n != m || a != b)
            ==> #[trigger] kids(es[n])[a] != #[trigger] kids(es[m])[b]
}

/// representation invariant, root list `ch`: in bounds, no duplicates, and no root is the child of a node
pub open spec fn wf_top(ch: Seq<usize>, es: Els) -> bool {
    &&& forall|k: int| 0 <= k < ch.len() ==> (#[trigger] ch[k] as int) < es.len()
    &&& forall|k: int, l: int| 0 <= k < l < ch.len() ==> #[trigger] ch[k] != #[trigger] ch[l]
    &&& forall|k: int, n: int, a: int| 0 <= k < ch.len() && 0 <= n < es.len() && 0 <= a < kids(es[n]).len() ==> #[trigger] ch[k] != #[trigger] kids(es[n])[a]
}

pub open spec fn is_root(es: Els, p: int) -> bool {
    &&& 0 <= p < es.len()
    &&& forall|n: int, a: int| 0 <= n < es.len() && 0 <= a < kids(es[n]).len() ==> (#[trigger] kids(es[n])[a] as int) != p
}

pub open spec fn wf(b: &LuaGreenNodeBuilder) -> bool {
    wf_elems(b.elements@) && wf_top(b.children@, b.elements@)
}

/// all token ranges held by the builder, in order: the leaves below the top-level children
pub open spec fn flat_all(b: &LuaGreenNodeBuilder) -> Seq<SourceRange> {
    flat_list(b.elements@, b.children@, b.elements@.len() as int)
}

/// what `is_trivia` / `is_trivia_whitespace` compute
pub open spec fn sp_trivia(e: LuaGreenElement) -> bool {
    match e {
        LuaGreenElement::Token { kind, .. } => kind is TkWhitespace || kind is TkEndOfLine || kind is TkDocContinue,
        LuaGreenElement::Node { kind, .. } => kind is Comment || kind is DocDescription,
        LuaGreenElement::None => false,
    }
}
pub open spec fn sp_ws(e: LuaGreenElement) -> bool {
    match e {
        LuaGreenElement::Token { kind, .. } => kind is TkWhitespace || kind is TkEndOfLine,
        _ => false,
    }
}

/// the start index recorded for the node being finished lies inside the current child list
/// (assumption A-EV on the event stream, see unit.py)
pub open spec fn top_ok(b: &LuaGreenNodeBuilder) -> bool {
    b.parents@.len() > 0 && b.children@.len() > 0 ==> b.parents@.last().1 <= b.children@.len()
}

/// C01: the ranges of the `EatToken` events, in event order
pub open spec fn eaten(ev: Seq<MarkEvent>) -> Seq<SourceRange>
    decreases ev.len()
{
    if ev.len() == 0 {
        Seq::<SourceRange>::empty()
    } else {
        match ev.last() {
            MarkEvent::EatToken { range, .. } => eaten(ev.drop_last()).push(range),
            _ => eaten(ev.drop_last()),
        }
    }
}

/// every token range lies inside `text`, on char boundaries (established by the lexer link, unit c01_reader)
pub open spec fn range_ok(text: &str, r: SourceRange) -> bool {
    &&& r.start_offset + r.length <= text.spec_bytes().len()
    &&& r.start_offset + r.length <= usize::MAX
    &&& vstd::utf8::is_char_boundary(text.spec_bytes(), r.start_offset as int)
    &&& vstd::utf8::is_char_boundary(text.spec_bytes(), r.start_offset + r.length)
}
pub open spec fn ranges_ok(text: &str, rs: Seq<SourceRange>) -> bool {
    forall|k: int| 0 <= k < rs.len() ==> range_ok(text, #[trigger] rs[k])
}

/// a builder that holds nothing and whose rowan builder has received nothing
pub open spec fn fresh(b: &LuaGreenNodeBuilder) -> bool {
    b.parents@.len() == 0 && b.children@.len() == 0 && b.elements@.len() == 0 && b.builder.fresh()
}

// ---------------------------------------------------------------------------------------------
// vocabulary of `build_rowan_green` (explicit-stack depth-first walk)
// ---------------------------------------------------------------------------------------------
/// ghost mirror of the local `Vec<StackItem>`: (index, is_close), bottom of the stack first
pub type GS = Seq<(usize, bool)>;

/// what the items still on the stack will emit, top of the stack first
pub open spec fn pend(es: Els, s: GS) -> Seq<SourceRange>
    decreases s.len()
{
    if s.len() == 0 {
        Seq::<SourceRange>::empty()
    } else {
        (if s.last().1 { Seq::<SourceRange>::empty() } else { flat(es, s.last().0 as int) }) + pend(es, s.drop_last())
    }
}

/// number of close items on the stack (= number of rowan nodes this walk has open)
pub open spec fn nclose(s: GS) -> int
    decreases s.len()
{
    if s.len() == 0 { 0 } else { nclose(s.drop_last()) + (if s.last().1 { 1int } else { 0int }) }
}

/// number of elements that are not `None` (termination measure: every taken element becomes `None`)
pub open spec fn count_some(es: Els) -> nat
    decreases es.len()
{
    if es.len() == 0 { 0 } else { count_some(es.drop_last()) + (if es.last() is None { 0nat } else { 1nat }) }
}

/// invariant of the walk. `es0` = the elements at entry, `cur` = now (visited elements have been replaced by `None`).
/// An element is "intact" when `cur[n] == es0[n]`.
pub open spec fn dfs_inv(es0: Els, cur: Els, gs: GS) -> bool {
    &&& cur.len() == es0.len()
    // open items on the stack are in bounds and intact
    &&& forall|k: int| 0 <= k < gs.len() && !(#[trigger] gs[k]).1 ==> (gs[k].0 as int) < es0.len() && cur[gs[k].0 as int] == es0[gs[k].0 as int]
    // ... pairwise distinct
    &&& forall|k: int, l: int| 0 <= k < l < gs.len() && !(#[trigger] gs[k]).1 && !(#[trigger] gs[l]).1 ==> gs[k].0 != gs[l].0
    // ... and not the child of any intact node (so nothing else will ever push them again)
    &&& forall|k: int, n: int, a: int| 0 <= k < gs.len() && !(#[trigger] gs[k]).1 && 0 <= n < es0.len() && cur[n] == es0[n] && 0 <= a < kids(es0[n]).len()
            ==> #[trigger] kids(es0[n])[a] != gs[k].0
    // the children of an intact node are intact
    &&& forall|n: int, a: int| 0 <= n < es0.len() && cur[n] == es0[n] && 0 <= a < kids(es0[n]).len()
            ==> cur[(#[trigger] kids(es0[n])[a]) as int] == es0[kids(es0[n])[a] as int]
}

/// the stack after an open item for node `x` (children `ks`) has been replaced by its close item and the first `t`
/// children in reverse order
pub open spec fn gs_after(base: GS, x: usize, ks: Seq<usize>, t: int) -> GS {
    base.push((x, true)) + Seq::new(t as nat, |j: int| (ks[ks.len() - 1 - j], false))
}

/// nothing has been handed to the rowan builder yet (true from `with_cache`/`new` until `finish`: `token`, `start_node`
/// and `finish_node` do not touch the `builder` field)
pub open spec fn fresh_rowan(b: &LuaGreenNodeBuilder) -> bool {
    b.builder.fresh()
}

// ---------------------------------------------------------------------------------------------
// abstract builder: just enough of the builder state to say when `finish_node` stays in bounds.
// It is a function of the call sequence (hence of the event list) alone: the recorded start indices and, per
// top-level child, whether `is_trivia` / `is_trivia_whitespace` hold for it.
// ---------------------------------------------------------------------------------------------
pub struct AB {
    pub parents: Seq<(LuaSyntaxKind, usize)>,
    /// per top-level child: (is_trivia, is_trivia_whitespace)
    pub fl: Seq<(bool, bool)>,
}

pub open spec fn fl_of(es: Els, ch: Seq<usize>) -> Seq<(bool, bool)> {
    Seq::new(ch.len(), |k: int| (sp_trivia(es[ch[k] as int]), sp_ws(es[ch[k] as int])))
}
pub open spec fn abs(b: &LuaGreenNodeBuilder) -> AB {
    AB { parents: b.parents@, fl: fl_of(b.elements@, b.children@) }
}

pub open spec fn tk_flags(kind: LuaTokenKind) -> (bool, bool) {
    (kind is TkWhitespace || kind is TkEndOfLine || kind is TkDocContinue, kind is TkWhitespace || kind is TkEndOfLine)
}
pub open spec fn node_flags(kind: LuaSyntaxKind) -> (bool, bool) {
    (kind is Comment || kind is DocDescription, false)
}

pub open spec fn ab_token(a: AB, kind: LuaTokenKind) -> AB {
    AB { parents: a.parents, fl: a.fl.push(tk_flags(kind)) }
}
pub open spec fn ab_start(a: AB, kind: LuaSyntaxKind) -> AB {
    AB { parents: a.parents.push((kind, a.fl.len() as usize)), fl: a.fl }
}

pub open spec fn flag(f: (bool, bool), ws: bool) -> bool { if ws { f.1 } else { f.0 } }

/// `while s > 0 && trivia(children[s-1]) { s -= 1 }`
pub open spec fn scan_back(fl: Seq<(bool, bool)>, s: int) -> int
    decreases s
{
    if 0 < s <= fl.len() && fl[s - 1].0 { scan_back(fl, s - 1) } else { s }
}
/// `while s < n && P(children[s]) { s += 1 }`
pub open spec fn scan_fwd(fl: Seq<(bool, bool)>, s: int, ws: bool) -> int
    decreases fl.len() - s
{
    if 0 <= s < fl.len() && flag(fl[s], ws) { scan_fwd(fl, s + 1, ws) } else { s }
}
/// `while e > s && P(children[e]) { e -= 1 }`
pub open spec fn scan_end(fl: Seq<(bool, bool)>, e: int, s: int, ws: bool) -> int
    decreases e
{
    if 0 <= s < e < fl.len() && flag(fl[e], ws) { scan_end(fl, e - 1, s, ws) } else { e }
}

pub open spec fn ab_top_ok(a: AB) -> bool {
    a.parents.len() > 0 && a.fl.len() > 0 ==> a.parents.last().1 <= a.fl.len()
}

/// `finish_node` on the abstract state (meaningful when `ab_top_ok`)
pub open spec fn ab_finish(a: AB) -> AB {
    if a.parents.len() == 0 || a.fl.len() == 0 {
        a
    } else {
        let kind = a.parents.last().0;
        let fs = a.parents.last().1 as int;
        let n = a.fl.len() as int;
        if kind is Block || kind is Chunk {
            let cs = scan_back(a.fl, fs);
            AB { parents: a.parents.drop_last(), fl: a.fl.subrange(0, cs).push(node_flags(kind)) }
        } else {
            let ws = kind is Comment || kind is TypeMultiLineUnion;
            let cs = scan_fwd(a.fl, fs, ws);
            let ce = scan_end(a.fl, n - 1, cs, ws);
            AB { parents: a.parents.drop_last(), fl: a.fl.subrange(0, cs).push(node_flags(kind)) + a.fl.subrange(ce + 1, n) }
        }
    }
}

// ---------------------------------------------------------------------------------------------
// vocabulary of `LuaTreeBuilder::build`
// ---------------------------------------------------------------------------------------------
/// `MarkEvent::none()`
pub open spec fn none_ev() -> MarkEvent {
    MarkEvent::NodeStart { kind: LuaSyntaxKind::None, parent: 0 }
}

/// assumption on the event list (established by the marker API, unit c01_parser: `CompleteMarker::precede` is the
/// only writer of `parent`, and it stores the position of the `NodeStart` it has just pushed — a later event):
/// a non-zero `parent` link points to a later `NodeStart`
pub open spec fn events_ok(ev: Seq<MarkEvent>) -> bool {
    forall|i: int| 0 <= i < ev.len() ==>
        (#[trigger] ev[i] matches MarkEvent::NodeStart { parent, .. } ==> parent == 0 || (i < parent < ev.len() && ev[parent as int] is NodeStart))
}

/// the walk over `parent` links in `build`: visited events are replaced by `none()`, their kinds collected
pub open spec fn walk(ev: Seq<MarkEvent>, pp: int, acc: Seq<LuaSyntaxKind>) -> (Seq<MarkEvent>, Seq<LuaSyntaxKind>)
    decreases ev.len() - pp
{
    if 0 < pp < ev.len() {
        match ev[pp] {
            MarkEvent::NodeStart { kind, parent } =>
                if pp < parent as int && (parent as int) < ev.len() { walk(ev.update(pp, none_ev()), parent as int, acc.push(kind)) }
                else { (ev.update(pp, none_ev()), acc.push(kind)) },
            _ => (ev, acc),
        }
    } else {
        (ev, acc)
    }
}

/// `for kind in kinds.drain(..).rev() { start_node(kind) }`
pub open spec fn ab_starts_rev(a: AB, kinds: Seq<LuaSyntaxKind>) -> AB
    decreases kinds.len()
{
    if kinds.len() == 0 { a } else { ab_starts_rev(ab_start(a, kinds.last()), kinds.drop_last()) }
}

/// state of `build` between two iterations of its outer loop: the (partly consumed) event list and the abstract builder
pub struct Sim {
    pub ev: Seq<MarkEvent>,
    pub ab: AB,
}

pub open spec fn sim_step(s: Sim, i: int) -> Sim {
    let ev1 = s.ev.update(i, none_ev());
    match s.ev[i] {
        MarkEvent::NodeStart { kind, parent } =>
            if kind is None { Sim { ev: ev1, ab: s.ab } }
            else { let w = walk(ev1, parent as int, seq![kind]); Sim { ev: w.0, ab: ab_starts_rev(s.ab, w.1) } },
        MarkEvent::Trivia => Sim { ev: ev1, ab: s.ab },
        MarkEvent::NodeEnd => Sim { ev: ev1, ab: ab_finish(s.ab) },
        MarkEvent::EatToken { kind, .. } => Sim { ev: ev1, ab: ab_token(s.ab, kind) },
    }
}

pub open spec fn ab_empty() -> AB {
    AB { parents: Seq::<(LuaSyntaxKind, usize)>::empty(), fl: Seq::<(bool, bool)>::empty() }
}

pub open spec fn sim(ev0: Seq<MarkEvent>, i: int) -> Sim
    decreases i
{
    if i <= 0 { Sim { ev: ev0, ab: ab_start(ab_empty(), LuaSyntaxKind::Chunk) } } else { sim_step(sim(ev0, i - 1), i - 1) }
}

/// assumption A-EV on the event list: whenever `build` calls `finish_node`, the start index recorded for the node
/// being finished is not beyond the end of the child list. Stated on the abstract builder, i.e. as a property of the
/// event list alone (it is exactly the condition under which `finish_node`'s `drain`/index stay in bounds).
pub open spec fn parents_ok(ev0: Seq<MarkEvent>) -> bool {
    &&& forall|i: int| 0 <= i < ev0.len() && (#[trigger] sim(ev0, i)).ev[i] is NodeEnd ==> ab_top_ok(sim(ev0, i).ab)
    &&& ab_top_ok(sim(ev0, ev0.len() as int).ab)
}

/// events from `i` on are untouched, except that `NodeStart`s may already have been consumed by a walk
pub open spec fn rest_ok(cur: Seq<MarkEvent>, ev0: Seq<MarkEvent>, i: int) -> bool {
    &&& cur.len() == ev0.len()
    &&& forall|j: int| i <= j < ev0.len() ==> #[trigger] cur[j] == ev0[j] || (ev0[j] is NodeStart && cur[j] == none_ev())
}
