// unit c01_green — C01 "syntax trees are lossless", link L3 (the tree builders keep every token, in
// order) and the builders' part of C02 (no panic, termination).
// Hand-written part: shim of rowan's GreenNodeBuilder (ghost view = the ranges handed to `token`),
// spec vocabulary (`flat`, `flat_all`, `wf`, `eaten`, ...). Items marked `//@@` are extracted from the
// repository on every run.
use vstd::prelude::*;
use vstd::string::StringSliceAdditionalSpecFns;
use crate::rowan::{GreenNode, NodeCache};
verus! {

// ---------------------------------------------------------------------------------------------
// std: documented behaviour of core::mem::{replace, take}
// ---------------------------------------------------------------------------------------------
// std doc: "Moves `src` into the referenced `dest`, returning the previous `dest` value."
pub assume_specification<T> [std::mem::replace] (dest: &mut T, src: T) -> (r: T)
    ensures *final(dest) == src, r == *old(dest);
// std doc: "Replaces `dest` with the default value of `T`, returning the previous `dest` value."
// (only the returned value is specified; nothing is said about what is left behind)
pub assume_specification<T> [std::mem::take] (dest: &mut T) -> (r: T)
    where T: std::default::Default
    ensures r == *old(dest);

// ---------------------------------------------------------------------------------------------
// shim: rowan 0.16.1 green/builder.rs
// ---------------------------------------------------------------------------------------------
pub mod rowan {
    use vstd::prelude::*;
    use vstd::string::StringSliceAdditionalSpecFns;
    use crate::SourceRange;
    verus!{
    pub struct SyntaxKind(pub u16);
    /// ghost view `leaves()`: the byte ranges of the tree's tokens, left to right
    #[verifier::external_body]
    pub struct GreenNode { _p: () }
    impl GreenNode {
        pub uninterp spec fn leaves(&self) -> Seq<SourceRange>;
    }
    #[verifier::external_body]
    pub struct NodeCache { _p: () }
    /// `GreenNodeBuilder { cache, parents: Vec<(SyntaxKind, usize)>, children: Vec<(u64, GreenElement)> }`
    /// ghost view: `open()` = the `first_child` entries of `parents`, `nchildren()` = `children.len()`,
    /// `last_is_node()` = the last child is a node (not a token), `emitted()` = the byte ranges of the
    /// token texts passed to `token`, in call order.
    #[verifier::external_body]
    pub struct GreenNodeBuilder<'cache> { _p: std::marker::PhantomData<&'cache mut ()> }

    impl<'cache> GreenNodeBuilder<'cache> {
        pub uninterp spec fn emitted(&self) -> Seq<SourceRange>;
        pub uninterp spec fn open(&self) -> Seq<int>;
        pub uninterp spec fn nchildren(&self) -> int;
        pub uninterp spec fn last_is_node(&self) -> bool;

        pub open spec fn fresh(&self) -> bool {
            self.emitted() == Seq::<SourceRange>::empty() && self.open() == Seq::<int>::empty() && self.nchildren() == 0
        }

        /// `GreenNodeBuilder { cache: CowMut::Borrowed(cache), parents: Vec::new(), children: Vec::new() }`
        #[verifier::external_body]
        pub fn with_cache(cache: &mut NodeCache) -> (r: GreenNodeBuilder<'_>)
            ensures r.fresh()
        { unimplemented!() }

        /// `token(kind, text)`: `children.push(cache.token(kind, text))` — no panic condition.
        /// `vx_token` is `token` with one more, ghost, argument: the source text and the byte range the token text
        /// was sliced from. Rule `token-ghost-range` introduces it only where the call is, textually,
        /// `token(_, &text[range.start_offset..range.end_offset()])` (vstd gives no postcondition for `str`
        /// indexing, so the link between the ghost range and the passed text is syntactic, made by the rule).
        #[verifier::external_body]
        pub fn vx_token(&mut self, kind: SyntaxKind, text: &str, Ghost(src): Ghost<(&str, SourceRange)>)
            ensures
                final(self).emitted() == old(self).emitted().push(src.1),
                final(self).open() == old(self).open(),
                final(self).nchildren() == old(self).nchildren() + 1,
                !final(self).last_is_node(),
        { unimplemented!() }

        /// `start_node(kind)`: `parents.push((kind, children.len()))` — no panic condition.
        #[verifier::external_body]
        pub fn start_node(&mut self, kind: SyntaxKind)
            ensures
                final(self).emitted() == old(self).emitted(),
                final(self).open() == old(self).open().push(old(self).nchildren()),
                final(self).nchildren() == old(self).nchildren(),
                final(self).last_is_node() == old(self).last_is_node(),
        { unimplemented!() }

        /// `finish_node()`: `let (kind, first_child) = parents.pop().unwrap();` panics without an open node;
        /// `cache.node(kind, &mut children, first_child)` slices `children[first_child..]` (panics if
        /// `first_child > children.len()`), drains that tail into one node, which is pushed.
        #[verifier::external_body]
        pub fn finish_node(&mut self)
            requires
                old(self).open().len() > 0,
                old(self).open().last() <= old(self).nchildren(),
            ensures
                final(self).emitted() == old(self).emitted(),
                final(self).open() == old(self).open().drop_last(),
                final(self).nchildren() == old(self).open().last() + 1,
                final(self).last_is_node(),
        { unimplemented!() }

        /// `finish(self)`: `assert_eq!(self.children.len(), 1)`; the single child must be a node
        /// (`NodeOrToken::Token(_) => panic!()`).
        #[verifier::external_body]
        pub fn finish(self) -> (r: GreenNode)
            requires
                self.nchildren() == 1,
                self.last_is_node(),
            ensures
                r.leaves() == self.emitted(),
        { unimplemented!() }
    }
    }
}

// ---------------------------------------------------------------------------------------------
// extracted: kinds, ranges, events
// ---------------------------------------------------------------------------------------------
//@@ LuaSyntaxKind

//@@ LuaTokenKind

//@@ SourceRange

impl SourceRange {
    //@@ SourceRange::end_offset
}

//@@ MarkEvent

impl MarkEvent {
    //@@ MarkEvent::none
}

// `impl From<LuaSyntaxKind|LuaTokenKind> for rowan::SyntaxKind` (syntax/mod.rs): `LuaKind::from(kind).get_raw()`,
// a total match + cast. The numeric value plays no role in this unit.
impl From<LuaSyntaxKind> for rowan::SyntaxKind {
    #[verifier::external_body]
    fn from(kind: LuaSyntaxKind) -> (r: rowan::SyntaxKind) { unimplemented!() }
}
impl From<LuaTokenKind> for rowan::SyntaxKind {
    #[verifier::external_body]
    fn from(kind: LuaTokenKind) -> (r: rowan::SyntaxKind) { unimplemented!() }
}

// std doc (Vec::drain): "Removes the subslice indicated by the given range from the vector, returning a double-ended
// iterator over the removed subslice. Panics if the range has start_bound > end_bound, or, if the range is bounded on
// either end and past the length of the vector."; `.collect::<Vec<_>>()` gathers the removed items in order.
#[verifier::external_body]
pub fn vx_drain_from(v: &mut Vec<usize>, a: usize) -> (r: Vec<usize>)
    requires a <= old(v)@.len()
    ensures final(v)@ == old(v)@.subrange(0, a as int), r@ == old(v)@.subrange(a as int, old(v)@.len() as int)
{ v.drain(a..).collect() }
// `a..=b` is the half-open range `a..b+1`: panics if `a > b + 1` or `b + 1 > len`.
#[verifier::external_body]
pub fn vx_drain_incl(v: &mut Vec<usize>, a: usize, b: usize) -> (r: Vec<usize>)
    requires a <= b + 1, b + 1 <= old(v)@.len()
    ensures
        final(v)@ == old(v)@.subrange(0, a as int) + old(v)@.subrange(b as int + 1, old(v)@.len() as int),
        r@ == old(v)@.subrange(a as int, b as int + 1)
{ v.drain(a..=b).collect() }

//@@include c01_green/iface.rs

//@@include c01_green/specs.rs

//@@include c01_green/lemmas.rs

// ---------------------------------------------------------------------------------------------
// extracted: the green builder
// ---------------------------------------------------------------------------------------------
//@@ LuaGreenElement

//@@ LuaGreenNodeBuilder

impl LuaGreenNodeBuilder<'_> {
    /// `LuaGreenNodeBuilder::new()` is `LuaGreenNodeBuilder::default()` (`#[derive(Default)]`): three empty vectors and
    /// `rowan::GreenNodeBuilder::default()` (derived as well: empty `parents`/`children`, owned empty cache).
    #[verifier::external_body]
    pub fn new() -> (r: LuaGreenNodeBuilder<'static>)
        ensures fresh(&r)
    { unimplemented!() }

    //@@ LuaGreenNodeBuilder::with_cache
    //@@ LuaGreenNodeBuilder::token
    //@@ LuaGreenNodeBuilder::start_node
    //@@ LuaGreenNodeBuilder::is_trivia
    //@@ LuaGreenNodeBuilder::is_trivia_whitespace
    //@@ LuaGreenNodeBuilder::finish_node
    //@@ LuaGreenNodeBuilder::build_rowan_green
    //@@ LuaGreenNodeBuilder::finish
}

// ---------------------------------------------------------------------------------------------
// extracted: the tree builder (event list -> green builder calls)
// ---------------------------------------------------------------------------------------------
//@@ LuaTreeBuilder

impl<'a> LuaTreeBuilder<'a> {
    //@@ LuaTreeBuilder::new
    //@@ LuaTreeBuilder::token
    //@@ LuaTreeBuilder::start_node
    //@@ LuaTreeBuilder::finish_node
    //@@ LuaTreeBuilder::build
    //@@ LuaTreeBuilder::finish
}

} // verus!
fn main() {}
