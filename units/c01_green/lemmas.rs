// ---------------------------------------------------------------------------------------------
// lemmas of unit c01_green (all proved; no assume/admit/external_body)
// ---------------------------------------------------------------------------------------------

/// `flat(es, i)` depends only on `es[0..=i]`; `flat_list` moreover does not depend on the bound as long as the
/// bound does not cut off an index
pub proof fn lemma_flat_ext(es1: Els, es2: Els, m: int, i: int)
    requires
        m <= es1.len(), m <= es2.len(),
        forall|j: int| 0 <= j < m ==> es1[j] == es2[j],
        i < m,
    ensures flat(es1, i) == flat(es2, i),
    decreases i, 1int, 0int
{
    if 0 <= i {
        match es1[i] {
            LuaGreenElement::Node { children, .. } => { lemma_flat_list_ext(es1, es2, m, children@, i, i); }
            _ => {}
        }
    }
}

pub proof fn lemma_flat_list_ext(es1: Els, es2: Els, m: int, ks: Seq<usize>, b1: int, b2: int)
    requires
        m <= es1.len(), m <= es2.len(),
        forall|j: int| 0 <= j < m ==> es1[j] == es2[j],
        0 <= b1, 0 <= b2,
        forall|k: int| 0 <= k < ks.len() ==> ((ks[k] as int) < b1) == ((ks[k] as int) < b2),
        forall|k: int| 0 <= k < ks.len() && (ks[k] as int) < b1 ==> (ks[k] as int) < m,
    ensures flat_list(es1, ks, b1) == flat_list(es2, ks, b2),
    decreases b1, 0int, ks.len()
{
    if ks.len() > 0 {
        lemma_flat_list_ext(es1, es2, m, ks.drop_last(), b1, b2);
        if (ks.last() as int) < b1 {
            lemma_flat_ext(es1, es2, m, ks.last() as int);
        }
    }
}

pub proof fn lemma_flat_list_append(es: Els, a: Seq<usize>, b: Seq<usize>, bound: int)
    ensures flat_list(es, a + b, bound) == flat_list(es, a, bound) + flat_list(es, b, bound),
    decreases b.len()
{
    if b.len() == 0 {
        assert(a + b =~= a);
    } else {
        assert((a + b).drop_last() =~= a + b.drop_last());
        assert((a + b).last() == b.last());
        lemma_flat_list_append(es, a, b.drop_last(), bound);
    }
}

pub proof fn lemma_flat_list_one(es: Els, x: usize, bound: int)
    ensures flat_list(es, seq![x], bound) == (if 0 <= bound && (x as int) < bound { flat(es, x as int) } else { Seq::<SourceRange>::empty() }),
{
    let s = seq![x];
    assert(s.drop_last() =~= Seq::<usize>::empty());
    assert(flat_list(es, s.drop_last(), bound) =~= Seq::<SourceRange>::empty());
    assert(s.last() == x);
}

pub proof fn lemma_flat_list_push(es: Els, a: Seq<usize>, x: usize, bound: int)
    ensures flat_list(es, a.push(x), bound) == flat_list(es, a, bound) + (if 0 <= bound && (x as int) < bound { flat(es, x as int) } else { Seq::<SourceRange>::empty() }),
{
    assert(a.push(x).drop_last() =~= a);
}

/// pushing an element changes nothing below it
pub proof fn lemma_flat_all_push_elem(es: Els, e: LuaGreenElement, ch: Seq<usize>)
    requires forall|k: int| 0 <= k < ch.len() ==> (ch[k] as int) < es.len(),
    ensures flat_list(es.push(e), ch, es.len() as int + 1) == flat_list(es, ch, es.len() as int),
{
    lemma_flat_list_ext(es.push(e), es, es.len() as int, ch, es.len() as int + 1, es.len() as int);
}

/// `token`: a new leaf at the end of the root list
pub proof fn lemma_token(es: Els, ch: Seq<usize>, e: LuaGreenElement)
    requires wf_elems(es), wf_top(ch, es), e is Token, es.len() <= usize::MAX,
    ensures
        wf_elems(es.push(e)),
        wf_top(ch.push(es.len() as usize), es.push(e)),
        flat_list(es.push(e), ch.push(es.len() as usize), es.len() as int + 1) == flat_list(es, ch, es.len() as int).push(e->range),
{
    let es2 = es.push(e);
    let n = es.len() as int;
    assert(kids(e) =~= Seq::<usize>::empty());
    assert forall|j: int| 0 <= j < es2.len() implies kids(#[trigger] es2[j]) == (if j < n { kids(es[j]) } else { Seq::<usize>::empty() }) by {}
    lemma_flat_all_push_elem(es, e, ch);
    lemma_flat_list_push(es2, ch, n as usize, n + 1);
    assert(flat(es2, n) =~= seq![e->range]);
    assert(flat_list(es, ch, n) + seq![e->range] =~= flat_list(es, ch, n).push(e->range));
}

/// the core of `finish_node`: take the contiguous slice `ch[cs..ce)` of the root list out into a new node (pushed
/// at the end of `es`) and put the node's index in its place — the leaves, in order, stay the same
pub proof fn lemma_wrap_flat(es: Els, ch: Seq<usize>, cs: int, ce: int, node: LuaGreenElement)
    requires
        wf_top(ch, es), es.len() <= usize::MAX,
        0 <= cs <= ce <= ch.len(),
        node is Node,
        kids(node) == ch.subrange(cs, ce),
    ensures
        flat_list(es.push(node), ch.subrange(0, cs).push(es.len() as usize) + ch.subrange(ce, ch.len() as int), es.len() as int + 1)
            == flat_list(es, ch, es.len() as int),
{
    let n = es.len() as int;
    let es2 = es.push(node);
    let a = ch.subrange(0, cs);
    let mid = ch.subrange(cs, ce);
    let b = ch.subrange(ce, ch.len() as int);
    // old: A + M + B
    assert(ch =~= (a + mid) + b);
    lemma_flat_list_append(es, a + mid, b, n);
    lemma_flat_list_append(es, a, mid, n);
    // new: A.push(n) + B
    lemma_flat_list_append(es2, a.push(n as usize), b, n + 1);
    lemma_flat_list_push(es2, a, n as usize, n + 1);
    lemma_flat_list_ext(es2, es, n, a, n + 1, n);
    lemma_flat_list_ext(es2, es, n, b, n + 1, n);
    // the new node's leaves are those of the slice
    assert(es2[n] == node);
    assert(flat(es2, n) == flat_list(es2, mid, n));
    lemma_flat_list_ext(es2, es, n, mid, n, n);
    let fa = flat_list(es, a, n); let fm = flat_list(es, mid, n); let fb = flat_list(es, b, n);
    assert((fa + fm) + fb =~= (fa + fm) + fb);
}

pub proof fn lemma_wrap_wf(es: Els, ch: Seq<usize>, cs: int, ce: int, node: LuaGreenElement)
    requires
        wf_elems(es), wf_top(ch, es), es.len() <= usize::MAX,
        0 <= cs <= ce <= ch.len(),
        node is Node,
        kids(node) == ch.subrange(cs, ce),
    ensures
        wf_elems(es.push(node)),
        wf_top(ch.subrange(0, cs).push(es.len() as usize) + ch.subrange(ce, ch.len() as int), es.push(node)),
{
    let n = es.len() as int;
    let es2 = es.push(node);
    let mid = ch.subrange(cs, ce);
    let ch2 = ch.subrange(0, cs).push(n as usize) + ch.subrange(ce, ch.len() as int);
    assert forall|j: int| 0 <= j < es2.len() implies kids(#[trigger] es2[j]) == (if j < n { kids(es[j]) } else { mid }) by {}
    assert forall|a: int| 0 <= a < mid.len() implies #[trigger] mid[a] == ch[cs + a] by {}
    // ch2[k] is `n` at k == cs, ch[k] before, ch[k - cs - 1 + ce] after
    assert forall|k: int| 0 <= k < ch2.len() implies #[trigger] ch2[k] == (if k < cs { ch[k] } else if k == cs { n as usize } else { ch[k - cs - 1 + ce] }) by {}
    assert(wf_elems(es2)) by {
        assert forall|x: int, a: int| 0 <= x < es2.len() && 0 <= a < kids(es2[x]).len() implies (#[trigger] kids(es2[x])[a] as int) < x by {
            if x == n { assert(mid[a] == ch[cs + a]); }
        }
        assert forall|x: int, a: int, y: int, b: int|
            0 <= x < es2.len() && 0 <= a < kids(es2[x]).len() && 0 <= y < es2.len() && 0 <= b < kids(es2[y]).len() && (x != y || a != b)
            implies #[trigger] kids(es2[x])[a] != #[trigger] kids(es2[y])[b] by {
            if x == n && y == n {
                assert(mid[a] == ch[cs + a]); assert(mid[b] == ch[cs + b]);
            } else if x == n {
                assert(mid[a] == ch[cs + a]);
                assert(ch[cs + a] != kids(es[y])[b]);
            } else if y == n {
                assert(mid[b] == ch[cs + b]);
                assert(ch[cs + b] != kids(es[x])[a]);
            } else {
                assert(kids(es[x])[a] != kids(es[y])[b]);
            }
        }
    }
    assert(wf_top(ch2, es2)) by {
        assert forall|k: int, l: int| 0 <= k < l < ch2.len() implies #[trigger] ch2[k] != #[trigger] ch2[l] by {
            let kk = if k < cs { k } else { k - cs - 1 + ce };
            let ll = if l < cs { l } else { l - cs - 1 + ce };
            if k != cs && l != cs { assert(ch[kk] != ch[ll]); }
            if k == cs { assert((ch[ll] as int) < n); }
            if l == cs { assert((ch[kk] as int) < n); }
        }
        assert forall|k: int, x: int, a: int| 0 <= k < ch2.len() && 0 <= x < es2.len() && 0 <= a < kids(es2[x]).len()
            implies #[trigger] ch2[k] != #[trigger] kids(es2[x])[a] by {
            let kk = if k < cs { k } else { k - cs - 1 + ce };
            if k == cs {
                if x == n { assert(mid[a] == ch[cs + a]); assert((ch[cs + a] as int) < n); }
                else { assert((kids(es[x])[a] as int) < x); }
            } else if x == n {
                assert(mid[a] == ch[cs + a]);
                assert(ch[kk] != ch[cs + a]);
            } else {
                assert(ch[kk] != kids(es[x])[a]);
            }
        }
    }
}

// ---------------------------------------------------------------------------------------------
// build_rowan_green
// ---------------------------------------------------------------------------------------------
pub proof fn lemma_count_some_take(es: Els, x: int)
    requires 0 <= x < es.len(),
    ensures
        !(es[x] is None) ==> count_some(es.update(x, LuaGreenElement::None)) == count_some(es) - 1,
        es[x] is None ==> es.update(x, LuaGreenElement::None) == es,
    decreases es.len()
{
    let es2 = es.update(x, LuaGreenElement::None);
    if es[x] is None {
        assert(es2 =~= es);
    } else if x == es.len() - 1 {
        assert(es2.drop_last() =~= es.drop_last());
    } else {
        assert(es2.drop_last() =~= es.drop_last().update(x, LuaGreenElement::None));
        lemma_count_some_take(es.drop_last(), x);
    }
}

pub proof fn lemma_pend_push(es: Els, s: GS, it: (usize, bool))
    ensures
        pend(es, s.push(it)) == (if it.1 { Seq::<SourceRange>::empty() } else { flat(es, it.0 as int) }) + pend(es, s),
        nclose(s.push(it)) == nclose(s) + (if it.1 { 1int } else { 0int }),
{
    assert(s.push(it).drop_last() =~= s);
}

pub proof fn lemma_dfs_init(es0: Els, parent: usize)
    requires wf_elems(es0), is_root(es0, parent as int),
    ensures
        dfs_inv(es0, es0, seq![(parent, false)]),
        pend(es0, seq![(parent, false)]) == flat(es0, parent as int),
        nclose(seq![(parent, false)]) == 0,
{
    let gs: GS = seq![(parent, false)];
    assert(gs =~= Seq::<(usize, bool)>::empty().push((parent, false)));
    lemma_pend_push(es0, Seq::<(usize, bool)>::empty(), (parent, false));
    assert(flat(es0, parent as int) + Seq::<SourceRange>::empty() =~= flat(es0, parent as int));
}

/// popping a close item, or an open item whose element is not a node
pub proof fn lemma_dfs_pop(es0: Els, cur: Els, g0: GS)
    requires
        dfs_inv(es0, cur, g0), g0.len() > 0,
    ensures
        g0.last().1 ==> dfs_inv(es0, cur, g0.drop_last()),
        !g0.last().1 && !(es0[g0.last().0 as int] is Node) ==> dfs_inv(es0, cur.update(g0.last().0 as int, LuaGreenElement::None), g0.drop_last()),
{
    let gs = g0.drop_last();
    let x = g0.last().0 as int;
    assert forall|k: int| 0 <= k < gs.len() implies #[trigger] gs[k] == g0[k] by {}
    if !g0.last().1 && !(es0[x] is Node) {
        let cur2 = cur.update(x, LuaGreenElement::None);
        assert(g0[g0.len() - 1] == g0.last());
        assert(kids(es0[x]) =~= Seq::<usize>::empty());
        assert forall|k: int| 0 <= k < gs.len() && !(#[trigger] gs[k]).1 implies (gs[k].0 as int) < es0.len() && cur2[gs[k].0 as int] == es0[gs[k].0 as int] by {
            assert(g0[k].0 != g0[g0.len() - 1].0);
        }
        assert forall|n: int, a: int| 0 <= n < es0.len() && cur2[n] == es0[n] && 0 <= a < kids(es0[n]).len()
            implies cur2[(#[trigger] kids(es0[n])[a]) as int] == es0[kids(es0[n])[a] as int] by {
            if n != x {
                assert(kids(es0[n])[a] != g0[g0.len() - 1].0);
            }
        }
        assert forall|k: int, n: int, a: int| 0 <= k < gs.len() && !(#[trigger] gs[k]).1 && 0 <= n < es0.len() && cur2[n] == es0[n] && 0 <= a < kids(es0[n]).len()
            implies #[trigger] kids(es0[n])[a] != gs[k].0 by {
            if n != x { assert(kids(es0[n])[a] != g0[k].0); }
        }
    }
}

/// pend / nclose of the stack while the children of node `x` are being pushed in reverse order
pub proof fn lemma_pend_kids(es0: Els, base: GS, x: usize, ks: Seq<usize>, t: int)
    requires
        0 <= t <= ks.len(),
        forall|a: int| 0 <= a < ks.len() ==> (ks[a] as int) < x,
    ensures
        pend(es0, gs_after(base, x, ks, t)) == flat_list(es0, ks.subrange(ks.len() - t, ks.len() as int), x as int) + pend(es0, base),
        nclose(gs_after(base, x, ks, t)) == nclose(base) + 1,
    decreases t
{
    let n = ks.len() as int;
    if t == 0 {
        assert(gs_after(base, x, ks, 0) =~= base.push((x, true)));
        lemma_pend_push(es0, base, (x, true));
        assert(ks.subrange(n, n) =~= Seq::<usize>::empty());
        assert(Seq::<SourceRange>::empty() + pend(es0, base) =~= pend(es0, base));
    } else {
        lemma_pend_kids(es0, base, x, ks, t - 1);
        let c = ks[n - t];
        assert(gs_after(base, x, ks, t) =~= gs_after(base, x, ks, t - 1).push((c, false)));
        lemma_pend_push(es0, gs_after(base, x, ks, t - 1), (c, false));
        let tail = ks.subrange(n - t + 1, n);
        assert(ks.subrange(n - t, n) =~= seq![c] + tail);
        lemma_flat_list_append(es0, seq![c], tail, x as int);
        lemma_flat_list_one(es0, c, x as int);
        let f1 = flat(es0, c as int); let f2 = flat_list(es0, tail, x as int); let f3 = pend(es0, base);
        assert(f1 + (f2 + f3) =~= (f1 + f2) + f3);
    }
}

/// popping an open item whose element is a node: it is replaced by its close item and its children, reversed
pub proof fn lemma_dfs_node(es0: Els, cur: Els, g0: GS, gs2: GS)
    requires
        wf_elems(es0),
        dfs_inv(es0, cur, g0), g0.len() > 0, !g0.last().1,
        es0[g0.last().0 as int] is Node,
        gs2 == gs_after(g0.drop_last(), g0.last().0, kids(es0[g0.last().0 as int]), kids(es0[g0.last().0 as int]).len() as int),
    ensures
        dfs_inv(es0, cur.update(g0.last().0 as int, LuaGreenElement::None), gs2),
        pend(es0, gs2) == flat(es0, g0.last().0 as int) + pend(es0, g0.drop_last()),
        nclose(gs2) == nclose(g0.drop_last()) + 1,
{
    let base = g0.drop_last();
    let x = g0.last().0;
    let xi = x as int;
    let ks = kids(es0[xi]);
    let n = ks.len() as int;
    let bl = base.len() as int;
    let cur2 = cur.update(xi, LuaGreenElement::None);
    assert(g0[g0.len() - 1] == g0.last());
    assert forall|a: int| 0 <= a < ks.len() implies (ks[a] as int) < x by { assert((kids(es0[xi])[a] as int) < xi); }
    lemma_pend_kids(es0, base, x, ks, n);
    assert(ks.subrange(0, n) =~= ks);
    // shape of gs2
    assert(gs2.len() == bl + 1 + n);
    assert forall|k: int| 0 <= k < bl implies #[trigger] gs2[k] == g0[k] by {}
    assert(gs2[bl] == (x, true));
    assert forall|k: int| bl < k < gs2.len() implies #[trigger] gs2[k] == (ks[n - 1 - (k - bl - 1)], false) by {}
    // open items in bounds and intact
    assert forall|k: int| 0 <= k < gs2.len() && !(#[trigger] gs2[k]).1 implies (gs2[k].0 as int) < es0.len() && cur2[gs2[k].0 as int] == es0[gs2[k].0 as int] by {
        if k < bl {
            assert(g0[k].0 != g0[g0.len() - 1].0);
        } else {
            let a = n - 1 - (k - bl - 1);
            assert(gs2[k].0 == kids(es0[xi])[a]);
            assert((kids(es0[xi])[a] as int) < xi);
            assert(cur[kids(es0[xi])[a] as int] == es0[kids(es0[xi])[a] as int]);
        }
    }
    // pairwise distinct
    assert forall|k: int, l: int| 0 <= k < l < gs2.len() && !(#[trigger] gs2[k]).1 && !(#[trigger] gs2[l]).1 implies gs2[k].0 != gs2[l].0 by {
        if l < bl {
            assert(g0[k].0 != g0[l].0);
        } else if k < bl {
            let b = n - 1 - (l - bl - 1);
            assert(gs2[l].0 == kids(es0[xi])[b]);
            assert(kids(es0[xi])[b] != g0[k].0);
        } else {
            let a = n - 1 - (k - bl - 1);
            let b = n - 1 - (l - bl - 1);
            assert(gs2[k].0 == kids(es0[xi])[a] && gs2[l].0 == kids(es0[xi])[b]);
            assert(kids(es0[xi])[a] != kids(es0[xi])[b]);
        }
    }
    // not the child of an intact node
    assert forall|k: int, m: int, a: int| 0 <= k < gs2.len() && !(#[trigger] gs2[k]).1 && 0 <= m < es0.len() && cur2[m] == es0[m] && 0 <= a < kids(es0[m]).len()
        implies #[trigger] kids(es0[m])[a] != gs2[k].0 by {
        if m != xi {
            if k < bl {
                assert(kids(es0[m])[a] != g0[k].0);
            } else {
                let b = n - 1 - (k - bl - 1);
                assert(gs2[k].0 == kids(es0[xi])[b]);
                assert(kids(es0[m])[a] != kids(es0[xi])[b]);
            }
        }
    }
    // children of intact nodes are intact
    assert forall|m: int, a: int| 0 <= m < es0.len() && cur2[m] == es0[m] && 0 <= a < kids(es0[m]).len()
        implies cur2[(#[trigger] kids(es0[m])[a]) as int] == es0[kids(es0[m])[a] as int] by {
        if m != xi {
            assert(kids(es0[m])[a] != g0[g0.len() - 1].0);
        }
    }
}

/// the head of what is pending is the next range of the whole
pub proof fn lemma_next_range(done: Seq<SourceRange>, r: SourceRange, rest: Seq<SourceRange>, all: Seq<SourceRange>)
    requires done + (seq![r] + rest) == all,
    ensures 0 <= done.len() < all.len(), all[done.len() as int] == r, done.push(r) + rest == all,
{
    assert((done + (seq![r] + rest))[done.len() as int] == r);
    assert(done.push(r) + rest =~= done + (seq![r] + rest));
}

pub proof fn lemma_nclose_bounds(s: GS)
    ensures
        0 <= nclose(s) <= s.len(),
        s.len() > 0 && s[0].1 ==> nclose(s) >= 1,
        s.len() > 0 && s.last().1 ==> nclose(s) == nclose(s.drop_last()) + 1,
        s.len() > 0 && !s.last().1 ==> nclose(s) == nclose(s.drop_last()),
    decreases s.len()
{
    if s.len() > 0 {
        lemma_nclose_bounds(s.drop_last());
        if s.len() > 1 { assert(s.drop_last()[0] == s[0]); }
    }
}

// ---------------------------------------------------------------------------------------------
// finish
// ---------------------------------------------------------------------------------------------
/// the leaves of the first root are a prefix of all leaves; a single root has all of them
pub proof fn lemma_first_root(es: Els, ch: Seq<usize>, text: &str)
    requires wf_top(ch, es), ch.len() > 0, ranges_ok(text, flat_list(es, ch, es.len() as int)),
    ensures
        is_root(es, ch[0] as int),
        flat_list(es, ch, es.len() as int) == flat(es, ch[0] as int) + flat_list(es, ch.subrange(1, ch.len() as int), es.len() as int),
        ranges_ok(text, flat(es, ch[0] as int)),
        ch.len() == 1 ==> flat_list(es, ch, es.len() as int) == flat(es, ch[0] as int),
{
    let n = es.len() as int;
    let rest = ch.subrange(1, ch.len() as int);
    assert(ch =~= seq![ch[0]] + rest);
    lemma_flat_list_append(es, seq![ch[0]], rest, n);
    lemma_flat_list_one(es, ch[0], n);
    let all = flat_list(es, ch, n);
    let f0 = flat(es, ch[0] as int);
    assert forall|k: int| 0 <= k < f0.len() implies range_ok(text, #[trigger] f0[k]) by {
        assert(all[k] == f0[k]);
    }
    if ch.len() == 1 {
        assert(rest =~= Seq::<usize>::empty());
        assert(f0 + Seq::<SourceRange>::empty() =~= f0);
    }
    assert forall|x: int, a: int| 0 <= x < es.len() && 0 <= a < kids(es[x]).len() implies (#[trigger] kids(es[x])[a] as int) != ch[0] as int by {
        assert(ch[0] != kids(es[x])[a]);
    }
}

/// the repaired `finish`: all roots wrapped into one new node (pushed at the end of `es`)
pub proof fn lemma_wrap_all(es: Els, ch: Seq<usize>, node: LuaGreenElement)
    requires
        wf_elems(es), wf_top(ch, es), es.len() <= usize::MAX,
        node is Node, kids(node) == ch,
    ensures
        wf_elems(es.push(node)),
        is_root(es.push(node), es.len() as int),
        flat(es.push(node), es.len() as int) == flat_list(es, ch, es.len() as int),
{
    let n = es.len() as int;
    let es2 = es.push(node);
    assert(ch.subrange(0, ch.len() as int) =~= ch);
    lemma_wrap_wf(es, ch, 0, ch.len() as int, node);
    lemma_wrap_flat(es, ch, 0, ch.len() as int, node);
    let top = ch.subrange(0, 0).push(n as usize) + ch.subrange(ch.len() as int, ch.len() as int);
    assert(top =~= seq![n as usize]);
    lemma_flat_list_one(es2, n as usize, n + 1);
    assert forall|x: int, a: int| 0 <= x < es2.len() && 0 <= a < kids(es2[x]).len() implies (#[trigger] kids(es2[x])[a] as int) != n by {
        assert(top[0] != kids(es2[x])[a]);
    }
}

// ---------------------------------------------------------------------------------------------
// abstract builder
// ---------------------------------------------------------------------------------------------
pub proof fn lemma_fl_wrap(es: Els, ch: Seq<usize>, cs: int, ce: int, node: LuaGreenElement)
    requires
        wf_top(ch, es), es.len() <= usize::MAX,
        0 <= cs <= ce <= ch.len(),
        node is Node,
    ensures
        fl_of(es.push(node), ch.subrange(0, cs).push(es.len() as usize) + ch.subrange(ce, ch.len() as int))
            == fl_of(es, ch).subrange(0, cs).push(node_flags(node->Node_kind)) + fl_of(es, ch).subrange(ce, ch.len() as int),
{
    let n = es.len() as int;
    let es2 = es.push(node);
    let ch2 = ch.subrange(0, cs).push(n as usize) + ch.subrange(ce, ch.len() as int);
    let lhs = fl_of(es2, ch2);
    let rhs = fl_of(es, ch).subrange(0, cs).push(node_flags(node->Node_kind)) + fl_of(es, ch).subrange(ce, ch.len() as int);
    assert(lhs.len() == rhs.len());
    assert forall|k: int| 0 <= k < lhs.len() implies lhs[k] == rhs[k] by {
        if k < cs {
            assert(ch2[k] == ch[k]); assert((ch[k] as int) < n);
        } else if k == cs {
            assert(ch2[k] == n as usize);
        } else {
            assert(ch2[k] == ch[k - cs - 1 + ce]); assert((ch[k - cs - 1 + ce] as int) < n);
        }
    }
    assert(lhs =~= rhs);
}

pub proof fn lemma_fl_token(es: Els, ch: Seq<usize>, e: LuaGreenElement)
    requires wf_top(ch, es), es.len() <= usize::MAX, e is Token,
    ensures fl_of(es.push(e), ch.push(es.len() as usize)) == fl_of(es, ch).push(tk_flags(e->Token_kind)),
{
    let n = es.len() as int;
    let lhs = fl_of(es.push(e), ch.push(n as usize));
    let rhs = fl_of(es, ch).push(tk_flags(e->Token_kind));
    assert forall|k: int| 0 <= k < lhs.len() implies lhs[k] == rhs[k] by {
        if k < ch.len() { assert((ch[k] as int) < n); }
    }
    assert(lhs =~= rhs);
}

// ---------------------------------------------------------------------------------------------
// LuaTreeBuilder::build
// ---------------------------------------------------------------------------------------------
pub proof fn lemma_eaten_step(ev0: Seq<MarkEvent>, i: int)
    requires 0 <= i < ev0.len(),
    ensures
        eaten(ev0.subrange(0, i + 1)) == (match ev0[i] {
            MarkEvent::EatToken { range, .. } => eaten(ev0.subrange(0, i)).push(range),
            _ => eaten(ev0.subrange(0, i)),
        }),
{
    let s = ev0.subrange(0, i + 1);
    assert(s.drop_last() =~= ev0.subrange(0, i));
    assert(s.last() == ev0[i]);
}

/// replacing an event by `none()` keeps `events_ok` (`none()` is a `NodeStart` without a parent link)
pub proof fn lemma_events_ok_update(ev: Seq<MarkEvent>, j: int)
    requires events_ok(ev), 0 <= j < ev.len(),
    ensures events_ok(ev.update(j, none_ev())),
{
    let ev2 = ev.update(j, none_ev());
    assert forall|i: int| 0 <= i < ev2.len() implies
        (#[trigger] ev2[i] matches MarkEvent::NodeStart { parent, .. } ==> parent == 0 || (i < parent < ev2.len() && ev2[parent as int] is NodeStart)) by {
        if i != j { assert(ev2[i] == ev[i]); }
    }
}

/// sanity check of the two assumptions on the event list (non-vacuity on a concrete list): the events of the chunk `x`
/// — `NodeStart(Block) NodeStart(NameExpr) EatToken(TkName) NodeEnd NodeEnd` — satisfy `events_ok` and `parents_ok`
pub proof fn lemma_assumptions_hold_for_a_small_chunk()
    ensures ({
        let ev = seq![
            MarkEvent::NodeStart { kind: LuaSyntaxKind::Block, parent: 0 },
            MarkEvent::NodeStart { kind: LuaSyntaxKind::NameExpr, parent: 0 },
            MarkEvent::EatToken { kind: LuaTokenKind::TkName, range: SourceRange { start_offset: 0, length: 1 } },
            MarkEvent::NodeEnd,
            MarkEvent::NodeEnd,
        ];
        events_ok(ev) && parents_ok(ev)
    }),
{
    let ev = seq![
        MarkEvent::NodeStart { kind: LuaSyntaxKind::Block, parent: 0 },
        MarkEvent::NodeStart { kind: LuaSyntaxKind::NameExpr, parent: 0 },
        MarkEvent::EatToken { kind: LuaTokenKind::TkName, range: SourceRange { start_offset: 0, length: 1 } },
        MarkEvent::NodeEnd,
        MarkEvent::NodeEnd,
    ];
    let e = Seq::<(bool, bool)>::empty();
    let k0 = (LuaSyntaxKind::Chunk, 0usize); let k1 = (LuaSyntaxKind::Block, 0usize); let k2 = (LuaSyntaxKind::NameExpr, 0usize);
    let nt = (false, false);
    // step by step
    let s0 = sim(ev, 0);
    assert(s0.ab.parents =~= seq![k0] && s0.ab.fl =~= e);
    let s1 = sim(ev, 1);
    assert(s1 == sim_step(s0, 0));
    let w1 = walk(ev.update(0, none_ev()), 0, seq![LuaSyntaxKind::Block]);
    assert(w1.1 =~= seq![LuaSyntaxKind::Block]);
    assert(w1.1.drop_last() =~= Seq::<LuaSyntaxKind>::empty());
    assert(ab_starts_rev(s0.ab, w1.1) == ab_starts_rev(ab_start(s0.ab, LuaSyntaxKind::Block), Seq::<LuaSyntaxKind>::empty()));
    assert(s1.ab.parents =~= seq![k0, k1] && s1.ab.fl =~= e);
    let s2 = sim(ev, 2);
    assert(s2 == sim_step(s1, 1));
    let w2 = walk(s1.ev.update(1, none_ev()), 0, seq![LuaSyntaxKind::NameExpr]);
    assert(w2.1 =~= seq![LuaSyntaxKind::NameExpr]);
    assert(w2.1.drop_last() =~= Seq::<LuaSyntaxKind>::empty());
    assert(ab_starts_rev(s1.ab, w2.1) == ab_starts_rev(ab_start(s1.ab, LuaSyntaxKind::NameExpr), Seq::<LuaSyntaxKind>::empty()));
    assert(s2.ab.parents =~= seq![k0, k1, k2] && s2.ab.fl =~= e);
    let s3 = sim(ev, 3);
    assert(s3 == sim_step(s2, 2));
    assert(s3.ab.parents =~= seq![k0, k1, k2] && s3.ab.fl =~= seq![nt]);
    assert(s3.ev[3] is NodeEnd);
    // NodeEnd of NameExpr: start 0 <= 1 child
    assert(ab_top_ok(s3.ab));
    let s4 = sim(ev, 4);
    assert(s4 == sim_step(s3, 3));
    assert(scan_fwd(s3.ab.fl, 0, false) == 0);
    assert(scan_end(s3.ab.fl, 0, 0, false) == 0);
    assert(s3.ab.parents.drop_last() =~= seq![k0, k1]);
    assert(s4.ab.parents =~= seq![k0, k1]);
    assert(s4.ab.fl =~= seq![nt]);
    assert(ab_top_ok(s4.ab));
    let s5 = sim(ev, 5);
    assert(s5 == sim_step(s4, 4));
    assert(scan_back(s4.ab.fl, 0) == 0);
    assert(s4.ab.parents.drop_last() =~= seq![k0]);
    assert(s5.ab.parents =~= seq![k0]);
    assert(s5.ab.fl =~= seq![nt]);
    assert(ab_top_ok(s5.ab));
    assert forall|i: int| 0 <= i < ev.len() && (#[trigger] sim(ev, i)).ev[i] is NodeEnd implies ab_top_ok(sim(ev, i).ab) by {
        if i == 0 { assert(sim(ev, 0).ev[0] == ev[0]); }
        else if i == 1 { assert(s1.ev[1] == ev[1]); }
        else if i == 2 { assert(s2.ev[2] == ev[2]); }
        else if i == 3 { }
        else { assert(i == 4); }
    }
}
