import re
from vc.rules import rule
from vc.extract import Undecided
from vc import rustlex as L

GB = 'crates/emmylua_parser/src/syntax/tree/lua_green_builder.rs'
TB = 'crates/emmylua_parser/src/syntax/tree/lua_tree_builder.rs'
MK = 'crates/emmylua_parser/src/parser/marker.rs'
TR = 'crates/emmylua_parser/src/text/text_range.rs'
SK = 'crates/emmylua_parser/src/kind/lua_syntax_kind.rs'
TK = 'crates/emmylua_parser/src/kind/lua_token_kind.rs'


@rule('is-some-and-block')
def is_some_and_block(text, **_):
    """`E.is_some_and(|x| { B })` -> `match E { Some(x) => { B } None => false }`
    (std doc of Option::is_some_and: "Returns true if the option is a Some and the value inside of it matches a
    predicate"; the closure is called at most once, with the payload, and its block becomes the match arm)"""
    toks = L.code_tokens(text)
    n = 0
    for i, t in enumerate(toks):
        if L.tok_text(text, t) == 'is_some_and' and L.tok_text(text, toks[i - 1]) == '.' and L.tok_text(text, toks[i + 1]) == '(':
            close = L.match_close(text, toks, i + 1)
            # |x| { ... }
            if not (L.tok_text(text, toks[i + 2]) == '|' and toks[i + 3][0] == 'ident' and L.tok_text(text, toks[i + 4]) == '|'
                    and L.tok_text(text, toks[i + 5]) == '{' and L.match_close(text, toks, i + 5) == close - 1):
                raise Undecided('is-some-and-block: closure is not of the form |x| { .. }')
            var = L.tok_text(text, toks[i + 3])
            block = text[toks[i + 5][1]:toks[close - 1][2]]
            # receiver: the method-call chain `a.b(..).c` that ends right before `.is_some_and`
            head = text[:toks[i - 1][1]]
            mr = re.search(r'(?:\w+(?:\([^()]*\))?\s*\.\s*)*\w+(?:\([^()]*\))?\s*$', head)
            if not mr:
                raise Undecided('is-some-and-block: receiver not recognised')
            recv = mr.group(0).rstrip()
            text = head[:mr.start()] + 'match ' + recv + ' { Some(' + var + ') => ' + block + ' None => false }' + text[toks[close][2]:]
            n += 1
            break
    return text, n


@rule('drain-rev-pop')
def drain_rev_pop(text, **_):
    """`for X in V.drain(..).rev() { B }` -> `while let Some(X) = V.pop() { B }`
    (std doc: Vec::drain(..) removes the whole vector content and yields the removed items, `.rev()` yields them last
    to first; `B` neither mentions `V` nor contains break/return/`?`, so popping from the back until `V` is empty runs
    `B` on the same items in the same order and also leaves `V` empty)"""
    m = re.search(r'for (\w+) in (\w+)\.drain\(\.\.\)\.rev\(\) \{', text)
    if not m:
        return text, 0
    toks = L.code_tokens(text)
    ob = next(i for i, t in enumerate(toks) if t[1] == m.end() - 1)
    cb = L.match_close(text, toks, ob)
    body = [L.tok_text(text, t) for t in toks[ob + 1:cb]]
    if m.group(2) in body or 'break' in body or 'return' in body or '?' in body:
        raise Undecided('drain-rev-pop: loop body mentions the drained vector or leaves the loop early')
    return text[:m.start()] + 'while let Some(%s) = %s.pop() {' % (m.group(1), m.group(2)) + text[m.end():], 1


@rule('mut-self-rebind')
def mut_self_rebind(text, **_):
    """`fn f(mut self, ..) { B }` -> `fn f(self, ..) { let mut this = self; B[this/self] }`
    (a `mut` binding of a by-value parameter is the same as moving it into a fresh `let mut` at the top of the body;
    every `self` token of the body is renamed to the new binding; Verus does not accept `mut self`)"""
    toks = L.code_tokens(text)
    k = next((i for i, t in enumerate(toks) if L.tok_text(text, t) == 'mut' and L.tok_text(text, toks[i + 1]) == 'self'
              and L.tok_text(text, toks[i - 1]) == '('), None)
    if k is None:
        return text, 0
    ob = next(i for i in range(k, len(toks)) if L.tok_text(text, toks[i]) == '{')
    cb = L.match_close(text, toks, ob)
    edits = [(toks[k][1], toks[k + 1][1], '')]
    for i in range(ob + 1, cb):
        if toks[i][0] == 'ident' and L.tok_text(text, toks[i]) == 'self':
            edits.append((toks[i][1], toks[i][2], 'this'))
        if L.tok_text(text, toks[i]) == 'this':
            raise Undecided('mut-self-rebind: body already uses the name `this`')
    edits.append((toks[ob][2], toks[ob][2], '\n        let mut this = self;'))
    for a, b, new in sorted(edits, reverse=True):
        text = text[:a] + new + text[b:]
    return text, 1


def gb_fn(name, **kw):
    d = {'src': {'file': GB, 'kind': 'fn', 'impl': 'LuaGreenNodeBuilder', 'name': name}}
    d.update(kw)
    return d


def tb_fn(name, **kw):
    d = {'src': {'file': TB, 'kind': 'fn', 'impl': 'LuaTreeBuilder', 'name': name}}
    d.update(kw)
    return d


UNIT = {
    'items': {
        'LuaSyntaxKind': {'src': {'file': SK, 'kind': 'enum', 'name': 'LuaSyntaxKind'}, 'attrs': '#[derive(Clone, Copy)]'},
        'LuaTokenKind': {'src': {'file': TK, 'kind': 'enum', 'name': 'LuaTokenKind'}, 'attrs': '#[derive(Clone, Copy)]'},
        'SourceRange': {'src': {'file': TR, 'kind': 'struct', 'name': 'SourceRange'}, 'attrs': '#[derive(Clone, Copy)]'},
        'SourceRange::end_offset': {'src': {'file': TR, 'kind': 'fn', 'impl': 'SourceRange', 'name': 'end_offset'}, 'ret': 'r',
            'requires': 'self.start_offset + self.length <= usize::MAX', 'ensures': 'r == self.start_offset + self.length'},
        'MarkEvent': {'src': {'file': MK, 'kind': 'enum', 'name': 'MarkEvent'}},
        'MarkEvent::none': {'src': {'file': MK, 'kind': 'fn', 'impl': 'MarkEvent', 'name': 'none'}, 'ret': 'r', 'ensures': 'r == none_ev()'},
        'LuaGreenElement': {'src': {'file': GB, 'kind': 'enum', 'name': 'LuaGreenElement'}, 'rules': ['vis-pub']},
        'LuaGreenNodeBuilder': {'src': {'file': GB, 'kind': 'struct', 'name': 'LuaGreenNodeBuilder'},
                                'rules': [('struct-fields', {})]},
        'LuaGreenNodeBuilder::with_cache': gb_fn('with_cache', ret='r',
            ensures='fresh(&r) /*@C01.with_cache.fresh*/'),
        'LuaGreenNodeBuilder::token': gb_fn('token',
            requires='wf(old(self))',
            ensures='''
            wf(final(self)),
            flat_all(final(self)) == flat_all(old(self)).push(range) /*@C01.token.appends*/,
            final(self).parents@ == old(self).parents@,
            final(self).builder == old(self).builder,
            abs(final(self)) == ab_token(abs(old(self)), kind),
            ''',
            proof=[(r'\}\s*$', 'before',
                    '''proof { lemma_token(old(self).elements@, old(self).children@, LuaGreenElement::Token { kind, range });
                               lemma_fl_token(old(self).elements@, old(self).children@, LuaGreenElement::Token { kind, range }); }''')]),
        'LuaGreenNodeBuilder::start_node': gb_fn('start_node',
            ensures='''
            final(self).elements@ == old(self).elements@,
            final(self).children@ == old(self).children@,
            final(self).builder == old(self).builder,
            final(self).parents@ == old(self).parents@.push((kind, old(self).children@.len() as usize)),
            abs(final(self)) == ab_start(abs(old(self)), kind),
            '''),
        'LuaGreenNodeBuilder::is_trivia': gb_fn('is_trivia', rules=['is-some-and-block'], ret='r',
            ensures='r == (pos < self.elements@.len() && sp_trivia(self.elements@[pos as int]))'),
        'LuaGreenNodeBuilder::is_trivia_whitespace': gb_fn('is_trivia_whitespace', ret='r',
            ensures='r == (pos < self.elements@.len() && sp_ws(self.elements@[pos as int]))'),
        'LuaGreenNodeBuilder::finish_node': gb_fn('finish_node', rules=['drain-from-collect', 'drain-incl-collect'],
            attrs='#[verifier::spinoff_prover]',
            requires='wf(old(self)), top_ok(old(self)) /*@C02.finish_node.parents_ok*/',
            ensures='''
            wf(final(self)),
            flat_all(final(self)) == flat_all(old(self)) /*@C01.finish_node.preserves-tokens*/,
            final(self).builder == old(self).builder,
            abs(final(self)) == ab_finish(abs(old(self))) /*@C02.finish_node.abstract-step*/,
            ''',
            body_first='let ghost ch0 = self.children@; let ghost es0 = self.elements@; let ghost fl0 = fl_of(es0, ch0);',
            loops={
                0: '''invariant self.children@ == ch0, self.elements@ == es0, wf_top(ch0, es0), fl0 == fl_of(es0, ch0), first_start == fs0, 0 <= child_start <= fs0 <= ch0.len(),
                        scan_back(fl0, child_start as int) == scan_back(fl0, fs0)
                    ensures scan_back(fl0, child_start as int) == child_start
                    decreases child_start''',
                1: '''invariant self.children@ == ch0, self.elements@ == es0, wf_top(ch0, es0), fl0 == fl_of(es0, ch0), child_count == ch0.len(), fs0 <= child_start <= child_count,
                        scan_fwd(fl0, child_start as int, true) == scan_fwd(fl0, fs0, true)
                    ensures scan_fwd(fl0, child_start as int, true) == child_start
                    decreases child_count - child_start''',
                2: '''invariant self.children@ == ch0, self.elements@ == es0, wf_top(ch0, es0), fl0 == fl_of(es0, ch0), child_count == ch0.len(), child_start <= child_end + 1, child_end < child_count,
                        scan_end(fl0, child_end as int, child_start as int, true) == scan_end(fl0, child_count - 1, child_start as int, true)
                    ensures scan_end(fl0, child_end as int, child_start as int, true) == child_end
                    decreases child_end''',
                3: '''invariant self.children@ == ch0, self.elements@ == es0, wf_top(ch0, es0), fl0 == fl_of(es0, ch0), child_count == ch0.len(), fs0 <= child_start <= child_count,
                        scan_fwd(fl0, child_start as int, false) == scan_fwd(fl0, fs0, false)
                    ensures scan_fwd(fl0, child_start as int, false) == child_start
                    decreases child_count - child_start''',
                4: '''invariant self.children@ == ch0, self.elements@ == es0, wf_top(ch0, es0), fl0 == fl_of(es0, ch0), child_count == ch0.len(), child_start <= child_end + 1, child_end < child_count,
                        scan_end(fl0, child_end as int, child_start as int, false) == scan_end(fl0, child_count - 1, child_start as int, false)
                    ensures scan_end(fl0, child_end as int, child_start as int, false) == child_end
                    decreases child_end''',
            },
            proof=[
                (r'let \(parent_kind, mut first_start\) = self\.parents\.pop\(\)\.unwrap\(\);', 'after', 'let ghost fs0 = first_start as int;'),
                (r'let pos = self\.elements\.len\(\);', 'after', '''
                let ghost cs: int = if parent_kind is Block || parent_kind is Chunk { first_start as int } else { child_start as int };
                let ghost ce: int = child_end + 1;
                proof {
                    assert(self.children@ =~= ch0.subrange(0, cs) + ch0.subrange(ce, ch0.len() as int));
                    lemma_wrap_flat(es0, ch0, cs, ce, green); /*@C01.finish_node.preserves-tokens*/
                    lemma_wrap_wf(es0, ch0, cs, ce, green);
                    lemma_fl_wrap(es0, ch0, cs, ce, green);
                }'''),
                (r'\}\s*$', 'before', '''
                proof {
                    assert(self.children@ =~= ch0.subrange(0, cs).push(pos) + ch0.subrange(ce, ch0.len() as int)); /*@C01.finish_node.preserves-tokens*/
                    assert(abs(self).fl =~= ab_finish(abs(old(self))).fl); /*@C02.finish_node.abstract-step*/
                }'''),
            ]),
        'LuaGreenNodeBuilder::build_rowan_green': gb_fn('build_rowan_green', rules=['for-iter-name', 'token-ghost-range'],
            attrs='#[verifier::spinoff_prover]',
            requires='''
            wf_elems(old(self).elements@),
            is_root(old(self).elements@, parent as int),
            ranges_ok(text, flat(old(self).elements@, parent as int)),
            ''',
            ensures='''
            final(self).builder.emitted() == old(self).builder.emitted() + flat(old(self).elements@, parent as int) /*@C01.build_rowan_green.emits-subtree*/,
            final(self).builder.open() == old(self).builder.open(),
            final(self).builder.nchildren() == old(self).builder.nchildren() + (if old(self).elements@[parent as int] is None { 0int } else { 1int }),
            old(self).elements@[parent as int] is Node ==> final(self).builder.last_is_node(),
            ''',
            body_first='''
            let ghost es0 = self.elements@; let ghost em0 = self.builder.emitted();
            let ghost o0 = self.builder.open(); let ghost nc0 = self.builder.nchildren();
            ''',
            loops={
                0: '''
                invariant
                    wf_elems(es0), 0 <= parent < es0.len(),
                    ranges_ok(text, flat(es0, parent as int)),
                    gs.len() == stack@.len(),
                    forall|k: int| 0 <= k < gs.len() ==> #[trigger] gs[k] == (stack@[k].index, stack@[k].is_close),
                    dfs_inv(es0, self.elements@, gs),
                    self.builder.emitted() == em0 + done /*@C01.build_rowan_green.emits-subtree*/,
                    done + pend(es0, gs) == flat(es0, parent as int) /*@C01.build_rowan_green.emits-subtree*/,
                    self.builder.open() == o0 + ex /*@C02.build_rowan_green.rowan-balanced*/,
                    ex.len() == nclose(gs) /*@C02.build_rowan_green.rowan-balanced*/,
                    forall|j: int| 0 <= j < ex.len() ==> #[trigger] ex[j] <= self.builder.nchildren(),
                    forall|i: int, j: int| 0 <= i <= j < ex.len() ==> #[trigger] ex[i] <= #[trigger] ex[j],
                    gs.len() > 0 ==> (if gs[0].1 { gs[0].0 == parent && es0[parent as int] is Node && ex.len() > 0 && ex[0] == nc0 }
                                      else { gs.len() == 1 && gs[0].0 == parent && self.builder.nchildren() == nc0 && ex.len() == 0 }),
                    gs.len() == 0 ==> self.builder.nchildren() == nc0 + (if es0[parent as int] is None { 0int } else { 1int })
                                      && (es0[parent as int] is Node ==> self.builder.last_is_node()),
                ensures gs.len() == 0
                decreases count_some(self.elements@), stack@.len()
                ''',
                1: '''
                invariant
                    gs.len() == stack@.len(),
                    forall|k: int| 0 <= k < gs.len() ==> #[trigger] gs[k] == (stack@[k].index, stack@[k].is_close),
                    0 <= it.index@ <= children@.len(),
                    gs == gs_after(g0.drop_last(), item.index, children@, it.index@) /*@C01.build_rowan_green.emits-subtree*/,
                ''',
            },
            proof=[
                (r'\}\];', 'after', '''
                let ghost mut gs: GS = seq![(parent, false)];
                let ghost mut ex: Seq<int> = Seq::<int>::empty();
                let ghost mut done: Seq<SourceRange> = Seq::<SourceRange>::empty();
                proof {
                    lemma_dfs_init(es0, parent);
                    assert(em0 + done =~= em0);
                    assert(done + pend(es0, gs) =~= pend(es0, gs));
                    assert(o0 + ex =~= o0);
                }'''),
                (r'while let Some\(item\) = stack\.pop\(\) \{', 'after', '''
                let ghost g0 = gs; let ghost cur0 = self.elements@;
                proof {
                    gs = gs.drop_last();
                    assert(g0.last() == (item.index, item.is_close));
                    lemma_nclose_bounds(g0);
                    lemma_nclose_bounds(gs);
                    if gs.len() > 0 { assert(gs[0] == g0[0]); }
                }'''),
                (r'continue;', 'before', '''
                proof {
                    lemma_dfs_pop(es0, cur0, g0);
                    ex = ex.drop_last();
                    assert(self.builder.open() =~= o0 + ex); /*@C02.build_rowan_green.rowan-balanced*/
                    assert(pend(es0, g0) =~= pend(es0, gs));
                }'''),
                (r'LuaGreenElement::None\);', 'after', '''
                proof {
                    lemma_count_some_take(cur0, item.index as int);
                    if !(es0[item.index as int] is Node) { lemma_dfs_pop(es0, cur0, g0); }
                }'''),
                (r'self\.builder\.start_node\(kind\.into\(\)\);', 'after', '''
                proof {
                    ex = ex.push(self.builder.nchildren());
                    assert(self.builder.open() =~= o0 + ex); /*@C02.build_rowan_green.rowan-balanced*/
                }'''),
                (r'is_close: true,\s*\}\);', 'after', '''
                proof {
                    gs = gs.push((item.index, true));
                    assert(gs =~= gs_after(g0.drop_last(), item.index, children@, 0));
                }'''),
                (r'is_close: false,\s*\}\);', 'after', '''
                proof {
                    gs = gs.push((*child, false));
                    assert(*child == children@[children@.len() - 1 - it.index@]); /*@C01.build_rowan_green.emits-subtree*/
                    assert(gs =~= gs_after(g0.drop_last(), item.index, children@, it.index@ + 1)); /*@C01.build_rowan_green.emits-subtree*/
                }'''),
                (r'\}\);\s*\}', 'after', '''
                proof {
                    assert(kids(es0[item.index as int]) == children@);
                    lemma_dfs_node(es0, cur0, g0, gs);
                    assert(gs[0] == (if g0.len() == 1 { (item.index, true) } else { g0[0] }));
                }'''),
                (r'let start = range\.start_offset;', 'before', '''
                proof {
                    assert(flat(es0, item.index as int) =~= seq![range]);
                    lemma_next_range(done, range, pend(es0, gs), flat(es0, parent as int));
                    assert(range_ok(text, flat(es0, parent as int)[done.len() as int]));
                }'''),
                (r'Ghost\(\(text, range\)\)\);', 'after', '''
                proof {
                    done = done.push(range);
                    assert(self.builder.emitted() =~= em0 + done);
                }'''),
                (r'_ => \{', 'after', '''
                proof {
                    assert(pend(es0, g0) =~= pend(es0, gs)); /*@C01.build_rowan_green.emits-subtree*/
                }'''),
            ]),
        'LuaGreenNodeBuilder::finish': gb_fn('finish', rules=['mut-self-rebind'], ret='r',
            requires='wf(&self), fresh_rowan(&self), ranges_ok(text, flat_all(&self))',
            ensures='r.leaves() == flat_all(&self) /*@C01.finish.emits-all-tokens*/',
            # hints only mention the parameters, so that the same overlay applies to any body of `finish`
            body_first='''
            proof {
                let es = self.elements@; let ch = self.children@; let n = es.len() as int;
                if ch.len() > 0 { lemma_first_root(es, ch, text); }
                assert forall|node: LuaGreenElement| node is Node && kids(node) == ch && es.len() <= usize::MAX implies
                    wf_elems(#[trigger] es.push(node)) && is_root(es.push(node), n) && flat(es.push(node), n) == flat_list(es, ch, n) by {
                    lemma_wrap_all(es, ch, node);
                }
                assert forall|s: Seq<SourceRange>| #[trigger] (Seq::<SourceRange>::empty() + s) == s by {
                    assert(Seq::<SourceRange>::empty() + s =~= s);
                }
            }'''),
        'LuaTreeBuilder': {'src': {'file': TB, 'kind': 'struct', 'name': 'LuaTreeBuilder'}, 'rules': [('struct-fields', {})]},
        'LuaTreeBuilder::new': tb_fn('new', ret='r',
            ensures='fresh(&r.green_builder), r.events == events, r.text == text /*@C01.new.fresh*/'),
        'LuaTreeBuilder::token': tb_fn('token',
            requires='wf(&old(self).green_builder)',
            ensures='''
            final(self).events == old(self).events, final(self).text == old(self).text,
            wf(&final(self).green_builder),
            flat_all(&final(self).green_builder) == flat_all(&old(self).green_builder).push(range),
            final(self).green_builder.builder == old(self).green_builder.builder,
            abs(&final(self).green_builder) == ab_token(abs(&old(self).green_builder), kind),
            '''),
        'LuaTreeBuilder::start_node': tb_fn('start_node',
            ensures='''
            final(self).events == old(self).events, final(self).text == old(self).text,
            final(self).green_builder.elements@ == old(self).green_builder.elements@,
            final(self).green_builder.children@ == old(self).green_builder.children@,
            final(self).green_builder.builder == old(self).green_builder.builder,
            abs(&final(self).green_builder) == ab_start(abs(&old(self).green_builder), kind),
            '''),
        'LuaTreeBuilder::finish_node': tb_fn('finish_node',
            requires='wf(&old(self).green_builder), top_ok(&old(self).green_builder)',
            ensures='''
            final(self).events == old(self).events, final(self).text == old(self).text,
            wf(&final(self).green_builder),
            flat_all(&final(self).green_builder) == flat_all(&old(self).green_builder),
            final(self).green_builder.builder == old(self).green_builder.builder,
            abs(&final(self).green_builder) == ab_finish(abs(&old(self).green_builder)),
            '''),
        'LuaTreeBuilder::build': tb_fn('build', rules=['drain-rev-pop', 'for-iter-name'],
            attrs='#[verifier::spinoff_prover]',
            requires='''
            fresh(&old(self).green_builder),
            events_ok(old(self).events@) /*@C02.build.events_ok*/,
            parents_ok(old(self).events@) /*@C02.build.parents_ok*/,
            ''',
            ensures='''
            wf(&final(self).green_builder),
            flat_all(&final(self).green_builder) == eaten(old(self).events@) /*@C01.build.tokens-in-event-order*/,
            fresh_rowan(&final(self).green_builder),
            final(self).text == old(self).text,
            ''',
            body_first='let ghost ev0 = self.events@; let ghost rb0 = self.green_builder.builder;',
            loops={
                0: '''
                invariant
                    it.snapshot.start == 0, it.snapshot.end == ev0.len(),
                    self.events@.len() == ev0.len(), self.text == old(self).text,
                    events_ok(self.events@), parents_ok(ev0),
                    self.events@ == sim(ev0, i as int).ev,
                    abs(&self.green_builder) == sim(ev0, i as int).ab,
                    wf(&self.green_builder), self.green_builder.builder == rb0,
                    flat_all(&self.green_builder) == eaten(ev0.subrange(0, i as int)) /*@C01.build.tokens-in-event-order*/,
                    rest_ok(self.events@, ev0, i as int),
                    parents@.len() == 0,
                ''',
                1: '''
                invariant
                    self.events@.len() == ev0.len(), self.text == old(self).text,
                    events_ok(self.events@),
                    rest_ok(self.events@, ev0, i as int + 1),
                    self.green_builder == gbi,
                    walk(self.events@, parent_position as int, parents@) == wres,
                    parent_position == 0 || (parent_position < self.events@.len() && self.events@[parent_position as int] is NodeStart),
                decreases (if parent_position == 0 { 0int } else { self.events@.len() - parent_position + 1 })
                ''',
                2: '''
                invariant
                    self.events@ == wres.0, self.text == old(self).text,
                    wf(&self.green_builder), self.green_builder.builder == rb0,
                    flat_all(&self.green_builder) == flat_all(&gbi),
                    ab_starts_rev(abs(&self.green_builder), parents@) == ab_starts_rev(abs(&gbi), wres.1),
                ensures parents@.len() == 0
                decreases parents@.len()
                ''',
            },
            proof=[
                (r'let mut parents: Vec<LuaSyntaxKind> = Vec::new\(\);', 'after', '''
                proof {
                    assert(abs(&old(self).green_builder).fl =~= ab_empty().fl);
                    assert(abs(&old(self).green_builder).parents =~= ab_empty().parents);
                    assert(ev0.subrange(0, 0) =~= Seq::<MarkEvent>::empty());
                }'''),
                (r'for i in it: 0\.\.self\.events\.len\(\) \{', 'after', '''
                let ghost evi = self.events@; let ghost gbi = self.green_builder;
                proof {
                    lemma_eaten_step(ev0, i as int);
                    lemma_events_ok_update(evi, i as int);
                    assert(sim(ev0, i as int + 1) == sim_step(sim(ev0, i as int), i as int));
                }'''),
                (r'self\.finish_node\(\);\s*\}\s*$', 'before', '''
                proof { assert(ev0.subrange(0, ev0.len() as int) =~= ev0); }'''),
                (r'let mut parent_position = parent;', 'after', '''
                let ghost wres = walk(self.events@, parent as int, parents@);
                proof { assert(parents@ =~= seq![kind]); }'''),
                (r'while parent_position > 0 \{', 'after', '''
                proof { lemma_events_ok_update(self.events@, parent_position as int); }'''),
            ]),
        'LuaTreeBuilder::finish': tb_fn('finish', ret='r',
            requires='wf(&self.green_builder), fresh_rowan(&self.green_builder), ranges_ok(self.text, flat_all(&self.green_builder))',
            ensures='r.leaves() == flat_all(&self.green_builder) /*@C01.finish.emits-all-tokens*/'),
    },
    'extra_rules': [
        ('drain-from-collect', r'(\w+(?:\s*\.\s*\w+)*)\s*\.drain\((\w+)\.\.\)\s*\.collect::<Vec<_>>\(\)', r'vx_drain_from(&mut \1, \2)',
         'V.drain(a..).collect::<Vec<_>>() -> vx_drain_from(&mut V, a) (std doc contract of Vec::drain; the out-of-bounds panic is the helper\'s precondition)'),
        ('drain-incl-collect', r'(\w+(?:\s*\.\s*\w+)*)\s*\.drain\((\w+)\.\.=(\w+)\)\s*\.collect::<Vec<_>>\(\)', r'vx_drain_incl(&mut \1, \2, \3)',
         'V.drain(a..=b).collect::<Vec<_>>() -> vx_drain_incl(&mut V, a, b) (std doc contract of Vec::drain; both panic conditions are the helper\'s precondition)'),
        ('for-iter-name', r'for (\w+) in (\w+\.iter\(\)(?:\.rev\(\))?|0\.\.self\.events\.len\(\)) \{', r'for \1 in it: \2 {',
         '`for x in E` -> `for x in it: E`: Verus syntax that names the ghost view of the iterator so that the loop invariant can mention it; no run-time meaning'),
        ('token-ghost-range',
         r'let start = range\.start_offset;\s*let end = range\.end_offset\(\);\s*let token_text = &text\[start\.\.end\];\s*self\.builder\.token\(kind\.into\(\), token_text\);',
         'let start = range.start_offset;\n                    let end = range.end_offset();\n                    let token_text = &text[start..end];\n'
         '                    self.builder.vx_token(kind.into(), token_text, Ghost((text, range)));',
         '`let start = range.start_offset; let end = range.end_offset(); let token_text = &text[start..end]; self.builder.token(k, token_text)` -> the same '
         'four statements with `token` replaced by `vx_token(k, token_text, Ghost((text, range)))`: adds one erased (ghost) argument recording from which '
         'text and byte range the token text was sliced. The pattern spans all four statements, so the recorded range is, syntactically, the range of the slice'),
    ],
    'allow': [r'external_body', r'uninterp spec fn', r'assume_specification'],
    'min_obligations': 50,
    'trusted': [
        'shim rowan-0.16.1 GreenNodeBuilder (green/builder.rs, green/node_cache.rs), ghost view (emitted, open, nchildren, last_is_node): '
        'token appends the range and one child; start_node pushes children.len() on `open`; finish_node REQUIRES an open node and first_child <= children.len() '
        '(`parents.pop().unwrap()`, `&children[first_child..]`) and leaves first_child + 1 children, the last one a node; finish REQUIRES exactly one child and '
        'that it is a node (`assert_eq!(self.children.len(), 1)`, `NodeOrToken::Token(_) => panic!()`) and returns a tree whose `leaves()` are `emitted()` (L4, assumed)',
        'rowan arithmetic limit: total text length < 2^32 (TextSize is u32) is NOT modelled; it is the input assumption text.len() < 2^32 of DESIGN section 4',
        'shim LuaGreenNodeBuilder::new(): derived Default = three empty vectors + empty rowan builder (ensures fresh)',
        'shims `impl From<LuaSyntaxKind|LuaTokenKind> for rowan::SyntaxKind`: total, result unspecified (syntax/mod.rs: a match and a cast)',
        'assume_specification std::mem::replace (dest := src, returns old dest) and std::mem::take (returns old dest; what is left behind is unspecified): std documentation',
        'vx_drain_from / vx_drain_incl: std documentation of Vec::drain(range).collect(); their preconditions are exactly the documented panic conditions',
        'rule token-ghost-range: the ghost range recorded by vx_token is the range of the `&text[start..end]` slice; the link is syntactic (the rule only matches the four-statement '
        'sequence `let start = range.start_offset; let end = range.end_offset(); let token_text = &text[start..end]; self.builder.token(kind.into(), token_text);`) because vstd gives no '
        'postcondition for str indexing',
        'ASSUMPTION ranges_ok(text, eaten(events)) (precondition of finish / build_rowan_green): every token range lies inside `text`, on char boundaries, start + length <= usize::MAX '
        '-- established by unit c01_reader (L1: tokens tile the input) and c01_parser (L2: EatToken ranges are token ranges)',
        'ASSUMPTION events_ok(events) (precondition of build): every non-zero `parent` link of a NodeStart points to a LATER event that is a NodeStart -- established by unit c01_parser from '
        'marker.rs (mark pushes NodeStart{parent: 0}; CompleteMarker::precede is the only writer of `parent` and stores the position of the NodeStart it has just pushed; events are never removed and '
        'set_kind/complete/undo only change `kind`). It is sufficient for the `unreachable!()`/index obligations of the walk; the exact weakest condition is the same statement restricted to the '
        'NodeStarts that a walk actually reaches',
        'ASSUMPTION A-EV parents_ok(events) (precondition of build): on the abstract builder run `sim(events, i)`, whenever the next event is NodeEnd (and at the final finish_node) the start index '
        'recorded for the node being finished is <= the number of top-level children. Not an invariant of the builder alone (API trace token(ws) token(ws) start(P) start(Block) token(x) finish finish '
        'violates it and panics in drain(2..=0)); not reproducible through the parser (400 000 token-soup inputs x 4 language levels, 0 panics; every grammar node bumps a non-trivia token or keeps an '
        'empty ParamList node before it opens a Block). The refinement abs(builder) == sim(..).ab is PROVED, so the assumption is a statement about the event list only',
        'frame: LuaGreenNodeBuilder fields are private to lua_green_builder.rs and LuaTreeBuilder fields to lua_tree_builder.rs (Rust privacy), so `fresh_rowan` holds from new/with_cache until finish',
    ],
    'not_covered': [
        'LuaGreenNodeBuilder::new (derived Default; shimmed with `ensures fresh`)',
        'the numeric SyntaxKind values handed to rowan (kinds play no role in C01)',
        'rowan itself (L4)',
    ],
    'samples': [
        'finish_node: requires wf && top_ok; ensures wf && flat_all(final) == flat_all(old) (every kind branch) && abs(final) == ab_finish(abs(old)); 5 scans with decreases',
        'token: flat_all(final) == flat_all(old).push(range); start_node: elements/children unchanged',
        'build_rowan_green(parent, text): emitted(final) == emitted(old) + flat(old.elements, parent); rowan open-stack restored; explicit stack terminates (decreases #non-None elements, stack length)',
        'finish(self, text): r.leaves() == flat_all(self) -- ALL roots (fails on the unrepaired tree: children.first() only)',
        'LuaTreeBuilder::build: requires fresh && events_ok && parents_ok; ensures flat_all(green_builder) == eaten(old events); unreachable!() and events[parent_position] discharged; walk terminates',
        'LuaTreeBuilder::new ensures fresh; LuaTreeBuilder::finish: r.leaves() == flat_all(green_builder)',
    ],
    'mutants': [
        {'name': 'finish-node-insert-off-by-one', 'item': 'LuaGreenNodeBuilder::finish_node',
         'pattern': r'self\.children\.insert\(child_start, pos\);', 'repl': 'self.children.insert(child_start + 1, pos);',
         'expect': r'C01\.finish_node\.preserves-tokens'},
        {'name': 'finish-node-push-instead-of-insert', 'item': 'LuaGreenNodeBuilder::finish_node',
         'pattern': r'self\.children\.insert\(child_start, pos\);', 'repl': 'self.children.push(pos);',
         'expect': r'C01\.finish_node\.preserves-tokens'},
        {'name': 'finish-node-drop-else-push', 'item': 'LuaGreenNodeBuilder::finish_node',
         'pattern': r'\} else \{\s*self\.children\.push\(pos\);\s*\}', 'repl': '}',
         'expect': r'C01\.finish_node\.preserves-tokens'},
        {'name': 'finish-node-block-drops-children', 'item': 'LuaGreenNodeBuilder::finish_node',
         'pattern': r'LuaGreenElement::Node \{\s*kind: parent_kind,\s*children,\s*\}', 'repl': 'LuaGreenElement::Node { kind: parent_kind, children: Vec::new() }',
         'expect': r'C01\.finish_node\.preserves-tokens'},
        {'name': 'token-not-in-children', 'item': 'LuaGreenNodeBuilder::token',
         'pattern': r'self\.children\.push\(len\);', 'repl': '',
         'expect': r'C01\.token\.appends'},
        {'name': 'finish-first-root-only', 'item': 'LuaGreenNodeBuilder::finish',
         'pattern': r'let is_chunk_root = self\.children\.len\(\) == 1', 'repl': 'let is_chunk_root = self.children.len() >= 1',
         'expect': r'C01\.finish\.emits-all-tokens'},
        {'name': 'build-skips-eat-token', 'item': 'LuaTreeBuilder::build',
         'pattern': r'self\.token\(kind, range\);', 'repl': '',
         'expect': r'C01\.build\.tokens-in-event-order'},
        {'name': 'rowan-children-not-reversed', 'item': 'LuaGreenNodeBuilder::build_rowan_green',
         'pattern': r'children\.iter\(\)\.rev\(\)', 'repl': 'children.iter()',
         'expect': r'C01\.build_rowan_green\.emits-subtree'},
        {'name': 'finish-node-no-empty-check', 'item': 'LuaGreenNodeBuilder::finish_node',
         'pattern': r'if self\.parents\.is_empty\(\) \|\| self\.children\.is_empty\(\) \{', 'repl': 'if self.parents.is_empty() {',
         'expect': r'finish_node:possible-arithmetic-underflow'},
        {'name': 'rowan-close-without-finish', 'item': 'LuaGreenNodeBuilder::build_rowan_green',
         'pattern': r'self\.builder\.finish_node\(\);\s*continue;', 'repl': 'continue;',
         'expect': r'C02\.build_rowan_green\.rowan-balanced'},
        {'name': 'rowan-skips-token', 'item': 'LuaGreenNodeBuilder::build_rowan_green',
         'pattern': r'LuaGreenElement::Token \{ kind, range \} => \{', 'repl': 'LuaGreenElement::Token { kind, range } if range.length > 1 => {',
         'expect': r'C01\.build_rowan_green\.emits-subtree'},
    ],
}
