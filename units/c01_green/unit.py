import re
from vc.rules import rule
from vc.extract import Undecided
from vc import rustlex as L

GB = 'crates/emmylua_parser/src/syntax/tree/lua_green_builder.rs'
TB = 'crates/emmylua_parser/src/syntax/tree/lua_tree_builder.rs'
MK = 'crates/emmylua_parser/src/parser/marker.rs'
TR = 'crates/emmylua_parser/src/text/text_range.rs'
SK = 'crates/emmylua_parser/src/kind/lua_syntax_kind.rs'
TK = 'crates/emmylua_parser/src/kind/lua_token_kind.rs'


@rule('is-some-and-block')
def is_some_and_block(text, **_):
    """`E.is_some_and(|x| { B })` -> `match E { Some(x) => { B } None => false }`
    (std doc of Option::is_some_and: "Returns true if the option is a Some and the value inside of it matches a
    predicate"; the closure is called at most once, with the payload, and its block becomes the match arm)"""
    toks = L.code_tokens(text)
    n = 0
    for i, t in enumerate(toks):
        if L.tok_text(text, t) == 'is_some_and' and L.tok_text(text, toks[i - 1]) == '.' and L.tok_text(text, toks[i + 1]) == '(':
            close = L.match_close(text, toks, i + 1)
            # |x| { ... }
            if not (L.tok_text(text, toks[i + 2]) == '|' and toks[i + 3][0] == 'ident' and L.tok_text(text, toks[i + 4]) == '|'
                    and L.tok_text(text, toks[i + 5]) == '{' and L.match_close(text, toks, i + 5) == close - 1):
                raise Undecided('is-some-and-block: closure is not of the form |x| { .. }')
            var = L.tok_text(text, toks[i + 3])
            block = text[toks[i + 5][1]:toks[close - 1][2]]
            # receiver: the method-call chain `a.b(..).c` that ends right before `.is_some_and`
            head = text[:toks[i - 1][1]]
            mr = re.search(r'(?:\w+(?:\([^()]*\))?\s*\.\s*)*\w+(?:\([^()]*\))?\s*$', head)
            if not mr:
                raise Undecided('is-some-and-block: receiver not recognised')
            recv = mr.group(0).rstrip()
            text = head[:mr.start()] + 'match ' + recv + ' { Some(' + var + ') => ' + block + ' None => false }' + text[toks[close][2]:]
            n += 1
            break
    return text, n


@rule('drain-rev-pop')
def drain_rev_pop(text, **_):
    """`for X in V.drain(..).rev() { B }` -> `while let Some(X) = V.pop() { B }`
    (std doc: Vec::drain(..) removes the whole vector content and yields the removed items, `.rev()` yields them last
    to first; `B` neither mentions `V` nor contains break/return/`?`, so popping from the back until `V` is empty runs
    `B` on the same items in the same order and also leaves `V` empty)"""
    m = re.search(r'for (\w+) in (\w+)\.drain\(\.\.\)\.rev\(\) \{', text)
    if not m:
        return text, 0
    toks = L.code_tokens(text)
    ob = next(i for i, t in enumerate(toks) if t[1] == m.end() - 1)
    cb = L.match_close(text, toks, ob)
    body = [L.tok_text(text, t) for t in toks[ob + 1:cb]]
    if m.group(2) in body or 'break' in body or 'return' in body or '?' in body:
        raise Undecided('drain-rev-pop: loop body mentions the drained vector or leaves the loop early')
    return text[:m.start()] + 'while let Some(%s) = %s.pop() {' % (m.group(1), m.group(2)) + text[m.end():], 1


@rule('mut-self-rebind')
def mut_self_rebind(text, **_):
    """`fn f(mut self, ..) { B }` -> `fn f(self, ..) { let mut this = self; B[this/self] }`
    (a `mut` binding of a by-value parameter is the same as moving it into a fresh `let mut` at the top of the body;
    every `self` token of the body is renamed to the new binding; Verus does not accept `mut self`)"""
    toks = L.code_tokens(text)
    k = next((i for i, t in enumerate(toks) if L.tok_text(text, t) == 'mut' and L.tok_text(text, toks[i + 1]) == 'self'
              and L.tok_text(text, toks[i - 1]) == '('), None)
    if k is None:
        return text, 0
    ob = next(i for i in range(k, len(toks)) if L.tok_text(text, toks[i]) == '{')
    cb = L.match_close(text, toks, ob)
    edits = [(toks[k][1], toks[k + 1][1], '')]
    for i in range(ob + 1, cb):
        if toks[i][0] == 'ident' and L.tok_text(text, toks[i]) == 'self':
            edits.append((toks[i][1], toks[i][2], 'this'))
        if L.tok_text(text, toks[i]) == 'this':
            raise Undecided('mut-self-rebind: body already uses the name `this`')
    edits.append((toks[ob][2], toks[ob][2], '\n        let mut this = self;'))
    for a, b, new in sorted(edits, reverse=True):
        text = text[:a] + new + text[b:]
    return text, 1


def gb_fn(name, **kw):
    d = {'src': {'file': GB, 'kind': 'fn', 'impl': 'LuaGreenNodeBuilder', 'name': name}}
    d.update(kw)
    return d


def tb_fn(name, **kw):
    d = {'src': {'file': TB, 'kind': 'fn', 'impl': 'LuaTreeBuilder', 'name': name}}
    d.update(kw)
    return d


UNIT = {
    'items': {
        'LuaSyntaxKind': {'src': {'file': SK, 'kind': 'enum', 'name': 'LuaSyntaxKind'}, 'attrs': '#[derive(Clone, Copy)]'},
        'LuaTokenKind': {'src': {'file': TK, 'kind': 'enum', 'name': 'LuaTokenKind'}, 'attrs': '#[derive(Clone, Copy)]'},
        'SourceRange': {'src': {'file': TR, 'kind': 'struct', 'name': 'SourceRange'}, 'attrs': '#[derive(Clone, Copy)]'},
        'SourceRange::end_offset': {'src': {'file': TR, 'kind': 'fn', 'impl': 'SourceRange', 'name': 'end_offset'}, 'ret': 'r',
            'requires': 'self.start_offset + self.length <= usize::MAX', 'ensures': 'r == self.start_offset + self.length'},
        'MarkEvent': {'src': {'file': MK, 'kind': 'enum', 'name': 'MarkEvent'}},
        'MarkEvent::none': {'src': {'file': MK, 'kind': 'fn', 'impl': 'MarkEvent', 'name': 'none'}},
        'LuaGreenElement': {'src': {'file': GB, 'kind': 'enum', 'name': 'LuaGreenElement'}, 'rules': ['vis-pub']},
        'LuaGreenNodeBuilder': {'src': {'file': GB, 'kind': 'struct', 'name': 'LuaGreenNodeBuilder'},
                                'rules': [('struct-fields', {})]},
        'LuaGreenNodeBuilder::with_cache': gb_fn('with_cache', ret='r',
            ensures='fresh(&r) /*@C01.with_cache.fresh*/'),
        'LuaGreenNodeBuilder::token': gb_fn('token',
            requires='wf(old(self))',
            ensures='''
            wf(final(self)),
            flat_all(final(self)) == flat_all(old(self)).push(range) /*@C01.token.appends*/,
            final(self).parents@ == old(self).parents@,
            final(self).builder == old(self).builder,
            final(self).children@.len() == old(self).children@.len() + 1,
            ''',
            proof=[(r'self\.children\.push\(len\);', 'after',
                    'proof { lemma_token(old(self).elements@, old(self).children@, LuaGreenElement::Token { kind, range }); }')]),
        'LuaGreenNodeBuilder::start_node': gb_fn('start_node',
            ensures='''
            final(self).elements@ == old(self).elements@,
            final(self).children@ == old(self).children@,
            final(self).builder == old(self).builder,
            final(self).parents@ == old(self).parents@.push((kind, old(self).children@.len() as usize)),
            '''),
        'LuaGreenNodeBuilder::is_trivia': gb_fn('is_trivia', rules=['is-some-and-block'], ret='r',
            ensures='r == (pos < self.elements@.len() && sp_trivia(self.elements@[pos as int]))'),
        'LuaGreenNodeBuilder::is_trivia_whitespace': gb_fn('is_trivia_whitespace', ret='r',
            ensures='r == (pos < self.elements@.len() && sp_ws(self.elements@[pos as int]))'),
        'LuaGreenNodeBuilder::finish_node': gb_fn('finish_node', rules=['drain-from-collect', 'drain-incl-collect'],
            attrs='#[verifier::spinoff_prover]',
            requires='wf(old(self)), top_ok(old(self))',
            ensures='''
            wf(final(self)),
            flat_all(final(self)) == flat_all(old(self)) /*@C01.finish_node.preserves-tokens*/,
            final(self).builder == old(self).builder,
            final(self).parents@ == (if old(self).parents@.len() == 0 || old(self).children@.len() == 0 { old(self).parents@ } else { old(self).parents@.drop_last() }),
            ''',
            body_first='let ghost ch0 = self.children@; let ghost es0 = self.elements@;',
            loops={
                0: 'invariant self.children@ == ch0, self.elements@ == es0, child_start <= first_start, first_start <= ch0.len() decreases child_start',
                1: 'invariant self.children@ == ch0, self.elements@ == es0, child_count == ch0.len(), first_start <= child_start <= child_count decreases child_count - child_start',
                2: 'invariant self.children@ == ch0, self.elements@ == es0, child_count == ch0.len(), child_start <= child_end + 1, child_end < child_count decreases child_end',
                3: 'invariant self.children@ == ch0, self.elements@ == es0, child_count == ch0.len(), first_start <= child_start <= child_count decreases child_count - child_start',
                4: 'invariant self.children@ == ch0, self.elements@ == es0, child_count == ch0.len(), child_start <= child_end + 1, child_end < child_count decreases child_end',
            },
            proof=[
                (r'let pos = self\.elements\.len\(\);', 'before', '''
                let ghost cs: int = if parent_kind is Block || parent_kind is Chunk { first_start as int } else { child_start as int };
                let ghost ce: int = child_end + 1;
                proof {
                    assert(self.children@ =~= ch0.subrange(0, cs) + ch0.subrange(ce, ch0.len() as int));
                    lemma_wrap_flat(es0, ch0, cs, ce, green);
                    lemma_wrap_wf(es0, ch0, cs, ce, green);
                }'''),
                (r'self\.children\.push\(pos\);\s*\}', 'after', '''
                proof {
                    assert(self.children@ =~= ch0.subrange(0, cs).push(pos) + ch0.subrange(ce, ch0.len() as int));
                }'''),
            ]),
        'LuaGreenNodeBuilder::build_rowan_green': gb_fn('build_rowan_green', rules=['for-iter-name', 'token-ghost-range'],
            attrs='#[verifier::spinoff_prover]',
            requires='''
            wf_elems(old(self).elements@),
            is_root(old(self).elements@, parent as int),
            ranges_ok(text, flat(old(self).elements@, parent as int)),
            ''',
            ensures='''
            final(self).builder.emitted() == old(self).builder.emitted() + flat(old(self).elements@, parent as int) /*@C01.build_rowan_green.emits-subtree*/,
            final(self).builder.open() == old(self).builder.open(),
            final(self).builder.nchildren() == old(self).builder.nchildren() + (if old(self).elements@[parent as int] is None { 0int } else { 1int }),
            old(self).elements@[parent as int] is Node ==> final(self).builder.last_is_node(),
            ''',
            body_first='''
            let ghost es0 = self.elements@; let ghost em0 = self.builder.emitted();
            let ghost o0 = self.builder.open(); let ghost nc0 = self.builder.nchildren();
            ''',
            loops={
                0: '''
                invariant
                    wf_elems(es0), 0 <= parent < es0.len(),
                    ranges_ok(text, flat(es0, parent as int)),
                    gs.len() == stack@.len(),
                    forall|k: int| 0 <= k < gs.len() ==> #[trigger] gs[k] == (stack@[k].index, stack@[k].is_close),
                    dfs_inv(es0, self.elements@, gs),
                    self.builder.emitted() == em0 + done,
                    done + pend(es0, gs) == flat(es0, parent as int),
                    self.builder.open() == o0 + ex,
                    ex.len() == nclose(gs),
                    forall|j: int| 0 <= j < ex.len() ==> #[trigger] ex[j] <= self.builder.nchildren(),
                    forall|i: int, j: int| 0 <= i <= j < ex.len() ==> #[trigger] ex[i] <= #[trigger] ex[j],
                    gs.len() > 0 ==> (if gs[0].1 { gs[0].0 == parent && es0[parent as int] is Node && ex.len() > 0 && ex[0] == nc0 }
                                      else { gs.len() == 1 && gs[0].0 == parent && self.builder.nchildren() == nc0 && ex.len() == 0 }),
                    gs.len() == 0 ==> self.builder.nchildren() == nc0 + (if es0[parent as int] is None { 0int } else { 1int })
                                      && (es0[parent as int] is Node ==> self.builder.last_is_node()),
                ensures gs.len() == 0
                decreases count_some(self.elements@), stack@.len()
                ''',
                1: '''
                invariant
                    gs.len() == stack@.len(),
                    forall|k: int| 0 <= k < gs.len() ==> #[trigger] gs[k] == (stack@[k].index, stack@[k].is_close),
                    0 <= it.index@ <= children@.len(),
                    gs == gs_after(g0.drop_last(), item.index, children@, it.index@),
                ''',
            },
            proof=[
                (r'\}\];', 'after', '''
                let ghost mut gs: GS = seq![(parent, false)];
                let ghost mut ex: Seq<int> = Seq::<int>::empty();
                let ghost mut done: Seq<SourceRange> = Seq::<SourceRange>::empty();
                proof {
                    lemma_dfs_init(es0, parent);
                    assert(em0 + done =~= em0);
                    assert(done + pend(es0, gs) =~= pend(es0, gs));
                    assert(o0 + ex =~= o0);
                }'''),
                (r'while let Some\(item\) = stack\.pop\(\) \{', 'after', '''
                let ghost g0 = gs; let ghost cur0 = self.elements@;
                proof {
                    gs = gs.drop_last();
                    assert(g0.last() == (item.index, item.is_close));
                    lemma_nclose_bounds(g0);
                    lemma_nclose_bounds(gs);
                    if gs.len() > 0 { assert(gs[0] == g0[0]); }
                }'''),
                (r'continue;', 'before', '''
                proof {
                    lemma_dfs_pop(es0, cur0, g0);
                    ex = ex.drop_last();
                    assert(self.builder.open() =~= o0 + ex);
                    assert(pend(es0, g0) =~= pend(es0, gs));
                }'''),
                (r'LuaGreenElement::None\);', 'after', '''
                proof {
                    lemma_count_some_take(cur0, item.index as int);
                    if !(es0[item.index as int] is Node) { lemma_dfs_pop(es0, cur0, g0); }
                }'''),
                (r'self\.builder\.start_node\(kind\.into\(\)\);', 'after', '''
                proof {
                    ex = ex.push(self.builder.nchildren());
                    assert(self.builder.open() =~= o0 + ex);
                }'''),
                (r'is_close: true,\s*\}\);', 'after', '''
                proof {
                    gs = gs.push((item.index, true));
                    assert(gs =~= gs_after(g0.drop_last(), item.index, children@, 0));
                }'''),
                (r'is_close: false,\s*\}\);', 'after', '''
                proof {
                    gs = gs.push((*child, false));
                    assert(it.index@ >= 1);
                    assert(*child == children@[children@.len() - it.index@]);
                    assert(gs =~= gs_after(g0.drop_last(), item.index, children@, it.index@));
                }'''),
                (r'\}\);\s*\}', 'after', '''
                proof {
                    assert(kids(es0[item.index as int]) == children@);
                    lemma_dfs_node(es0, cur0, g0, gs);
                    assert(gs[0] == (if g0.len() == 1 { (item.index, true) } else { g0[0] }));
                }'''),
                (r'let start = range\.start_offset;', 'before', '''
                proof {
                    assert(flat(es0, item.index as int) =~= seq![range]);
                    lemma_next_range(done, range, pend(es0, gs), flat(es0, parent as int));
                    assert(range_ok(text, flat(es0, parent as int)[done.len() as int]));
                }'''),
                (r'Ghost\(\(text, range\)\)\);', 'after', '''
                proof {
                    done = done.push(range);
                    assert(self.builder.emitted() =~= em0 + done);
                }'''),
                (r'_ => \{', 'after', '''
                proof {
                    assert(pend(es0, g0) =~= pend(es0, gs));
                }'''),
            ]),
        'LuaGreenNodeBuilder::finish': gb_fn('finish', rules=['mut-self-rebind']),
        'LuaTreeBuilder': {'src': {'file': TB, 'kind': 'struct', 'name': 'LuaTreeBuilder'}, 'rules': [('struct-fields', {})]},
        'LuaTreeBuilder::token': tb_fn('token'),
        'LuaTreeBuilder::start_node': tb_fn('start_node'),
        'LuaTreeBuilder::finish_node': tb_fn('finish_node'),
        'LuaTreeBuilder::build': tb_fn('build', rules=['drain-rev-pop'],
            loops={0: 'invariant true', 1: 'invariant true decreases 0int', 2: 'invariant true decreases parents@.len()'}),
        'LuaTreeBuilder::finish': tb_fn('finish'),
    },
    'extra_rules': [
        ('drain-from-collect', r'(\w+(?:\s*\.\s*\w+)*)\s*\.drain\((\w+)\.\.\)\s*\.collect::<Vec<_>>\(\)', r'vx_drain_from(&mut \1, \2)',
         'V.drain(a..).collect::<Vec<_>>() -> vx_drain_from(&mut V, a) (std doc contract of Vec::drain; the out-of-bounds panic is the helper\'s precondition)'),
        ('drain-incl-collect', r'(\w+(?:\s*\.\s*\w+)*)\s*\.drain\((\w+)\.\.=(\w+)\)\s*\.collect::<Vec<_>>\(\)', r'vx_drain_incl(&mut \1, \2, \3)',
         'V.drain(a..=b).collect::<Vec<_>>() -> vx_drain_incl(&mut V, a, b) (std doc contract of Vec::drain; both panic conditions are the helper\'s precondition)'),
        ('for-iter-name', r'for (\w+) in (\w+)\.iter\(\)\.rev\(\) \{', r'for \1 in it: \2.iter().rev() {',
         '`for x in E` -> `for x in it: E`: Verus syntax that names the ghost view of the iterator so that the loop invariant can mention it; no run-time meaning'),
        ('token-ghost-range', r'let token_text = &text\[start\.\.end\];\s*self\.builder\.token\(kind\.into\(\), token_text\);',
         r'let token_text = &text[start..end];\n                    self.builder.vx_token(kind.into(), token_text, Ghost((text, range)));',
         'self.builder.token(k, &text[start..end]) -> self.builder.vx_token(k, &text[start..end], Ghost((text, range))): adds one erased (ghost) '
         'argument naming the source text and range of the token; vx_token REQUIRES that the passed text is exactly that slice of `text`, so the ghost '
         'argument is checked, not trusted'),
    ],
    'allow': [r'external_body', r'uninterp spec fn', r'assume_specification'],
    'min_obligations': 10,
    'trusted': [],
    'mutants': [],
}
