// ---- interface of unit c01_green (C01/L3): the predicates of the contract of `LuaTreeBuilder::build` / `finish`
// (eaten, ranges_ok, events_ok, parents_ok and what parents_ok is made of). Included by units/c01_green/template.rs and by
// units/c01_compose/template.rs (same text, no copies).
/// C01: the ranges of the `EatToken` events, in event order
pub open spec fn eaten(ev: Seq<MarkEvent>) -> Seq<SourceRange>
    decreases ev.len()
{
    if ev.len() == 0 {
        Seq::<SourceRange>::empty()
    } else {
        match ev.last() {
            MarkEvent::EatToken { range, .. } => eaten(ev.drop_last()).push(range),
            _ => eaten(ev.drop_last()),
        }
    }
}

/// every token range lies inside `text`, on char boundaries (established by the lexer link, unit c01_reader)
pub open spec fn range_ok(text: &str, r: SourceRange) -> bool {
    &&& r.start_offset + r.length <= text.spec_bytes().len()
    &&& r.start_offset + r.length <= usize::MAX
    &&& vstd::utf8::is_char_boundary(text.spec_bytes(), r.start_offset as int)
    &&& vstd::utf8::is_char_boundary(text.spec_bytes(), r.start_offset + r.length)
}
pub open spec fn ranges_ok(text: &str, rs: Seq<SourceRange>) -> bool {
    forall|k: int| 0 <= k < rs.len() ==> range_ok(text, #[trigger] rs[k])
}

// ---------------------------------------------------------------------------------------------
// abstract builder: just enough of the builder state to say when `finish_node` stays in bounds.
// It is a function of the call sequence (hence of the event list) alone: the recorded start indices and, per
// top-level child, whether `is_trivia` / `is_trivia_whitespace` hold for it.
// ---------------------------------------------------------------------------------------------
pub struct AB {
    pub parents: Seq<(LuaSyntaxKind, usize)>,
    /// per top-level child: (is_trivia, is_trivia_whitespace)
    pub fl: Seq<(bool, bool)>,
}

pub open spec fn tk_flags(kind: LuaTokenKind) -> (bool, bool) {
    (kind is TkWhitespace || kind is TkEndOfLine || kind is TkDocContinue, kind is TkWhitespace || kind is TkEndOfLine)
}
pub open spec fn node_flags(kind: LuaSyntaxKind) -> (bool, bool) {
    (kind is Comment || kind is DocDescription, false)
}

pub open spec fn ab_token(a: AB, kind: LuaTokenKind) -> AB {
    AB { parents: a.parents, fl: a.fl.push(tk_flags(kind)) }
}
pub open spec fn ab_start(a: AB, kind: LuaSyntaxKind) -> AB {
    AB { parents: a.parents.push((kind, a.fl.len() as usize)), fl: a.fl }
}

pub open spec fn flag(f: (bool, bool), ws: bool) -> bool { if ws { f.1 } else { f.0 } }

/// `while s > 0 && trivia(children[s-1]) { s -= 1 }`
pub open spec fn scan_back(fl: Seq<(bool, bool)>, s: int) -> int
    decreases s
{
    if 0 < s <= fl.len() && fl[s - 1].0 { scan_back(fl, s - 1) } else { s }
}
/// `while s < n && P(children[s]) { s += 1 }`
pub open spec fn scan_fwd(fl: Seq<(bool, bool)>, s: int, ws: bool) -> int
    decreases fl.len() - s
{
    if 0 <= s < fl.len() && flag(fl[s], ws) { scan_fwd(fl, s + 1, ws) } else { s }
}
/// `while e > s && P(children[e]) { e -= 1 }`
pub open spec fn scan_end(fl: Seq<(bool, bool)>, e: int, s: int, ws: bool) -> int
    decreases e
{
    if 0 <= s < e < fl.len() && flag(fl[e], ws) { scan_end(fl, e - 1, s, ws) } else { e }
}

pub open spec fn ab_top_ok(a: AB) -> bool {
    a.parents.len() > 0 && a.fl.len() > 0 ==> a.parents.last().1 <= a.fl.len()
}

/// `finish_node` on the abstract state (meaningful when `ab_top_ok`)
pub open spec fn ab_finish(a: AB) -> AB {
    if a.parents.len() == 0 || a.fl.len() == 0 {
        a
    } else {
        let kind = a.parents.last().0;
        let fs = a.parents.last().1 as int;
        let n = a.fl.len() as int;
        if kind is Block || kind is Chunk {
            let cs = scan_back(a.fl, fs);
            AB { parents: a.parents.drop_last(), fl: a.fl.subrange(0, cs).push(node_flags(kind)) }
        } else {
            let ws = kind is Comment || kind is TypeMultiLineUnion;
            let cs = scan_fwd(a.fl, fs, ws);
            let ce = scan_end(a.fl, n - 1, cs, ws);
            AB { parents: a.parents.drop_last(), fl: a.fl.subrange(0, cs).push(node_flags(kind)) + a.fl.subrange(ce + 1, n) }
        }
    }
}

// ---------------------------------------------------------------------------------------------
// vocabulary of `LuaTreeBuilder::build`
// ---------------------------------------------------------------------------------------------
/// `MarkEvent::none()`
pub open spec fn none_ev() -> MarkEvent {
    MarkEvent::NodeStart { kind: LuaSyntaxKind::None, parent: 0 }
}

/// assumption on the event list (established by the marker API, unit c01_parser: `CompleteMarker::precede` is the
/// only writer of `parent`, and it stores the position of the `NodeStart` it has just pushed — a later event):
/// a non-zero `parent` link points to a later `NodeStart`
pub open spec fn events_ok(ev: Seq<MarkEvent>) -> bool {
    forall|i: int| 0 <= i < ev.len() ==>
        (#[trigger] ev[i] matches MarkEvent::NodeStart { parent, .. } ==> parent == 0 || (i < parent < ev.len() && ev[parent as int] is NodeStart))
}

/// the walk over `parent` links in `build`: visited events are replaced by `none()`, their kinds collected
pub open spec fn walk(ev: Seq<MarkEvent>, pp: int, acc: Seq<LuaSyntaxKind>) -> (Seq<MarkEvent>, Seq<LuaSyntaxKind>)
    decreases ev.len() - pp
{
    if 0 < pp < ev.len() {
        match ev[pp] {
            MarkEvent::NodeStart { kind, parent } =>
                if pp < parent as int && (parent as int) < ev.len() { walk(ev.update(pp, none_ev()), parent as int, acc.push(kind)) }
                else { (ev.update(pp, none_ev()), acc.push(kind)) },
            _ => (ev, acc),
        }
    } else {
        (ev, acc)
    }
}

/// `for kind in kinds.drain(..).rev() { start_node(kind) }`
pub open spec fn ab_starts_rev(a: AB, kinds: Seq<LuaSyntaxKind>) -> AB
    decreases kinds.len()
{
    if kinds.len() == 0 { a } else { ab_starts_rev(ab_start(a, kinds.last()), kinds.drop_last()) }
}

/// state of `build` between two iterations of its outer loop: the (partly consumed) event list and the abstract builder
pub struct Sim {
    pub ev: Seq<MarkEvent>,
    pub ab: AB,
}

pub open spec fn sim_step(s: Sim, i: int) -> Sim {
    let ev1 = s.ev.update(i, none_ev());
    match s.ev[i] {
        MarkEvent::NodeStart { kind, parent } =>
            if kind is None { Sim { ev: ev1, ab: s.ab } }
            else { let w = walk(ev1, parent as int, seq![kind]); Sim { ev: w.0, ab: ab_starts_rev(s.ab, w.1) } },
        MarkEvent::Trivia => Sim { ev: ev1, ab: s.ab },
        MarkEvent::NodeEnd => Sim { ev: ev1, ab: ab_finish(s.ab) },
        MarkEvent::EatToken { kind, .. } => Sim { ev: ev1, ab: ab_token(s.ab, kind) },
    }
}

pub open spec fn ab_empty() -> AB {
    AB { parents: Seq::<(LuaSyntaxKind, usize)>::empty(), fl: Seq::<(bool, bool)>::empty() }
}

pub open spec fn sim(ev0: Seq<MarkEvent>, i: int) -> Sim
    decreases i
{
    if i <= 0 { Sim { ev: ev0, ab: ab_start(ab_empty(), LuaSyntaxKind::Chunk) } } else { sim_step(sim(ev0, i - 1), i - 1) }
}

/// assumption A-EV on the event list: whenever `build` calls `finish_node`, the start index recorded for the node
/// being finished is not beyond the end of the child list. Stated on the abstract builder, i.e. as a property of the
/// event list alone (it is exactly the condition under which `finish_node`'s `drain`/index stay in bounds).
pub open spec fn parents_ok(ev0: Seq<MarkEvent>) -> bool {
    &&& forall|i: int| 0 <= i < ev0.len() && (#[trigger] sim(ev0, i)).ev[i] is NodeEnd ==> ab_top_ok(sim(ev0, i).ab)
    &&& ab_top_ok(sim(ev0, ev0.len() as int).ab)
}