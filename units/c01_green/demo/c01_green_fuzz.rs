// Token-soup search used for unit c01_green (NOT part of the Verus unit): looks for panics inside the tree builders
// (assumption A-EV `parents_ok`) and for lossy trees (C01).
//   FUZZ_N=400000 cargo test --release -p emmylua_parser --offline --test c01_green_fuzz -- --nocapture
// Unrepaired tree: runs=400000 panics=0 lossy=7746.   With fix_finish.diff: runs=400000 panics=0 lossy=0.
// scratch: token-soup search for a panic inside the tree builders (parents_ok question)
use emmylua_parser::{LuaLanguageLevel, LuaParser, ParserConfig};

const VOCAB: &[&str] = &[
    " ", "\n", "\n", " ", "--c\n", "---@type x\n", "--[[c]]", "---\n", "--region\n",
    "function", "local", "end", "do", "if", "then", "else", "elseif", "while", "repeat", "until",
    "for", "in", "return", "break", "goto", "::", "x", "f", "1", "\"s\"", "(", ")", "{", "}", "[", "]",
    ",", ";", "=", ".", ":", "...", "+", "-", "not", "and", "|", "||", "->", "?", "global", "<", ">", "#",
    "---@param a b\n", "---@class A\n---@field x y\n", "---|", "`", "@", "\\", "\r\n", "\t",
];

#[test]
fn fuzz() {
    std::panic::set_hook(Box::new(|_| {}));
    let n: u64 = std::env::var("FUZZ_N").ok().and_then(|s| s.parse().ok()).unwrap_or(300_000);
    let mut s: u64 = 0x9E3779B97F4A7C15;
    let mut next = move || { s ^= s << 13; s ^= s >> 7; s ^= s << 17; s };
    let levels = [LuaLanguageLevel::Lua55, LuaLanguageLevel::LuaJIT3, LuaLanguageLevel::Lua51, LuaLanguageLevel::LuaJIT];
    let mut panics = 0; let mut lossy = 0;
    let mut shown_p = 0; let mut shown_l = 0;
    for it in 0..n {
        let len = 1 + (next() % 10) as usize;
        let mut input = String::new();
        for _ in 0..len { input.push_str(VOCAB[(next() % VOCAB.len() as u64) as usize]); }
        let level = levels[(it % 4) as usize];
        let inp = input.clone();
        let r = std::panic::catch_unwind(move || {
            let tree = LuaParser::parse(&inp, ParserConfig::with_level(level));
            tree.get_red_root().text().to_string()
        });
        match r {
            Ok(t) => if t != input { lossy += 1; if shown_l < 15 { shown_l += 1; println!("LOSSY level={:?} input={:?} tree={:?}", level, input, t); } },
            Err(e) => { panics += 1; if shown_p < 25 { shown_p += 1;
                let msg = if let Some(s) = e.downcast_ref::<String>() { s.clone() } else if let Some(s) = e.downcast_ref::<&str>() { s.to_string() } else { "?".into() };
                println!("PANIC level={:?} input={:?} msg={}", level, input, msg); } }
        }
    }
    println!("runs={} panics={} lossy={}", n, panics, lossy);
}
