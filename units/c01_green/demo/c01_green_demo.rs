// Demonstration for unit c01_green (NOT part of the Verus unit; not included by the template).
// Copy to <repo>/crates/emmylua_parser/tests/c01_green_demo.rs and run
//   cargo test -p emmylua_parser --offline --test c01_green_demo -- --nocapture --test-threads=1
// Unrepaired tree:  input="x--region\n;" tree_text="x--region\n" lossless=false   (also "{;do" -> "{;", "{,end" -> "{,")
// With fix_finish.diff: all four inputs lossless=true.
use emmylua_parser::{LuaParser, ParserConfig};

fn tree_text(input: &str) -> Result<String, String> {
    let input = input.to_string();
    std::panic::catch_unwind(move || {
        let tree = LuaParser::parse(&input, ParserConfig::default());
        tree.get_red_root().text().to_string()
    })
    .map_err(|e| {
        if let Some(s) = e.downcast_ref::<String>() { s.clone() }
        else if let Some(s) = e.downcast_ref::<&str>() { s.to_string() }
        else { "panic".to_string() }
    })
}

#[test]
fn lossy_inputs() {
    for input in ["x--region\n;", "{;do", "{,end", "local x = 1\n"] {
        match tree_text(input) {
            Ok(t) => println!("input={:?} tree_text={:?} lossless={}", input, t, t == input),
            Err(e) => println!("input={:?} PANIC {}", input, e),
        }
    }
}

#[test]
fn parents_ok_candidates() {
    for input in [
        "function f\n\nlocal x end",
        "function f\n \nlocal x end",
        "function f \n local x end",
        "function f\n--c\nlocal x end",
        "local function f\n\nlocal x end",
        "local f = function\n\nlocal x end",
        "function f\n\n\nreturn end",
    ] {
        match tree_text(input) {
            Ok(t) => println!("input={:?} tree_text={:?} lossless={}", input, t, t == input),
            Err(e) => println!("input={:?} PANIC {}", input, e),
        }
    }
}

#[test]
fn dump() {
    for input in ["function f\n\nlocal x end", "x--region\n;"] {
        let tree = LuaParser::parse(input, ParserConfig::default());
        println!("{:#?}", tree.get_red_root());
    }
}
