"""unit c01_compose — machine-checked glue between the three links of C01 ("syntax trees are lossless"):

    L1 c01_reader  LuaLexer::tokenize ensures  tiled(tokens, bytes(text), 0, len)
    L2 c01_parser  parse_chunk        requires tokens_ok(tokens)           ensures emits(eaten(events), ranges(tokens), doc), events_ok(events)
    L3 c01_green   build + finish     requires ranges_ok(text, eaten(events)), events_ok, parents_ok   ensures leaves == eaten(events)

The predicates are NOT retyped here: the template pastes units/c01_reader/iface.rs, units/c01_parser/iface.rs and
units/c01_green/iface.rs (the same files the three units include) into the modules l1, l2, l3. The unit contains no code
under proof: only the five data types the predicates talk about are extracted (once each), everything else is lemmas."""

TK = 'crates/emmylua_parser/src/kind/lua_token_kind.rs'
SK = 'crates/emmylua_parser/src/kind/lua_syntax_kind.rs'
TD = 'crates/emmylua_parser/src/lexer/token_data.rs'
TR = 'crates/emmylua_parser/src/text/text_range.rs'
M = 'crates/emmylua_parser/src/parser/marker.rs'

UNIT = {
    'items': {
        # same `src` specs as c01_reader / c01_parser / c01_green; the derives of the repository are dropped (default of the
        # extractor): the types occur in specifications only, where equality is structural and nothing is copied or compared at run time
        'LuaTokenKind': {'src': {'file': TK, 'kind': 'enum', 'name': 'LuaTokenKind'}},
        'LuaSyntaxKind': {'src': {'file': SK, 'kind': 'enum', 'name': 'LuaSyntaxKind'}},
        'SourceRange': {'src': {'file': TR, 'kind': 'struct', 'name': 'SourceRange'}},
        'LuaTokenData': {'src': {'file': TD, 'kind': 'struct', 'name': 'LuaTokenData'}},
        'MarkEvent': {'src': {'file': M, 'kind': 'enum', 'name': 'MarkEvent'}},
    },
    'allow': [],            # no assume / admit / external_body / uninterp / axiom anywhere in this unit
    'min_obligations': 21,     # 12 proof fns + 9 termination checks of recursive spec fns (eaten x2, scan_* x3, walk, ab_starts_rev, sim, concat_slices)
    'trusted': [
        'the theorem is a statement about the CONTRACTS of the three units: its hypotheses H-L1, H-L2, H-L3 are the (proved) top-level contracts of '
        'c01_reader / c01_parser / c01_green, taken as implications; that the values `toks`, `events`, `leaves` are the ones flowing through '
        'LuaParser::parse (tokenize -> parse_chunk -> LuaTreeBuilder::build/finish on the same `text`) is read off lua_parser.rs:50-84, not proved',
        'ASSUMED, no unit proves it: H-DOC (doc mode only) every EatToken range emitted by LuaDocParser starts on a char boundary of the text',
        'ASSUMED, no unit proves it: parents_ok(events) (precondition of LuaTreeBuilder::build, see c01_green)',
        'events_ok(events) (the other precondition of build) is NOT a free hypothesis any more: it follows from H-L2ev = the exit contract of '
        'c01_parser::parse_chunk (tokens_ok(toks) ==> events_ok(events)). PROVED there: the marker API and the parser driver preserve events_ok, and it '
        'holds of the empty list; ASSUMED there: the external_body shims parse_stats and LuaDocParser::parse preserve events_ok',
        'ASSUMED inside H-L2 and H-L2ev (see c01_parser): the contracts of LuaDocParser::parse and parse_stats',
        'ASSUMED inside H-L3 (see c01_green): rowan (L4) `leaves()` of the finished tree == ranges handed to GreenNodeBuilder::token; byte content of `&text[a..b]` is bytes(text)[a..b]',
        'str_len_ok(text): a &str is at most usize::MAX bytes long',
    ],
    'not_covered': [
        'no executable code is verified in this unit',
        'concat_slices is a byte-level statement; the str-level reading (token text = &text[start..end]) is rowan/L4 + rule token-ghost-range of c01_green',
    ],
    'samples': [
        'G1 tiled(toks, b, 0, n) && toks.len() < 2^31-1  ==>  tokens_ok(toks)',
        'G2 emits(eaten(events), ranges(toks), doc) && tiled(..)  ==>  chain(eaten(events), 0, n) and (non-doc, or doc + starts on char boundaries) ranges_ok(text, eaten(events))',
        'G3 leaves == eaten(events) && chain(eaten(events), 0, n)  ==>  concat_slices(b, leaves) == b',
        'G4 (C02) no_soft_kinds(toks) [c01_reader: LuaLexer::tokenize]  ==>  nosoft_at(toks, 0) [precondition nosoft of parse_chunk in the grammar units]; '
        'with tiled + the token bound also tokens_ok(toks): the whole token-stream precondition of parse_chunk (predicates: units/c02_grammar/nosoft_iface.rs, the same file c01_reader and gspec.rs include)',
        'theorem_lossless: G1, G2, G3 chained; events_ok(events) derived from the c01_parser exit contract (H-L2ev) via G1; every remaining hypothesis explicit',
    ],
    'mutants': [],          # nothing extracted but type definitions; negative lemmas are listed in the unit report instead
}
