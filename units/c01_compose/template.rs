// unit c01_compose — C01 "syntax trees are lossless": the machine-checked glue between
//   L1 (c01_reader: the lexer's tokens tile the text), L2 (c01_parser: every token is emitted once, in order) and
//   L3 (c01_green: the tree builders keep every emitted range, in order).
// Nothing here is code under proof. The interface predicates are NOT typed by hand: the modules l1 / l2 / l3 paste the
// very files the three units include (units/<unit>/iface.rs). The five data types are extracted from the repository, once.
// Name clash: `eaten` is defined by c01_parser and by c01_green (same meaning, different text) -> separate modules, and
// `lemma_eaten_agree` proves the two definitions equal.
use vstd::prelude::*;
use vstd::utf8::*;
use vstd::string::*;
verus! {

// ---------------------------------------------------------------------------------------------
// extracted data types (each one once)
// ---------------------------------------------------------------------------------------------
//@@ LuaTokenKind

//@@ LuaSyntaxKind

//@@ SourceRange

//@@ LuaTokenData

//@@ MarkEvent

// ---------------------------------------------------------------------------------------------
// the three interfaces, verbatim
// ---------------------------------------------------------------------------------------------
/// L1, unit c01_reader: `str_len_ok`, `tok_end`, `tok_ok`, `tiled`
pub mod l1 {
    use vstd::prelude::*;
    use vstd::utf8::*;
    use vstd::string::*;
    use super::*;
//@@include c01_reader/iface.rs
}

/// L2, unit c01_parser: `rend`, `eaten`, `ranges`, `adjacent`, `chain`, `chain_over`, `emits`, `tokens_ok`, ...
pub mod l2 {
    use vstd::prelude::*;
    use super::*;
//@@include c01_parser/iface.rs
}

/// L3, unit c01_green: `eaten`, `range_ok`, `ranges_ok`, `events_ok`, `parents_ok` (+ the abstract builder it is made of)
pub mod l3 {
    use vstd::prelude::*;
    use vstd::string::*;
    use super::*;
//@@include c01_green/iface.rs
}

/// C02, "no soft-keyword token kinds": `soft_kind`, `no_soft_kinds` (ensured by c01_reader's LuaLexer::tokenize), `nosoft_at`, `tok_soft`
/// (precondition `nosoft` of parse_chunk in the grammar units c02_gstat / c02_gexpr / c02_grammar) — the file all of them include
pub mod ns {
    use vstd::prelude::*;
    use super::*;
//@@include c02_grammar/nosoft_iface.rs
}

// ---------------------------------------------------------------------------------------------
// G0: the two definitions of `eaten` (c01_parser / c01_green) denote the same function
// ---------------------------------------------------------------------------------------------
pub proof fn lemma_eaten_agree(ev: Seq<MarkEvent>)
    ensures
        l2::eaten(ev) == l3::eaten(ev), /*@C01.compose.eaten-definitions-agree*/
    decreases ev.len(),
{
    if ev.len() > 0 {
        lemma_eaten_agree(ev.drop_last());
    }
}

// ---------------------------------------------------------------------------------------------
// G1: L1's conclusion establishes L2's assumed precondition
// ---------------------------------------------------------------------------------------------
/// `tiled` (base 0) gives adjacency of the token ranges in c01_parser's vocabulary
pub proof fn lemma_tiled_adjacent(toks: Seq<LuaTokenData>, b: Seq<u8>, n: int)
    requires
        l1::tiled(toks, b, 0, n),
    ensures
        l2::adjacent(l2::ranges(toks)),
        l2::chain(l2::ranges(toks), 0, n),
{
    let r = l2::ranges(toks);
    assert forall|i: int| #![trigger r[i]] 0 <= i < r.len() - 1 implies l2::rend(r[i]) == r[i + 1].start_offset by {
        assert(l1::tok_end(toks[i]) == toks[i + 1].range.start_offset);
    }
    if toks.len() > 0 {
        assert(r[0] == toks[0].range);
        assert(r.last() == toks.last().range);
    }
}

/// (G1) the only thing `tokens_ok` asks for that `tiled` does not give is the bound on the NUMBER of tokens
/// (`parse_trivia_tokens` counts line ends in an `i32`)
pub proof fn lemma_g1_tokens_ok(toks: Seq<LuaTokenData>, b: Seq<u8>, n: int)
    requires
        l1::tiled(toks, b, 0, n),
        toks.len() < 0x7fff_ffff,
    ensures
        l2::tokens_ok(toks), /*@C01.compose.g1-tiled-implies-tokens-ok*/
{
    lemma_tiled_adjacent(toks, b, n);
    assert forall|i: int| 0 <= i < toks.len() implies (#[trigger] toks[i]).range.length > 0 && !(toks[i].kind is None) && !(toks[i].kind is TkEof) by {
        assert(l1::tok_ok(toks[i], b, 0));
    }
}

// ---------------------------------------------------------------------------------------------
// chains
// ---------------------------------------------------------------------------------------------
pub proof fn lemma_chain_lo(d: Seq<SourceRange>, a: int, m: int, k: int)
    requires
        l2::chain(d, a, m),
        0 <= k < d.len(),
    ensures
        a <= d[k].start_offset,
    decreases k,
{
    if k > 0 {
        lemma_chain_lo(d, a, m, k - 1);
        assert(l2::rend(d[k - 1]) == d[k - 1 + 1].start_offset);
    }
}

pub proof fn lemma_chain_hi(d: Seq<SourceRange>, a: int, m: int, k: int)
    requires
        l2::chain(d, a, m),
        0 <= k < d.len(),
    ensures
        l2::rend(d[k]) <= m,
    decreases d.len() - k,
{
    if k < d.len() - 1 {
        lemma_chain_hi(d, a, m, k + 1);
        assert(l2::rend(d[k]) == d[k + 1].start_offset);
    }
}

// ---------------------------------------------------------------------------------------------
// G2: L2's exit condition + L1 ==> the eaten ranges tile [0, n) and satisfy L3's assumed `ranges_ok`
// ---------------------------------------------------------------------------------------------
/// (G2a) both forms of `emits` (non-doc: equal to the token ranges; doc: tile the same byte span in order):
/// the eaten ranges start at 0, are adjacent and end at n
pub proof fn lemma_g2_tiles(toks: Seq<LuaTokenData>, b: Seq<u8>, n: int, events: Seq<MarkEvent>, doc: bool)
    requires
        l1::tiled(toks, b, 0, n),
        l2::emits(l2::eaten(events), l2::ranges(toks), doc),
    ensures
        l2::chain(l2::eaten(events), 0, n), /*@C01.compose.g2-eaten-ranges-tile-the-text*/
{
    reveal(l2::emits);
    let r = l2::ranges(toks);
    lemma_tiled_adjacent(toks, b, n);
    if doc {
        if r.len() > 0 {
            assert(r[0] == toks[0].range);
            assert(r.last() == toks.last().range);
        }
    }
}

/// the part of `ranges_ok` that the DOC form of L2 does not give: the doc parser re-lexes the comment text, so its
/// EatToken ranges are not lexer tokens; that they start on char boundaries is a property of LuaDocLexer/LuaDocParser
/// (not extracted by any unit). Ends need no assumption: an end is the next start, or the end of the last lexer token.
pub open spec fn doc_starts_on_boundaries(b: Seq<u8>, d: Seq<SourceRange>) -> bool {
    forall|k: int| 0 <= k < d.len() ==> is_char_boundary(b, (#[trigger] d[k]).start_offset as int)
}

/// (G2b) `ranges_ok(text, eaten(events))` of c01_green: inside the text, no overflow, char boundaries.
/// Non-doc form: no further hypothesis. Doc form: inside-the-text and no-overflow are derived, the char boundaries of the
/// starts are the hypothesis `doc_starts_on_boundaries`.
pub proof fn lemma_g2_ranges_ok(text: &str, toks: Seq<LuaTokenData>, events: Seq<MarkEvent>, doc: bool)
    requires
        l1::str_len_ok(text),
        l1::tiled(toks, text.spec_bytes(), 0, text.spec_bytes().len() as int),
        l2::emits(l2::eaten(events), l2::ranges(toks), doc),
        doc ==> doc_starts_on_boundaries(text.spec_bytes(), l2::eaten(events)),
    ensures
        l3::ranges_ok(text, l3::eaten(events)), /*@C01.compose.g2-ranges-ok*/
{
    let b = text.spec_bytes();
    let n = b.len() as int;
    let e = l2::eaten(events);
    let r = l2::ranges(toks);
    lemma_eaten_agree(events);
    lemma_g2_tiles(toks, b, n, events, doc);
    assert forall|k: int| 0 <= k < e.len() implies l3::range_ok(text, #[trigger] e[k]) by {
        lemma_chain_hi(e, 0, n, k);
        if doc {
            reveal(l2::emits);
            // e is not empty, so there is a last lexer token; it ends at n, on a char boundary
            assert(toks.len() > 0);
            assert(l1::tok_ok(toks.last(), b, 0));
            assert(is_char_boundary(b, n));
            if k < e.len() - 1 {
                assert(l2::rend(e[k]) == e[k + 1].start_offset);
            }
        } else {
            reveal(l2::emits);
            assert(e[k] == toks[k].range);
            assert(l1::tok_ok(toks[k], b, 0));
        }
    }
}

// ---------------------------------------------------------------------------------------------
// G3: the statement of C01
// ---------------------------------------------------------------------------------------------
/// the concatenation of the byte slices `b[r.start .. r.end]` over `rs`, in order
pub open spec fn concat_slices(b: Seq<u8>, rs: Seq<SourceRange>) -> Seq<u8>
    decreases rs.len(),
{
    if rs.len() == 0 {
        Seq::<u8>::empty()
    } else {
        concat_slices(b, rs.drop_last()) + b.subrange(rs.last().start_offset as int, l2::rend(rs.last()))
    }
}

/// ranges that tile [0, m) concatenate to the first m bytes
pub proof fn lemma_concat_chain(b: Seq<u8>, rs: Seq<SourceRange>, m: int)
    requires
        l2::chain(rs, 0, m),
        m <= b.len(),
    ensures
        concat_slices(b, rs) == b.subrange(0, m),
    decreases rs.len(),
{
    if rs.len() == 0 {
        assert(b.subrange(0, 0) =~= Seq::<u8>::empty());
    } else {
        let p = rs.drop_last();
        let s = rs.last().start_offset as int;
        if p.len() > 0 {
            assert(p[0] == rs[0]);
            assert(p.last() == rs[rs.len() - 2]);
            assert(l2::rend(rs[rs.len() - 2]) == rs[rs.len() - 2 + 1].start_offset);
            assert forall|i: int| #![trigger p[i]] 0 <= i < p.len() - 1 implies l2::rend(p[i]) == p[i + 1].start_offset by {
                assert(p[i] == rs[i]);
                assert(p[i + 1] == rs[i + 1]);
            }
        }
        assert(l2::chain(p, 0, s));
        lemma_concat_chain(b, p, s);
        assert(b.subrange(0, s) + b.subrange(s, m) =~= b.subrange(0, m));
    }
}

/// (G3) if the tree's leaves are the eaten ranges and these tile [0, n), the tree text is the input, byte for byte
pub proof fn lemma_g3_lossless(b: Seq<u8>, events: Seq<MarkEvent>, leaves: Seq<SourceRange>)
    requires
        leaves == l3::eaten(events),
        l2::chain(l2::eaten(events), 0, b.len() as int),
    ensures
        concat_slices(b, leaves) == b, /*@C01.compose.tree-text-equals-input*/
{
    lemma_eaten_agree(events);
    lemma_concat_chain(b, leaves, b.len() as int);
    assert(b.subrange(0, b.len() as int) =~= b);
}

// ---------------------------------------------------------------------------------------------
// G4 (C02): the lexer output satisfies the precondition the grammar units add to parse_chunk
// ---------------------------------------------------------------------------------------------
/// `no_soft_kinds(toks)` (PROVED by c01_reader: postcondition of LuaLexer::tokenize, label C02.lexer.no-soft-keyword-kinds) is the
/// grammar's `nosoft` at cursor 0 (`nosoft(p) == nosoft_at(p.tokens@, p.token_index)`, parse_chunk starts with token_index == 0)
pub proof fn lemma_g4_nosoft(toks: Seq<LuaTokenData>)
    requires
        ns::no_soft_kinds(toks),
    ensures
        ns::nosoft_at(toks, 0), /*@C02.compose.lexer-output-is-nosoft*/
{
    assert forall|j: int| 0 <= j < toks.len() implies !#[trigger] ns::tok_soft(toks, j) by {
        assert(!ns::soft_kind(toks[j].kind));
    }
}

/// everything parse_chunk requires of the token stream in the grammar units, from the two proved postconditions of the lexer
/// (`tiled`, `no_soft_kinds`) and the input bound H-NTOK
pub proof fn lemma_g4_parse_chunk_pre(toks: Seq<LuaTokenData>, b: Seq<u8>, n: int)
    requires
        l1::tiled(toks, b, 0, n),
        toks.len() < 0x7fff_ffff,
        ns::no_soft_kinds(toks),
    ensures
        l2::tokens_ok(toks),
        ns::nosoft_at(toks, 0), /*@C02.compose.lexer-output-is-nosoft*/
{
    lemma_g1_tokens_ok(toks, b, n);
    lemma_g4_nosoft(toks);
}

// ---------------------------------------------------------------------------------------------
// the top theorem
// ---------------------------------------------------------------------------------------------
/// C01 for one run of `LuaParser::parse(text, config)`:
///   toks   = LuaLexer::new(Reader::new(text), ..).tokenize()
///   events = parser.events after parse_chunk(&mut parser)           (doc = config.support_emmylua_doc())
///   leaves = (LuaTreeBuilder::new(text, events, ..).build(); .finish()).leaves()
/// Hypotheses marked PROVED are the verified top-level contracts of the three units (stated as implications whose
/// premises — the inter-unit assumptions — are discharged HERE); the ones marked ASSUMED are proved by no unit.
/// `events_ok(events)` (precondition of `build`) is no longer a free hypothesis: it is the conclusion of H-L2ev, whose premise
/// `tokens_ok(toks)` is discharged by G1.
pub proof fn theorem_lossless(text: &str, toks: Seq<LuaTokenData>, events: Seq<MarkEvent>, doc: bool, leaves: Seq<SourceRange>)
    requires
        // H-LEN   ASSUMED (std: a &str is at most isize::MAX bytes; trusted in c01_reader as precondition of Reader::new)
        l1::str_len_ok(text),
        // H-L1    PROVED by c01_reader (LuaLexer::tokenize on a fresh Reader::new(text): valid_range.start_offset == 0)
        l1::tiled(toks, text.spec_bytes(), 0, text.spec_bytes().len() as int),
        // H-NTOK  ASSUMED input bound: fewer than 2^31 - 1 tokens (the part of tokens_ok that L1 does not give)
        toks.len() < 0x7fff_ffff,
        // H-L2    PROVED by c01_parser (parse_chunk), modulo its ASSUMED contracts of LuaDocParser::parse and parse_stats
        l2::tokens_ok(toks) ==> l2::emits(l2::eaten(events), l2::ranges(toks), doc),
        // H-DOC   ASSUMED (doc mode only): the EatToken ranges of the re-lexed doc tokens start on char boundaries
        doc ==> doc_starts_on_boundaries(text.spec_bytes(), l2::eaten(events)),
        // H-L2ev  PROVED by c01_parser (parse_chunk `ensures l3::events_ok(final(p).events@)`, label C02.events-ok-preserved; same premise
        //         as H-L2; `l3::events_ok` there is this very text, units/c01_green/iface.rs pasted into its `mod l3`): proved for the marker
        //         API (mark, push_node_end, Marker::{set_kind,complete,undo}, CompleteMarker::precede) and the driver (init, bump,
        //         set_current_token_kind, parse_trivia_tokens, parse_comments, parse_chunk); modulo the ASSUMED contracts of
        //         LuaDocParser::parse and parse_stats, which include "preserves events_ok" (they reach `events` only through the proved API)
        l2::tokens_ok(toks) ==> l3::events_ok(events),
        // H-PAR   ASSUMED precondition of LuaTreeBuilder::build (c01_green): node ends match node starts (depends on the unextracted grammar)
        l3::parents_ok(events),
        // H-L3    PROVED by c01_green (LuaTreeBuilder::build + finish), modulo the ASSUMED rowan contract L4 (`leaves()`)
        (l3::ranges_ok(text, l3::eaten(events)) && l3::events_ok(events) && l3::parents_ok(events)) ==> leaves == l3::eaten(events),
    ensures
        l2::tokens_ok(toks),
        l3::events_ok(events), /*@C01.compose.events-ok-from-parser-contract*/
        l3::ranges_ok(text, l3::eaten(events)),
        leaves == l2::eaten(events),
        l2::chain(leaves, 0, text.spec_bytes().len() as int),
        concat_slices(text.spec_bytes(), leaves) == text.spec_bytes(), /*@C01.compose.theorem*/
{
    let b = text.spec_bytes();
    let n = b.len() as int;
    lemma_g1_tokens_ok(toks, b, n);
    lemma_g2_tiles(toks, b, n, events, doc);
    lemma_g2_ranges_ok(text, toks, events, doc);
    lemma_eaten_agree(events);
    lemma_g3_lossless(b, events, leaves);
}

} // verus!
fn main() {}
