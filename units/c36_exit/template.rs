// unit c36_exit — C36 "The checker's exit status and reports match the diagnostics" (exit-status and
// filter sentences). Slices of `output_result` (the per-file body of its receive loop and its final
// expression) + `DiagnosticSeverityFilter::allows`.
#![feature(allocator_api)]
use vstd::prelude::*;
use std::alloc::Allocator;
verus! {

// ---- shims ----------------------------------------------------------------------------------
/// lsp_types::DiagnosticSeverity: a transparent i32 newtype with associated consts ERROR=1 … HINT=4,
/// derive(PartialOrd) compares the integers.
#[derive(Clone, Copy, PartialEq, Eq)]
pub struct DiagnosticSeverity(pub i32);
impl DiagnosticSeverity {
    pub const ERROR: DiagnosticSeverity = DiagnosticSeverity(1);
    pub const WARNING: DiagnosticSeverity = DiagnosticSeverity(2);
    pub const INFORMATION: DiagnosticSeverity = DiagnosticSeverity(3);
    pub const HINT: DiagnosticSeverity = DiagnosticSeverity(4);
}
impl vstd::std_specs::cmp::PartialOrdSpecImpl for DiagnosticSeverity {
    open spec fn obeys_partial_cmp_spec() -> bool { true }
    open spec fn partial_cmp_spec(&self, other: &DiagnosticSeverity) -> Option<core::cmp::Ordering> {
        if self.0 < other.0 { Some(core::cmp::Ordering::Less) }
        else if self.0 == other.0 { Some(core::cmp::Ordering::Equal) }
        else { Some(core::cmp::Ordering::Greater) }
    }
}
impl PartialOrd for DiagnosticSeverity {
    fn partial_cmp(&self, other: &DiagnosticSeverity) -> Option<core::cmp::Ordering> {
        if self.0 < other.0 { Some(core::cmp::Ordering::Less) }
        else if self.0 == other.0 { Some(core::cmp::Ordering::Equal) }
        else { Some(core::cmp::Ordering::Greater) }
    }
}

pub mod lsp_types {
    pub use super::DiagnosticSeverity;
}

pub struct Diagnostic { pub severity: Option<DiagnosticSeverity>, pub id: u64 }

#[derive(Clone, Copy, PartialEq, Eq)]
pub struct FileId { pub id: u32 }
#[verifier::external_body]
pub struct DbIndex { _p: () }

/// the three output writers behind `Box<dyn OutputWriter>`: ghost log of what they were handed
pub struct Writer { pub log: Ghost<Seq<(FileId, Seq<Diagnostic>)>> }
impl Writer {
    #[verifier::external_body]
    pub fn write(&mut self, db: &DbIndex, file_id: FileId, diagnostics: Vec<Diagnostic>)
        ensures final(self).log@ == old(self).log@.push((file_id, diagnostics@)),
    { }
}

// ---- std contract (trusted): Vec::retain keeps exactly the elements for which the predicate holds, in order
pub open spec fn filter_by<T>(s: Seq<T>, keep: Seq<bool>) -> Seq<T>
    decreases s.len()
{
    if s.len() == 0 || keep.len() != s.len() { Seq::empty() }
    else if keep.last() { filter_by(s.drop_last(), keep.drop_last()).push(s.last()) }
    else { filter_by(s.drop_last(), keep.drop_last()) }
}

pub assume_specification<T, A: Allocator, F: FnMut(&T) -> bool>[ Vec::<T, A>::retain ](v: &mut Vec<T, A>, f: F)
    requires
        forall|i: int| 0 <= i < old(v)@.len() ==> call_requires(f, (&#[trigger] old(v)@[i],)),
    ensures
        exists|keep: Seq<bool>| keep.len() == old(v)@.len()
            && (forall|i: int| 0 <= i < keep.len() ==> call_ensures(f, (&old(v)@[i],), #[trigger] keep[i]))
            && final(v)@ == filter_by(old(v)@, keep);

// ---- property vocabulary ----------------------------------------------------------------------
/// `--severity` keeps a diagnostic iff it has a severity at or above the threshold (numerically <=)
pub open spec fn threshold(f: DiagnosticSeverityFilter) -> int {
    match f {
        DiagnosticSeverityFilter::Error => 1,
        DiagnosticSeverityFilter::Warn => 2,
        DiagnosticSeverityFilter::Info => 3,
        DiagnosticSeverityFilter::Hint => 4,
    }
}
pub open spec fn passes(filter: Option<DiagnosticSeverityFilter>, d: Diagnostic) -> bool {
    match filter {
        None => true,
        Some(f) => (d.severity matches Some(s) && s.0 <= threshold(f)),
    }
}
/// "is an error, or a warning under --warnings-as-errors"
pub open spec fn is_err(d: Diagnostic, wae: bool) -> bool {
    (d.severity matches Some(s) && s.0 == 1) || (wae && (d.severity matches Some(s) && s.0 == 2))
}
pub open spec fn any_err(ds: Seq<Diagnostic>, wae: bool) -> bool {
    exists|i: int| 0 <= i < ds.len() && is_err(#[trigger] ds[i], wae)
}
/// order-preserving sub-sequence of `all` holding exactly the elements that pass the filter
pub open spec fn is_filtered(all: Seq<Diagnostic>, filter: Option<DiagnosticSeverityFilter>, out: Seq<Diagnostic>) -> bool {
    exists|keep: Seq<bool>| keep.len() == all.len()
        && (forall|i: int| 0 <= i < keep.len() ==> #[trigger] keep[i] == passes(filter, all[i]))
        && out == filter_by(all, keep)
}

//@@include c36_exit/lemmas.rs

// ---- extracted from /repo -----------------------------------------------------------------------
//@@ DiagnosticSeverityFilter

impl vstd::std_specs::convert::FromSpecImpl<DiagnosticSeverityFilter> for DiagnosticSeverity {
    open spec fn obeys_from_spec() -> bool { true }
    open spec fn from_spec(v: DiagnosticSeverityFilter) -> DiagnosticSeverity { DiagnosticSeverity(threshold(v) as i32) }
}
impl From<DiagnosticSeverityFilter> for DiagnosticSeverity {
    //@@ DiagnosticSeverityFilter::into_severity
}

impl DiagnosticSeverityFilter {
    //@@ DiagnosticSeverityFilter::allows
}

//@@ output_result::per_file
//@@ output_result::exit_code

} // verus!
fn main() {}
