OUT = 'crates/emmylua_check/src/output/mod.rs'
ARGS = 'crates/emmylua_check/src/cmd_args.rs'
HOST = {'file': OUT, 'kind': 'fn', 'name': 'output_result'}

UNIT = {
    'items': {
        'DiagnosticSeverityFilter': {'src': {'file': ARGS, 'kind': 'enum', 'name': 'DiagnosticSeverityFilter'},
                                     'attrs': '#[derive(Clone, Copy)]'},
        'DiagnosticSeverityFilter::into_severity': {
            'src': {'file': ARGS, 'kind': 'fn', 'impl': 'From for DiagnosticSeverity', 'name': 'from'},
            'pub': False},
        'DiagnosticSeverityFilter::allows': {
            'src': {'file': ARGS, 'kind': 'fn', 'impl': 'DiagnosticSeverityFilter', 'name': 'allows'},
            'ret': 'r',
            'ensures': 'r == (severity matches Some(s) && s.0 <= threshold(self)) /*@C36.filter.allows*/'},
        'output_result::per_file': {
            'src': {'kind': 'slice', 'name': 'per_file', 'in': HOST,
                    'from': r'if let Some\(severity_filter\) = severity_filter \{',
                    'to': r'writer\.write\(db, file_id, diagnostics\);',
                    'head': '''pub fn per_file(mut diagnostics: Vec<Diagnostic>, severity_filter: Option<DiagnosticSeverityFilter>,
        warnings_as_errors: bool, mut has_error: bool, mut error_count: usize, mut warning_count: usize,
        mut info_count: usize, mut hint_count: usize, writer: &mut Writer, db: &DbIndex, file_id: FileId) -> (usize, usize, usize, usize, bool)''',
                    'tail': '(error_count, warning_count, info_count, hint_count, has_error)'},
            'rules': ['c36-closure-contract'],
            'ret': 'r',
            'requires': '''error_count + diagnostics@.len() <= usize::MAX, warning_count + diagnostics@.len() <= usize::MAX,
                info_count + diagnostics@.len() <= usize::MAX, hint_count + diagnostics@.len() <= usize::MAX''',
            'ensures': '''
            // exactly the filtered diagnostics are handed to the writer, once, under their own file
            final(writer).log@.len() == old(writer).log@.len() + 1 /*@C36.report.once-per-file*/,
            final(writer).log@.drop_last() == old(writer).log@ /*@C36.report.frame*/,
            final(writer).log@.last().0 == file_id /*@C36.report.own-file*/,
            is_filtered(diagnostics@, severity_filter, final(writer).log@.last().1) /*@C36.report.exactly-filtered*/,
            // the error flag is raised exactly by a reported error, or a reported warning under --warnings-as-errors
            r.4 == (has_error || any_err(final(writer).log@.last().1, warnings_as_errors)) /*@C36.exit.flag*/''',
            'proof': [
                (r'diagnostics\.retain\(\|diagnostic[^;]*\);\s*\}', 'after', '''
                proof {
                    if severity_filter is None {
                        lemma_filter_by_all_true(all, Seq::new(all.len(), |i: int| true));
                        assert(is_filtered(all, severity_filter, diagnostics@));
                    } else {
                        assert(exists|keep: Seq<bool>| keep.len() == all.len()
                            && (forall|i: int| 0 <= i < keep.len() ==> #[trigger] keep[i] == passes(severity_filter, all[i]))
                            && diagnostics@ == filter_by(all, keep));
                        let keep = choose|keep: Seq<bool>| keep.len() == all.len()
                            && (forall|i: int| 0 <= i < keep.len() ==> #[trigger] keep[i] == passes(severity_filter, all[i]))
                            && diagnostics@ == filter_by(all, keep);
                        lemma_filter_by_len(all, keep);
                    }
                    assert(is_filtered(all, severity_filter, diagnostics@));
                    assert(diagnostics@.len() <= all.len());
                }'''),
                (r'writer\.write\(db, file_id, diagnostics\);', 'after', '''
                proof { assert(writer.log@.drop_last() =~= old(writer).log@); }'''),
            ],
            'iter_names': {0: 'it'},
            'loops': {0: '''invariant
                    has_error == (old_has_error@ || exists|i: int| 0 <= i < it.index@ && is_err(#[trigger] diagnostics@[i], warnings_as_errors)) /*@C36.exit.flag.inv*/,
                    error_count <= old_counts@.0 + it.index@, warning_count <= old_counts@.1 + it.index@,
                    info_count <= old_counts@.2 + it.index@, hint_count <= old_counts@.3 + it.index@,
                    old_counts@.0 + diagnostics@.len() <= usize::MAX, old_counts@.1 + diagnostics@.len() <= usize::MAX,
                    old_counts@.2 + diagnostics@.len() <= usize::MAX, old_counts@.3 + diagnostics@.len() <= usize::MAX,
                    is_filtered(all, severity_filter, diagnostics@),'''},
            'body_first': '''let ghost old_has_error = Ghost(has_error);
            let ghost old_counts = Ghost((error_count, warning_count, info_count, hint_count));
            let ghost all = diagnostics@;''',
        },
        'output_result::exit_code': {
            'src': {'kind': 'slice', 'name': 'exit_code', 'in': HOST,
                    'from': r'if has_error \{ 1 \} else \{ 0 \}', 'to': r'if has_error \{ 1 \} else \{ 0 \}',
                    'head': 'pub fn exit_code(has_error: bool) -> i32', 'tail': ''},
            'ret': 'r',
            'ensures': '(r != 0) == has_error /*@C36.exit.nonzero-iff-flag*/',
        },
    },
    'extra_rules': [
        ('c36-closure-contract', r'\|diagnostic\| severity_filter\.allows\(diagnostic\.severity\)',
         '|diagnostic: &Diagnostic| -> (b: bool) ensures b == passes(Some(severity_filter), *diagnostic) { severity_filter.allows(diagnostic.severity) }',
         'contract overlay on a closure: parameter type, named result and `ensures` are added, the body expression is kept verbatim and Verus checks the ensures against it'),
    ],
    'allow': [r'external_body', r'assume_specification<T, A: Allocator, F: FnMut\(&T\) -> bool>\[ Vec::<T, A>::retain \]'],
    'min_obligations': 5,
    'trusted': [
        'Vec::retain: std doc contract (keeps exactly the elements for which the predicate returns true, in order) as assume_specification',
        'lsp_types::DiagnosticSeverity transcribed (i32 newtype, ERROR=1..HINT=4, derived PartialOrd)',
        'the three OutputWriter implementations are abstracted to a ghost log of (file_id, diagnostics) calls; their formatting is not covered',
        'counters are usize: total diagnostics per run < 2^64 (input assumption)',
    ],
    'samples': [
        'per_file: writer gets exactly is_filtered(diagnostics, severity_filter) once under file_id; has_error\' == has_error || any_err(reported)',
        'exit_code: (r != 0) == has_error',
    ],
    'mutants': [
        {'name': 'warnings-always-errors', 'item': 'output_result::per_file',
         'pattern': r'if warnings_as_errors \{\s*has_error = true;\s*\}', 'repl': 'has_error = true;', 'expect': r'C36\.exit\.flag'},
        {'name': 'errors-dont-count', 'item': 'output_result::per_file',
         'pattern': r'has_error = true;\s*error_count \+= 1;', 'repl': 'error_count += 1;', 'expect': r'C36\.exit\.flag'},
        {'name': 'filter-after-tally', 'item': 'output_result::per_file',
         'pattern': r'(if let Some\(severity_filter\) = severity_filter \{.*?\n            \})(.*?)(writer\.write)', 'repl': r'\2\1\n\3', 'expect': r'C36\.exit\.flag'},
        {'name': 'exit-inverted', 'item': 'output_result::exit_code',
         'pattern': r'\{ 1 \} else \{ 0 \}', 'repl': '{ 0 } else { 1 }', 'expect': r'C36\.exit\.nonzero'},
        {'name': 'allows-strict', 'item': 'DiagnosticSeverityFilter::allows',
         'pattern': r'severity <= self\.into\(\)', 'repl': 'severity < self.into()', 'expect': r'C36\.filter\.allows'},
    ],
}
