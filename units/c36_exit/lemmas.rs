pub proof fn lemma_filter_by_all_true<T>(s: Seq<T>, keep: Seq<bool>)
    requires keep.len() == s.len(), forall|i: int| 0 <= i < keep.len() ==> keep[i],
    ensures filter_by(s, keep) == s,
    decreases s.len()
{
    if s.len() > 0 {
        lemma_filter_by_all_true(s.drop_last(), keep.drop_last());
        assert(s.drop_last().push(s.last()) == s);
    }
}

pub proof fn lemma_filter_by_len<T>(s: Seq<T>, keep: Seq<bool>)
    ensures filter_by(s, keep).len() <= s.len(),
    decreases s.len()
{
    if s.len() > 0 && keep.len() == s.len() {
        lemma_filter_by_len(s.drop_last(), keep.drop_last());
    }
}
