// ====================================================================================================================
// 7. union building (db_index/type/type_ops/union_type.rs, LuaType::from_vec, LuaUnionType::{from_vec, into_vec})
// ====================================================================================================================

// ---- BasicTypeUnion: a bit set over BasicTypeKind (u32 bit arithmetic and an `impl Iterator` chain: shimmed as a set) ----------
//@@ BasicTypeKind
impl BasicTypeKind {
    //@@ BasicTypeKind::from_type
}
pub uninterp spec fn sp_basic_has(b: BasicTypeUnion, k: BasicTypeKind) -> bool;
/// `From<BasicTypeKind> for LuaType` (a 15-arm table, inverse of BasicTypeKind::from_type on the 15 field-less variants)
pub open spec fn sp_kind_of(t: LuaType) -> Option<BasicTypeKind> {
    match t {
        LuaType::Unknown => Some(BasicTypeKind::Unknown), LuaType::Any => Some(BasicTypeKind::Any), LuaType::Nil => Some(BasicTypeKind::Nil),
        LuaType::Table => Some(BasicTypeKind::Table), LuaType::Userdata => Some(BasicTypeKind::Userdata),
        LuaType::Function => Some(BasicTypeKind::Function), LuaType::Thread => Some(BasicTypeKind::Thread),
        LuaType::Boolean => Some(BasicTypeKind::Boolean), LuaType::String => Some(BasicTypeKind::String),
        LuaType::Integer => Some(BasicTypeKind::Integer), LuaType::Number => Some(BasicTypeKind::Number), LuaType::Io => Some(BasicTypeKind::Io),
        LuaType::SelfInfer => Some(BasicTypeKind::SelfInfer), LuaType::Global => Some(BasicTypeKind::Global), LuaType::Never => Some(BasicTypeKind::Never),
        _ => None,
    }
}
/// the i-th basic type in discriminant order (BasicTypeKind::from(i).into())
pub open spec fn basic_type_at(i: int) -> LuaType {
    if i == 0 { LuaType::Unknown } else if i == 1 { LuaType::Any } else if i == 2 { LuaType::Nil } else if i == 3 { LuaType::Table }
    else if i == 4 { LuaType::Userdata } else if i == 5 { LuaType::Function } else if i == 6 { LuaType::Thread } else if i == 7 { LuaType::Boolean }
    else if i == 8 { LuaType::String } else if i == 9 { LuaType::Integer } else if i == 10 { LuaType::Number } else if i == 11 { LuaType::Io }
    else if i == 12 { LuaType::SelfInfer } else if i == 13 { LuaType::Global } else { LuaType::Never }
}
pub open spec fn basic_members_upto(b: BasicTypeUnion, n: int) -> Seq<LuaType>
    decreases n
{
    if n <= 0 { Seq::empty() }
    else {
        let p = basic_members_upto(b, n - 1);
        let t = basic_type_at(n - 1);
        if sp_basic_has(b, sp_kind_of(t)->Some_0) { p.push(t) } else { p }
    }
}
/// the members `BasicTypeUnion::iter()` yields: `(0..Count).filter(bit set).map(kind -> LuaType)`
pub open spec fn sp_basic_members(b: BasicTypeUnion) -> Seq<LuaType> { basic_members_upto(b, 15) }
pub proof fn lemma_basic_members(b: BasicTypeUnion, n: int)
    requires 0 <= n <= 15,
    ensures
        forall|t: LuaType| basic_members_upto(b, n).contains(t)
            <==> (exists|i: int| 0 <= i < n && t == basic_type_at(i) && sp_basic_has(b, sp_kind_of(t)->Some_0)),
        forall|i: int, j: int| 0 <= i < j < basic_members_upto(b, n).len() ==> basic_members_upto(b, n)[i] != basic_members_upto(b, n)[j],
    decreases n
{
    if n > 0 {
        lemma_basic_members(b, n - 1);
        let p = basic_members_upto(b, n - 1);
        let t0 = basic_type_at(n - 1);
        let m = basic_members_upto(b, n);
        assert forall|t: LuaType| m.contains(t)
            <==> (exists|i: int| 0 <= i < n && t == basic_type_at(i) && sp_basic_has(b, sp_kind_of(t)->Some_0)) by {
            if m.contains(t) {
                let k = choose|k: int| 0 <= k < m.len() && m[k] == t;
                if k < p.len() { assert(p[k] == t); assert(p.contains(t)); } else { assert(t == t0); }
            }
            if exists|i: int| 0 <= i < n && t == basic_type_at(i) && sp_basic_has(b, sp_kind_of(t)->Some_0) {
                let i = choose|i: int| 0 <= i < n && t == basic_type_at(i) && sp_basic_has(b, sp_kind_of(t)->Some_0);
                if i < n - 1 {
                    assert(p.contains(t));
                    let k = choose|k: int| 0 <= k < p.len() && p[k] == t;
                    assert(m[k] == t);
                } else {
                    assert(m[p.len() as int] == t);
                }
            }
        }
        assert forall|i: int, j: int| 0 <= i < j < m.len() implies m[i] != m[j] by {
            if j == p.len() && m.len() > p.len() {
                assert(m[i] == p[i]);
                assert(p.contains(p[i]));
            }
        }
    } else {
        assert(forall|t: LuaType| !Seq::<LuaType>::empty().contains(t));
    }
}
/// summary used by the contracts: members of Basic(b) = the basic types whose kind is in b, without repetition
pub proof fn lemma_basic_members_all(b: BasicTypeUnion)
    ensures
        forall|t: LuaType| #[trigger] sp_basic_members(b).contains(t) <==> (sp_kind_of(t) matches Some(k) && sp_basic_has(b, k)),
        forall|i: int, j: int| 0 <= i < j < sp_basic_members(b).len() ==> sp_basic_members(b)[i] != sp_basic_members(b)[j],
{
    lemma_basic_members(b, 15);
    assert forall|t: LuaType| #[trigger] sp_basic_members(b).contains(t) <==> (sp_kind_of(t) matches Some(k) && sp_basic_has(b, k)) by {
        if sp_kind_of(t) matches Some(k) && sp_basic_has(b, k) {
            let i: int = match t {
                LuaType::Unknown => 0, LuaType::Any => 1, LuaType::Nil => 2, LuaType::Table => 3, LuaType::Userdata => 4, LuaType::Function => 5,
                LuaType::Thread => 6, LuaType::Boolean => 7, LuaType::String => 8, LuaType::Integer => 9, LuaType::Number => 10, LuaType::Io => 11,
                LuaType::SelfInfer => 12, LuaType::Global => 13, _ => 14,
            };
            assert(t == basic_type_at(i));
        }
    }
}
impl BasicTypeUnion {
    #[verifier::external_body] pub fn new() -> (r: Self) ensures forall|k: BasicTypeKind| !sp_basic_has(r, k) { unimplemented!() }
    #[verifier::external_body] pub fn add(&mut self, ty: BasicTypeKind)
        ensures forall|k: BasicTypeKind| sp_basic_has(*final(self), k) == (k == ty || sp_basic_has(*old(self), k)) { unimplemented!() }
}
/// rule c16-basic-collect: `basic.iter().collect()` = `(0..Count).filter(|i| bit i set).map(|i| BasicTypeKind::from(i).into()).collect()`:
/// the basic types whose bit is set, in discriminant order
#[verifier::external_body]
pub fn vx_basic_collect(basic: &BasicTypeUnion) -> (r: Vec<LuaType>)
    ensures r@ == sp_basic_members(*basic)
{ unimplemented!() }

// ---- std helpers the rules introduce ---------------------------------------------------------------------------------------
/// rule c16-contains: `V.contains(X)` on Vec<LuaType> (std: "Returns true if the slice contains an element with the given value",
/// i.e. `self.iter().any(|e| *e == *x)`) — stated with teq, the proved meaning of LuaType::eq
#[verifier::external_body]
pub fn vx_contains(v: &Vec<LuaType>, x: &LuaType) -> (r: bool)
    ensures eq_obeys() ==> r == (exists|i: int| 0 <= i < v@.len() && teq(#[trigger] v@[i], *x))
{ v.contains(x) }
/// rule c16-find-non-nil: `types.iter().find(|t| !matches!(t, LuaType::Nil))` (std: first element satisfying the predicate)
#[verifier::external_body]
pub fn vx_find_non_nil(v: &Vec<LuaType>) -> (r: Option<&LuaType>)
    ensures match r {
        Some(t) => exists|i: int| 0 <= i < v@.len() && v@[i] == *t && !(v@[i] is Nil) && forall|j: int| 0 <= j < i ==> #[trigger] v@[j] is Nil,
        None => forall|j: int| 0 <= j < v@.len() ==> #[trigger] v@[j] is Nil,
    }
{ v.iter().find(|t| !matches!(t, LuaType::Nil)) }
/// rule c16-mlu-include: the `include` test of the MultiLineUnion arm (iterator `any` with a closure over a tuple pattern): opaque
#[verifier::external_body]
pub fn vx_mlu_include(left: &Arc<LuaMultiLineUnion>, right: &LuaType) -> (r: bool) { unimplemented!() }
/// rule c16-any-callable: `members.iter().any(|ty| matches!(ty, LuaType::DocFunction(_) | LuaType::Signature(_)))` (std doc of `any`)
#[verifier::external_body]
pub fn vx_any_callable(v: &Vec<LuaType>) -> (r: bool)
    ensures r == (exists|i: int| 0 <= i < v@.len() && (#[trigger] v@[i] is DocFunction || v@[i] is Signature))
{ unimplemented!() }
/// the part of canonicalize_callable_union behind its early return (dedupe of callable members): not extracted, result unknown
#[verifier::external_body]
pub fn vx_canonicalize_callables(db: &DbIndex, members: Vec<LuaType>) -> (r: LuaType) { unimplemented!() }
/// Vec::extend: only has to type-check (the union|union arm is outside every proved case)
pub assume_specification<T, A: Allocator, I: IntoIterator<Item = T>>[<Vec<T, A> as Extend<T>>::extend](v: &mut Vec<T, A>, iter: I);

// ---- hashbrown::HashSet<LuaType> as LuaType::from_vec uses it ----------------------------------------------------------------
/// the variants whose `impl Hash for LuaType` arm hashes a tag and the payload VALUE, the payload being plain data
/// (bool, i64, interned string, ids): for these `a == b` implies equal hashes. The other arms hash `Arc::as_ptr` (Object, Union,
/// Intersection, Generic, TableGeneric, TplRef, StrTplRef, Variadic, MultiLineUnion, TypeGuard, Conditional, Mapped), the bits of
/// an f64 (FloatConst: 0.0 == -0.0 with different bits), or a payload that contains LuaType values again (Array, Call, Tuple,
/// DocFunction, Instance).
pub open spec fn hash_by_value(t: LuaType) -> bool {
    sp_kind_of(t) is Some || t is BooleanConst || t is StringConst || t is IntegerConst || t is TableConst || t is Ref || t is Def
        || t is DocBooleanConst || t is Signature || t is DocStringConst || t is DocIntegerConst || t is Namespace || t is Language || t is ModuleRef
}
pub open spec fn seen(s: Seq<LuaType>, x: LuaType) -> bool { exists|i: int| 0 <= i < s.len() && teq(x, #[trigger] s[i]) }
#[verifier::external_body] #[verifier::reject_recursive_types(T)] pub struct HashSet<T> { _p: std::marker::PhantomData<T> }
impl HashSet<LuaType> {
    /// the elements inserted so far, in insertion order
    pub uninterp spec fn elems(&self) -> Seq<LuaType>;
    #[verifier::external_body] pub fn new() -> (r: Self) ensures r.elems() == Seq::<LuaType>::empty() { unimplemented!() }
    /// hashbrown doc: "Adds a value to the set. If the set did not have this value present, true is returned. If the set did have this
    /// value present, false is returned." Present = a stored element `e` with `x == e` found under x's hash:
    ///  * no stored element equals x                                    ==> not found, inserted (always true);
    ///  * x is hashed by value and some stored element equals x         ==> found (equal values hash equally);
    ///  * otherwise (equal element, but pointer/bit hashing)            ==> unspecified.
    #[verifier::external_body] pub fn insert(&mut self, x: LuaType) -> (r: bool)
        ensures
            final(self).elems() == (if r { old(self).elems().push(x) } else { old(self).elems() }),
            eq_obeys() && !seen(old(self).elems(), x) ==> r,
            eq_obeys() && seen(old(self).elems(), x) && hash_by_value(x) ==> !r,
    { unimplemented!() }
}

//@@include c16_laws/unionspec.rs

// ---- alias resolution used by union_type ---------------------------------------------------------------------------------
/// get_real_type: follows `Ref` to an alias origin (depth-limited); every other type is returned as is (its `_ => Some(typ)` arm)
#[verifier::external_body]
pub fn get_real_type<'a>(db: &'a DbIndex, typ: &'a LuaType) -> (r: Option<&'a LuaType>)
    ensures !(typ is Ref) ==> r == Some(typ)
{ unimplemented!() }

impl LuaType {
    //@@ LuaType::is_number
    //@@ LuaType::is_union
    //@@ LuaType::from_vec
}
impl LuaUnionType {
    //@@ LuaUnionType::from_vec
    //@@ LuaUnionType::into_vec
}
//@@ can_use_structural_union
//@@ union_type_impl
//@@ canonicalize_callable_union
//@@ union_type
//@@ union_fold
//@@ union_type_all
