// ====================================================================================================================
// 3. specification vocabulary (hand-written SPEC; the real functions are proved against it)
// ====================================================================================================================

/// derived PartialEq of the id type = identity of the abstract identifier (std doc of derive(PartialEq) over an interned value)
impl vstd::std_specs::cmp::PartialEqSpecImpl for LuaTypeDeclId {
    open spec fn obeys_eq_spec() -> bool { true }
    open spec fn eq_spec(&self, other: &LuaTypeDeclId) -> bool { *self == *other }
}
impl PartialEq for LuaTypeDeclId { #[verifier::external_body] fn eq(&self, other: &Self) -> (r: bool) { unimplemented!() } }
/// derived PartialEq of LuaGenericType { base, params: Vec<LuaType> }: an uninterpreted relation (it descends into LuaType::eq)
pub uninterp spec fn sp_generic_eq(a: LuaGenericType, b: LuaGenericType) -> bool;
impl vstd::std_specs::cmp::PartialEqSpecImpl for LuaGenericType {
    open spec fn obeys_eq_spec() -> bool { true }
    open spec fn eq_spec(&self, other: &LuaGenericType) -> bool { sp_generic_eq(*self, *other) }
}
impl PartialEq for LuaGenericType { #[verifier::external_body] fn eq(&self, other: &Self) -> (r: bool) { unimplemented!() } }

/// `Arc<T> == Arc<T>` (std doc: "Two Arcs are equal if their inner values are equal, even if they are stored in different
/// allocation"). vstd gives `==` on Arc no meaning; the laws that need it carry this as an explicit hypothesis.
pub open spec fn arc_generic_eq(a: Arc<LuaGenericType>, b: Arc<LuaGenericType>) -> bool {
    <Arc<LuaGenericType> as PartialEqSpec>::obeys_eq_spec() && a.eq_spec(&b)
}

/// the member list of a union: what LuaUnionType::into_vec returns (proved on its real text)
pub open spec fn sp_into_vec(u: LuaUnionType) -> Seq<LuaType> {
    match u {
        LuaUnionType::Basic(b) => sp_basic_members(b),
        LuaUnionType::Nullable(t) => seq![t, LuaType::Nil],
        LuaUnionType::Multi(v) => v@,
    }
}

pub open spec fn guard_wf(g: TypeCheckGuard) -> bool { 0 <= g.stack_level <= 100 }

pub open spec fn ctx_frame(a: &TypeCheckContext, b: &TypeCheckContext) -> bool {
    a.db == b.db && a.detail == b.detail && a.level == b.level
}

/// "any or unknown" of the property; the code also counts a template parameter without constraint
pub open spec fn sp_any_or_unknown(t: LuaType) -> bool { t is Any || t is Unknown }
pub open spec fn sp_like_any(t: LuaType) -> bool {
    t is Any || t is Unknown || (t matches LuaType::TplRef(tpl) && tpl.param.constraint is None)
}

/// the 13 field-less variants fast_eq_check compares
pub open spec fn fast_unit(t: LuaType) -> bool {
    t is Nil || t is Table || t is Userdata || t is Function || t is Thread || t is Boolean || t is String || t is Integer
        || t is Number || t is Io || t is Global || t is Unknown || t is Any
}
pub open spec fn same_unit(a: LuaType, b: LuaType) -> bool {
    (a is Nil && b is Nil) || (a is Table && b is Table) || (a is Userdata && b is Userdata) || (a is Function && b is Function)
        || (a is Thread && b is Thread) || (a is Boolean && b is Boolean) || (a is String && b is String)
        || (a is Integer && b is Integer) || (a is Number && b is Number) || (a is Io && b is Io) || (a is Global && b is Global)
        || (a is Unknown && b is Unknown) || (a is Any && b is Any)
}
/// lower bound of fast_eq_check (pairs it certainly accepts)
pub open spec fn fast_eq_lb(a: LuaType, b: LuaType) -> bool {
    same_unit(a, b)
        || (a matches LuaType::Ref(l) && b matches LuaType::Ref(r) && l == r)
        || (a matches LuaType::Union(u) && b matches LuaType::Ref(r) && *u matches LuaUnionType::Nullable(LuaType::Ref(l)) && l == r)
        || (a matches LuaType::Generic(l) && b matches LuaType::Generic(r) && arc_generic_eq(l, r))
}
/// upper bound of fast_eq_check (it accepts nothing else)
pub open spec fn fast_eq_ub(a: LuaType, b: LuaType) -> bool {
    same_unit(a, b)
        || (a matches LuaType::Ref(l) && b matches LuaType::Ref(r) && l == r)
        || (a matches LuaType::Union(u) && b matches LuaType::Ref(r) && *u matches LuaUnionType::Nullable(LuaType::Ref(l)) && l == r)
        || (a is Generic && b is Generic)
        // pairs a repaired head guard may accept (today it does not): equal template / self types
        || (a is SelfInfer && b is SelfInfer) || (a is StrTplRef && b is StrTplRef) || (a is Conditional && b is Conditional) || (a is Mapped && b is Mapped)
}
/// `Arc<T> == Arc<T>` says equal (std: compares the inner values; vstd leaves it open, hence the explicit `obeys_eq_spec`)
pub open spec fn arc_says_eq<T: PartialEq>(l: Arc<T>, r: Arc<T>) -> bool { <Arc<T> as PartialEqSpec>::obeys_eq_spec() && l.eq_spec(&r) }
/// the four kinds of type no branch checker accepts against itself: they can only be accepted by the head guard
pub open spec fn fast_eq_extra(a: LuaType, b: LuaType) -> bool {
    (a is SelfInfer && b is SelfInfer)
        || (a matches LuaType::StrTplRef(l) && b matches LuaType::StrTplRef(r) && arc_says_eq(l, r))
        || (a matches LuaType::Conditional(l) && b matches LuaType::Conditional(r) && arc_says_eq(l, r))
        || (a matches LuaType::Mapped(l) && b matches LuaType::Mapped(r) && arc_says_eq(l, r))
}

pub open spec fn sp_is_boolean(t: LuaType) -> bool { t is BooleanConst || t is Boolean || t is DocBooleanConst }

pub open spec fn sp_is_number(t: LuaType) -> bool { t is Number || t is Integer || t is IntegerConst || t is DocIntegerConst || t is FloatConst }
pub open spec fn sp_is_string(t: LuaType) -> bool { t is StringConst || t is String || t is DocStringConst || t is Language }
/// the sources the dispatch function hands to check_simple_type_compact
pub open spec fn simple_src(s: LuaType) -> bool {
    s is Nil || s is Table || s is Userdata || s is Function || s is Thread || s is Boolean || s is String || s is Integer || s is Number
        || s is Io || s is Global || s is BooleanConst || s is StringConst || s is IntegerConst || s is FloatConst || s is TableConst
        || s is DocStringConst || s is DocIntegerConst || s is DocBooleanConst || s is StrTplRef || s is Namespace || s is Variadic || s is Language
}
/// pairs check_simple_type_compact certainly accepts (the ones reflexivity needs; `lv` = TypeCheckContext::level)
pub open spec fn simple_ok(lv: TypeCheckCheckLevel, s: LuaType, c: LuaType) -> bool {
    match s {
        LuaType::Unknown | LuaType::Any | LuaType::TplRef(_) => true,
        LuaType::Nil => c is Nil,
        LuaType::Table | LuaType::TableConst(_) => c is Table || c is TableConst,
        LuaType::Userdata => c is Userdata,
        LuaType::Function => c is Function,
        LuaType::Thread => c is Thread,
        LuaType::Boolean | LuaType::BooleanConst(_) => sp_is_boolean(c),
        LuaType::String => c is String || c is StringConst || c is DocStringConst,
        LuaType::StringConst(a) => c is String || c is StringConst || (c matches LuaType::DocStringConst(b) && (a == b || lv != TypeCheckCheckLevel::GenericConditional)),
        LuaType::Integer | LuaType::IntegerConst(_) => c is Integer || c is IntegerConst || c is DocIntegerConst,
        LuaType::Number | LuaType::FloatConst(_) => sp_is_number(c),
        LuaType::Io => c is Io,
        LuaType::Global => c is Global,
        LuaType::DocIntegerConst(i) => (c matches LuaType::IntegerConst(j) && i == j) || (c matches LuaType::DocIntegerConst(j) && i == j),
        LuaType::DocStringConst(a) => (c matches LuaType::StringConst(b) && a == b) || (c matches LuaType::DocStringConst(b) && a == b),
        LuaType::DocBooleanConst(a) => (c matches LuaType::BooleanConst(b) && a == b) || (c matches LuaType::DocBooleanConst(b) && a == b),
        LuaType::StrTplRef(_) => sp_is_string(c),
        LuaType::Namespace(a) => c matches LuaType::Namespace(b) && a == b,
        LuaType::Language(a) => (c matches LuaType::Language(b) && a == b) || c is DocStringConst || c is String || c is StringConst,
        _ => false,
    }
}
/// pairs it certainly rejects (used for the one negative reflexivity result)
pub open spec fn simple_err(s: LuaType, c: LuaType) -> bool {
    s is StrTplRef && !sp_is_string(c) && !(c is Union)
}
pub open spec fn sp_tnm(e: TypeCheckFailReason) -> bool { e is TypeNotMatch || e is TypeNotMatchWithReason }
pub open spec fn res_no_mismatch(r: TypeCheckResult) -> bool { r is Ok || (r matches Err(e) && !sp_tnm(e)) }

// --------------------------------------------------------------------------------------------------------------------
// head_ok: a purely syntactic SUFFICIENT condition for `check_general_type_compact(ctx, s, c, guard@lvl)` to return Ok — what
// the dispatch function, its head guards and the `Union` arm of check_complex_type_compact decide on their own, with every other
// branch checker unknown. All laws below are corollaries of `head_ok ==> Ok` (proved on the real text).
// --------------------------------------------------------------------------------------------------------------------
pub open spec fn head_ok(db: &DbIndex, s: LuaType, c: LuaType, lvl: int) -> bool
    decreases 101 - lvl, 2int
{
    if lvl < 0 || lvl > 100 { false }
    else if sp_like_any(c) || fast_eq_lb(s, c) { true }
    else {
        match sp_escape(db, c) {
            Some(o) => lvl < 100 && head_ok(db, s, o, lvl + 1),
            None => {
                if c is Intersection && !(s is Intersection) {
                    // some component is accepted (the loop stops at the first one; a failing earlier component is skipped)
                    lvl < 100 && exists|k: int| 0 <= k < c->Intersection_0.types@.len() && head_ok(db, s, #[trigger] c->Intersection_0.types@[k], lvl + 1)
                } else {
                    match s {
                        LuaType::Unknown | LuaType::Any => true,
                        LuaType::TplRef(tpl) => match tpl.param.constraint {
                            Some(sc) => lvl < 100 && head_ok(db, sc, c, lvl + 1),
                            None => true,       // check_simple_type_compact: `LuaType::TplRef(_) => return Ok(())`
                        },
                        LuaType::Instance(i) => lvl < 100 && head_ok(db, i.base, c, lvl + 1),
                        LuaType::TypeGuard(_) => sp_is_boolean(c),
                        LuaType::Never => c is Never,
                        LuaType::ModuleRef(_) => true,
                        LuaType::Union(_) | LuaType::MultiLineUnion(_) => cx_ok(db, s, c, lvl),
                        // a class expected, a descendant class given: check_ref_type_compact -> check_ref_class -> is_sub_type_of
                        LuaType::Ref(sid) | LuaType::Def(sid) => is_class_decl(db, sid) && descends(db, c, sid),
                        // the 23 "simple" sources: what check_simple_type_compact accepts at every check level
                        _ => simple_src(s) && simple_ok(TypeCheckCheckLevel::GenericConditional, s, c),
                    }
                }
            }
        }
    }
}

/// sufficient condition for `check_complex_type_compact(ctx, s, c, guard@lvl)` to return Ok (Union / MultiLineUnion sources)
pub open spec fn cx_ok(db: &DbIndex, s: LuaType, c: LuaType, lvl: int) -> bool
    decreases 101 - lvl, 1int
{
    if lvl < 0 || lvl >= 100 { false }
    else {
        match s {
            LuaType::Union(u) => match c {
                // union against union: every member of the expected... of the compact union must be accepted by the source union
                LuaType::Union(cu) => lvl + 1 < 100 && forall|k: int| 0 <= k < sp_into_vec(*cu).len() ==> head_ok(db, s, #[trigger] sp_into_vec(*cu)[k], lvl + 2),
                // the first member decides on its own (a later member is reached only if every earlier one fails WITH a mismatch)
                _ => sp_into_vec(*u).len() > 0 && head_ok(db, sp_into_vec(*u)[0], c, lvl + 1),
            },
            LuaType::MultiLineUnion(m) => cx_ok(db, sp_to_union(*m), c, lvl + 1),
            _ => false,
        }
    }
}

/// `c` is head-accepted by SOME member of the union `s` (any position)
pub open spec fn some_member_ok(db: &DbIndex, s: LuaType, c: LuaType, lvl: int) -> bool {
    s matches LuaType::Union(u) && !(c is Union) && 0 <= lvl < 100
        && exists|k: int| 0 <= k < sp_into_vec(*u).len() && head_ok(db, #[trigger] sp_into_vec(*u)[k], c, lvl + 1)
}

/// the head guards let a `Union` source through to its arm (or accept outright)
pub open spec fn reaches_source_arm(db: &DbIndex, c: LuaType) -> bool {
    sp_escape(db, c) is None && !(c is Intersection)
}

// --------------------------------------------------------------------------------------------------------------------
// head_err: a syntactic sufficient condition for Err (used to state what the laws do NOT give)
// --------------------------------------------------------------------------------------------------------------------
pub open spec fn head_err(db: &DbIndex, s: LuaType, c: LuaType, lvl: int) -> bool
    decreases 101 - lvl
{
    if lvl < 0 || lvl > 100 { false }
    // an any/unknown expected type is never claimed to be rejected (C16.any-accepts-everything.at-every-depth says the opposite)
    else if sp_any_or_unknown(s) { false }
    else if sp_like_any(c) || fast_eq_ub(s, c) { false }
    else {
        match sp_escape(db, c) {
            Some(o) => lvl >= 100 || head_err(db, s, o, lvl + 1),
            None => {
                if c is Intersection && !(s is Intersection) {
                    (lvl >= 100 && c->Intersection_0.types@.len() > 0)
                        || forall|k: int| 0 <= k < c->Intersection_0.types@.len() ==> head_err(db, s, #[trigger] c->Intersection_0.types@[k], lvl + 1)
                } else {
                    match s {
                        LuaType::TplRef(tpl) => tpl.param.constraint matches Some(sc) && (lvl >= 100 || head_err(db, sc, c, lvl + 1)),
                        LuaType::Instance(i) => lvl >= 100 || head_err(db, i.base, c, lvl + 1),
                        LuaType::TypeGuard(_) => !sp_is_boolean(c),
                        LuaType::Never => !(c is Never),
                        // the variants the dispatch `match source` does not list: its `_ =>` arm
                        LuaType::SelfInfer | LuaType::Conditional(_) | LuaType::Mapped(_) => true,
                        _ => simple_src(s) && simple_err(s, c),
                    }
                }
            }
        }
    }
}
