// unit c16_laws — C16 "basic laws of type assignability and union building", as far as contracts on the real text decide them.
//
// Code under proof (extracted on every run): enum LuaType / LuaUnionType and the small payload structs, the dispatch function
// check_general_type_compact with its head guards (is_like_any, fast_eq_check, escape_type), TypeCheckGuard, the whole
// check_complex_type_compact (the `Union` source arm), check_union_type_compact_union, check_simple_type_compact, check_ref_type_compact,
// check_ref_class, is_sub_type_of / check_sub_type_of_iterative, LuaType::eq, union_type / union_type_all / can_use_structural_union /
// union_type_impl / canonicalize_callable_union (head) / LuaType::from_vec / LuaUnionType::{from_vec, into_vec}.
// Branch checkers that no law needs are `external_body` shims with NO postcondition about their verdict.
// Files: template.rs (types, shims, checker), eqspec.rs (LuaType::eq), spec.rs (head_ok/head_err), laws.rs (laws a-d as lemmas),
// union.rs + unionspec.rs (law e), subtype.rs, reftype.rs (law d), replay/ (plain-Rust driver that replays the findings on the real crate).
#![feature(allocator_api)]
use vstd::prelude::*;
use std::alloc::Allocator;
use std::sync::Arc;
use std::ops::Deref;
use vstd::std_specs::cmp::PartialEqSpec;
verus! {

// ====================================================================================================================
// 1. external / payload types (opaque values; nothing is known about them but what the shims below say)
// ====================================================================================================================
#[verifier::external_body] #[verifier::accept_recursive_types(T)] pub struct ArcIntern<T> { _p: std::marker::PhantomData<T> }
#[verifier::external_body] #[verifier::accept_recursive_types(T)] pub struct InFiled<T> { _p: std::marker::PhantomData<T> }
#[verifier::external_body] pub struct SmolStr { _p: () }
#[verifier::external_body] pub struct TextRange { _p: () }
#[verifier::external_body] #[derive(Clone, Copy)] pub struct FileId { _p: () }
#[verifier::external_body] pub struct LuaSignatureId { _p: () }
/// LuaTypeDeclId { id: ArcIntern<LuaTypeIdentifier> }, derives PartialEq/Eq/Hash: an abstract identifier; derived equality of an
/// interned identifier is identity of the abstract value
#[verifier::external_body] pub struct LuaTypeDeclId { _p: () }
#[verifier::external_body] pub struct LuaMemberKey { _p: () }
#[verifier::external_body] pub struct DbIndex { _p: () }
#[verifier::external_body] pub struct LuaTypeDecl { _p: () }
// payloads of LuaType that no extracted function looks into
#[verifier::external_body] pub struct LuaTupleType { _p: () }
#[verifier::external_body] pub struct LuaFunctionType { _p: () }
#[verifier::external_body] pub struct LuaObjectType { _p: () }
#[verifier::external_body] pub struct LuaGenericType { _p: () }
#[verifier::external_body] pub struct LuaStringTplType { _p: () }
#[verifier::external_body] pub struct VariadicType { _p: () }
#[verifier::external_body] pub struct LuaAliasCallType { _p: () }
#[verifier::external_body] pub struct LuaConditionalType { _p: () }
#[verifier::external_body] pub struct LuaMappedType { _p: () }
#[verifier::external_body] pub struct GenericTplId { _p: () }

/// std: `impl<T: ?Sized, A: Allocator> Deref for Arc<T, A> { fn deref(&self) -> &T }` — the shared value (explicit `.deref()` calls;
/// vstd already gives `*arc` this meaning)
pub assume_specification<T: ?Sized, A: Allocator>[<Arc<T, A> as Deref>::deref](a: &Arc<T, A>) -> (r: &T) ensures r == &**a;
/// std: `impl<T> From<T> for Arc<T>`: "Converts a T into an Arc<T>. The conversion moves the value into a newly allocated Arc"
pub assume_specification<T>[<Arc<T> as From<T>>::from](t: T) -> (r: Arc<T>) ensures *r == t;

// ====================================================================================================================
// 2. extracted types
// ====================================================================================================================
//@@ LuaType
//@@ LuaUnionType
//@@ BasicTypeUnion
//@@ LuaIntersectionType
//@@ LuaArrayType
//@@ LuaArrayLen
//@@ LuaInstanceType
//@@ LuaMultiLineUnion
//@@ GenericTpl
//@@ GenericParam
//@@ LuaAliasCallKind
//@@ TypeCheckFailReason
//@@ TypeCheckGuard
//@@ MAX_TYPE_CHECK_LEVEL
//@@ TypeCheckLevelResult
//@@ TypeCheckResult
//@@ TypeCheckCheckLevel
//@@ TypeCheckContext

/// derived Clone (std doc of derive(Clone): every field cloned; Arc::clone shares the allocation): an equal value
impl Clone for LuaType { #[verifier::external_body] fn clone(&self) -> (r: Self) ensures r == *self { unimplemented!() } }

impl LuaIntersectionType {
    //@@ LuaIntersectionType::get_types
}
impl LuaArrayType {
    //@@ LuaArrayType::get_base
}
impl LuaInstanceType {
    //@@ LuaInstanceType::get_base
}
impl GenericTpl {
    //@@ GenericTpl::get_constraint
}
impl LuaType {
    //@@ LuaType::is_string
    //@@ LuaType::is_boolean
    //@@ LuaType::is_never
}
impl TypeCheckFailReason {
    //@@ TypeCheckFailReason::is_type_not_match
}
impl TypeCheckGuard {
    //@@ TypeCheckGuard::new
    //@@ TypeCheckGuard::next_level
}
impl<'db> TypeCheckContext<'db> {
    //@@ TypeCheckContext::new
}

//@@include c16_laws/eqspec.rs
//@@include c16_laws/spec.rs

// ====================================================================================================================
// 4. shims of callees (weakest contracts)
// ====================================================================================================================
pub uninterp spec fn sp_to_union(m: LuaMultiLineUnion) -> LuaType;
impl LuaMultiLineUnion {
    #[verifier::external_body]
    pub fn to_union(&self) -> (r: LuaType) ensures r == sp_to_union(*self) { unimplemented!() }
}
// ---- what escape_type / the sub-type walk read from the db: opaque index types, uninterpreted lookups ----------------------------
#[verifier::external_body] pub struct LuaTypeIndex { _p: () }
#[verifier::external_body] pub struct LuaModuleIndex { _p: () }
#[verifier::external_body] pub struct TypeSubstitutor { _p: () }
//@@ ModuleInfo
pub uninterp spec fn sp_type_index(db: &DbIndex) -> LuaTypeIndex;
pub uninterp spec fn sp_module_index(db: &DbIndex) -> LuaModuleIndex;
pub uninterp spec fn sp_type_decl(ix: LuaTypeIndex, id: LuaTypeDeclId) -> Option<LuaTypeDecl>;
pub uninterp spec fn sp_decl_is_alias(d: LuaTypeDecl) -> bool;
pub uninterp spec fn sp_decl_alias_origin(d: LuaTypeDecl, db: &DbIndex) -> Option<LuaType>;
pub uninterp spec fn sp_module(ix: LuaModuleIndex, f: FileId) -> Option<ModuleInfo>;
pub uninterp spec fn sp_generic_contain_tpl(g: LuaGenericType) -> bool;
pub uninterp spec fn sp_type_contain_tpl(t: LuaType) -> bool;
pub uninterp spec fn sp_call_kind(c: LuaAliasCallType) -> LuaAliasCallKind;
pub uninterp spec fn sp_generic_alias_origin(db: &DbIndex, g: LuaGenericType) -> Option<LuaType>;
pub uninterp spec fn sp_instantiate(db: &DbIndex, t: LuaType) -> LuaType;
/// result of `generic_tpl_constraint_type(typ).cloned()` (a closure compares the constraint with the type itself)
pub uninterp spec fn sp_tpl_escape(t: LuaType) -> Option<LuaType>;
impl DbIndex {
    #[verifier::external_body] pub fn get_type_index(&self) -> (r: &LuaTypeIndex) ensures *r == sp_type_index(self) { unimplemented!() }
    #[verifier::external_body] pub fn get_module_index(&self) -> (r: &LuaModuleIndex) ensures *r == sp_module_index(self) { unimplemented!() }
}
impl LuaTypeIndex {
    #[verifier::external_body] pub fn get_type_decl(&self, decl_id: &LuaTypeDeclId) -> (r: Option<&LuaTypeDecl>)
        ensures match r { Some(d) => sp_type_decl(*self, *decl_id) == Some(*d), None => sp_type_decl(*self, *decl_id) is None } { unimplemented!() }
}
impl LuaModuleIndex {
    #[verifier::external_body] pub fn get_module(&self, file_id: FileId) -> (r: Option<&ModuleInfo>)
        ensures match r { Some(m) => sp_module(*self, file_id) == Some(*m), None => sp_module(*self, file_id) is None } { unimplemented!() }
}
impl LuaTypeDecl {
    #[verifier::external_body] pub fn is_alias(&self) -> (r: bool) ensures r == sp_decl_is_alias(*self) { unimplemented!() }
    /// only the call shape `get_alias_origin(db, None)` occurs in the extracted text
    #[verifier::external_body] pub fn get_alias_origin(&self, db: &DbIndex, substitutor: Option<&TypeSubstitutor>) -> (r: Option<LuaType>)
        ensures substitutor is None ==> r == sp_decl_alias_origin(*self, db) { unimplemented!() }
}
impl TypeSubstitutor { #[verifier::external_body] pub fn new() -> (r: Self) { unimplemented!() } }
impl LuaGenericType {
    #[verifier::external_body] pub fn contain_tpl(&self) -> (r: bool) ensures r == sp_generic_contain_tpl(*self) { unimplemented!() }
}
impl LuaAliasCallType {
    #[verifier::external_body] pub fn get_call_kind(&self) -> (r: LuaAliasCallKind) ensures r == sp_call_kind(*self) { unimplemented!() }
}
impl LuaType {
    #[verifier::external_body] pub fn contain_tpl(&self) -> (r: bool) ensures r == sp_type_contain_tpl(*self) { unimplemented!() }
}
#[verifier::external_body]
pub fn instantiate_generic_alias_origin(db: &DbIndex, generic: &LuaGenericType) -> (r: Option<LuaType>) ensures r == sp_generic_alias_origin(db, *generic) { unimplemented!() }
#[verifier::external_body]
pub fn instantiate_type_generic(db: &DbIndex, ty: &LuaType, substitutor: &TypeSubstitutor) -> (r: LuaType) ensures r == sp_instantiate(db, *ty) { unimplemented!() }
/// std doc of Option::filter: "Returns None if the option is None, otherwise calls predicate with the wrapped value and returns:
/// Some(t) if predicate returns true (where t is the wrapped value), and None if predicate returns false."
pub assume_specification<T, P: FnOnce(&T) -> bool>[Option::<T>::filter](o: Option<T>, p: P) -> (r: Option<T>)
    requires o matches Some(t) ==> call_requires(p, (&t,)),
    ensures match o { None => r is None, Some(t) => (r == Some(t) && call_ensures(p, (&t,), true)) || (r is None && call_ensures(p, (&t,), false)) };

/// `A != *B` on LuaType in escape_type's `Call` arm: the very expression, result left uninterpreted (rule c16-type-ne)
pub uninterp spec fn sp_type_ne(a: LuaType, b: LuaType) -> bool;
#[verifier::external_body]
pub fn vx_type_ne(a: &LuaType, b: &LuaType) -> (r: bool) ensures r == sp_type_ne(*a, *b) { *a != *b }

/// what escape_type returns, as a function of (db, type) — the real text is proved against it
pub open spec fn sp_escape(db: &DbIndex, t: LuaType) -> Option<LuaType> {
    match t {
        LuaType::TplRef(_) => sp_tpl_escape(t),
        LuaType::Generic(g) => if !sp_generic_contain_tpl(*g) { sp_generic_alias_origin(db, *g) } else { None },
        LuaType::Ref(id) => match sp_type_decl(sp_type_index(db), id) {
            Some(d) => if sp_decl_is_alias(d) { sp_decl_alias_origin(d, db) } else { None },
            None => None,
        },
        LuaType::Call(c) => if (sp_call_kind(*c) is Index || sp_call_kind(*c) is RawGet) && !sp_type_contain_tpl(t)
                && sp_type_ne(sp_instantiate(db, t), t) { Some(sp_instantiate(db, t)) } else { None },
        LuaType::Instance(i) => Some(i.base),
        LuaType::MultiLineUnion(m) => Some(sp_to_union(*m)),
        LuaType::TypeGuard(_) => Some(LuaType::Boolean),
        LuaType::ModuleRef(f) => match sp_module(sp_module_index(db), f) { Some(m) => m.export_type, None => None },
        _ => None,
    }
}
/// the variants whose expected-side occurrence is never replaced by another type
pub open spec fn never_escapes(t: LuaType) -> bool {
    !(t is TplRef || t is Generic || t is Ref || t is Call || t is Instance || t is MultiLineUnion || t is TypeGuard || t is ModuleRef)
}
//@@ generic_tpl_constraint_type
/// rule c16-tpl-escape: the body is the replaced expression. Trusted: the value is a function of the argument (pure code: it names it
/// sp_tpl_escape); the second clause is what generic_tpl_constraint_type's proved contract + Option::cloned give.
#[verifier::external_body]
pub fn vx_tpl_escape(typ: &LuaType) -> (r: Option<LuaType>)
    ensures r == sp_tpl_escape(*typ), r matches Some(o) ==> (typ matches LuaType::TplRef(tpl) && tpl.param.constraint == Some(o))
{ generic_tpl_constraint_type(typ).cloned() }
//@@ escape_type

// branch checkers: verdict unconstrained; frame: the `db` reference and the two configuration fields are not written
// (`db` is a shared reference; `detail`/`level` are never assigned outside TypeCheckContext::new — scanned)
#[verifier::external_body]
pub fn check_doc_func_type_compact(context: &mut TypeCheckContext, f: &LuaFunctionType, compact_type: &LuaType, check_guard: TypeCheckGuard) -> (r: TypeCheckResult)
    ensures ctx_frame(old(context), final(context)) { unimplemented!() }
#[verifier::external_body]
pub fn check_sig_type_compact(context: &mut TypeCheckContext, s: &LuaSignatureId, compact_type: &LuaType, check_guard: TypeCheckGuard) -> (r: TypeCheckResult)
    ensures ctx_frame(old(context), final(context)) { unimplemented!() }
#[verifier::external_body]
pub fn check_generic_type_compact(context: &mut TypeCheckContext, g: &LuaGenericType, compact_type: &LuaType, check_guard: TypeCheckGuard) -> (r: TypeCheckResult)
    ensures ctx_frame(old(context), final(context)) { unimplemented!() }
#[verifier::external_body]
pub fn check_array_type_compact(context: &mut TypeCheckContext, base: &LuaType, compact_type: &LuaType, check_guard: TypeCheckGuard) -> (r: TypeCheckResult)
    ensures ctx_frame(old(context), final(context)) { unimplemented!() }
#[verifier::external_body]
pub fn check_tuple_type_compact(context: &mut TypeCheckContext, t: &LuaTupleType, compact_type: &LuaType, check_guard: TypeCheckGuard) -> (r: TypeCheckResult)
    ensures ctx_frame(old(context), final(context)) { unimplemented!() }
#[verifier::external_body]
pub fn check_object_type_compact(context: &mut TypeCheckContext, o: &LuaObjectType, compact_type: &LuaType, check_guard: TypeCheckGuard) -> (r: TypeCheckResult)
    ensures ctx_frame(old(context), final(context)) { unimplemented!() }
#[verifier::external_body]
pub fn check_table_generic_type_compact(context: &mut TypeCheckContext, p: &Vec<LuaType>, compact_type: &LuaType, check_guard: TypeCheckGuard) -> (r: TypeCheckResult)
    ensures ctx_frame(old(context), final(context)) { unimplemented!() }
#[verifier::external_body]
pub fn check_intersection_type_compact(context: &mut TypeCheckContext, i: &LuaIntersectionType, compact_type: &LuaType, check_guard: TypeCheckGuard) -> (r: TypeCheckResult)
    ensures ctx_frame(old(context), final(context)) { unimplemented!() }
#[verifier::external_body]
pub fn check_call_type_compact(context: &mut TypeCheckContext, c: &LuaAliasCallType, compact_type: &LuaType, check_guard: TypeCheckGuard) -> (r: TypeCheckResult)
    ensures ctx_frame(old(context), final(context)) { unimplemented!() }

// ====================================================================================================================
// 5. the checker (real text)
// ====================================================================================================================
// ---- what check_simple_type_compact calls ---------------------------------------------------------------------------------
//@@ Emmyrc
//@@ EmmyrcStrict
pub uninterp spec fn sp_emmyrc(db: &DbIndex) -> Emmyrc;
impl DbIndex {
    #[verifier::external_body] pub fn get_emmyrc(&self) -> (r: &Emmyrc) ensures *r == sp_emmyrc(self) { unimplemented!() }
}
impl LuaTypeDeclId {
    #[verifier::external_body] pub fn get_name(&self) -> (r: &str) { unimplemented!() }
}
/// derived PartialEq on a field-less enum: structural equality
impl vstd::std_specs::cmp::PartialEqSpecImpl for TypeCheckCheckLevel {
    open spec fn obeys_eq_spec() -> bool { true }
    open spec fn eq_spec(&self, other: &TypeCheckCheckLevel) -> bool { *self == *other }
}
#[verifier::external_body]
pub fn check_base_type_for_ref_compact(context: &mut TypeCheckContext, source: &LuaType, compact_type: &LuaType, check_guard: TypeCheckGuard) -> (r: TypeCheckResult)
    ensures ctx_frame(old(context), final(context)) { unimplemented!() }
#[verifier::external_body]
pub fn check_variadic_type_compact(context: &mut TypeCheckContext, source_type: &VariadicType, compact_type: &LuaType, check_guard: TypeCheckGuard) -> (r: TypeCheckResult)
    ensures ctx_frame(old(context), final(context)) { unimplemented!() }
//@@ check_simple_type_compact

//@@ is_like_any
//@@ fast_eq_check
//@@ check_general_type_compact
//@@ check_complex_type_compact
//@@ check_union_type_compact_union
//@@ check_type_compact

//@@include c16_laws/laws.rs

// ---- the property-level clauses that do NOT hold on every tree sit on a second copy of the dispatch function (same real text), so that
// ---- no other contract is ever proved from them through the recursive calls
pub mod c16_every {
    use super::*;
//@@ every::check_general_type_compact
}
//@@gen dedupe_hyp

//@@include c16_laws/union.rs

//@@include c16_laws/subtype.rs

//@@include c16_laws/reftype.rs

} // verus!
fn main() {}
