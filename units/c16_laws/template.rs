// unit c16_laws — C16 "basic laws of type assignability and union building", as far as contracts on the real text decide them.
//
// Code under proof (extracted on every run): enum LuaType / LuaUnionType and the small payload structs, the dispatch function
// check_general_type_compact with its head guards (is_like_any, fast_eq_check, escape_type), TypeCheckGuard, the whole
// check_complex_type_compact (the `Union` source arm), check_union_type_compact_union, check_simple_type_compact,
// is_sub_type_of / check_sub_type_of_iterative, union_type / union_type_all / can_use_structural_union / union_type_impl /
// LuaType::from_vec / LuaUnionType::{from_vec, into_vec}.
// Branch checkers that no law needs are `external_body` shims with NO postcondition about their verdict.
#![feature(allocator_api)]
use vstd::prelude::*;
use std::alloc::Allocator;
use std::sync::Arc;
use std::ops::Deref;
use std::collections::HashSet;
use vstd::std_specs::cmp::PartialEqSpec;
verus! {

// ====================================================================================================================
// 1. external / payload types (opaque values; nothing is known about them but what the shims below say)
// ====================================================================================================================
#[verifier::external_body] #[verifier::accept_recursive_types(T)] pub struct ArcIntern<T> { _p: std::marker::PhantomData<T> }
#[verifier::external_body] #[verifier::accept_recursive_types(T)] pub struct InFiled<T> { _p: std::marker::PhantomData<T> }
#[verifier::external_body] pub struct SmolStr { _p: () }
#[verifier::external_body] pub struct TextRange { _p: () }
#[verifier::external_body] pub struct FileId { _p: () }
#[verifier::external_body] pub struct LuaSignatureId { _p: () }
/// LuaTypeDeclId { id: ArcIntern<LuaTypeIdentifier> }, derives PartialEq/Eq/Hash: an abstract identifier; derived equality of an
/// interned identifier is identity of the abstract value
#[verifier::external_body] pub struct LuaTypeDeclId { _p: () }
#[verifier::external_body] pub struct LuaMemberKey { _p: () }
#[verifier::external_body] pub struct DbIndex { _p: () }
#[verifier::external_body] pub struct LuaTypeDecl { _p: () }
// payloads of LuaType that no extracted function looks into
#[verifier::external_body] pub struct LuaTupleType { _p: () }
#[verifier::external_body] pub struct LuaFunctionType { _p: () }
#[verifier::external_body] pub struct LuaObjectType { _p: () }
#[verifier::external_body] pub struct LuaGenericType { _p: () }
#[verifier::external_body] pub struct LuaStringTplType { _p: () }
#[verifier::external_body] pub struct VariadicType { _p: () }
#[verifier::external_body] pub struct LuaAliasCallType { _p: () }
#[verifier::external_body] pub struct LuaConditionalType { _p: () }
#[verifier::external_body] pub struct LuaMappedType { _p: () }
#[verifier::external_body] pub struct GenericTplId { _p: () }

/// std: `impl<T: ?Sized, A: Allocator> Deref for Arc<T, A> { fn deref(&self) -> &T }` — the shared value (explicit `.deref()` calls;
/// vstd already gives `*arc` this meaning)
pub assume_specification<T: ?Sized, A: Allocator>[<Arc<T, A> as Deref>::deref](a: &Arc<T, A>) -> (r: &T) ensures r == &**a;
/// std: `impl<T> From<T> for Arc<T>`: "Converts a T into an Arc<T>. The conversion moves the value into a newly allocated Arc"
pub assume_specification<T>[<Arc<T> as From<T>>::from](t: T) -> (r: Arc<T>) ensures *r == t;

// ====================================================================================================================
// 2. extracted types
// ====================================================================================================================
//@@ LuaType
//@@ LuaUnionType
//@@ BasicTypeUnion
//@@ LuaIntersectionType
//@@ LuaArrayType
//@@ LuaArrayLen
//@@ LuaInstanceType
//@@ LuaMultiLineUnion
//@@ GenericTpl
//@@ GenericParam
//@@ LuaAliasCallKind
//@@ TypeCheckFailReason
//@@ TypeCheckGuard
//@@ MAX_TYPE_CHECK_LEVEL
//@@ TypeCheckLevelResult
//@@ TypeCheckResult
//@@ TypeCheckCheckLevel
//@@ TypeCheckContext

/// derived Clone (std doc of derive(Clone): every field cloned; Arc::clone shares the allocation): an equal value
impl Clone for LuaType { #[verifier::external_body] fn clone(&self) -> (r: Self) ensures r == *self { unimplemented!() } }

impl LuaIntersectionType {
    //@@ LuaIntersectionType::get_types
}
impl LuaArrayType {
    //@@ LuaArrayType::get_base
}
impl LuaInstanceType {
    //@@ LuaInstanceType::get_base
}
impl GenericTpl {
    //@@ GenericTpl::get_constraint
}
impl LuaType {
    //@@ LuaType::is_boolean
    //@@ LuaType::is_never
}
impl TypeCheckFailReason {
    //@@ TypeCheckFailReason::is_type_not_match
}
impl TypeCheckGuard {
    //@@ TypeCheckGuard::new
    //@@ TypeCheckGuard::next_level
}
impl<'db> TypeCheckContext<'db> {
    //@@ TypeCheckContext::new
}

//@@include c16_laws/spec.rs

// ====================================================================================================================
// 4. shims of callees (weakest contracts)
// ====================================================================================================================
pub uninterp spec fn sp_into_vec(u: LuaUnionType) -> Seq<LuaType>;
pub uninterp spec fn sp_to_union(m: LuaMultiLineUnion) -> LuaType;
impl LuaUnionType {
    /// the member list of a union (real text proved against this name in section 7, where `into_vec` is extracted: here only the name)
    #[verifier::external_body]
    pub fn into_vec(&self) -> (r: Vec<LuaType>) ensures r@ == sp_into_vec(*self) { unimplemented!() }
}
impl LuaMultiLineUnion {
    #[verifier::external_body]
    pub fn to_union(&self) -> (r: LuaType) ensures r == sp_to_union(*self) { unimplemented!() }
}
/// escape_type reads the type index / module index: its result is an uninterpreted function of (db, type)
pub uninterp spec fn sp_escape(db: &DbIndex, t: LuaType) -> Option<LuaType>;
#[verifier::external_body]
pub fn escape_type(db: &DbIndex, typ: &LuaType) -> (r: Option<LuaType>) ensures r == sp_escape(db, *typ) { unimplemented!() }

// branch checkers: verdict unconstrained; frame: the `db` reference and the two configuration fields are not written
// (`db` is a shared reference; `detail`/`level` are never assigned outside TypeCheckContext::new — scanned)
#[verifier::external_body]
pub fn check_simple_type_compact(context: &mut TypeCheckContext, source: &LuaType, compact_type: &LuaType, check_guard: TypeCheckGuard) -> (r: TypeCheckResult)
    ensures ctx_frame(old(context), final(context)) { unimplemented!() }
#[verifier::external_body]
pub fn check_ref_type_compact(context: &mut TypeCheckContext, source_id: &LuaTypeDeclId, compact_type: &LuaType, check_guard: TypeCheckGuard) -> (r: TypeCheckResult)
    ensures ctx_frame(old(context), final(context)) { unimplemented!() }
#[verifier::external_body]
pub fn check_doc_func_type_compact(context: &mut TypeCheckContext, f: &LuaFunctionType, compact_type: &LuaType, check_guard: TypeCheckGuard) -> (r: TypeCheckResult)
    ensures ctx_frame(old(context), final(context)) { unimplemented!() }
#[verifier::external_body]
pub fn check_sig_type_compact(context: &mut TypeCheckContext, s: &LuaSignatureId, compact_type: &LuaType, check_guard: TypeCheckGuard) -> (r: TypeCheckResult)
    ensures ctx_frame(old(context), final(context)) { unimplemented!() }
#[verifier::external_body]
pub fn check_generic_type_compact(context: &mut TypeCheckContext, g: &LuaGenericType, compact_type: &LuaType, check_guard: TypeCheckGuard) -> (r: TypeCheckResult)
    ensures ctx_frame(old(context), final(context)) { unimplemented!() }
#[verifier::external_body]
pub fn check_array_type_compact(context: &mut TypeCheckContext, base: &LuaType, compact_type: &LuaType, check_guard: TypeCheckGuard) -> (r: TypeCheckResult)
    ensures ctx_frame(old(context), final(context)) { unimplemented!() }
#[verifier::external_body]
pub fn check_tuple_type_compact(context: &mut TypeCheckContext, t: &LuaTupleType, compact_type: &LuaType, check_guard: TypeCheckGuard) -> (r: TypeCheckResult)
    ensures ctx_frame(old(context), final(context)) { unimplemented!() }
#[verifier::external_body]
pub fn check_object_type_compact(context: &mut TypeCheckContext, o: &LuaObjectType, compact_type: &LuaType, check_guard: TypeCheckGuard) -> (r: TypeCheckResult)
    ensures ctx_frame(old(context), final(context)) { unimplemented!() }
#[verifier::external_body]
pub fn check_table_generic_type_compact(context: &mut TypeCheckContext, p: &Vec<LuaType>, compact_type: &LuaType, check_guard: TypeCheckGuard) -> (r: TypeCheckResult)
    ensures ctx_frame(old(context), final(context)) { unimplemented!() }
#[verifier::external_body]
pub fn check_intersection_type_compact(context: &mut TypeCheckContext, i: &LuaIntersectionType, compact_type: &LuaType, check_guard: TypeCheckGuard) -> (r: TypeCheckResult)
    ensures ctx_frame(old(context), final(context)) { unimplemented!() }
#[verifier::external_body]
pub fn check_call_type_compact(context: &mut TypeCheckContext, c: &LuaAliasCallType, compact_type: &LuaType, check_guard: TypeCheckGuard) -> (r: TypeCheckResult)
    ensures ctx_frame(old(context), final(context)) { unimplemented!() }

// ====================================================================================================================
// 5. the checker (real text)
// ====================================================================================================================
//@@ is_like_any
//@@ fast_eq_check
//@@ check_general_type_compact
//@@ check_complex_type_compact
//@@ check_union_type_compact_union
//@@ check_type_compact

//@@include c16_laws/laws.rs

} // verus!
fn main() {}
