// laws (corollaries) — filled below
