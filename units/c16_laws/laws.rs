// ====================================================================================================================
// 6. the laws of C16 as corollaries of the proved contracts (`head_ok ==> Ok`, `head_err ==> Err`, union arm)
//    Every lemma has a body that verifies; read each one together with the contract of check_general_type_compact:
//       head_ok(db, s, c, lvl) ==> check_general_type_compact(ctx{db}, s, c, guard@lvl) is Ok
//       head_err(db, s, c, lvl) ==> ... is Err
// ====================================================================================================================

// ---- (a) any / unknown as the EXPECTED type accepts everything -------------------------------------------------------
/// how far the head of the dispatch function lets an `any` source get: `c` is replaced by escape_type at most (100 - lvl) times, and an
/// intersection must have a component that gets through
pub open spec fn esc_ok(db: &DbIndex, c: LuaType, lvl: int) -> bool
    decreases 101 - lvl
{
    if lvl < 0 || lvl > 100 { false }
    else if sp_like_any(c) { true }
    else {
        match sp_escape(db, c) {
            Some(o) => lvl < 100 && esc_ok(db, o, lvl + 1),
            None => c is Intersection ==> (lvl < 100 && exists|k: int| 0 <= k < c->Intersection_0.types@.len() && esc_ok(db, #[trigger] c->Intersection_0.types@[k], lvl + 1)),
        }
    }
}

pub proof fn law_any_accepts(db: &DbIndex, s: LuaType, c: LuaType, lvl: int)
    requires sp_any_or_unknown(s), esc_ok(db, c, lvl),
    ensures head_ok(db, s, c, lvl) /*@C16.any-accepts-everything*/,
    decreases 101 - lvl
{
    if sp_like_any(c) || fast_eq_lb(s, c) {
    } else {
        match sp_escape(db, c) {
            Some(o) => { law_any_accepts(db, s, o, lvl + 1); }
            None => {
                if c is Intersection {
                    let k = choose|k: int| 0 <= k < c->Intersection_0.types@.len() && esc_ok(db, #[trigger] c->Intersection_0.types@[k], lvl + 1);
                    law_any_accepts(db, s, c->Intersection_0.types@[k], lvl + 1);
                }
            }
        }
    }
}

/// for the 37 variants that escape_type never replaces (and that are not intersections) the law holds at EVERY guard depth
pub proof fn law_any_accepts_unescaped(db: &DbIndex, s: LuaType, c: LuaType, lvl: int)
    requires sp_any_or_unknown(s), 0 <= lvl <= 100, never_escapes(c), !(c is Intersection),
    ensures head_ok(db, s, c, lvl) /*@C16.any-accepts-everything.every-depth*/,
{
}

// (where the law does NOT hold today - escape chains longer than the remaining depth, an intersection without components - is no longer a
//  lemma: the clause C16.any-accepts-everything.at-every-depth on the dispatch function states the law itself and fails on such a tree)

// ---- (b) reflexivity ---------------------------------------------------------------------------------------------------
/// the types whose reflexivity the head guard fast_eq_check decides (at every depth, before anything can fail)
pub open spec fn refl_by_head_guard(t: LuaType) -> bool {
    fast_unit(t) || t is Ref || (t matches LuaType::Generic(g) && arc_generic_eq(g, g))
}
pub proof fn law_reflexive_head_guard(db: &DbIndex, t: LuaType, lvl: int)
    requires refl_by_head_guard(t), 0 <= lvl <= 100,
    ensures fast_eq_lb(t, t), head_ok(db, t, t, lvl) /*@C16.reflexive*/,
{
}
/// fast_eq_check(T, T) is false for every other variant: their reflexivity is up to the branch checkers (the last four only if the
/// head guard is extended to them: today it is not)
pub proof fn fast_eq_reflexive_only_for(t: LuaType)
    requires fast_eq_ub(t, t),
    ensures fast_unit(t) || t is Ref || t is Generic || t is SelfInfer || t is StrTplRef || t is Conditional || t is Mapped /*@C16.reflexive.head-guard-variants*/,
{
}
/// decided by the dispatch arms: never, TypeGuard (below the depth limit), unknown/any (like-any), unconstrained TplRef (like-any)
pub proof fn law_reflexive_never(db: &DbIndex, t: LuaType, lvl: int)
    requires t is Never, 0 <= lvl <= 100,
    ensures head_ok(db, t, t, lvl) /*@C16.reflexive.never*/,
{
}
pub proof fn law_reflexive_typeguard(db: &DbIndex, t: LuaType, lvl: int)
    requires t is TypeGuard, 0 <= lvl <= 100,
    ensures
        lvl < 100 ==> head_ok(db, t, t, lvl) /*@C16.reflexive.typeguard*/,
        lvl == 100 ==> head_err(db, t, t, lvl) /*@C16.reflexive.typeguard.fails-at-depth-limit*/,
{
    if lvl < 100 {
        assert(sp_escape(db, t) == Some(LuaType::Boolean));
        assert(head_ok(db, t, LuaType::Boolean, lvl + 1));
    }
}
pub proof fn law_reflexive_instance(db: &DbIndex, t: LuaType, lvl: int)
    requires
        t is Instance, 0 <= lvl, lvl + 2 <= 100,
        sp_like_any(t->Instance_0.base)
            || (sp_escape(db, t->Instance_0.base) is None && !(t->Instance_0.base is Intersection) && head_ok(db, t->Instance_0.base, t->Instance_0.base, lvl + 2)),
    ensures head_ok(db, t, t, lvl) /*@C16.reflexive.instance*/,
{
    let b = t->Instance_0.base;
    assert(sp_escape(db, t) == Some(b));
    assert(head_ok(db, t, b, lvl + 1));
}

/// the simple variants (literal constants, table const, namespace, language) — decided by check_simple_type_compact's real text, at every
/// depth and every check level
pub open spec fn refl_simple(t: LuaType) -> bool {
    t is BooleanConst || t is StringConst || t is IntegerConst || t is FloatConst || t is TableConst || t is DocStringConst
        || t is DocIntegerConst || t is DocBooleanConst || t is Namespace || t is Language
}
pub proof fn law_reflexive_simple(db: &DbIndex, t: LuaType, lvl: int)
    requires refl_simple(t), 0 <= lvl <= 100,
    ensures head_ok(db, t, t, lvl) /*@C16.reflexive.simple-variants*/,
{
}
/// every type for which the unit can state `check(T, T) is Ok` at every guard depth: the clause C16.reflexive.every-variant
/// (on c16_every::check_general_type_compact) claims exactly these; SelfInfer / StrTplRef / Conditional / Mapped are NOT accepted today
pub open spec fn refl_claim(db: &DbIndex, t: LuaType) -> bool {
    refl_by_head_guard(t) || refl_simple(t) || t is Never || fast_eq_extra(t, t) || (t matches LuaType::Def(id) && is_class_decl(db, id))
}

// ---- (c) union members -------------------------------------------------------------------------------------------------
/// a member type that (1) is accepted where itself is expected one level deeper (laws (b): head-guard variants, simple variants, never, ...),
/// (2) is not replaced by escape_type and (3) is neither a union nor an intersection
pub open spec fn closable_member(db: &DbIndex, m: LuaType, lvl: int) -> bool {
    head_ok(db, m, m, lvl + 1) && sp_escape(db, m) is None && !(m is Union) && !(m is Intersection)
}
/// the FIRST member of a union is accepted where the union is expected
pub proof fn law_union_accepts_first_member(db: &DbIndex, s: LuaType, m: LuaType, lvl: int)
    requires
        s is Union, sp_into_vec(*s->Union_0).len() > 0, m == sp_into_vec(*s->Union_0)[0],
        closable_member(db, m, lvl), 0 <= lvl < 100,
    ensures head_ok(db, s, m, lvl) /*@C16.union-accepts-member.first*/,
{
    assert(cx_ok(db, s, m, lvl));
}
/// ANY member: the union check never answers "type mismatch" (it answers Ok, or an error that is NOT a mismatch — TypeRecursion /
/// DonotCheck — leaked from the branch checker of an EARLIER member; whether that can happen is up to those checkers: not covered)
pub proof fn law_union_never_mismatches_member(db: &DbIndex, s: LuaType, m: LuaType, k: int, lvl: int)
    requires
        s is Union, 0 <= k < sp_into_vec(*s->Union_0).len(), m == sp_into_vec(*s->Union_0)[k],
        closable_member(db, m, lvl), 0 <= lvl < 100,
    ensures reaches_source_arm(db, m) && some_member_ok(db, s, m, lvl) /*@C16.union-accepts-member.never-mismatch*/,
{
    assert(head_ok(db, sp_into_vec(*s->Union_0)[k], m, lvl + 1));
}
/// the members a union type written `A | B | ...` can have for which (1)-(3) hold at every depth: the 13 head-guard unit variants, Ref to a
/// non-alias class (escape None), the literal constants, table const, namespace, language, never
pub proof fn closable_members(db: &DbIndex, m: LuaType, lvl: int)
    requires 0 <= lvl < 100, (fast_unit(m) || refl_simple(m) || m is Never || (m is Ref && sp_escape(db, m) is None)),
    ensures closable_member(db, m, lvl) /*@C16.union-accepts-member.closable-members*/,
{
}

// ---- (d) ancestors -----------------------------------------------------------------------------------------------------
/// a class is accepted where any of its ancestors is expected: `anc` declared as a class (its declaration exists, neither alias nor enum),
/// `cls` not an alias (escape_type leaves Ref(cls) alone), and `anc` reachable from `cls` through the supers the type index reports
/// (Ref supers and the base of Generic supers). Holds at every guard depth: no `next_level()?` lies on this path.
pub proof fn law_class_accepted_where_ancestor_expected(db: &DbIndex, anc: LuaTypeDeclId, cls: LuaTypeDeclId, n: nat, lvl: int)
    requires
        is_class_decl(db, anc), sp_escape(db, LuaType::Ref(cls)) is None,
        ancestor_within(sp_type_index(db), cls, anc, n), 0 <= lvl <= 100,
    ensures head_ok(db, LuaType::Ref(anc), LuaType::Ref(cls), lvl) /*@C16.class-accepted-where-ancestor-expected*/,
{
    assert(descends(db, LuaType::Ref(cls), anc));
}
/// the same for a `Def` value (the type of the class table itself) — Def is never replaced by escape_type
pub proof fn law_class_def_accepted_where_ancestor_expected(db: &DbIndex, anc: LuaTypeDeclId, cls: LuaTypeDeclId, n: nat, lvl: int)
    requires is_class_decl(db, anc), ancestor_within(sp_type_index(db), cls, anc, n), 0 <= lvl <= 100,
    ensures head_ok(db, LuaType::Ref(anc), LuaType::Def(cls), lvl) /*@C16.class-accepted-where-ancestor-expected.def*/,
{
    assert(descends(db, LuaType::Def(cls), anc));
}
/// reflexivity of a class type written as Def (the head guard only compares Ref with Ref)
pub proof fn law_reflexive_def(db: &DbIndex, id: LuaTypeDeclId, lvl: int)
    requires is_class_decl(db, id), 0 <= lvl <= 100,
    ensures head_ok(db, LuaType::Def(id), LuaType::Def(id), lvl) /*@C16.reflexive.def-class*/,
{
    assert(descends(db, LuaType::Def(id), id));
}
