// ====================================================================================================================
// 9. from the dispatch function to the sub-type walk: check_ref_type_compact, check_ref_class (semantic/type_check/ref_type.rs)
// ====================================================================================================================
#[verifier::external_body] pub struct GlobalId { _p: () }
//@@ LuaMemberOwner
impl Clone for LuaTypeDeclId { #[verifier::external_body] fn clone(&self) -> (r: Self) ensures r == *self { unimplemented!() } }
impl<T> Clone for InFiled<T> { #[verifier::external_body] fn clone(&self) -> (r: Self) ensures r == *self { unimplemented!() } }
pub uninterp spec fn sp_decl_is_enum(d: LuaTypeDecl) -> bool;
pub uninterp spec fn sp_decl_enum_fields(d: LuaTypeDecl, db: &DbIndex) -> Option<LuaType>;
impl LuaTypeDecl {
    #[verifier::external_body] pub fn is_enum(&self) -> (r: bool) ensures r == sp_decl_is_enum(*self) { unimplemented!() }
    #[verifier::external_body] pub fn get_enum_field_type(&self, db: &DbIndex) -> (r: Option<LuaType>) ensures r == sp_decl_enum_fields(*self, db) { unimplemented!() }
}
impl LuaGenericType {
    #[verifier::external_body] pub fn get_base_type_id(&self) -> (r: LuaTypeDeclId) ensures r == sp_generic_base(*self) { unimplemented!() }
    #[verifier::external_body] pub fn get_base_type(&self) -> (r: LuaType) { unimplemented!() }
}
#[verifier::external_body] pub fn get_base_type_id(typ: &LuaType) -> (r: Option<LuaTypeDeclId>) { unimplemented!() }
#[verifier::external_body] pub fn intersection_to_object(db: &DbIndex, intersection: &LuaIntersectionType) -> (r: Option<LuaObjectType>) { unimplemented!() }
/// rules drop-i18n: the message text of TypeNotMatchWithReason
#[verifier::external_body] pub fn vx_msg() -> (r: String) { unimplemented!() }
/// rule c16-origin-contains: the `origin_contains_compact` test of the alias branch (Iterator::any with a closure): opaque bool
#[verifier::external_body] pub fn vx_origin_contains(origin_type: &LuaType, compact_type: &LuaType) -> (r: bool) { unimplemented!() }
// member-wise (duck typing) branch checkers and the enum branch: verdict unconstrained
#[verifier::external_body]
pub fn check_ref_type_compact_table(context: &mut TypeCheckContext, source_type_id: &LuaTypeDeclId, table_owner: LuaMemberOwner, check_guard: TypeCheckGuard) -> (r: TypeCheckResult)
    ensures ctx_frame(old(context), final(context)) { unimplemented!() }
#[verifier::external_body]
pub fn check_ref_type_compact_object(context: &mut TypeCheckContext, object_type: &LuaObjectType, source_type_id: &LuaTypeDeclId, check_guard: TypeCheckGuard) -> (r: TypeCheckResult)
    ensures ctx_frame(old(context), final(context)) { unimplemented!() }
#[verifier::external_body]
pub fn check_ref_type_compact_tuple(context: &mut TypeCheckContext, tuple_type: &LuaTupleType, source_type_id: &LuaTypeDeclId, check_guard: TypeCheckGuard) -> (r: TypeCheckResult)
    ensures ctx_frame(old(context), final(context)) { unimplemented!() }
#[verifier::external_body]
pub fn check_ref_enum(context: &mut TypeCheckContext, source_id: &LuaTypeDeclId, compact_type: &LuaType, check_guard: TypeCheckGuard, type_decl: &LuaTypeDecl) -> (r: TypeCheckResult)
    ensures ctx_frame(old(context), final(context)) { unimplemented!() }

/// `cls` (a value of class type Ref/Def cls) is accepted by check_ref_class where class `anc` is expected
pub open spec fn descends(db: &DbIndex, c: LuaType, anc: LuaTypeDeclId) -> bool {
    (c matches LuaType::Ref(id) && (anc == id || exists|n: nat| ancestor_within(sp_type_index(db), id, anc, n)))
        || (c matches LuaType::Def(id) && (anc == id || exists|n: nat| ancestor_within(sp_type_index(db), id, anc, n)))
}
/// the declaration of `id` exists and is a class (neither alias nor enum)
pub open spec fn is_class_decl(db: &DbIndex, id: LuaTypeDeclId) -> bool {
    sp_type_decl(sp_type_index(db), id) matches Some(d) && !sp_decl_is_alias(d) && !sp_decl_is_enum(d)
}
//@@ should_retry_alias_nominal_check
//@@ check_ref_class
//@@ check_ref_type_compact
