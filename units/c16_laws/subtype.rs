// ====================================================================================================================
// 8. ancestors: is_sub_type_of / check_sub_type_of_iterative (semantic/type_check/sub_type.rs)
// ====================================================================================================================
/// `LuaTypeIndex::get_super_types_iter(id)`: the declared supers of `id` minus the edges that lead back to `id` (a filter over
/// `supers[id]` that calls `is_cyclic_super_edge`) — an `impl Iterator`; here an uninterpreted list per (index, id).
pub uninterp spec fn sp_supers(ix: LuaTypeIndex, id: LuaTypeDeclId) -> Option<Seq<LuaType>>;
pub uninterp spec fn sp_generic_base(g: LuaGenericType) -> LuaTypeDeclId;
pub uninterp spec fn sp_is_base_type_id(t: LuaType, id: LuaTypeDeclId) -> bool;
impl LuaTypeIndex {
    /// the text only iterates the result with `for`; the shim hands the list out as a slice
    #[verifier::external_body]
    pub fn get_super_types_iter<'a>(&'a self, decl_id: &'a LuaTypeDeclId) -> (r: Option<&'a [LuaType]>)
        ensures match r { Some(s) => sp_supers(*self, *decl_id) == Some(s@), None => sp_supers(*self, *decl_id) is None }
    { unimplemented!() }
}
impl LuaGenericType {
    #[verifier::external_body] pub fn get_base_type_id_ref(&self) -> (r: &LuaTypeDeclId) ensures *r == sp_generic_base(*self) { unimplemented!() }
}
#[verifier::external_body]
pub fn is_base_type_id(typ: &LuaType, type_id: &LuaTypeDeclId) -> (r: bool) ensures r == sp_is_base_type_id(*typ, *type_id) { unimplemented!() }
/// hashbrown::HashSet<&LuaTypeDeclId>: LuaTypeDeclId derives Hash and Eq over the same interned identifier, so the set behaves as a
/// mathematical set of identifiers (hashbrown doc of `insert`: true iff the value was not present)
impl<'a> HashSet<&'a LuaTypeDeclId> {
    pub uninterp spec fn ids(&self) -> Set<LuaTypeDeclId>;
    #[verifier::external_body] pub fn with_capacity(n: usize) -> (r: Self) ensures r.ids() == Set::<LuaTypeDeclId>::empty() { unimplemented!() }
    #[verifier::external_body] pub fn insert(&mut self, x: &'a LuaTypeDeclId) -> (r: bool)
        ensures final(self).ids() == old(self).ids().insert(*x), r == !old(self).ids().contains(*x) { unimplemented!() }
}

/// `b` is a direct (non-cyclic) super of `a` that the walk follows: a `Ref` super, or the base of a `Generic` super
pub open spec fn super_edge(ix: LuaTypeIndex, a: LuaTypeDeclId, b: LuaTypeDeclId) -> bool {
    sp_supers(ix, a) matches Some(s) && exists|i: int| 0 <= i < s.len() && edge_to(#[trigger] s[i], b)
}
pub open spec fn edge_to(t: LuaType, b: LuaTypeDeclId) -> bool {
    (t matches LuaType::Ref(x) && x == b) || (t matches LuaType::Generic(g) && sp_generic_base(*g) == b)
}
/// `b` is `a` or an ancestor of `a` within n steps
pub open spec fn ancestor_within(ix: LuaTypeIndex, a: LuaTypeDeclId, b: LuaTypeDeclId, n: nat) -> bool
    decreases n
{
    a == b || (n > 0 && exists|c: LuaTypeDeclId| #[trigger] super_edge(ix, a, c) && ancestor_within(ix, c, b, (n - 1) as nat))
}
/// membership in the work stack, defined from the top (so that `pop` and `push` unfold it by one step)
pub open spec fn in_stack(stack: Seq<&LuaTypeDeclId>, a: LuaTypeDeclId) -> bool
    decreases stack.len()
{
    stack.len() > 0 && (*stack.last() == a || in_stack(stack.drop_last(), a))
}
pub open spec fn stack_nodup(stack: Seq<&LuaTypeDeclId>) -> bool
    decreases stack.len()
{
    stack.len() == 0 || (!in_stack(stack.drop_last(), *stack.last()) && stack_nodup(stack.drop_last()))
}
/// a set of identifiers that contains all supers of its members and not `b` contains no descendant of `b`
pub proof fn lemma_closed_excludes(ix: LuaTypeIndex, v: Set<LuaTypeDeclId>, a: LuaTypeDeclId, b: LuaTypeDeclId, n: nat)
    requires
        v.contains(a), !v.contains(b),
        forall|x: LuaTypeDeclId, y: LuaTypeDeclId| v.contains(x) && #[trigger] super_edge(ix, x, y) ==> v.contains(y),
    ensures !ancestor_within(ix, a, b, n),
    decreases n
{
    if n > 0 && ancestor_within(ix, a, b, n) {
        let c = choose|c: LuaTypeDeclId| #[trigger] super_edge(ix, a, c) && ancestor_within(ix, c, b, (n - 1) as nat);
        lemma_closed_excludes(ix, v, c, b, (n - 1) as nat);
    }
}
//@@ is_sub_type_of
//@@ check_sub_type_of_iterative
