// ---- equality vocabulary (generated once by hand from `impl PartialEq for LuaType`; the REAL `eq` is verified against `teq`) ----
/// value-like payloads: derived PartialEq over plain data / interned strings = identity of the abstract value
impl vstd::std_specs::cmp::PartialEqSpecImpl for FileId { open spec fn obeys_eq_spec() -> bool { true } open spec fn eq_spec(&self, other: &FileId) -> bool { *self == *other } }
impl PartialEq for FileId { #[verifier::external_body] fn eq(&self, other: &Self) -> (r: bool) { unimplemented!() } }
impl vstd::std_specs::cmp::PartialEqSpecImpl for LuaSignatureId { open spec fn obeys_eq_spec() -> bool { true } open spec fn eq_spec(&self, other: &LuaSignatureId) -> bool { *self == *other } }
impl PartialEq for LuaSignatureId { #[verifier::external_body] fn eq(&self, other: &Self) -> (r: bool) { unimplemented!() } }
impl vstd::std_specs::cmp::PartialEqSpecImpl for SmolStr { open spec fn obeys_eq_spec() -> bool { true } open spec fn eq_spec(&self, other: &SmolStr) -> bool { *self == *other } }
impl PartialEq for SmolStr { #[verifier::external_body] fn eq(&self, other: &Self) -> (r: bool) { unimplemented!() } }
impl vstd::std_specs::cmp::PartialEqSpecImpl for TextRange { open spec fn obeys_eq_spec() -> bool { true } open spec fn eq_spec(&self, other: &TextRange) -> bool { *self == *other } }
impl PartialEq for TextRange { #[verifier::external_body] fn eq(&self, other: &Self) -> (r: bool) { unimplemented!() } }
impl<T> vstd::std_specs::cmp::PartialEqSpecImpl for ArcIntern<T> { open spec fn obeys_eq_spec() -> bool { true } open spec fn eq_spec(&self, other: &ArcIntern<T>) -> bool { *self == *other } }
impl<T> PartialEq for ArcIntern<T> { #[verifier::external_body] fn eq(&self, other: &Self) -> (r: bool) { unimplemented!() } }
impl<T> vstd::std_specs::cmp::PartialEqSpecImpl for InFiled<T> { open spec fn obeys_eq_spec() -> bool { true } open spec fn eq_spec(&self, other: &InFiled<T>) -> bool { *self == *other } }
impl<T> PartialEq for InFiled<T> { #[verifier::external_body] fn eq(&self, other: &Self) -> (r: bool) { unimplemented!() } }
/// structured payloads (they contain LuaType values): derived / hand-written PartialEq = an UNINTERPRETED relation per type
pub uninterp spec fn sp_eq_LuaArrayType(a: LuaArrayType, b: LuaArrayType) -> bool;
impl vstd::std_specs::cmp::PartialEqSpecImpl for LuaArrayType { open spec fn obeys_eq_spec() -> bool { true } open spec fn eq_spec(&self, other: &LuaArrayType) -> bool { sp_eq_LuaArrayType(*self, *other) } }
impl PartialEq for LuaArrayType { #[verifier::external_body] fn eq(&self, other: &Self) -> (r: bool) { unimplemented!() } }
pub uninterp spec fn sp_eq_LuaTupleType(a: LuaTupleType, b: LuaTupleType) -> bool;
impl vstd::std_specs::cmp::PartialEqSpecImpl for LuaTupleType { open spec fn obeys_eq_spec() -> bool { true } open spec fn eq_spec(&self, other: &LuaTupleType) -> bool { sp_eq_LuaTupleType(*self, *other) } }
impl PartialEq for LuaTupleType { #[verifier::external_body] fn eq(&self, other: &Self) -> (r: bool) { unimplemented!() } }
pub uninterp spec fn sp_eq_LuaFunctionType(a: LuaFunctionType, b: LuaFunctionType) -> bool;
impl vstd::std_specs::cmp::PartialEqSpecImpl for LuaFunctionType { open spec fn obeys_eq_spec() -> bool { true } open spec fn eq_spec(&self, other: &LuaFunctionType) -> bool { sp_eq_LuaFunctionType(*self, *other) } }
impl PartialEq for LuaFunctionType { #[verifier::external_body] fn eq(&self, other: &Self) -> (r: bool) { unimplemented!() } }
pub uninterp spec fn sp_eq_LuaObjectType(a: LuaObjectType, b: LuaObjectType) -> bool;
impl vstd::std_specs::cmp::PartialEqSpecImpl for LuaObjectType { open spec fn obeys_eq_spec() -> bool { true } open spec fn eq_spec(&self, other: &LuaObjectType) -> bool { sp_eq_LuaObjectType(*self, *other) } }
impl PartialEq for LuaObjectType { #[verifier::external_body] fn eq(&self, other: &Self) -> (r: bool) { unimplemented!() } }
pub uninterp spec fn sp_eq_LuaUnionType(a: LuaUnionType, b: LuaUnionType) -> bool;
impl vstd::std_specs::cmp::PartialEqSpecImpl for LuaUnionType { open spec fn obeys_eq_spec() -> bool { true } open spec fn eq_spec(&self, other: &LuaUnionType) -> bool { sp_eq_LuaUnionType(*self, *other) } }
impl PartialEq for LuaUnionType { #[verifier::external_body] fn eq(&self, other: &Self) -> (r: bool) { unimplemented!() } }
pub uninterp spec fn sp_eq_LuaIntersectionType(a: LuaIntersectionType, b: LuaIntersectionType) -> bool;
impl vstd::std_specs::cmp::PartialEqSpecImpl for LuaIntersectionType { open spec fn obeys_eq_spec() -> bool { true } open spec fn eq_spec(&self, other: &LuaIntersectionType) -> bool { sp_eq_LuaIntersectionType(*self, *other) } }
impl PartialEq for LuaIntersectionType { #[verifier::external_body] fn eq(&self, other: &Self) -> (r: bool) { unimplemented!() } }
pub uninterp spec fn sp_eq_GenericTpl(a: GenericTpl, b: GenericTpl) -> bool;
impl vstd::std_specs::cmp::PartialEqSpecImpl for GenericTpl { open spec fn obeys_eq_spec() -> bool { true } open spec fn eq_spec(&self, other: &GenericTpl) -> bool { sp_eq_GenericTpl(*self, *other) } }
impl PartialEq for GenericTpl { #[verifier::external_body] fn eq(&self, other: &Self) -> (r: bool) { unimplemented!() } }
pub uninterp spec fn sp_eq_LuaStringTplType(a: LuaStringTplType, b: LuaStringTplType) -> bool;
impl vstd::std_specs::cmp::PartialEqSpecImpl for LuaStringTplType { open spec fn obeys_eq_spec() -> bool { true } open spec fn eq_spec(&self, other: &LuaStringTplType) -> bool { sp_eq_LuaStringTplType(*self, *other) } }
impl PartialEq for LuaStringTplType { #[verifier::external_body] fn eq(&self, other: &Self) -> (r: bool) { unimplemented!() } }
pub uninterp spec fn sp_eq_VariadicType(a: VariadicType, b: VariadicType) -> bool;
impl vstd::std_specs::cmp::PartialEqSpecImpl for VariadicType { open spec fn obeys_eq_spec() -> bool { true } open spec fn eq_spec(&self, other: &VariadicType) -> bool { sp_eq_VariadicType(*self, *other) } }
impl PartialEq for VariadicType { #[verifier::external_body] fn eq(&self, other: &Self) -> (r: bool) { unimplemented!() } }
pub uninterp spec fn sp_eq_LuaInstanceType(a: LuaInstanceType, b: LuaInstanceType) -> bool;
impl vstd::std_specs::cmp::PartialEqSpecImpl for LuaInstanceType { open spec fn obeys_eq_spec() -> bool { true } open spec fn eq_spec(&self, other: &LuaInstanceType) -> bool { sp_eq_LuaInstanceType(*self, *other) } }
impl PartialEq for LuaInstanceType { #[verifier::external_body] fn eq(&self, other: &Self) -> (r: bool) { unimplemented!() } }
pub uninterp spec fn sp_eq_LuaAliasCallType(a: LuaAliasCallType, b: LuaAliasCallType) -> bool;
impl vstd::std_specs::cmp::PartialEqSpecImpl for LuaAliasCallType { open spec fn obeys_eq_spec() -> bool { true } open spec fn eq_spec(&self, other: &LuaAliasCallType) -> bool { sp_eq_LuaAliasCallType(*self, *other) } }
impl PartialEq for LuaAliasCallType { #[verifier::external_body] fn eq(&self, other: &Self) -> (r: bool) { unimplemented!() } }
pub uninterp spec fn sp_eq_LuaMultiLineUnion(a: LuaMultiLineUnion, b: LuaMultiLineUnion) -> bool;
impl vstd::std_specs::cmp::PartialEqSpecImpl for LuaMultiLineUnion { open spec fn obeys_eq_spec() -> bool { true } open spec fn eq_spec(&self, other: &LuaMultiLineUnion) -> bool { sp_eq_LuaMultiLineUnion(*self, *other) } }
impl PartialEq for LuaMultiLineUnion { #[verifier::external_body] fn eq(&self, other: &Self) -> (r: bool) { unimplemented!() } }
pub uninterp spec fn sp_eq_LuaConditionalType(a: LuaConditionalType, b: LuaConditionalType) -> bool;
impl vstd::std_specs::cmp::PartialEqSpecImpl for LuaConditionalType { open spec fn obeys_eq_spec() -> bool { true } open spec fn eq_spec(&self, other: &LuaConditionalType) -> bool { sp_eq_LuaConditionalType(*self, *other) } }
impl PartialEq for LuaConditionalType { #[verifier::external_body] fn eq(&self, other: &Self) -> (r: bool) { unimplemented!() } }
pub uninterp spec fn sp_eq_LuaMappedType(a: LuaMappedType, b: LuaMappedType) -> bool;
impl vstd::std_specs::cmp::PartialEqSpecImpl for LuaMappedType { open spec fn obeys_eq_spec() -> bool { true } open spec fn eq_spec(&self, other: &LuaMappedType) -> bool { sp_eq_LuaMappedType(*self, *other) } }
impl PartialEq for LuaMappedType { #[verifier::external_body] fn eq(&self, other: &Self) -> (r: bool) { unimplemented!() } }

/// std: `==` on Arc<T> is `==` on the inner values; on f64 IEEE equality; on Vec<T> element-wise. vstd leaves `obeys_eq_spec` of these
/// instances open: the statements about `LuaType == LuaType` carry it as the hypothesis `eq_obeys()`.
pub open spec fn eq_obeys() -> bool {
    &&& <f64 as PartialEqSpec>::obeys_eq_spec()
    &&& <Arc<LuaArrayType> as PartialEqSpec>::obeys_eq_spec()
    &&& <Arc<LuaTupleType> as PartialEqSpec>::obeys_eq_spec()
    &&& <Arc<LuaFunctionType> as PartialEqSpec>::obeys_eq_spec()
    &&& <Arc<LuaObjectType> as PartialEqSpec>::obeys_eq_spec()
    &&& <Arc<LuaUnionType> as PartialEqSpec>::obeys_eq_spec()
    &&& <Arc<LuaIntersectionType> as PartialEqSpec>::obeys_eq_spec()
    &&& <Arc<LuaGenericType> as PartialEqSpec>::obeys_eq_spec()
    &&& <Arc<GenericTpl> as PartialEqSpec>::obeys_eq_spec()
    &&& <Arc<LuaStringTplType> as PartialEqSpec>::obeys_eq_spec()
    &&& <Arc<VariadicType> as PartialEqSpec>::obeys_eq_spec()
    &&& <Arc<LuaInstanceType> as PartialEqSpec>::obeys_eq_spec()
    &&& <Arc<LuaAliasCallType> as PartialEqSpec>::obeys_eq_spec()
    &&& <Arc<LuaMultiLineUnion> as PartialEqSpec>::obeys_eq_spec()
    &&& <Arc<LuaConditionalType> as PartialEqSpec>::obeys_eq_spec()
    &&& <Arc<LuaMappedType> as PartialEqSpec>::obeys_eq_spec()
}
/// `Arc<LuaType> == Arc<LuaType>` / `Arc<Vec<LuaType>> == ...` (they re-enter LuaType::eq): uninterpreted relations
pub uninterp spec fn sp_eq_arc_type(a: Arc<LuaType>, b: Arc<LuaType>) -> bool;
pub uninterp spec fn sp_eq_arc_types(a: Arc<Vec<LuaType>>, b: Arc<Vec<LuaType>>) -> bool;
/// what `impl PartialEq for LuaType` computes (opaque: revealed only where the table itself is needed)
#[verifier::opaque]
pub open spec fn teq(a: LuaType, b: LuaType) -> bool {
    match (a, b) {
        (LuaType::Unknown, LuaType::Unknown) => true,
        (LuaType::Any, LuaType::Any) => true,
        (LuaType::Nil, LuaType::Nil) => true,
        (LuaType::Table, LuaType::Table) => true,
        (LuaType::Userdata, LuaType::Userdata) => true,
        (LuaType::Function, LuaType::Function) => true,
        (LuaType::Thread, LuaType::Thread) => true,
        (LuaType::Boolean, LuaType::Boolean) => true,
        (LuaType::String, LuaType::String) => true,
        (LuaType::Integer, LuaType::Integer) => true,
        (LuaType::Number, LuaType::Number) => true,
        (LuaType::Io, LuaType::Io) => true,
        (LuaType::SelfInfer, LuaType::SelfInfer) => true,
        (LuaType::Global, LuaType::Global) => true,
        (LuaType::Never, LuaType::Never) => true,
        (LuaType::BooleanConst(x), LuaType::BooleanConst(y)) => x == y,
        (LuaType::StringConst(x), LuaType::StringConst(y)) => x == y,
        (LuaType::IntegerConst(x), LuaType::IntegerConst(y)) => x == y,
        (LuaType::TableConst(x), LuaType::TableConst(y)) => x == y,
        (LuaType::Ref(x), LuaType::Ref(y)) => x == y,
        (LuaType::Def(x), LuaType::Def(y)) => x == y,
        (LuaType::DocBooleanConst(x), LuaType::DocBooleanConst(y)) => x == y,
        (LuaType::Signature(x), LuaType::Signature(y)) => x == y,
        (LuaType::DocStringConst(x), LuaType::DocStringConst(y)) => x == y,
        (LuaType::DocIntegerConst(x), LuaType::DocIntegerConst(y)) => x == y,
        (LuaType::Namespace(x), LuaType::Namespace(y)) => x == y,
        (LuaType::Language(x), LuaType::Language(y)) => x == y,
        (LuaType::ModuleRef(x), LuaType::ModuleRef(y)) => x == y,
        (LuaType::FloatConst(x), LuaType::FloatConst(y)) => x.eq_spec(&y),
        (LuaType::Array(x), LuaType::Array(y)) => x.eq_spec(&y),
        (LuaType::Call(x), LuaType::Call(y)) => x.eq_spec(&y),
        (LuaType::Tuple(x), LuaType::Tuple(y)) => x.eq_spec(&y),
        (LuaType::DocFunction(x), LuaType::DocFunction(y)) => x.eq_spec(&y),
        (LuaType::Object(x), LuaType::Object(y)) => x.eq_spec(&y),
        (LuaType::Union(x), LuaType::Union(y)) => x.eq_spec(&y),
        (LuaType::Intersection(x), LuaType::Intersection(y)) => x.eq_spec(&y),
        (LuaType::Generic(x), LuaType::Generic(y)) => x.eq_spec(&y),
        (LuaType::TableGeneric(x), LuaType::TableGeneric(y)) => sp_eq_arc_types(x, y),
        (LuaType::TplRef(x), LuaType::TplRef(y)) => x.eq_spec(&y),
        (LuaType::StrTplRef(x), LuaType::StrTplRef(y)) => x.eq_spec(&y),
        (LuaType::Variadic(x), LuaType::Variadic(y)) => x.eq_spec(&y),
        (LuaType::Instance(x), LuaType::Instance(y)) => x.eq_spec(&y),
        (LuaType::MultiLineUnion(x), LuaType::MultiLineUnion(y)) => x.eq_spec(&y),
        (LuaType::TypeGuard(x), LuaType::TypeGuard(y)) => sp_eq_arc_type(x, y),
        (LuaType::Conditional(x), LuaType::Conditional(y)) => x.eq_spec(&y),
        (LuaType::Mapped(x), LuaType::Mapped(y)) => x.eq_spec(&y),
        _ => false,
    }
}
// The trait-level spec of `==` is switched off for LuaType (`obeys_eq_spec() == false` promises nothing): Arc<LuaType> occurs inside
// LuaType and a trait-level definition would be cyclic. The contract sits on the extracted `eq` itself:
// `eq_obeys() ==> r == teq(*self, *other)`, which is what every direct `LuaType == LuaType` in the extracted text gets.
impl vstd::std_specs::cmp::PartialEqSpecImpl for LuaType {
    open spec fn obeys_eq_spec() -> bool { false }
    open spec fn eq_spec(&self, other: &LuaType) -> bool { false }
}
#[verifier::external_body]
pub fn vx_arc_type_eq(a: &Arc<LuaType>, b: &Arc<LuaType>) -> (r: bool) ensures r == sp_eq_arc_type(*a, *b) { a == b }
#[verifier::external_body]
pub fn vx_arc_types_eq(a: &Arc<Vec<LuaType>>, b: &Arc<Vec<LuaType>>) -> (r: bool) ensures r == sp_eq_arc_types(*a, *b) { a == b }
impl PartialEq for LuaType {
    //@@ LuaType::eq
}
