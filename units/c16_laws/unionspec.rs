// ---- vocabulary for the union laws -------------------------------------------------------------------------------------------
/// members that need semantic handling: can_use_structural_union refuses them outright
pub open spec fn plain(t: LuaType) -> bool {
    !(t is Union || t is Ref || t is MultiLineUnion || t is DocFunction || t is Signature)
}
pub open spec fn num_variant(t: LuaType) -> bool { t is Integer || t is IntegerConst || t is FloatConst || t is DocIntegerConst }
pub open spec fn int_const(t: LuaType) -> bool { t is IntegerConst || t is DocIntegerConst }
pub open spec fn str_const(t: LuaType) -> bool { t is StringConst || t is DocStringConst }
pub open spec fn bool_const(t: LuaType) -> bool { t is BooleanConst || t is DocBooleanConst }
/// one of the pairwise rules of union_type_impl (other than "same type") applies to the pair, in either order
pub open spec fn pair_rule(a: LuaType, b: LuaType) -> bool {
    (a is Number && num_variant(b)) || (num_variant(a) && b is Number)
        || (a is Integer && int_const(b)) || (int_const(a) && b is Integer)
        || (a is String && str_const(b)) || (str_const(a) && b is String)
        || (a is Boolean && bool_const(b)) || (bool_const(a) && b is Boolean) || (bool_const(a) && bool_const(b))
        || (a is Table && b is TableConst) || (a is TableConst && b is Table)
}
/// a batch for which "no pairwise union rule, alias lookup, or callable canonicalization can matter" (comment in union_type_all)
pub open spec fn structural_batch(ts: Seq<LuaType>) -> bool {
    &&& forall|i: int| 0 <= i < ts.len() ==> plain(#[trigger] ts[i])
    &&& forall|i: int, j: int| 0 <= i < ts.len() && 0 <= j < ts.len() && i != j ==> !pair_rule(#[trigger] ts[i], #[trigger] ts[j])
}
pub open spec fn no_never_any(ts: Seq<LuaType>) -> bool { forall|i: int| 0 <= i < ts.len() ==> !(#[trigger] ts[i] is Never) && !(ts[i] is Any) }

/// LuaType::eq restricted to the values of a batch is an equivalence (PartialEq/Eq contract; FloatConst(NaN) breaks reflexivity)
pub open spec fn eq_regular(ts: Seq<LuaType>) -> bool {
    &&& forall|a: LuaType| ts.contains(a) ==> #[trigger] teq(a, a)
    &&& forall|a: LuaType, b: LuaType| ts.contains(a) && ts.contains(b) && #[trigger] teq(a, b) ==> teq(b, a)
    &&& forall|a: LuaType, b: LuaType, c: LuaType| ts.contains(a) && ts.contains(b) && ts.contains(c) && #[trigger] teq(a, b) && #[trigger] teq(b, c) ==> teq(a, c)
}
/// whenever a LATER member equals an earlier one, it is of a variant hashed by value (so the hash set finds the earlier one)
pub open spec fn dup_coherent(ts: Seq<LuaType>) -> bool {
    forall|i: int, j: int| 0 <= i < j < ts.len() && teq(#[trigger] ts[j], #[trigger] ts[i]) ==> hash_by_value(ts[j])
}
pub open spec fn teq_dupfree(s: Seq<LuaType>) -> bool {
    forall|i: int, j: int| 0 <= i < s.len() && 0 <= j < s.len() && i != j ==> !teq(#[trigger] s[i], #[trigger] s[j])
}
pub open spec fn set_eq(a: Seq<LuaType>, b: Seq<LuaType>) -> bool {
    (forall|i: int| 0 <= i < a.len() ==> b.contains(#[trigger] a[i])) && (forall|i: int| 0 <= i < b.len() ==> a.contains(#[trigger] b[i]))
}
pub open spec fn no_unions(ts: Seq<LuaType>) -> bool { forall|i: int| 0 <= i < ts.len() ==> !(#[trigger] ts[i] is Union) }

/// first occurrences (under LuaType::eq), in order
pub open spec fn dedupe(ts: Seq<LuaType>) -> Seq<LuaType>
    decreases ts.len()
{
    if ts.len() == 0 { Seq::empty() }
    else {
        let d = dedupe(ts.drop_last());
        if seen(d, ts.last()) { d } else { d.push(ts.last()) }
    }
}

pub open spec fn members_of(t: LuaType) -> Seq<LuaType> { sp_into_vec(*t->Union_0) }
/// `r` is "the union of the distinct members D": the member itself if there is one, else a Union with exactly these members (any order)
pub open spec fn union_of(r: LuaType, d: Seq<LuaType>) -> bool {
    &&& d.len() == 1 ==> r == d[0]
    &&& d.len() >= 2 ==> (r matches LuaType::Union(u) && set_eq(sp_into_vec(*u), d) && teq_dupfree(sp_into_vec(*u)) && sp_into_vec(*u).len() >= 2)
}
/// the accumulator of the one-at-a-time fold after the distinct members D
pub open spec fn acc_ok(acc: LuaType, d: Seq<LuaType>) -> bool {
    (d.len() == 0 ==> acc is Never) && union_of(acc, d)
}
/// two results denote the same union: identical, or unions with the same duplicate-free member set (member ORDER may differ)
pub open spec fn same_union(a: LuaType, b: LuaType) -> bool {
    a == b || (a matches LuaType::Union(ua) && b matches LuaType::Union(ub) && set_eq(sp_into_vec(*ua), sp_into_vec(*ub))
        && teq_dupfree(sp_into_vec(*ua)) && teq_dupfree(sp_into_vec(*ub)))
}

/// postcondition of LuaUnionType::from_vec
pub open spec fn union_from_vec_post(types: Seq<LuaType>, r: LuaUnionType) -> bool {
    &&& set_eq(sp_into_vec(r), types)
    &&& eq_obeys() && teq_dupfree(types) ==> teq_dupfree(sp_into_vec(r))
    &&& eq_obeys() && teq_dupfree(types) && types.len() >= 2 && teq(types[0], types[0]) ==> sp_into_vec(r).len() >= 2
}
/// postcondition of LuaType::from_vec for union-free input
pub open spec fn from_vec_post(types: Seq<LuaType>, r: LuaType) -> bool {
    eq_obeys() && no_unions(types) && eq_regular(types) && dup_coherent(types) && types.len() >= 1 ==> union_of(r, dedupe(types))
}

// ---- lemmas ---------------------------------------------------------------------------------------------------------------
pub proof fn lemma_dedupe_push(s: Seq<LuaType>, x: LuaType)
    ensures dedupe(s.push(x)) == (if seen(dedupe(s), x) { dedupe(s) } else { dedupe(s).push(x) }),
{
    assert(s.push(x).drop_last() == s);
    assert(s.push(x).last() == x);
}
pub proof fn lemma_dedupe_props(ts: Seq<LuaType>)
    requires eq_regular(ts),
    ensures
        forall|i: int| 0 <= i < dedupe(ts).len() ==> ts.contains(#[trigger] dedupe(ts)[i]),
        teq_dupfree(dedupe(ts)),
        forall|x: LuaType| ts.contains(x) ==> seen(dedupe(ts), x),
        ts.len() >= 1 ==> dedupe(ts).len() >= 1,
        dedupe(ts).len() <= ts.len(),
    decreases ts.len()
{
    if ts.len() > 0 {
        let p = ts.drop_last();
        let x = ts.last();
        assert forall|a: LuaType| p.contains(a) implies ts.contains(a) by {
            let i = choose|i: int| 0 <= i < p.len() && p[i] == a;
            assert(ts[i] == a);
        }
        assert(eq_regular(p));
        lemma_dedupe_props(p);
        let d = dedupe(p);
        assert(ts.contains(x)) by { assert(ts[ts.len() - 1] == x); }
        assert forall|i: int| 0 <= i < dedupe(ts).len() implies ts.contains(#[trigger] dedupe(ts)[i]) by {
            if i < d.len() { assert(p.contains(d[i])); }
        }
        if !seen(d, x) {
            let dd = d.push(x);
            assert forall|i: int, j: int| 0 <= i < dd.len() && 0 <= j < dd.len() && i != j implies !teq(#[trigger] dd[i], #[trigger] dd[j]) by {
                if i == d.len() { assert(p.contains(d[j])); }
                else if j == d.len() { assert(p.contains(d[i])); if teq(d[i], x) { assert(teq(x, d[i])); } }
            }
        }
        assert forall|y: LuaType| ts.contains(y) implies seen(dedupe(ts), y) by {
            let i = choose|i: int| 0 <= i < ts.len() && ts[i] == y;
            if i < p.len() {
                assert(p[i] == y); assert(p.contains(y));
                let k = choose|k: int| 0 <= k < d.len() && teq(y, #[trigger] d[k]);
                assert(dedupe(ts)[k] == d[k]);
            } else {
                assert(y == x);
                if seen(d, x) { } else { assert(dedupe(ts)[d.len() as int] == x); assert(teq(x, x)); }
            }
        }
    }
}
/// a duplicate-free list is its own dedupe
pub proof fn lemma_dedupe_id(s: Seq<LuaType>)
    requires teq_dupfree(s),
    ensures dedupe(s) == s,
    decreases s.len()
{
    if s.len() > 0 {
        let p = s.drop_last();
        assert(teq_dupfree(p)) by {
            assert forall|i: int, j: int| 0 <= i < p.len() && 0 <= j < p.len() && i != j implies !teq(#[trigger] p[i], #[trigger] p[j]) by {
                assert(p[i] == s[i] && p[j] == s[j]);
            }
        }
        lemma_dedupe_id(p);
        assert(!seen(p, s.last())) by {
            if seen(p, s.last()) {
                let k = choose|k: int| 0 <= k < p.len() && teq(s.last(), #[trigger] p[k]);
                assert(p[k] == s[k]);
                assert(!teq(s[s.len() - 1], s[k]));
            }
        }
        assert(p.push(s.last()) == s);
    } else {
        assert(s == Seq::<LuaType>::empty());
    }
}
/// both ways of building the union of the same distinct members give the same union
pub proof fn lemma_same_union(f: LuaType, s: LuaType, d: Seq<LuaType>)
    requires union_of(f, d), acc_ok(s, d), d.len() >= 1,
    ensures same_union(f, s) /*@C16.union-batch-equals-fold*/,
{
    if d.len() >= 2 {
        let a = members_of(f);
        let b = members_of(s);
        assert forall|i: int| 0 <= i < a.len() implies b.contains(#[trigger] a[i]) by {
            assert(d.contains(a[i]));
            let k = choose|k: int| 0 <= k < d.len() && d[k] == a[i];
            assert(b.contains(d[k]));
        }
        assert forall|i: int| 0 <= i < b.len() implies a.contains(#[trigger] b[i]) by {
            assert(d.contains(b[i]));
            let k = choose|k: int| 0 <= k < d.len() && d[k] == b[i];
            assert(a.contains(d[k]));
        }
    }
}
