// ---- vocabulary for the union laws -------------------------------------------------------------------------------------------
/// members that need semantic handling: can_use_structural_union refuses them outright
pub open spec fn plain(t: LuaType) -> bool {
    !(t is Union || t is Ref || t is MultiLineUnion || t is DocFunction || t is Signature)
}
pub open spec fn num_variant(t: LuaType) -> bool { t is Integer || t is IntegerConst || t is FloatConst || t is DocIntegerConst }
pub open spec fn int_const(t: LuaType) -> bool { t is IntegerConst || t is DocIntegerConst }
pub open spec fn str_const(t: LuaType) -> bool { t is StringConst || t is DocStringConst }
pub open spec fn bool_const(t: LuaType) -> bool { t is BooleanConst || t is DocBooleanConst }
/// one of the pairwise rules of union_type_impl (other than "same type") applies to the pair, in either order
pub open spec fn pair_rule(a: LuaType, b: LuaType) -> bool {
    (a is Number && num_variant(b)) || (num_variant(a) && b is Number)
        || (a is Integer && int_const(b)) || (int_const(a) && b is Integer)
        || (a is String && str_const(b)) || (str_const(a) && b is String)
        || (a is Boolean && bool_const(b)) || (bool_const(a) && b is Boolean) || (bool_const(a) && bool_const(b))
        || (a is Table && b is TableConst) || (a is TableConst && b is Table)
}
/// a batch for which "no pairwise union rule, alias lookup, or callable canonicalization can matter" (comment in union_type_all)
pub open spec fn structural_batch(ts: Seq<LuaType>) -> bool {
    &&& forall|i: int| 0 <= i < ts.len() ==> plain(#[trigger] ts[i])
    &&& forall|i: int, j: int| 0 <= i < ts.len() && 0 <= j < ts.len() && i != j ==> !pair_rule(#[trigger] ts[i], #[trigger] ts[j])
}
pub open spec fn no_never_any(ts: Seq<LuaType>) -> bool { forall|i: int| 0 <= i < ts.len() ==> !(#[trigger] ts[i] is Never) && !(ts[i] is Any) }

pub open spec fn single_plain(t: LuaType) -> bool { plain(t) && !(t is Never) && !(t is Any) }
/// `exists e in s: e == x` (argument order of slice::contains)
pub open spec fn contains_eq(s: Seq<LuaType>, x: LuaType) -> bool { exists|i: int| 0 <= i < s.len() && teq(#[trigger] s[i], x) }
/// LuaType::eq restricted to the values of a batch is reflexive and symmetric (PartialEq/Eq contract; FloatConst(NaN) breaks
/// reflexivity). Transitivity is not needed.
pub open spec fn eq_regular(ts: Seq<LuaType>) -> bool {
    &&& forall|a: LuaType| ts.contains(a) ==> #[trigger] teq(a, a)
    &&& forall|a: LuaType, b: LuaType| ts.contains(a) && ts.contains(b) && #[trigger] teq(a, b) ==> teq(b, a)
}
/// whenever a LATER member equals an earlier one, it is of a variant hashed by value (so the hash set finds the earlier one)
pub open spec fn dup_coherent(ts: Seq<LuaType>) -> bool {
    forall|i: int, j: int| 0 <= i < j < ts.len() && teq(#[trigger] ts[j], #[trigger] ts[i]) ==> hash_by_value(ts[j])
}
pub open spec fn teq_dupfree(s: Seq<LuaType>) -> bool {
    forall|i: int, j: int| 0 <= i < s.len() && 0 <= j < s.len() && i != j ==> !teq(#[trigger] s[i], #[trigger] s[j])
}
pub open spec fn set_eq(a: Seq<LuaType>, b: Seq<LuaType>) -> bool {
    (forall|i: int| 0 <= i < a.len() ==> b.contains(#[trigger] a[i])) && (forall|i: int| 0 <= i < b.len() ==> a.contains(#[trigger] b[i]))
}
pub open spec fn no_unions(ts: Seq<LuaType>) -> bool { forall|i: int| 0 <= i < ts.len() ==> !(#[trigger] ts[i] is Union) }

/// first occurrences (under LuaType::eq), in order
pub open spec fn dedupe(ts: Seq<LuaType>) -> Seq<LuaType>
    decreases ts.len()
{
    if ts.len() == 0 { Seq::empty() }
    else {
        let d = dedupe(ts.drop_last());
        if seen(d, ts.last()) { d } else { d.push(ts.last()) }
    }
}

pub open spec fn members_of(t: LuaType) -> Seq<LuaType> { sp_into_vec(*t->Union_0) }
/// `r` is "the union of the distinct members D": the member itself if there is one, else a Union with exactly these members (any order)
pub open spec fn union_of(r: LuaType, d: Seq<LuaType>) -> bool {
    &&& d.len() == 1 ==> r == d[0]
    &&& d.len() >= 2 ==> (r matches LuaType::Union(u) && set_eq(sp_into_vec(*u), d) && teq_dupfree(sp_into_vec(*u)) && sp_into_vec(*u).len() >= 2)
}
/// the accumulator of the one-at-a-time fold after the distinct members D
pub open spec fn acc_ok(acc: LuaType, d: Seq<LuaType>) -> bool {
    (d.len() == 0 ==> acc is Never) && union_of(acc, d)
}
/// two results denote the same union: identical, or unions with the same duplicate-free member set (member ORDER may differ)
pub open spec fn same_union(a: LuaType, b: LuaType) -> bool {
    a == b || (a matches LuaType::Union(ua) && b matches LuaType::Union(ub) && set_eq(sp_into_vec(*ua), sp_into_vec(*ub))
        && teq_dupfree(sp_into_vec(*ua)) && teq_dupfree(sp_into_vec(*ub)))
}

/// postcondition of LuaUnionType::from_vec
pub open spec fn union_from_vec_post(types: Seq<LuaType>, r: LuaUnionType) -> bool {
    &&& eq_obeys() ==> set_eq(sp_into_vec(r), types)
    &&& eq_obeys() && teq_dupfree(types) ==> teq_dupfree(sp_into_vec(r))
    &&& eq_obeys() && teq_dupfree(types) && types.len() >= 2 && teq(types[0], types[0]) ==> sp_into_vec(r).len() >= 2
}
/// postcondition of LuaType::from_vec for union-free input
pub open spec fn from_vec_post(types: Seq<LuaType>, r: LuaType) -> bool {
    batch_hyp(types) && types.len() >= 1 ==> union_of(r, dedupe(types))
}

/// distinct basic types are different variants: LuaType::eq says false; a basic type is never equal to a non-basic one
pub proof fn lemma_teq_basic(a: LuaType, b: LuaType)
    requires sp_kind_of(a) is Some,
    ensures a != b ==> !teq(a, b) && !teq(b, a), teq(a, a),
{
    reveal(teq);
}
pub proof fn lemma_teq_nil(a: LuaType)
    ensures teq(a, LuaType::Nil) == (a is Nil), teq(LuaType::Nil, a) == (a is Nil),
{
    reveal(teq);
}
/// contract of union_type_impl(match_source, source, target) -> r: the three accumulator shapes the one-at-a-time fold of a structural
/// batch goes through (empty = Never, a single plain type, a union)
pub open spec fn impl_post(ms: LuaType, source: LuaType, target: LuaType, r: LuaType) -> bool {
    &&& (ms is Never && !(target is Any)) ==> r == target
    // a `never` target leaves the accumulator alone - unless the alias-resolved accumulator is any (finding E7)
    &&& (target is Never && !(ms is Any) && !(ms is Never)) ==> r == source
    &&& (ms is Any || target is Any) ==> r is Any
    &&& (eq_obeys() && ms == source && single_plain(source) && single_plain(target) && !pair_rule(source, target))
            ==> (if teq(source, target) { r == source } else { from_vec_post(seq![source, target], r) })
    &&& (eq_obeys() && ms == source && source is Union && single_plain(target))
            ==> (if contains_eq(members_of(source), target) { r == source }
                 else { r matches LuaType::Union(u2) && union_from_vec_post(members_of(source).push(target), *u2) })
}
pub open spec fn any_callable(s: Seq<LuaType>) -> bool { exists|i: int| 0 <= i < s.len() && (#[trigger] s[i] is DocFunction || s[i] is Signature) }
/// contract of canonicalize_callable_union(db, ty) -> r (the part in front of the callable dedupe)
pub open spec fn canon_post(ty: LuaType, r: LuaType) -> bool {
    &&& !(ty is Union) ==> r == ty
    &&& (ty is Union && !any_callable(members_of(ty))) ==> from_vec_post(members_of(ty), r)
}
/// contract of union_type(db, source, target) -> r for a source that is not a `Ref` (no alias lookup)
pub open spec fn union_type_post(source: LuaType, target: LuaType, r: LuaType) -> bool {
    !(source is Ref) ==> exists|mid: LuaType| #[trigger] impl_post(source, source, target, mid) && canon_post(mid, r)
}
// ---- lemmas ---------------------------------------------------------------------------------------------------------------
pub proof fn lemma_dedupe_push(s: Seq<LuaType>, x: LuaType)
    ensures dedupe(s.push(x)) == (if seen(dedupe(s), x) { dedupe(s) } else { dedupe(s).push(x) }),
{
    assert(s.push(x).drop_last() == s);
    assert(s.push(x).last() == x);
}
pub proof fn lemma_dedupe_props(ts: Seq<LuaType>)
    requires eq_regular(ts),
    ensures
        forall|i: int| 0 <= i < dedupe(ts).len() ==> ts.contains(#[trigger] dedupe(ts)[i]),
        teq_dupfree(dedupe(ts)),
        forall|x: LuaType| ts.contains(x) ==> seen(dedupe(ts), x),
        ts.len() >= 1 ==> dedupe(ts).len() >= 1,
        dedupe(ts).len() <= ts.len(),
    decreases ts.len()
{
    if ts.len() > 0 {
        let p = ts.drop_last();
        let x = ts.last();
        assert forall|a: LuaType| p.contains(a) implies ts.contains(a) by {
            let i = choose|i: int| 0 <= i < p.len() && p[i] == a;
            assert(ts[i] == a);
        }
        assert(eq_regular(p));
        lemma_dedupe_props(p);
        let d = dedupe(p);
        assert(ts.contains(x)) by { assert(ts[ts.len() - 1] == x); }
        assert forall|i: int| 0 <= i < dedupe(ts).len() implies ts.contains(#[trigger] dedupe(ts)[i]) by {
            if i < d.len() { assert(p.contains(d[i])); }
        }
        if !seen(d, x) {
            let dd = d.push(x);
            assert forall|i: int, j: int| 0 <= i < dd.len() && 0 <= j < dd.len() && i != j implies !teq(#[trigger] dd[i], #[trigger] dd[j]) by {
                if i == d.len() { assert(p.contains(d[j])); }
                else if j == d.len() { assert(p.contains(d[i])); if teq(d[i], x) { assert(teq(x, d[i])); } }
            }
        }
        assert forall|y: LuaType| ts.contains(y) implies seen(dedupe(ts), y) by {
            let i = choose|i: int| 0 <= i < ts.len() && ts[i] == y;
            if i < p.len() {
                assert(p[i] == y); assert(p.contains(y));
                let k = choose|k: int| 0 <= k < d.len() && teq(y, #[trigger] d[k]);
                assert(dedupe(ts)[k] == d[k]);
            } else {
                assert(y == x);
                if seen(d, x) { } else { assert(dedupe(ts)[d.len() as int] == x); assert(teq(x, x)); }
            }
        }
    }
}
/// what LuaType::from_vec needs to be the union of the distinct members: `dedupe_hyp` is generated from the function's text
/// (hash-set dedupe: dup_coherent; `==` scan: nothing)
pub open spec fn batch_hyp(ts: Seq<LuaType>) -> bool { eq_obeys() && no_unions(ts) && eq_regular(ts) && dedupe_hyp(ts) }
pub proof fn lemma_regular_take(ts: Seq<LuaType>, k: int)
    requires eq_regular(ts), 0 <= k <= ts.len(),
    ensures eq_regular(ts.take(k)),
{
    let p = ts.take(k);
    assert forall|a: LuaType| p.contains(a) implies ts.contains(a) by {
        let i = choose|i: int| 0 <= i < p.len() && p[i] == a;
        assert(ts[i] == a);
    }
}
/// one step of the hash-set dedupe in LuaType::from_vec
pub proof fn lemma_dedupe_step(ts: Seq<LuaType>, k: int)
    requires eq_regular(ts), dup_coherent(ts), 0 <= k < ts.len(),
    ensures
        seen(dedupe(ts.take(k)), ts[k]) ==> hash_by_value(ts[k]),
        dedupe(ts.take(k + 1)) == (if seen(dedupe(ts.take(k)), ts[k]) { dedupe(ts.take(k)) } else { dedupe(ts.take(k)).push(ts[k]) }),
{
    let p = ts.take(k);
    lemma_regular_take(ts, k);
    lemma_dedupe_props(p);
    assert(ts.take(k + 1) == p.push(ts[k]));
    lemma_dedupe_push(p, ts[k]);
    let d = dedupe(p);
    if seen(d, ts[k]) {
        let i = choose|i: int| 0 <= i < d.len() && teq(ts[k], #[trigger] d[i]);
        assert(p.contains(d[i]));
        let j = choose|j: int| 0 <= j < p.len() && p[j] == d[i];
        assert(ts[j] == d[i]);
    }
}
/// one step of the `==`-scan dedupe (repaired LuaType::from_vec): `result_types.contains(&x)` compares stored == x, dedupe's `seen` x == stored
pub proof fn lemma_dedupe_scan_step(ts: Seq<LuaType>, k: int)
    requires eq_regular(ts), 0 <= k < ts.len(),
    ensures
        contains_eq(dedupe(ts.take(k)), ts[k]) == seen(dedupe(ts.take(k)), ts[k]),
        dedupe(ts.take(k + 1)) == (if seen(dedupe(ts.take(k)), ts[k]) { dedupe(ts.take(k)) } else { dedupe(ts.take(k)).push(ts[k]) }),
{
    let p = ts.take(k);
    lemma_regular_take(ts, k);
    lemma_dedupe_props(p);
    assert(ts.take(k + 1) == p.push(ts[k]));
    lemma_dedupe_push(p, ts[k]);
    let d = dedupe(p);
    assert(ts.contains(ts[k]));
    assert forall|i: int| 0 <= i < d.len() implies ts.contains(#[trigger] d[i]) by {
        assert(p.contains(d[i]));
        let j = choose|j: int| 0 <= j < p.len() && p[j] == d[i];
        assert(ts[j] == d[i]);
    }
    if contains_eq(d, ts[k]) { let i = choose|i: int| 0 <= i < d.len() && teq(#[trigger] d[i], ts[k]); assert(teq(ts[k], d[i])); }
    if seen(d, ts[k]) { let i = choose|i: int| 0 <= i < d.len() && teq(ts[k], #[trigger] d[i]); assert(teq(d[i], ts[k])); }
}
pub proof fn lemma_dedupe_single(ts: Seq<LuaType>)
    requires ts.len() == 1,
    ensures dedupe(ts) == seq![ts[0]],
{
    assert(ts.drop_last() == Seq::<LuaType>::empty());
    assert(dedupe(ts.drop_last()) == Seq::<LuaType>::empty());
    assert(!seen(Seq::<LuaType>::empty(), ts.last()));
    assert(Seq::<LuaType>::empty().push(ts.last()) == seq![ts[0]]);
}
/// a duplicate-free list is its own dedupe
pub proof fn lemma_dedupe_id(s: Seq<LuaType>)
    requires teq_dupfree(s),
    ensures dedupe(s) == s,
    decreases s.len()
{
    if s.len() > 0 {
        let p = s.drop_last();
        assert(teq_dupfree(p)) by {
            assert forall|i: int, j: int| 0 <= i < p.len() && 0 <= j < p.len() && i != j implies !teq(#[trigger] p[i], #[trigger] p[j]) by {
                assert(p[i] == s[i] && p[j] == s[j]);
            }
        }
        lemma_dedupe_id(p);
        assert(!seen(p, s.last())) by {
            if seen(p, s.last()) {
                let k = choose|k: int| 0 <= k < p.len() && teq(s.last(), #[trigger] p[k]);
                assert(p[k] == s[k]);
                assert(!teq(s[s.len() - 1], s[k]));
            }
        }
        assert(p.push(s.last()) == s);
    } else {
        assert(s == Seq::<LuaType>::empty());
    }
}
/// both ways of building the union of the same distinct members give the same union
pub proof fn lemma_same_union(f: LuaType, s: LuaType, d: Seq<LuaType>)
    requires union_of(f, d), acc_ok(s, d), d.len() >= 1,
    ensures same_union(f, s),
{
    if d.len() >= 2 {
        let a = members_of(f);
        let b = members_of(s);
        assert forall|i: int| 0 <= i < a.len() implies b.contains(#[trigger] a[i]) by {
            assert(d.contains(a[i]));
            let k = choose|k: int| 0 <= k < d.len() && d[k] == a[i];
            assert(b.contains(d[k]));
        }
        assert forall|i: int| 0 <= i < b.len() implies a.contains(#[trigger] b[i]) by {
            assert(d.contains(b[i]));
            let k = choose|k: int| 0 <= k < d.len() && d[k] == b[i];
            assert(a.contains(d[k]));
        }
    }
}

// ---- the one-at-a-time fold on a structural batch ------------------------------------------------------------------------------
pub open spec fn fold_hyp(ts: Seq<LuaType>) -> bool { eq_obeys() && structural_batch(ts) && no_never_any(ts) && eq_regular(ts) }
pub open spec fn subseq_of(m: Seq<LuaType>, ts: Seq<LuaType>) -> bool { forall|i: int| 0 <= i < m.len() ==> ts.contains(#[trigger] m[i]) }

pub proof fn lemma_set_eq_trans(a: Seq<LuaType>, b: Seq<LuaType>, c: Seq<LuaType>)
    requires set_eq(a, b), set_eq(b, c),
    ensures set_eq(a, c),
{
    assert forall|i: int| 0 <= i < a.len() implies c.contains(#[trigger] a[i]) by {
        let k = choose|k: int| 0 <= k < b.len() && b[k] == a[i];
        assert(c.contains(b[k]));
    }
    assert forall|i: int| 0 <= i < c.len() implies a.contains(#[trigger] c[i]) by {
        let k = choose|k: int| 0 <= k < b.len() && b[k] == c[i];
        assert(a.contains(b[k]));
    }
}
pub proof fn lemma_set_eq_push(a: Seq<LuaType>, b: Seq<LuaType>, x: LuaType)
    requires set_eq(a, b),
    ensures set_eq(a.push(x), b.push(x)),
{
    let ax = a.push(x); let bx = b.push(x);
    assert forall|i: int| 0 <= i < ax.len() implies bx.contains(#[trigger] ax[i]) by {
        if i < a.len() { let k = choose|k: int| 0 <= k < b.len() && b[k] == a[i]; assert(bx[k] == ax[i]); } else { assert(bx[b.len() as int] == x); }
    }
    assert forall|i: int| 0 <= i < bx.len() implies ax.contains(#[trigger] bx[i]) by {
        if i < b.len() { let k = choose|k: int| 0 <= k < a.len() && a[k] == b[i]; assert(ax[k] == bx[i]); } else { assert(ax[a.len() as int] == x); }
    }
}
/// a list of values of the batch inherits the batch's hypotheses; if it has no repetition (under ==) it satisfies LuaType::from_vec's
pub proof fn lemma_sub_batch(m: Seq<LuaType>, ts: Seq<LuaType>)
    requires fold_hyp(ts), subseq_of(m, ts), teq_dupfree(m),
    ensures batch_hyp(m), !any_callable(m), dedupe(m) == m,
{
    assert forall|a: LuaType| m.contains(a) implies ts.contains(a) by {
        let i = choose|i: int| 0 <= i < m.len() && m[i] == a;
        assert(ts.contains(m[i]));
    }
    assert forall|i: int| 0 <= i < m.len() implies !(#[trigger] m[i] is Union) && !(m[i] is DocFunction) && !(m[i] is Signature) by {
        assert(ts.contains(m[i]));
        let k = choose|k: int| 0 <= k < ts.len() && ts[k] == m[i];
        assert(plain(ts[k]));
    }
    lemma_dedupe_id(m);
}
/// one step of the fold: `acc` stands for the distinct members of ts[..k]; after union_type(db, acc, ts[k]) the result stands for ts[..k+1]
pub proof fn lemma_fold_step(ts: Seq<LuaType>, k: int, acc: LuaType, mid: LuaType, r: LuaType)
    requires
        fold_hyp(ts), 0 <= k < ts.len(), acc_ok(acc, dedupe(ts.take(k))),
        impl_post(acc, acc, ts[k], mid), canon_post(mid, r),
    ensures acc_ok(r, dedupe(ts.take(k + 1))) /*@C16.union.fold-step*/,
{
    let p = ts.take(k);
    let x = ts[k];
    let d = dedupe(p);
    lemma_regular_take(ts, k);
    lemma_dedupe_props(p);
    assert(ts.take(k + 1) == p.push(x));
    lemma_dedupe_push(p, x);
    let d1 = dedupe(ts.take(k + 1));
    assert(ts.contains(x));
    assert(plain(x) && !(x is Never) && !(x is Any));
    // every distinct member so far is some ts[j], j < k
    assert forall|i: int| 0 <= i < d.len() implies ts.contains(#[trigger] d[i]) && single_plain(d[i]) && !pair_rule(d[i], x) by {
        assert(p.contains(d[i]));
        let j = choose|j: int| 0 <= j < p.len() && p[j] == d[i];
        assert(ts[j] == d[i]);
        assert(plain(ts[j]));
        assert(!pair_rule(ts[j], ts[k]));
    }
    if d.len() == 0 {
        assert(mid == x);
        assert(r == x);
        assert(!seen(d, x));
        assert(d1 == d.push(x));
        assert(d1.len() == 1 && d1[0] == x);
    } else if d.len() == 1 {
        let a = d[0];
        assert(acc == a);
        if teq(a, x) {
            assert(teq(x, a));
            assert(seen(d, x));
            assert(mid == a && r == a);
        } else {
            assert(!teq(x, a)) by { if teq(x, a) { assert(teq(a, x)); } }
            assert(!seen(d, x));
            assert(d1 == d.push(x));
            let two = seq![a, x];
            assert(two[0] == a && two[1] == x);
            assert(subseq_of(two, ts));
            assert(teq_dupfree(two));
            lemma_sub_batch(two, ts);
            assert(union_of(mid, two));
            lemma_after_canon(ts, mid, two, r);
            assert(two == d1);
        }
    } else {
        let m = members_of(acc);
        assert(subseq_of(m, ts)) by {
            assert forall|i: int| 0 <= i < m.len() implies ts.contains(#[trigger] m[i]) by {
                assert(d.contains(m[i]));
                let j = choose|j: int| 0 <= j < d.len() && d[j] == m[i];
                assert(ts.contains(d[j]));
            }
        }
        if contains_eq(m, x) {
            let i = choose|i: int| 0 <= i < m.len() && teq(#[trigger] m[i], x);
            assert(d.contains(m[i]));
            let j = choose|j: int| 0 <= j < d.len() && d[j] == m[i];
            assert(ts.contains(d[j]));
            assert(teq(x, d[j]));
            assert(seen(d, x));
            assert(mid == acc);
            lemma_after_canon(ts, mid, d, r);
        } else {
            assert(!seen(d, x)) by {
                if seen(d, x) {
                    let j = choose|j: int| 0 <= j < d.len() && teq(x, #[trigger] d[j]);
                    assert(m.contains(d[j]));
                    let i = choose|i: int| 0 <= i < m.len() && m[i] == d[j];
                    assert(ts.contains(d[j]));
                    assert(teq(m[i], x));
                }
            }
            assert(d1 == d.push(x));
            let mx = m.push(x);
            assert(subseq_of(mx, ts)) by {
                assert forall|i: int| 0 <= i < mx.len() implies ts.contains(#[trigger] mx[i]) by { if i < m.len() { assert(mx[i] == m[i]); } }
            }
            assert(teq_dupfree(mx)) by {
                assert forall|i: int, j: int| 0 <= i < mx.len() && 0 <= j < mx.len() && i != j implies !teq(#[trigger] mx[i], #[trigger] mx[j]) by {
                    if i < m.len() && j < m.len() { assert(mx[i] == m[i] && mx[j] == m[j]); }
                    else if i == m.len() { assert(mx[j] == m[j]); assert(ts.contains(m[j])); if teq(x, m[j]) { assert(teq(m[j], x)); } }
                    else { assert(mx[i] == m[i]); }
                }
            }
            assert(teq(mx[0], mx[0])) by { assert(mx[0] == m[0]); assert(ts.contains(m[0])); }
            lemma_set_eq_push(m, d, x);
            let m2 = members_of(mid);
            lemma_set_eq_trans(m2, mx, d1);
            assert(union_of(mid, d1));
            lemma_after_canon(ts, mid, d1, r);
        }
    }
}
/// canonicalize_callable_union on a plain union of batch values keeps its member set
pub proof fn lemma_after_canon(ts: Seq<LuaType>, mid: LuaType, d: Seq<LuaType>, r: LuaType)
    requires fold_hyp(ts), d.len() >= 2, union_of(mid, d), subseq_of(d, ts), canon_post(mid, r),
    ensures union_of(r, d),
{
    let m = members_of(mid);
    assert(subseq_of(m, ts)) by {
        assert forall|i: int| 0 <= i < m.len() implies ts.contains(#[trigger] m[i]) by {
            assert(d.contains(m[i]));
            let j = choose|j: int| 0 <= j < d.len() && d[j] == m[i];
            assert(ts.contains(d[j]));
        }
    }
    lemma_sub_batch(m, ts);
    assert(union_of(r, m));
    lemma_set_eq_trans(members_of(r), m, d);
}

/// the batch without its `never` members (union_type_all drops them before choosing a path)
pub open spec fn drop_never(ts: Seq<LuaType>) -> Seq<LuaType>
    decreases ts.len()
{
    if ts.len() == 0 { Seq::empty() }
    else if ts.last() is Never { drop_never(ts.drop_last()) } else { drop_never(ts.drop_last()).push(ts.last()) }
}
pub open spec fn has_any(ts: Seq<LuaType>) -> bool { exists|i: int| 0 <= i < ts.len() && #[trigger] ts[i] is Any }
pub proof fn lemma_drop_never_push(s: Seq<LuaType>, x: LuaType)
    ensures drop_never(s.push(x)) == (if x is Never { drop_never(s) } else { drop_never(s).push(x) }),
{
    assert(s.push(x).drop_last() == s);
}
pub proof fn lemma_drop_never_props(ts: Seq<LuaType>)
    requires !has_any(ts),
    ensures no_never_any(drop_never(ts)),
    decreases ts.len()
{
    if ts.len() > 0 {
        assert forall|i: int| 0 <= i < ts.drop_last().len() implies !(#[trigger] ts.drop_last()[i] is Any) by { assert(ts[i] == ts.drop_last()[i]); }
        lemma_drop_never_props(ts.drop_last());
        assert(!(ts[ts.len() - 1] is Any));
    }
}

/// C16, last sentence, for a batch to which the fast path applies: the batch result (union_type_all: `union_of(f, D)`) and the result of
/// unioning one at a time (union_fold, the slow-path text itself: `acc_ok(s, D)`) are the same union — identical when there is one
/// distinct member, else unions with the same duplicate-free member set; the ORDER of the members may differ.
pub proof fn law_batch_equals_fold(ts: Seq<LuaType>, f: LuaType, s: LuaType)
    requires fold_hyp(ts), ts.len() >= 1, union_of(f, dedupe(ts)), acc_ok(s, dedupe(ts)),
    ensures same_union(f, s) /*@C16.union-batch-equals-fold*/,
{
    lemma_dedupe_props(ts);
    lemma_same_union(f, s, dedupe(ts));
}
/// every value-hashed batch satisfies the two side hypotheses (LuaType::eq is structural equality on these variants)
pub open spec fn all_hash_by_value(ts: Seq<LuaType>) -> bool { forall|i: int| 0 <= i < ts.len() ==> hash_by_value(#[trigger] ts[i]) }
pub proof fn lemma_value_batches_are_regular(ts: Seq<LuaType>)
    requires all_hash_by_value(ts),
    ensures eq_regular(ts), dup_coherent(ts) /*@C16.union.value-batches-are-regular*/,
{
    reveal(teq);
    assert forall|a: LuaType| ts.contains(a) implies hash_by_value(a) by {
        let i = choose|i: int| 0 <= i < ts.len() && ts[i] == a;
    }
    assert forall|a: LuaType, b: LuaType| hash_by_value(a) && hash_by_value(b) implies (#[trigger] teq(a, b) <==> a == b) by { }
}
