"""unit c16_laws — property C16 (type assignability laws, union building) under contract.  See template.rs / laws.rs."""
import re
from vc import rules as R

SRC = 'crates/emmylua_code_analysis/src/'
TC = SRC + 'semantic/type_check/'
TY = SRC + 'db_index/type/'


def fn(file, name, impl=None, **kw):
    src = {'file': file, 'kind': 'fn', 'name': name}
    if impl: src['impl'] = impl
    d = {'src': src}
    d.update(kw)
    return d


def st(file, name, kind='struct', **kw):
    d = {'src': {'file': file, 'kind': kind, 'name': name}}
    if kind == 'struct':
        d['rules'] = [('struct-fields', kw.pop('fields', {}))]
    d.update(kw)
    return d


GUARD_REQ = 'guard_wf(check_guard)'
LVL = 'check_guard.stack_level as int'
DBF = 'old(context).db'

ITEMS = {
    # ---- types ----------------------------------------------------------------------------------------------------
    'LuaType': st(TY + 'types/lua_type.rs', 'LuaType', kind='enum'),
    'LuaUnionType': st(TY + 'types/complex.rs', 'LuaUnionType', kind='enum'),
    'BasicTypeUnion': {'src': {'file': TY + 'basic_union.rs', 'kind': 'struct', 'name': 'BasicTypeUnion'}, 'rules': ['c16-tuple-field-pub']},
    'LuaIntersectionType': st(TY + 'types/complex.rs', 'LuaIntersectionType'),
    'LuaArrayType': st(TY + 'types/complex.rs', 'LuaArrayType'),
    'LuaArrayLen': st(TY + 'types/complex.rs', 'LuaArrayLen', kind='enum'),
    'LuaInstanceType': st(TY + 'types/complex.rs', 'LuaInstanceType'),
    'LuaMultiLineUnion': st(TY + 'types/complex.rs', 'LuaMultiLineUnion'),
    'GenericTpl': st(TY + 'types/complex.rs', 'GenericTpl', fields={'keep': ['tpl_id', 'param']}),
    'GenericParam': st(TY + 'generic_param.rs', 'GenericParam', fields={'keep': ['constraint', 'default', 'is_const']}),
    'LuaAliasCallKind': st(TY + 'types/complex.rs', 'LuaAliasCallKind', kind='enum'),
    'TypeCheckFailReason': st(TC + 'type_check_fail_reason.rs', 'TypeCheckFailReason', kind='enum'),
    'TypeCheckGuard': st(TC + 'type_check_guard.rs', 'TypeCheckGuard', attrs='#[derive(Clone, Copy)]'),
    'MAX_TYPE_CHECK_LEVEL': st(TC + 'type_check_guard.rs', 'MAX_TYPE_CHECK_LEVEL', kind='const'),
    'TypeCheckLevelResult': st(TC + 'type_check_guard.rs', 'TypeCheckLevelResult', kind='type'),
    'TypeCheckResult': st(TC + 'mod.rs', 'TypeCheckResult', kind='type'),
    'TypeCheckCheckLevel': st(TC + 'type_check_context.rs', 'TypeCheckCheckLevel', kind='enum'),
    'TypeCheckContext': st(TC + 'type_check_context.rs', 'TypeCheckContext'),

    # ---- accessors ------------------------------------------------------------------------------------------------
    'LuaIntersectionType::get_types': fn(TY + 'types/complex.rs', 'get_types', 'LuaIntersectionType', ret='r', ensures='r@ == self.types@'),
    'LuaArrayType::get_base': fn(TY + 'types/complex.rs', 'get_base', 'LuaArrayType', ret='r', ensures='*r == self.base'),
    'LuaInstanceType::get_base': fn(TY + 'types/complex.rs', 'get_base', 'LuaInstanceType', ret='r', ensures='*r == self.base'),
    'GenericTpl::get_constraint': fn(TY + 'types/complex.rs', 'get_constraint', 'GenericTpl', ret='r',
                                     ensures='match r { Some(t) => self.param.constraint == Some(*t), None => self.param.constraint is None }'),
    'LuaType::is_boolean': fn(TY + 'types/predicates.rs', 'is_boolean', 'LuaType', ret='r', ensures='r == sp_is_boolean(*self)'),
    'LuaType::is_never': fn(TY + 'types/predicates.rs', 'is_never', 'LuaType', ret='r', ensures='r == (*self is Never)'),
    'TypeCheckFailReason::is_type_not_match': fn(TC + 'type_check_fail_reason.rs', 'is_type_not_match', 'TypeCheckFailReason', ret='r',
                                                 ensures='r == sp_tnm(*self)'),
    'TypeCheckGuard::new': fn(TC + 'type_check_guard.rs', 'new', 'TypeCheckGuard', ret='r', ensures='r.stack_level == 0'),
    'TypeCheckGuard::next_level': fn(
        TC + 'type_check_guard.rs', 'next_level', 'TypeCheckGuard', ret='r',
        requires='guard_wf(*self)',
        ensures='''
        self.stack_level < 100 ==> (r matches Ok(g) && g.stack_level == self.stack_level + 1) /*@C16.guard.next-level*/,
        self.stack_level >= 100 ==> (r matches Err(e) && e is TypeRecursion) /*@C16.guard.limit-is-an-error*/'''),

    # ---- the checker ----------------------------------------------------------------------------------------------
    'is_like_any': fn(TC + 'mod.rs', 'is_like_any', ret='r', ensures='''
        sp_any_or_unknown(*ty) ==> r /*@C16.any-is-like-any*/,
        r == sp_like_any(*ty)'''),
    'fast_eq_check': fn(TC + 'mod.rs', 'fast_eq_check', ret='r', ensures='''
        fast_eq_lb(*a, *b) ==> r /*@C16.fast-eq.accepts*/,
        r ==> fast_eq_ub(*a, *b) /*@C16.fast-eq.nothing-else*/'''),
    'check_general_type_compact': fn(
        TC + 'mod.rs', 'check_general_type_compact', ret='r',
        attrs='#[verifier::spinoff_prover]',
        requires=GUARD_REQ,
        ensures='''
        ctx_frame(old(context), final(context)),
        sp_like_any(*compact_type) ==> r is Ok /*@C16.any-is-accepted-everywhere*/,
        fast_eq_lb(*source, *compact_type) ==> r is Ok /*@C16.reflexive.head-guard*/,
        head_ok(%s, *source, *compact_type, %s) ==> r is Ok /*@C16.head-ok-accepts*/,
        head_err(%s, *source, *compact_type, %s) ==> r is Err /*@C16.head-err-rejects*/,
        reaches_source_arm(%s, *compact_type) && some_member_ok(%s, *source, *compact_type, %s) ==> res_no_mismatch(r) /*@C16.union-never-mismatches-member*/''' % (DBF, LVL, DBF, LVL, DBF, DBF, LVL),
        decreases='100 - check_guard.stack_level, 2int',
        iter_names={0: 'it'},
        loops={0: '''invariant
                    guard_wf(check_guard), ctx_frame(old(context), context),
                    it.seq().len() == compact_intersection.types@.len(), forall|k: int| 0 <= k < it.seq().len() ==> *(#[trigger] it.seq()[k]) == compact_intersection.types@[k],
                    forall|k: int| 0 <= k < it.index@ ==> !head_ok(old(context).db, *source, #[trigger] compact_intersection.types@[k], check_guard.stack_level + 1),'''}),
    'check_complex_type_compact': fn(
        TC + 'complex_type/mod.rs', 'check_complex_type_compact', ret='r',
        attrs='#[verifier::spinoff_prover]',
        requires=GUARD_REQ,
        ensures='''
        ctx_frame(old(context), final(context)),
        cx_ok(%s, *source, *compact_type, %s) ==> r is Ok /*@C16.union-arm.first-member-accepts*/,
        some_member_ok(%s, *source, *compact_type, %s) ==> res_no_mismatch(r) /*@C16.union-arm.never-mismatches-member*/''' % (DBF, LVL, DBF, LVL),
        decreases='100 - check_guard.stack_level, 1int',
        iter_names={0: 'it', 1: 'it2'},
        loops={0: '''invariant
                    guard_wf(check_guard), ctx_frame(old(context), context),
                    it.seq() == sp_into_vec(**union_type),
                    forall|k: int| 0 <= k < it.index@ ==> !head_ok(old(context).db, #[trigger] sp_into_vec(**union_type)[k], *compact_type, check_guard.stack_level + 1),''',
               1: '''invariant
                    guard_wf(check_guard), ctx_frame(old(context), context),'''}),
    'check_union_type_compact_union': fn(
        TC + 'complex_type/mod.rs', 'check_union_type_compact_union', ret='r',
        requires=GUARD_REQ,
        ensures='''
        ctx_frame(old(context), final(context)),
        (check_guard.stack_level < 100 && forall|k: int| 0 <= k < sp_into_vec(*compact_union).len()
            ==> #[trigger] head_ok(%s, *source, sp_into_vec(*compact_union)[k], %s + 1)) ==> r is Ok''' % (DBF, LVL),
        decreases='100 - check_guard.stack_level, 0int',
        iter_names={0: 'it'},
        loops={0: '''invariant
                    guard_wf(check_guard), ctx_frame(old(context), context),
                    it.seq() == sp_into_vec(*compact_union),'''}),
    'TypeCheckContext::new': fn(TC + 'type_check_context.rs', 'new', 'TypeCheckContext', ret='r',
                                ensures='r.db == db, r.detail == detail, r.level == level'),
    'check_type_compact': fn(
        TC + 'mod.rs', 'check_type_compact', ret='r',
        ensures='''
        sp_like_any(*compact_type) ==> r is Ok /*@C16.entry.any-is-accepted-everywhere*/,
        head_ok(db, *source, *compact_type, 0) ==> r is Ok /*@C16.entry.head-ok-accepts*/,
        head_err(db, *source, *compact_type, 0) ==> r is Err /*@C16.entry.head-err-rejects*/'''),
}

UNIT = {
    'items': ITEMS,
    'extra_rules': [
        ('c16-tuple-field-pub', r'pub struct BasicTypeUnion\(u32\);', 'pub struct BasicTypeUnion(pub u32);',
         'visibility of the tuple field (no run-time meaning; specs name it)'),
    ],
    'allow': [r'external_body', r'uninterp spec fn', r'assume_specification'],
    'min_obligations': 10,
    'trusted': [],
    'samples': [],
    'not_covered': [],
    'mutants': [],
}
