"""unit c16_laws — property C16 (type assignability laws, union building) under contract.  See template.rs / laws.rs."""
import re
from vc import rules as R

import os
from vc import extract as X

SRC = 'crates/emmylua_code_analysis/src/'
TC = SRC + 'semantic/type_check/'
TY = SRC + 'db_index/type/'
REPO = os.environ.get('VERIF_REPO', '/repo')
HERE = os.path.dirname(os.path.abspath(__file__))


def _raw(file, name, impl=None):
    src = {'file': file, 'kind': 'fn', 'name': name}
    if impl: src['impl'] = impl
    try:
        return X.find_item(REPO, src).raw
    except Exception:
        return ''


# HELPER contracts follow the text of the tree under verification (the property-level clauses never do):
#  * LuaType::from_vec dedupes either with a hash set (then equal members must be hashed by value: dup_coherent) or with `==`
FROM_VEC_HASHSET = 'HashSet::new()' in _raw(TY + 'types/predicates.rs', 'from_vec', 'LuaType')
#  * fast_eq_check may or may not compare SelfInfer / StrTplRef / Conditional / Mapped
FAST_EQ_EXTRA = 'LuaType::SelfInfer, LuaType::SelfInfer' in _raw(TC + 'mod.rs', 'fast_eq_check')


def fn(file, name, impl=None, **kw):
    src = {'file': file, 'kind': 'fn', 'name': name}
    if impl: src['impl'] = impl
    d = {'src': src}
    d.update(kw)
    return d


def st(file, name, kind='struct', **kw):
    d = {'src': {'file': file, 'kind': kind, 'name': name}}
    if kind == 'struct':
        d['rules'] = [('struct-fields', kw.pop('fields', {}))]
    d.update(kw)
    return d


GUARD_REQ = 'guard_wf(check_guard)'
LVL = 'check_guard.stack_level as int'
DBF = 'old(context).db'

ITEMS = {
    # ---- types ----------------------------------------------------------------------------------------------------
    'LuaType': st(TY + 'types/lua_type.rs', 'LuaType', kind='enum'),
    'LuaUnionType': st(TY + 'types/complex.rs', 'LuaUnionType', kind='enum'),
    'BasicTypeUnion': {'src': {'file': TY + 'basic_union.rs', 'kind': 'struct', 'name': 'BasicTypeUnion'}, 'rules': ['c16-tuple-field-pub']},
    'LuaIntersectionType': st(TY + 'types/complex.rs', 'LuaIntersectionType'),
    'LuaArrayType': st(TY + 'types/complex.rs', 'LuaArrayType'),
    'LuaArrayLen': st(TY + 'types/complex.rs', 'LuaArrayLen', kind='enum'),
    'LuaInstanceType': st(TY + 'types/complex.rs', 'LuaInstanceType'),
    'LuaMultiLineUnion': st(TY + 'types/complex.rs', 'LuaMultiLineUnion'),
    'GenericTpl': st(TY + 'types/complex.rs', 'GenericTpl', fields={'keep': ['tpl_id', 'param']}),
    'GenericParam': st(TY + 'generic_param.rs', 'GenericParam', fields={'keep': ['constraint', 'default', 'is_const']}),
    'LuaAliasCallKind': st(TY + 'types/complex.rs', 'LuaAliasCallKind', kind='enum'),
    'TypeCheckFailReason': st(TC + 'type_check_fail_reason.rs', 'TypeCheckFailReason', kind='enum'),
    'TypeCheckGuard': st(TC + 'type_check_guard.rs', 'TypeCheckGuard', attrs='#[derive(Clone, Copy)]'),
    'MAX_TYPE_CHECK_LEVEL': st(TC + 'type_check_guard.rs', 'MAX_TYPE_CHECK_LEVEL', kind='const'),
    'TypeCheckLevelResult': st(TC + 'type_check_guard.rs', 'TypeCheckLevelResult', kind='type'),
    'TypeCheckResult': st(TC + 'mod.rs', 'TypeCheckResult', kind='type'),
    'TypeCheckCheckLevel': st(TC + 'type_check_context.rs', 'TypeCheckCheckLevel', kind='enum', attrs='#[derive(PartialEq, Eq)]'),
    'TypeCheckContext': st(TC + 'type_check_context.rs', 'TypeCheckContext', fields={'drop': ['table_member_checked']}),

    'LuaType::eq': fn(TY + 'types/lua_type.rs', 'eq', 'PartialEq for LuaType', pub=False, attrs='#[verifier::spinoff_prover]', ret='r',
                      rules=['c16-eq-typeguard-arm', 'c16-eq-tablegeneric-arm'],
                      ensures='eq_obeys() ==> r == teq(*self, *other) /*@C16.eq.is-teq*/',
                      body_first='proof { reveal(teq); }'),

    # ---- accessors ------------------------------------------------------------------------------------------------
    'LuaIntersectionType::get_types': fn(TY + 'types/complex.rs', 'get_types', 'LuaIntersectionType', ret='r', ensures='r@ == self.types@'),
    'LuaArrayType::get_base': fn(TY + 'types/complex.rs', 'get_base', 'LuaArrayType', ret='r', ensures='*r == self.base'),
    'LuaInstanceType::get_base': fn(TY + 'types/complex.rs', 'get_base', 'LuaInstanceType', ret='r', ensures='*r == self.base'),
    'GenericTpl::get_constraint': fn(TY + 'types/complex.rs', 'get_constraint', 'GenericTpl', ret='r',
                                     ensures='match r { Some(t) => self.param.constraint == Some(*t), None => self.param.constraint is None }'),
    'LuaType::is_string': fn(TY + 'types/predicates.rs', 'is_string', 'LuaType', ret='r', ensures='r == sp_is_string(*self)'),
    'LuaType::is_boolean': fn(TY + 'types/predicates.rs', 'is_boolean', 'LuaType', ret='r', ensures='r == sp_is_boolean(*self)'),
    'LuaType::is_never': fn(TY + 'types/predicates.rs', 'is_never', 'LuaType', ret='r', ensures='r == (*self is Never)'),
    'TypeCheckFailReason::is_type_not_match': fn(TC + 'type_check_fail_reason.rs', 'is_type_not_match', 'TypeCheckFailReason', ret='r',
                                                 ensures='r == sp_tnm(*self)'),
    'TypeCheckGuard::new': fn(TC + 'type_check_guard.rs', 'new', 'TypeCheckGuard', ret='r', ensures='r.stack_level == 0'),
    'TypeCheckGuard::next_level': fn(
        TC + 'type_check_guard.rs', 'next_level', 'TypeCheckGuard', ret='r',
        requires='guard_wf(*self)',
        ensures='''
        self.stack_level < 100 ==> (r matches Ok(g) && g.stack_level == self.stack_level + 1) /*@C16.guard.next-level*/,
        self.stack_level >= 100 ==> (r matches Err(e) && e is TypeRecursion) /*@C16.guard.limit-is-an-error*/'''),

    'ModuleInfo': st(SRC + 'db_index/module/module_info.rs', 'ModuleInfo', fields={'keep': ['export_type']}),
    'generic_tpl_constraint_type': fn(TC + 'mod.rs', 'generic_tpl_constraint_type', ret='r', ensures='''
        !(typ is TplRef) ==> r is None,
        r matches Some(t) ==> (typ matches LuaType::TplRef(tpl) && tpl.param.constraint == Some(*t))'''),
    'escape_type': fn(TC + 'mod.rs', 'escape_type', ret='r', rules=['c16-letchain-cond-first', 'c16-type-ne', 'c16-tpl-escape'],
                      ensures='''
        r == sp_escape(db, *typ) /*@C16.escape.spec*/,
        never_escapes(*typ) ==> r is None /*@C16.escape.only-eight-variants*/'''),

    'Emmyrc': st(SRC + 'config/mod.rs', 'Emmyrc', fields={'keep': ['strict']}),
    'EmmyrcStrict': st(SRC + 'config/configs/strict.rs', 'EmmyrcStrict', fields={'keep': ['doc_base_const_match_base_type']}),
    'check_simple_type_compact': fn(
        TC + 'simple_type.rs', 'check_simple_type_compact', ret='r', attrs='#[verifier::spinoff_prover]',
        requires=GUARD_REQ,
        ensures='''
        ctx_frame(old(context), final(context)),
        simple_ok(old(context).level, *source, *compact_type) ==> r is Ok /*@C16.simple.accepts*/,
        simple_err(*source, *compact_type) ==> r is Err /*@C16.simple.rejects*/''',
        decreases='100 - check_guard.stack_level, 0int',
        iter_names={0: 'it'},
        loops={0: '''invariant
                guard_wf(check_guard), ctx_frame(old(context), context), !simple_ok(old(context).level, *source, *compact_type), compact_type is Union,'''}),

    # ---- the checker ----------------------------------------------------------------------------------------------
    'is_like_any': fn(TC + 'mod.rs', 'is_like_any', ret='r', ensures='''
        sp_any_or_unknown(*ty) ==> r /*@C16.any-is-like-any*/,
        r == sp_like_any(*ty)'''),
    'fast_eq_check': fn(TC + 'mod.rs', 'fast_eq_check', ret='r', ensures='''
        fast_eq_lb(*a, *b) ==> r /*@C16.fast-eq.accepts*/,
        r ==> fast_eq_ub(*a, *b) /*@C16.fast-eq.nothing-else*/''' + ('''
        , fast_eq_extra(*a, *b) ==> r /*@C16.fast-eq.accepts-equal-template-types*/''' if FAST_EQ_EXTRA else '')),
    'check_general_type_compact': fn(
        TC + 'mod.rs', 'check_general_type_compact', ret='r',
        attrs='#[verifier::spinoff_prover]',
        requires=GUARD_REQ,
        ensures='''
        ctx_frame(old(context), final(context)),
        sp_like_any(*compact_type) ==> r is Ok /*@C16.any-is-accepted-everywhere*/,
        fast_eq_lb(*source, *compact_type) ==> r is Ok /*@C16.reflexive.head-guard*/,
        head_ok(%s, *source, *compact_type, %s) ==> r is Ok /*@C16.head-ok-accepts*/,
        head_err(%s, *source, *compact_type, %s) ==> r is Err /*@C16.head-err-rejects*/,
        reaches_source_arm(%s, *compact_type) && some_member_ok(%s, *source, *compact_type, %s) ==> res_no_mismatch(r) /*@C16.union-never-mismatches-member*/''' % (DBF, LVL, DBF, LVL, DBF, DBF, LVL),
        decreases='100 - check_guard.stack_level, 3int',
        iter_names={0: 'it'},
        loops={0: '''invariant
                    guard_wf(check_guard), ctx_frame(old(context), context),
                    !sp_like_any(*compact_type), !fast_eq_lb(*source, *compact_type), sp_escape(old(context).db, *compact_type) is None,
                    *compact_type == LuaType::Intersection(*compact_intersection), !(source is Intersection),
                    it.seq().len() == compact_intersection.types@.len(), forall|k: int| 0 <= k < it.seq().len() ==> *(#[trigger] it.seq()[k]) == compact_intersection.types@[k],
                    forall|k: int| 0 <= k < it.index@ ==> !head_ok(old(context).db, *source, #[trigger] compact_intersection.types@[k], check_guard.stack_level + 1) /*@C16.head-ok-accepts.inv*/,'''},
        proof=[(r'\.is_ok\(\)\s*\{', 'after', '''proof {
                    let k = it.index@;
                    assert(*component == compact_intersection.types@[k]);
                    assert(compact_type->Intersection_0.types@[k] == compact_intersection.types@[k]);
                    assert(!head_err(old(context).db, *source, compact_intersection.types@[k], check_guard.stack_level + 1));
                }''')]),
    'every::check_general_type_compact': fn(
        TC + 'mod.rs', 'check_general_type_compact', ret='r',
        attrs='#[verifier::spinoff_prover]\n#[verifier::loop_isolation(false)]',
        requires=GUARD_REQ,
        ensures='''
        ctx_frame(old(context), final(context)),
        // C16, "any or unknown accepts everything": whatever the value type, whatever the guard depth
        sp_any_or_unknown(*source) ==> r is Ok /*@C16.any-accepts-everything.at-every-depth*/,
        // C16, "a value of type T is accepted where T is expected": for every T the unit can state it for (refl_claim)
        refl_claim(%s, *source) && *source == *compact_type ==> r is Ok /*@C16.reflexive.every-variant*/''' % DBF,
        decreases='100 - check_guard.stack_level, 3int',
        iter_names={0: 'it'},
        loops={0: '''invariant guard_wf(check_guard), ctx_frame(old(context), context),'''}),
    'check_complex_type_compact': fn(
        TC + 'complex_type/mod.rs', 'check_complex_type_compact', ret='r',
        attrs='#[verifier::spinoff_prover]',
        requires=GUARD_REQ,
        ensures='''
        ctx_frame(old(context), final(context)),
        cx_ok(%s, *source, *compact_type, %s) ==> r is Ok /*@C16.union-arm.first-member-accepts*/,
        some_member_ok(%s, *source, *compact_type, %s) ==> res_no_mismatch(r) /*@C16.union-arm.never-mismatches-member*/''' % (DBF, LVL, DBF, LVL),
        decreases='100 - check_guard.stack_level, 2int',
        iter_names={0: 'it', 1: 'it2'},
        loops={0: '''invariant
                    guard_wf(check_guard), ctx_frame(old(context), context),
                    it.seq() == sp_into_vec(**union_type), *source == LuaType::Union(*union_type), !(compact_type is Union),
                    forall|k: int| 0 <= k < it.index@ ==> !head_ok(old(context).db, #[trigger] sp_into_vec(**union_type)[k], *compact_type, check_guard.stack_level + 1) /*@C16.union-arm.first-member-accepts.inv*/,''',
               1: '''invariant
                    guard_wf(check_guard), ctx_frame(old(context), context), !(source is Union), !(source is MultiLineUnion),'''}),
    'check_union_type_compact_union': fn(
        TC + 'complex_type/mod.rs', 'check_union_type_compact_union', ret='r',
        requires=GUARD_REQ,
        ensures='''
        ctx_frame(old(context), final(context)),
        (check_guard.stack_level < 100 && forall|k: int| 0 <= k < sp_into_vec(*compact_union).len()
            ==> head_ok(%s, *source, #[trigger] sp_into_vec(*compact_union)[k], %s + 1)) ==> r is Ok''' % (DBF, LVL),
        decreases='100 - check_guard.stack_level, 1int',
        iter_names={0: 'it'},
        loops={0: '''invariant
                    guard_wf(check_guard), ctx_frame(old(context), context),
                    it.seq() == sp_into_vec(*compact_union),'''}),
    'TypeCheckContext::new': fn(TC + 'type_check_context.rs', 'new', 'TypeCheckContext', ret='r', rules=['c16-drop-member-checked-init'],
                                ensures='r.db == db, r.detail == detail, r.level == level'),
    'check_type_compact': fn(
        TC + 'mod.rs', 'check_type_compact', ret='r',
        ensures='''
        sp_like_any(*compact_type) ==> r is Ok /*@C16.entry.any-is-accepted-everywhere*/,
        head_ok(db, *source, *compact_type, 0) ==> r is Ok /*@C16.entry.head-ok-accepts*/,
        head_err(db, *source, *compact_type, 0) ==> r is Err /*@C16.entry.head-err-rejects*/'''),
}

UT = TY + 'type_ops/union_type.rs'
_FV_COMMON = dict(
    ret='r', attrs='#[verifier::spinoff_prover]',
    ensures='from_vec_post(types@, r) /*@C16.union.from-vec-is-union-of-distinct-members*/',
    body_first='let ghost ts = types@; proof { if ts.len() == 1 { lemma_dedupe_single(ts); } }',
    iter_names={0: 'it', 1: 'it2'})
_FV_TAIL = (r'match result_types\.len\(\) \{', 'before', '''proof {
                    if batch_hyp(ts) {
                        assert(ts.take(ts.len() as int) == ts);
                        lemma_dedupe_props(ts);
                        let d = dedupe(ts);
                        if d.len() >= 2 { assert(ts.contains(d[0])); }
                    }
                }''')
if FROM_VEC_HASHSET:
    FROM_VEC = fn(TY + 'types/predicates.rs', 'from_vec', 'LuaType',
        loops={0: '''invariant
                it.seq() == ts, ts.len() >= 2,
                batch_hyp(ts) ==> (result_types@ == dedupe(ts.take(it.index@)) && hash_set.elems() == result_types@) /*@C16.union.from-vec-is-union-of-distinct-members.inv*/,''',
               1: '''invariant
                it.seq() == ts, ts.len() >= 2, !no_unions(ts),'''},
        proof=[
            (r'LuaType::Union\(u\) => \{', 'after', 'proof { assert(ts[it.index@] is Union); }'),
            (r'if hash_set\.insert\(typ\.clone\(\)\) \{', 'before', 'proof { if batch_hyp(ts) { lemma_dedupe_step(ts, it.index@); } }'),
            _FV_TAIL,
        ], **_FV_COMMON)
else:
    # dedupe by a `==` scan of the result list (proposed_fix_hash_eq.diff): no hash set, no hypothesis about hashing
    FROM_VEC = fn(TY + 'types/predicates.rs', 'from_vec', 'LuaType', rules=['c16-contains'],
        loops={0: '''invariant
                it.seq() == ts, ts.len() >= 2,
                batch_hyp(ts) ==> result_types@ == dedupe(ts.take(it.index@)) /*@C16.union.from-vec-is-union-of-distinct-members.inv*/,''',
               1: '''invariant
                it.seq() == ts, ts.len() >= 2, !no_unions(ts),'''},
        proof=[
            (r'LuaType::Union\(u\) => \{', 'after', 'proof { assert(ts[it.index@] is Union); }'),
            (r'if !vx_contains\(&result_types, &typ\) \{', 'before', 'proof { if batch_hyp(ts) { lemma_dedupe_scan_step(ts, it.index@); } }'),
            _FV_TAIL,
        ], **_FV_COMMON)
ITEMS.update({
    'BasicTypeKind': st(TY + 'basic_union.rs', 'BasicTypeKind', kind='enum', attrs='#[derive(Clone, Copy)]'),
    'BasicTypeKind::from_type': fn(TY + 'basic_union.rs', 'from_type', 'BasicTypeKind', ret='r', ensures='r == sp_kind_of(*value)'),
    'LuaType::is_number': fn(TY + 'types/predicates.rs', 'is_number', 'LuaType', ret='r', ensures='r == sp_is_number(*self)'),
    'LuaType::is_union': fn(TY + 'types/predicates.rs', 'is_union', 'LuaType', ret='r', ensures='r == (*self is Union)'),
    'LuaType::from_vec': FROM_VEC,
    'LuaUnionType::from_vec': fn(
        TY + 'types/complex.rs', 'from_vec', 'LuaUnionType', ret='r', rules=['c16-contains', 'c16-find-non-nil'], attrs='#[verifier::spinoff_prover]',
        ensures='union_from_vec_post(types@, r) /*@C16.union.from-vec-keeps-members*/',
        iter_names={0: 'it'},
        loops={0: '''invariant
                it.seq().len() == types@.len(), forall|k: int| 0 <= k < it.seq().len() ==> *(#[trigger] it.seq()[k]) == types@[k],
                all_basic ==> forall|i: int| 0 <= i < it.index@ ==> (sp_kind_of(#[trigger] types@[i]) matches Some(k) && sp_basic_has(basic_type, k)),
                forall|k: BasicTypeKind| #[trigger] sp_basic_has(basic_type, k) ==> exists|i: int| 0 <= i < it.index@ && sp_kind_of(#[trigger] types@[i]) == Some(k),
            ensures all_basic ==> it.index@ == types@.len(),'''},
        proof=[
            (r'return Self::Basic\(basic_type\);', 'before', '''proof {
                lemma_basic_members_all(basic_type);
                let m = sp_basic_members(basic_type);
                assert forall|i: int| 0 <= i < m.len() implies types@.contains(#[trigger] m[i]) by {
                    assert(m.contains(m[i]));
                    let k = sp_kind_of(m[i])->Some_0;
                    let j = choose|j: int| 0 <= j < types@.len() && sp_kind_of(#[trigger] types@[j]) == Some(k);
                    assert(types@[j] == m[i]);
                }
                assert forall|i: int| 0 <= i < types@.len() implies m.contains(#[trigger] types@[i]) by { }
                assert forall|i: int, j: int| 0 <= i < m.len() && 0 <= j < m.len() && i != j implies !teq(#[trigger] m[i], #[trigger] m[j]) by {
                    assert(m.contains(m[i]));
                    if i < j { assert(m[i] != m[j]); } else { assert(m[j] != m[i]); }
                    lemma_teq_basic(m[i], m[j]);
                }
                if eq_obeys() && teq_dupfree(types@) && types@.len() >= 2 && teq(types@[0], types@[0]) {
                    assert(!teq(types@[0], types@[1]));
                    assert(types@[0] != types@[1]);
                    assert(m.contains(types@[0]) && m.contains(types@[1]));
                    let i0 = choose|i: int| 0 <= i < m.len() && m[i] == types@[0];
                    let i1 = choose|i: int| 0 <= i < m.len() && m[i] == types@[1];
                    assert(i0 != i1);
                }
            }'''),
            (r'return Self::Nullable\(ty\.clone\(\)\);', 'before', '''proof {
                if eq_obeys() {
                    let j = choose|j: int| 0 <= j < types@.len() && teq(#[trigger] types@[j], LuaType::Nil);
                    lemma_teq_nil(types@[j]);
                    lemma_teq_nil(*ty);
                    let m = seq![*ty, LuaType::Nil];
                    assert(m[0] == *ty && m[1] == LuaType::Nil);
                    assert(types@[0] == *ty && types@[1] is Nil || types@[1] == *ty && types@[0] is Nil);
                    assert(types@.contains(m[0]) && types@.contains(m[1]));
                    assert(m.contains(types@[0]) && m.contains(types@[1])) by {
                        if types@[0] == *ty { assert(m[0] == types@[0]); assert(m[1] == types@[1]); } else { assert(m[1] == types@[0]); assert(m[0] == types@[1]); }
                    }
                }
            }'''),
        ]),
    'LuaUnionType::into_vec': fn(TY + 'types/complex.rs', 'into_vec', 'LuaUnionType', ret='r', rules=['c16-basic-collect'],
                                 ensures='r@ == sp_into_vec(*self) /*@C16.union.into-vec*/'),
    'can_use_structural_union': fn(
        UT, 'can_use_structural_union', ret='r', attrs='#[verifier::spinoff_prover]',
        ensures='r ==> structural_batch(types@) /*@C16.union.fast-path-only-without-pair-rules*/',
        iter_names={0: 'it'},
        loops={0: '''invariant
                it.seq().len() == types@.len(), forall|k: int| 0 <= k < it.seq().len() ==> *(#[trigger] it.seq()[k]) == types@[k],
                0 <= boolean_const_count <= 1,
                forall|i: int| 0 <= i < it.index@ ==> plain(#[trigger] types@[i]) /*@C16.union.fast-path-only-without-pair-rules.plain.inv*/,
                forall|i: int| 0 <= i < it.index@ && (#[trigger] types@[i]) is Number ==> has_number,
                forall|i: int| 0 <= i < it.index@ && num_variant(#[trigger] types@[i]) ==> has_number_variant,
                forall|i: int| 0 <= i < it.index@ && (#[trigger] types@[i]) is Integer ==> has_integer,
                forall|i: int| 0 <= i < it.index@ && int_const(#[trigger] types@[i]) ==> has_integer_const,
                forall|i: int| 0 <= i < it.index@ && (#[trigger] types@[i]) is String ==> has_string,
                forall|i: int| 0 <= i < it.index@ && str_const(#[trigger] types@[i]) ==> has_string_const,
                forall|i: int| 0 <= i < it.index@ && (#[trigger] types@[i]) is Boolean ==> has_boolean,
                forall|i: int| 0 <= i < it.index@ && bool_const(#[trigger] types@[i]) ==> boolean_const_count == 1,
                forall|i: int| 0 <= i < it.index@ && (#[trigger] types@[i]) is Table ==> has_table,
                forall|i: int| 0 <= i < it.index@ && (#[trigger] types@[i]) is TableConst ==> has_table_const,
                !(has_number && has_number_variant) && !(has_integer && has_integer_const) && !(has_string && has_string_const)
                    && !(has_boolean && boolean_const_count > 0) && !(has_table && has_table_const),
                forall|i: int, j: int| 0 <= i < it.index@ && 0 <= j < it.index@ && i != j ==> !pair_rule(#[trigger] types@[i], #[trigger] types@[j]) /*@C16.union.fast-path-only-without-pair-rules.inv*/,'''}),
    'union_type_impl': fn(
        UT, 'union_type_impl', ret='r', rules=['c16-mlu-include', 'c16-contains'], attrs='#[verifier::spinoff_prover]',
        body_first='proof { reveal(teq); }',
        ensures='impl_post(*match_source, source, target, r) /*@C16.union.step*/'),
    'canonicalize_callable_union': {
        'src': {'kind': 'slice', 'name': 'canonicalize_callable_union',
                'in': {'file': UT, 'kind': 'fn', 'name': 'canonicalize_callable_union'},
                'from': 'BODY_START', 'to': r'return LuaType::from_vec\(members\);\s*\}',
                'head': 'pub fn canonicalize_callable_union(db: &DbIndex, ty: LuaType) -> LuaType',
                'tail': '    vx_canonicalize_callables(db, members)'},
        'rules': ['c16-any-callable'], 'ret': 'r',
        'ensures': 'canon_post(ty, r) /*@C16.union.canonicalize-keeps-plain-unions*/'},
    'union_type': fn(UT, 'union_type', ret='r', rules=['c16-cloned-or-else'],
                     ensures='union_type_post(source, target, r) /*@C16.union.one-step*/'),
    'union_fold': {
        'src': {'kind': 'slice', 'name': 'union_fold', 'in': {'file': UT, 'kind': 'fn', 'name': 'union_type_all'},
                'from': r'let mut result = LuaType::Never;', 'to': r'\n    result\n',
                'head': 'pub fn union_fold(db: &DbIndex, result_types: Vec<LuaType>) -> LuaType', 'tail': ''},
        'ret': 'r',
        'ensures': 'fold_hyp(result_types@) ==> acc_ok(r, dedupe(result_types@)) /*@C16.union.fold-is-union-of-distinct-members*/',
        'body_first': 'let ghost ts = result_types@;',
        'iter_names': {0: 'it'},
        'loops': {0: '''invariant
                it.seq() == ts,
                fold_hyp(ts) ==> acc_ok(result, dedupe(ts.take(it.index@))) /*@C16.union.fold-is-union-of-distinct-members.inv*/,'''},
        'proof': [
            (r'result = union_type\(db, result, typ\);', 'before', 'let ghost acc0 = result;'),
            (r'result = union_type\(db, result, typ\);', 'after', '''proof {
                if fold_hyp(ts) {
                    let k = it.index@;
                    lemma_regular_take(ts, k);
                    lemma_dedupe_props(ts.take(k));
                    let d = dedupe(ts.take(k));
                    if d.len() == 1 { assert(ts.take(k).contains(d[0])); let j = choose|j: int| 0 <= j < ts.take(k).len() && ts.take(k)[j] == d[0]; assert(ts[j] == d[0]); assert(plain(ts[j])); }
                    assert(!(acc0 is Ref));
                    let mid = choose|mid: LuaType| #[trigger] impl_post(acc0, acc0, typ, mid) && canon_post(mid, result);
                    lemma_fold_step(ts, k, acc0, mid, result);
                }
            }'''),
            (r'\n    result\n', 'before', '''
    proof { assert(ts.take(ts.len() as int) == ts); }'''),
        ]},
    'union_type_all': fn(
        UT, 'union_type_all', ret='r', rules=['c16-mono-vec'],
        ensures='''
        has_any(types@) ==> r is Any /*@C16.union.batch.any-absorbs*/,
        !has_any(types@) && drop_never(types@).len() == 0 ==> r is Never /*@C16.union.batch.empty-is-never*/,
        // the batch result is the union of the distinct members, as the one-at-a-time fold's is (union_fold) - for EVERY structural batch
        (!has_any(types@) && drop_never(types@).len() >= 1 && fold_hyp(drop_never(types@)))
            ==> union_of(r, dedupe(drop_never(types@))) /*@C16.union.batch-is-union-of-distinct-members*/''',
        body_first='let ghost ts0 = types@;',
        iter_names={0: 'it', 1: 'it2'},
        loops={0: '''invariant
                it.seq() == ts0,
                !has_any(ts0.take(it.index@)) /*@C16.union.batch.any-absorbs.inv*/,
                result_types@ == drop_never(ts0.take(it.index@)) /*@C16.union.batch.never-is-dropped.inv*/,''',
               1: '''invariant
                it2.seq() == ts, fold_hyp(ts) ==> acc_ok(result, dedupe(ts.take(it2.index@))),'''},
        proof=[
            (r'match typ \{', 'before', '''proof {
                let k = it.index@;
                assert(ts0.take(k + 1) == ts0.take(k).push(ts0[k]));
                lemma_drop_never_push(ts0.take(k), ts0[k]);
                if typ is Any { assert(ts0[k] is Any); }
                else {
                    assert forall|i: int| 0 <= i < ts0.take(k + 1).len() implies !(#[trigger] ts0.take(k + 1)[i] is Any) by {
                        if i < k { assert(ts0.take(k)[i] == ts0.take(k + 1)[i]); }
                    }
                }
            }'''),
            (r'if result_types\.is_empty\(\) \{', 'before', '''proof { assert(ts0.take(ts0.len() as int) == ts0); }
    let ghost ts = result_types@;'''),
            (r'return LuaType::from_vec\(result_types\);', 'before', '''proof {
            assert(structural_batch(ts)) /*@C16.union.fast-path-only-for-structural-batches*/;
            if fold_hyp(ts) && dedupe_hyp(ts) { assert(batch_hyp(ts)); }
        }'''),
            (r'result = union_type\(db, result, typ\);', 'before', 'let ghost acc0 = result;'),
            (r'result = union_type\(db, result, typ\);', 'after', '''proof {
                if fold_hyp(ts) {
                    let k = it2.index@;
                    lemma_regular_take(ts, k);
                    lemma_dedupe_props(ts.take(k));
                    let d = dedupe(ts.take(k));
                    if d.len() == 1 { assert(ts.take(k).contains(d[0])); let j = choose|j: int| 0 <= j < ts.take(k).len() && ts.take(k)[j] == d[0]; assert(ts[j] == d[0]); assert(plain(ts[j])); }
                    assert(!(acc0 is Ref));
                    let mid = choose|mid: LuaType| #[trigger] impl_post(acc0, acc0, typ, mid) && canon_post(mid, result);
                    lemma_fold_step(ts, k, acc0, mid, result);
                }
            }'''),
            (r'\n    result\n\}', 'before', '''
    proof { assert(ts.take(ts.len() as int) == ts); if fold_hyp(ts) { lemma_dedupe_props(ts); } }'''),
        ]),
})

ST = TC + 'sub_type.rs'
ITEMS.update({
    'is_sub_type_of': fn(ST, 'is_sub_type_of', ret='r', ensures='''
        (exists|n: nat| ancestor_within(sp_type_index(db), *sub_type_ref_id, *super_type_ref_id, n)) ==> r /*@C16.subtype.ancestor-is-found*/'''),
    'check_sub_type_of_iterative': fn(
        ST, 'check_sub_type_of_iterative', ret='r', attrs='#[verifier::exec_allows_no_decreases_clause]\n#[verifier::spinoff_prover]',
        rules=['c16-while-let-loop'],
        ensures='''
        (exists|n: nat| ancestor_within(sp_type_index(db), *sub_type_ref_id, *super_type_ref_id, n)) ==> r /*@C16.subtype.ancestor-is-found*/''',
        iter_names={1: 'it'},
        proof=[
            (r'stack\.push\(sub_type_ref_id\);', 'after', '''proof {
        assert(stack@.drop_last() == Seq::<&LuaTypeDeclId>::empty());
        assert forall|x: LuaTypeDeclId| #[trigger] in_stack(stack@, x) implies x == *sub_type_ref_id by { assert(!in_stack(stack@.drop_last(), x)); }
        assert(!in_stack(stack@.drop_last(), *sub_type_ref_id));
        assert(stack_nodup(stack@.drop_last()));
    }'''),
            (r'let current_id = match stack\.pop\(\)', 'before', 'let ghost stack0 = stack@;'),
            (r'let supers_iter = match', 'before', '''let ghost cur = *current_id; let ghost ix = sp_type_index(db);
        proof {
            assert(stack0.drop_last() == stack@ && *stack0.last() == cur);
            assert forall|x: LuaTypeDeclId| #[trigger] in_stack(stack@, x) implies visited.ids().contains(x) by { assert(in_stack(stack0, x)); }
            assert(in_stack(stack0, cur));
        }'''),
            (r'stack\.push\(super_id\);', 'before', 'let ghost s0 = stack@;'),
            (r'stack\.push\(super_id\);', 'after', '''proof {
                            assert(stack@.drop_last() == s0);
                            assert forall|x: LuaTypeDeclId| #[trigger] in_stack(stack@, x) implies x == *super_id || in_stack(s0, x) by { }
                            assert forall|x: LuaTypeDeclId| in_stack(s0, x) implies #[trigger] in_stack(stack@, x) by { }
                        }'''),
            (r'stack\.push\(base_type_id\);', 'before', 'let ghost s1 = stack@;'),
            (r'stack\.push\(base_type_id\);', 'after', '''proof {
                            assert(stack@.drop_last() == s1);
                            assert forall|x: LuaTypeDeclId| #[trigger] in_stack(stack@, x) implies x == *base_type_id || in_stack(s1, x) by { }
                            assert forall|x: LuaTypeDeclId| in_stack(s1, x) implies #[trigger] in_stack(stack@, x) by { }
                        }'''),
            (r'\n    false\n', 'before', """
    proof {
        let ix = sp_type_index(db);
        assert forall|n: nat| !ancestor_within(ix, *sub_type_ref_id, *super_type_ref_id, n) by {
            lemma_closed_excludes(ix, visited.ids(), *sub_type_ref_id, *super_type_ref_id, n);
        }
    }"""),
        ],
        loops={0: '''invariant
            *type_index == sp_type_index(db), *sub_type_ref_id != *super_type_ref_id /*@C16.subtype.ancestor-is-found.inv*/,
            visited.ids().contains(*sub_type_ref_id), !visited.ids().contains(*super_type_ref_id) /*@C16.subtype.ancestor-is-found.inv*/,
            forall|x: LuaTypeDeclId| #[trigger] in_stack(stack@, x) ==> visited.ids().contains(x) /*@C16.subtype.ancestor-is-found.inv*/,
            stack_nodup(stack@) /*@C16.subtype.ancestor-is-found.inv*/,
            forall|x: LuaTypeDeclId, y: LuaTypeDeclId| visited.ids().contains(x) && #[trigger] super_edge(sp_type_index(db), x, y)
                ==> visited.ids().contains(y) || in_stack(stack@, x) /*@C16.subtype.ancestor-is-found.inv*/,
        ensures stack@.len() == 0 /*@C16.subtype.ancestor-is-found.exit*/,''',
               1: '''invariant
            ix == sp_type_index(db), *type_index == ix, *sub_type_ref_id != *super_type_ref_id, cur == *current_id /*@C16.subtype.ancestor-is-found.inv*/,
            sp_supers(ix, cur) matches Some(s) && s.len() == it.seq().len() && (forall|k: int| 0 <= k < s.len() ==> *(#[trigger] it.seq()[k]) == s[k]) /*@C16.subtype.ancestor-is-found.inv*/,
            visited.ids().contains(*sub_type_ref_id), !visited.ids().contains(*super_type_ref_id), visited.ids().contains(cur), !in_stack(stack@, cur) /*@C16.subtype.ancestor-is-found.inv*/,
            forall|x: LuaTypeDeclId| #[trigger] in_stack(stack@, x) ==> visited.ids().contains(x) /*@C16.subtype.ancestor-is-found.inv*/,
            stack_nodup(stack@) /*@C16.subtype.ancestor-is-found.inv*/,
            forall|x: LuaTypeDeclId, y: LuaTypeDeclId| visited.ids().contains(x) && #[trigger] super_edge(ix, x, y)
                ==> visited.ids().contains(y) || in_stack(stack@, x) || x == cur /*@C16.subtype.ancestor-is-found.inv*/,
            forall|i: int, y: LuaTypeDeclId| 0 <= i < it.index@ && #[trigger] edge_to(sp_supers(ix, cur)->Some_0[i], y)
                ==> visited.ids().contains(y) /*@C16.subtype.ancestor-is-found.inv2*/,'''},
    ),
})

RT = TC + 'ref_type.rs'
ITEMS.update({
    'LuaMemberOwner': st(SRC + 'db_index/member/lua_member_owner.rs', 'LuaMemberOwner', kind='enum'),
    'should_retry_alias_nominal_check': fn(RT, 'should_retry_alias_nominal_check', ret='r'),
    'check_ref_class': fn(
        RT, 'check_ref_class', ret='r', attrs='#[verifier::spinoff_prover]', rules=['c16-letchain-enum-fields'],
        requires=GUARD_REQ,
        ensures='''
        ctx_frame(old(context), final(context)),
        descends(old(context).db, *compact_type, *source_id) ==> r is Ok /*@C16.ancestor.class-accepts-descendant*/''',
        decreases='100 - check_guard.stack_level, 1int',
        iter_names={0: 'it', 1: 'it2'},
        loops={0: '''invariant guard_wf(check_guard), ctx_frame(old(context), context), !descends(old(context).db, *compact_type, *source_id),''',
               1: '''invariant guard_wf(check_guard), ctx_frame(old(context), context), compact_type is Union,'''}),
    'check_ref_type_compact': fn(
        RT, 'check_ref_type_compact', ret='r', attrs='#[verifier::spinoff_prover]', rules=['c16-drop-i18n', 'c16-origin-contains'],
        requires=GUARD_REQ,
        ensures='''
        ctx_frame(old(context), final(context)),
        is_class_decl(old(context).db, *source_id) && descends(old(context).db, *compact_type, *source_id) ==> r is Ok /*@C16.ancestor.ref-source-accepts-descendant*/''',
        decreases='100 - check_guard.stack_level, 2int',
        iter_names={0: 'it'},
        loops={0: '''invariant guard_wf(check_guard), ctx_frame(old(context), context), !is_class_decl(old(context).db, *source_id),'''}),
})


_GEN = {
    'dedupe_hyp': ('/// generated from the text of LuaType::from_vec (%s)\npub open spec fn dedupe_hyp(ts: Seq<LuaType>) -> bool { %s }'
                   % (('it dedupes with a HashSet<LuaType>: a later member equal to an earlier one must be hashed by value', 'dup_coherent(ts)')
                      if FROM_VEC_HASHSET else ('it dedupes with a `==` scan: no hypothesis about hashing', 'true'))),
}
with open(os.path.join(HERE, 'template.rs'), encoding='utf-8') as _f:
    _TEMPLATE = _f.read()
for _k, _v in _GEN.items():
    assert _TEMPLATE.count('//@@gen ' + _k + '\n') == 1
    _TEMPLATE = _TEMPLATE.replace('//@@gen ' + _k + '\n', _v + '\n')

UNIT = {
    'template_text': _TEMPLATE,
    'items': ITEMS,
    'extra_rules': [
        ('c16-letchain-enum-fields',
         r'if let Some\(compact_decl\) = context\.db\.get_type_index\(\)\.get_type_decl\(id\)\s*&& compact_decl\.is_enum\(\)\s*&& let Some\(LuaType::Union\(enum_fields\)\) =\s*compact_decl\.get_enum_field_type\(context\.db\)\s*\{(.*?)\n            \}',
         r'if let Some(compact_decl) = context.db.get_type_index().get_type_decl(id) { if compact_decl.is_enum() { if let Some(LuaType::Union(enum_fields)) = compact_decl.get_enum_field_type(context.db) {\1\n            } } }',
         'else-less three-part let-chain `if let P = E && C && let Q = F { B }` -> `if let P = E { if C { if let Q = F { B } } }` (let-chains evaluate left to right, bindings scope over the rest)', re.S),
        ('c16-drop-i18n', r't!\("type `%\{name\}` not found\.", name = source_id\.get_name\(\)\)\.to_string\(\)', 'vx_msg()',
         't!(...).to_string() used only as the text of TypeNotMatchWithReason -> vx_msg() (opaque String; no clause speaks about message text)'),
        ('c16-origin-contains', r'let origin_contains_compact = match &origin_type \{.*?\n            \};', 'let origin_contains_compact = vx_origin_contains(&origin_type, compact_type);',
         'the `origin_contains_compact` test of the alias branch of check_ref_type_compact (Iterator::any with a closure) -> opaque bool; the alias branch is outside every proved case', re.S),
        ('c16-while-let-loop', r'while let Some\(current_id\) = stack\.pop\(\) \{',
         'loop { let current_id = match stack.pop() { Some(__popped) => __popped, None => break };',
         '`while let Some(X) = E { BODY }` -> `loop { let X = match E { Some(v) => v, None => break }; BODY }` (Rust reference: while-let is '
         '`loop { match E { PAT => { BODY }, _ => break } }`; the binding scopes over BODY, `continue` re-enters the loop either way). '
         'Done only to give the contract overlay a statement in front of the `pop` to attach a ghost snapshot to.'),
        ('c16-contains', r'\b(\w+)\.contains\(([^()]*)\)', r'vx_contains(&\1, \2)',
         'V.contains(X) on a Vec<LuaType> -> vx_contains(&V, X) (helper body is that call; contract = std doc of slice::contains with the proved meaning of LuaType::eq)'),
        ('c16-find-non-nil', r'types\.iter\(\)\.find\(\|t\| !matches!\(t, LuaType::Nil\)\)', 'vx_find_non_nil(&types)',
         'types.iter().find(|t| !matches!(t, LuaType::Nil)) -> vx_find_non_nil(&types) (helper body is that call; contract = std doc of Iterator::find)'),
        ('c16-basic-collect', r'basic\.iter\(\)\.collect\(\)', 'vx_basic_collect(basic)',
         'basic.iter().collect() -> vx_basic_collect(basic): BasicTypeUnion::iter is an `impl Iterator` chain over a u32 bit set; contract = one LuaType per set bit'),
        ('c16-mlu-include', r'let include = match right \{.*?\n            \};', 'let include = vx_mlu_include(left, right);',
         'the `include` test of the MultiLineUnion arm of union_type_impl (closures over tuple patterns inside Iterator::any) -> opaque bool; '
         'the arm is outside every proved case (MultiLineUnion members make can_use_structural_union return false)', re.S),
        ('c16-any-callable', r'members\s*\.iter\(\)\s*\.any\(\|ty\| matches!\(ty, LuaType::DocFunction\(_\) \| LuaType::Signature\(_\)\)\)',
         'vx_any_callable(&members)', 'members.iter().any(|ty| matches!(ty, DocFunction|Signature)) -> vx_any_callable(&members) (std doc of Iterator::any)'),
        ('c16-cloned-or-else', r'get_real_type\(db, &source\)\s*\.cloned\(\)\s*\.unwrap_or_else\(\|\| source\.clone\(\)\)',
         'match get_real_type(db, &source) { Some(__t) => __t.clone(), None => source.clone() }',
         'O.cloned().unwrap_or_else(|| X.clone()) -> match O { Some(t) => t.clone(), None => X.clone() } (std definitions of Option::cloned and unwrap_or_else)'),
        ('c16-mono-vec', r'pub fn union_type_all<I>\(db: &DbIndex, types: I\) -> LuaType\s*where\s*I: IntoIterator<Item = LuaType>,',
         'pub fn union_type_all(db: &DbIndex, types: Vec<LuaType>) -> LuaType',
         'instantiation of the generic parameter I := Vec<LuaType> (the body only says `for typ in types`; every caller passes a Vec or collects one)'),
        ('c16-drop-member-checked-init', r'\n\s*table_member_checked: None,', '',
         'struct projection companion: the initialiser of the dropped field `table_member_checked` (a HashSet<LuaMemberKey> used only by the '
         'table/object branch checkers, which are shims here) is removed from TypeCheckContext::new'),
        ('c16-letchain-cond-first', r'if type_decl\.is_alias\(\)\s*&& let Some\(origin_type\) = type_decl\.get_alias_origin\(db, None\)\s*\{(.*?)\n            \}',
         r'if type_decl.is_alias() { if let Some(origin_type) = type_decl.get_alias_origin(db, None) {\1\n            } }',
         'else-less `if A && let P = E { B }` -> `if A { if let P = E { B } }` (let-chains evaluate left to right; the catalogue rule '
         'letchain-nest only rewrites chains that START with `let`)', re.S),
        ('c16-type-ne', r'if resolved != \*typ \{', 'if vx_type_ne(&resolved, typ) {',
         '`resolved != *typ` -> vx_type_ne(&resolved, typ): the helper body is that very expression, its result is an uninterpreted relation'),
        ('c16-tpl-escape', r'return generic_tpl_constraint_type\(typ\)\.cloned\(\);', 'return vx_tpl_escape(typ);',
         '`generic_tpl_constraint_type(typ).cloned()` -> vx_tpl_escape(typ): a wrapper whose body is that very expression; trusted: its value is '
         'a function of the argument (it gets the name sp_tpl_escape)'),
        ('c16-eq-typeguard-arm', r'\(LuaType::TypeGuard\(a\), LuaType::TypeGuard\(b\)\) => a == b,',
         '(LuaType::TypeGuard(a), LuaType::TypeGuard(b)) => vx_arc_type_eq(a, b),',
         'the one arm of LuaType::eq that re-enters LuaType::eq through `Arc<LuaType> == Arc<LuaType>` (recursion through a generic trait '
         'impl, outside the verifier\'s dialect): the comparison is made by a shim whose result is the uninterpreted relation that teq names'),
        ('c16-eq-tablegeneric-arm', r'\(LuaType::TableGeneric\(a\), LuaType::TableGeneric\(b\)\) => a == b,',
         '(LuaType::TableGeneric(a), LuaType::TableGeneric(b)) => vx_arc_types_eq(a, b),',
         'same for `Arc<Vec<LuaType>> == Arc<Vec<LuaType>>`'),
        ('c16-tuple-field-pub', r'pub struct BasicTypeUnion\(u32\);', 'pub struct BasicTypeUnion(pub u32);',
         'visibility of the tuple field (no run-time meaning; specs name it)'),
    ],
    'allow': [r'external_body', r'uninterp spec fn', r'assume_specification', r'ensures r == \*self \{ unimplemented'],
    'min_obligations': 100,
    'trusted': [
        'payload / index types are opaque values (ArcIntern, InFiled, SmolStr, TextRange, FileId, LuaSignatureId, LuaTypeDeclId, LuaTupleType, LuaFunctionType, LuaObjectType, '
        'LuaGenericType, LuaStringTplType, VariadicType, LuaAliasCallType, LuaConditionalType, LuaMappedType, DbIndex, LuaTypeIndex, LuaModuleIndex, LuaTypeDecl, TypeSubstitutor); '
        'LuaType, LuaUnionType, LuaIntersectionType, LuaInstanceType, LuaArrayType, LuaMultiLineUnion, GenericTpl/GenericParam (projection), ModuleInfo (projection), '
        'TypeCheckContext (projection: table_member_checked dropped), TypeCheckGuard, BasicTypeKind, Emmyrc/EmmyrcStrict (projection) are the repository\'s definitions',
        'db lookups are uninterpreted functions of their arguments: get_type_decl, is_alias, get_alias_origin(db, None), get_module, instantiate_generic_alias_origin, '
        'instantiate_type_generic, contain_tpl, get_call_kind, get_emmyrc, get_super_types_iter (as a list per (index, id); it filters cyclic edges - not looked into), '
        'get_base_type_id_ref, is_base_type_id, get_real_type (contract: a non-Ref type is returned as is = its `_ => Some(typ)` arm)',
        'branch checkers without contract (verdict unconstrained, frame only: db/detail/level of the context are not written): check_ref_enum, check_ref_type_compact_table/object/tuple, check_doc_func_type_compact, '
        'check_sig_type_compact, check_generic_type_compact, check_array/tuple/object/table_generic/intersection/call_type_compact, check_base_type_for_ref_compact, check_variadic_type_compact',
        'equality: derived PartialEq of id-like payloads = identity of the abstract value; of structured payloads = one uninterpreted relation per type; '
        'LuaUnionType::eq (hand-written, HashSet based) = uninterpreted relation; `Arc<T> == Arc<T>` and `f64 == f64` have no vstd meaning: every statement about '
        '`LuaType == LuaType` carries the hypothesis eq_obeys() (std: Arc compares the inner values, f64 is IEEE equality). The REAL LuaType::eq is verified against teq '
        'except its two self-recursive arms (TypeGuard, TableGeneric: rules c16-eq-*-arm, uninterpreted relations). derived Clone = an equal value',
        'std contracts restated: Arc::deref, Arc::from, Option::filter, Vec::extend (no postcondition), slice::contains (vx_contains), Iterator::find/any (vx_find_non_nil, '
        'vx_any_callable), hashbrown::HashSet<&LuaTypeDeclId>::insert (a set of ids: derived Hash+Eq)',
        'hashbrown::HashSet<LuaType>::insert (used by LuaType::from_vec): returns true when no stored element equals the value; returns false when some stored element equals it '
        'AND the value is of a variant whose `impl Hash for LuaType` arm hashes the payload by value (hash_by_value: the 15 field-less variants, BooleanConst, StringConst, '
        'IntegerConst, TableConst, Ref, Def, DocBooleanConst, Signature, DocStringConst, DocIntegerConst, Namespace, Language, ModuleRef); otherwise unspecified. '
        'This is a READING of `impl Hash for LuaType` (Arc::as_ptr / f64::to_bits arms), not a proof; /verif/replay/c16 confirms both sides on the real crate. '
        'The shim and the hypothesis dup_coherent are used only while LuaType::from_vec dedupes with a HashSet (unit.py looks at its text: FROM_VEC_HASHSET); with the `==` scan of '
        'proposed_fix_hash_eq.diff the helper contract needs neither',
        'BasicTypeUnion (u32 bit set, `impl Iterator` chain): new/add/iter().collect() are shims over an abstract set of BasicTypeKind; members are listed in discriminant order',
        'vx_tpl_escape / vx_type_ne / vx_arc_type_eq / vx_arc_types_eq: wrappers whose body is the replaced expression; trusted: the value is a function of the arguments',
        'guard_wf (0 <= stack_level <= 100) is a precondition of the checkers: TypeCheckGuard\'s field is private and only new() (0) and next_level() (<= 100, proved) build one',
        'termination of check_sub_type_of_iterative is not proved (exec_allows_no_decreases_clause)',
        'helper contracts that follow the text of the tree under verification (never a property-level clause): from_vec overlay + dedupe_hyp (HashSet or `==` scan), and the extra '
        'fast_eq_check clause C16.fast-eq.accepts-equal-template-types (present only when fast_eq_check compares SelfInfer/StrTplRef/Conditional/Mapped). The two clauses that fail on '
        '/repo sit on a second copy of the dispatch function (module c16_every, same extracted text) so that no other contract is proved from them through recursive calls',
    ],
    'samples': [
        'check_general_type_compact: sp_like_any(compact) ==> Ok at every guard depth [C16.any-is-accepted-everywhere]; fast_eq_lb(source, compact) ==> Ok [C16.reflexive.head-guard]; '
        'head_ok(db, source, compact, depth) ==> Ok; head_err(...) ==> Err; a Union source never answers "mismatch" for a head-accepted member [C16.union-never-mismatches-member]',
        'c16_every::check_general_type_compact: any/unknown expected ==> Ok whatever the value type and depth [C16.any-accepts-everything.at-every-depth]; '
        'refl_claim(T) && source == compact ==> Ok [C16.reflexive.every-variant] (head-guard variants, 10 simple variants, never, Def of a class, SelfInfer, StrTplRef, Conditional, Mapped) - both FAIL on /repo',
        'law_any_accepts_unescaped: source any/unknown accepts every compact type of the 37 variants escape_type never replaces (not Intersection) at EVERY depth (holds on /repo)',
        'law_reflexive_head_guard (13 unit variants, Ref, Generic with reflexive ==), law_reflexive_simple (10 literal/namespace/language variants, via the real check_simple_type_compact), '
        'never, TypeGuard (below depth 100; proved Err at depth 100), Instance (conditionally)',
        'law_union_accepts_first_member / law_union_never_mismatches_member / closable_members',
        'check_sub_type_of_iterative: (exists n. ancestor_within(index, sub, super, n)) ==> true; check_ref_class: descends(db, compact, source_id) ==> Ok; '
        'check_ref_type_compact: is_class_decl(db, source_id) && descends(..) ==> Ok; law_class_accepted_where_ancestor_expected: head_ok(db, Ref(anc), Ref(cls), every depth)',
        'can_use_structural_union: true ==> no member needs semantic handling and NO pairwise rule of union_type_impl applies to any two members',
        'union_type_all: any absorbs; never is dropped; for a structural batch result = union_of(dedupe(batch)); union_fold (the slow-path text) = acc_ok(dedupe(batch)); '
        'law_batch_equals_fold: the two are the same union up to member order',
    ],
    'not_covered': [
        'sentence 1 (reflexivity) for Def/Ref of an enum or an undeclared type (Def of a declared class: law_reflexive_def), Array, Tuple, DocFunction, Object, Union, Intersection, TableGeneric, constrained TplRef, Variadic, Signature, Call, MultiLineUnion, '
        'ModuleRef with an export type: decided by branch checkers that are shims here (check_ref_type_compact, check_array/tuple/object/..., func_type.rs, generic_type.rs). '
        'Ref to an ALIAS as expected type: fast_eq_check accepts Ref(a) vs Ref(a) first, so it is covered; Generic: only under `generic == generic` (derived PartialEq, reflexive unless a NaN float const is inside)',
        'sentence 2 (union members): a member at position k > 0 is accepted only if every earlier member is rejected WITH a mismatch error; an earlier member whose branch checker '
        'returns TypeRecursion/DonotCheck makes the whole union check fail (`Err(e) => return Err(e)`); whether a branch checker can do that for an unrelated member is not decided. '
        'Members that are replaced by escape_type (aliases, generics of aliases, Instance, TypeGuard, ModuleRef, constrained TplRef), Union/Intersection members, and a union expected '
        'against a union value (every value member against the whole union, two levels deeper) are only covered through head_ok as far as it closes',
        'sentence 3 (ancestors): proved end to end (dispatch -> check_ref_type_compact -> check_ref_class -> is_sub_type_of, all real text) for an expected type Ref(anc)/Def(anc) whose '
        'declaration exists and is a class (neither alias nor enum) and a value Ref(cls) (cls not an alias) or Def(cls), with anc reachable from cls through the supers that '
        'get_super_types_iter REPORTS (Ref supers, base of Generic supers). Not covered: get_super_types_iter itself - it filters out edges that lead back to the class '
        '(is_cyclic_super_edge / super_reaches), so on a cyclic hierarchy a declared ancestor can be missing from the reported relation; an expected type that is an alias of a class '
        '(alias branch of check_ref_type_compact: goes through the alias origin first), an enum, or a class without declaration (`.ok_or(..)?` -> Err); ancestors given as Generic values '
        '(`Generic(generic)` arm of check_ref_class is extracted but not under a law); soundness of the walk ("only then"; is_base_type_id can also answer true); termination of the walk',
        'sentence 4 (any/unknown accepts everything): for compact types that escape_type replaces the law holds only while the chain of replacements fits the remaining depth, and '
        'for an Intersection only if some component gets through (esc_ok); source `any` against deep recursion inside branch checkers (they call back with next_level) inherits the depth of the call',
        'sentence 5 (batch union): claimed for every batch that passes can_use_structural_union and on whose members == is reflexive and symmetric (eq_regular: the PartialEq/Eq contract; '
        'FloatConst(NaN) is outside). On /repo the clause fails (hash-set dedupe); with the `==` scan it is proved. '
        'The slow path is the fold by construction (same text as union_fold). NOT covered: the effect of dropping `never` members before folding (union_type(acc, never) is acc only '
        'if the alias-resolved acc is not any: batch [Ref(alias of any), never] gives Ref(..) in batch mode and any one at a time), batches with Ref/Union/MultiLineUnion/callable members '
        '(alias lookup, canonicalize_callable_union\'s dedupe loop: shims), equality of the two results under LuaUnionType::eq (uninterpreted; proved is equality of the duplicate-free member SETS)',
        'check_type_compact_detail / _with_level entry points (same dispatch, other context flags), check_union_type_compact_union beyond head_ok, termination of the sub-type walk',
    ],
    'findings': [
        'C16 sentence 5, FINDING (replay driver: /verif/replay/c16, `FOUND[C16.union.batch-is-union-of-distinct-members]` lines): union_type_all takes the LuaType::from_vec fast path for a batch that contains two EQUAL members of a '
        'pointer-hashed variant. from_vec dedupes with a HashSet<LuaType>, and `impl Hash for LuaType` hashes Object/Union/Intersection/Generic/TableGeneric/TplRef/StrTplRef/Variadic/'
        'MultiLineUnion/TypeGuard/Conditional/Mapped by Arc::as_ptr and FloatConst by bits while `==` compares contents: equal values in different allocations are both kept. '
        'Batch [A<integer>, A<integer>] (the annotation written twice): batch result Union(Multi[A<integer>, A<integer>]), one at a time: A<integer>; same for [{x: integer}, {x: integer}], '
        '[table<string,integer>, table<string,integer>], [0.0, -0.0]. OPEN on /repo: the clause C16.union.batch-is-union-of-distinct-members (on union_type_all, always on) fails; repair: proposed_fix_hash_eq.diff (dedupe by `==`)',
        'C16 sentence 5, FINDING (E7, by the step contract of union_type_impl + replay): `never` members are dropped before folding, but union_type(acc, never) is not acc when acc is a Ref to an '
        'alias of any (match_source = the alias origin = any, first arm): batch [AnyAlias, never] gives Ref(AnyAlias), one at a time gives any (semantically the same type, different value)',
        'C16 sentence 5, observation (E5): for [nil, K, string] batch gives Multi[nil, K, string], one at a time Multi[K, nil, string] (Nullable(K) is unpacked as [K, nil]): equal under ==, '
        'different member order (visible in rendered type text and in first-match order)',
        'C16 sentence 1, FINDING (OPEN on /repo: clause C16.reflexive.every-variant on c16_every::check_general_type_compact fails; replay confirms self and StrTplRef; repair: proposed_fix_reflexive.diff): check(T, T) is Err for T = SelfInfer (`self`), '
        'Conditional, Mapped (no arm in the dispatch `match source`, they fall to `_ => Err(TypeNotMatch)`) and for T = StrTplRef (the StrTplRef arm of check_simple_type_compact asks '
        'compact_type.is_string(), which does not list StrTplRef). TypeGuard, Instance and every other escaping type are not reflexive at guard depth 100 (law_reflexive_typeguard)',
        'C16 sentence 4, FINDING (OPEN on /repo: clause C16.any-accepts-everything.at-every-depth on c16_every::check_general_type_compact fails at its three exits; replay confirms the alias chain and the empty intersection; repair: proposed_fix_any_first.diff): with source any/unknown the '
        '`Unknown | Any => Ok` arm comes AFTER the escape_type recursion (`check_guard.next_level()?`) and after the Intersection loop: any rejects a value whose type needs more escape steps than the '
        'remaining depth (101 chained aliases from the entry point - replayed: check(any, Ch0) fails, check(any, Ch60) passes; fewer when called from inside a deep check) with Err(TypeRecursion), and rejects an intersection without components with Err(TypeNotMatch). '
        'Pure alias cycles are collapsed to any at declaration time (type_def_tags.rs: alias_origin_reaches), so they do not reach this',
    ],
    'mutants': [
        {'name': 'depth-error-before-like-any', 'item': 'check_general_type_compact',
         'pattern': r'if is_like_any\(compact_type\) \{', 'repl': 'let _deeper = check_guard.next_level()?;\n    if is_like_any(compact_type) {',
         'expect': r'C16\.any-is-accepted-everywhere'},
        {'name': 'escape-before-fast-eq', 'item': 'check_general_type_compact',
         'pattern': r'if fast_eq_check\(source, compact_type\) \{\s*return Ok\(\(\)\);\s*\}', 'repl': '',
         'expect': r'C16\.reflexive\.head-guard'},
        {'name': 'fast-eq-ignores-thread', 'item': 'fast_eq_check',
         'pattern': r'\| \(LuaType::Thread, LuaType::Thread\)\s*', 'repl': '',
         'expect': r'C16\.fast-eq\.accepts'},
        {'name': 'fast-eq-ref-ignores-id', 'item': 'fast_eq_check',
         'pattern': r'\(LuaType::Ref\(type_id_left\), LuaType::Ref\(type_id_right\)\) => type_id_left == type_id_right,',
         'repl': '(LuaType::Ref(type_id_left), LuaType::Ref(type_id_right)) => true,',
         'expect': r'C16\.fast-eq\.nothing-else'},
        {'name': 'like-any-drops-unknown', 'item': 'is_like_any',
         'pattern': r'LuaType::Any \| LuaType::Unknown => true', 'repl': 'LuaType::Any => true',
         'expect': r'C16\.any-is-like-any'},
        {'name': 'any-source-arm-rejects', 'item': 'check_general_type_compact',
         'pattern': r'LuaType::Unknown \| LuaType::Any(?= => Ok|\) \{\s*return Ok)', 'repl': 'LuaType::Unknown',
         'expect': r'C16\.head-ok-accepts'},
        {'name': 'selfinfer-accepted', 'item': 'check_general_type_compact',
         'pattern': r'_ => Err\(TypeCheckFailReason::TypeNotMatch\),\s*\}\s*\}$', 'repl': '_ => Ok(()),\n    }\n}',
         'expect': r'C16\.head-err-rejects'},
        {'name': 'union-arm-needs-all-members', 'item': 'check_complex_type_compact',
         'pattern': r'Err\(e\) if e\.is_type_not_match\(\) => \{\}', 'repl': 'Err(e) if e.is_type_not_match() => return Err(e),',
         'expect': r'C16\.union-arm\.never-mismatches-member'},
        {'name': 'union-arm-ignores-accepting-member', 'item': 'check_complex_type_compact',
         'pattern': r'Ok\(_\) => return Ok\(\(\)\),', 'repl': 'Ok(_) => {}',
         'expect': r'C16\.union-arm\.first-member-accepts'},
        {'name': 'guard-limit-off-by-one', 'item': 'TypeCheckGuard::next_level',
         'pattern': r'next_level > MAX_TYPE_CHECK_LEVEL', 'repl': 'next_level >= MAX_TYPE_CHECK_LEVEL',
         'expect': r'C16\.guard\.next-level'},
        {'name': 'escape-typeguard-to-table', 'item': 'escape_type',
         'pattern': r'LuaType::TypeGuard\(_\) => return Some\(LuaType::Boolean\),', 'repl': 'LuaType::TypeGuard(_) => return Some(LuaType::Table),',
         'expect': r'C16\.escape\.spec'},
        {'name': 'eq-ignores-def-id', 'item': 'LuaType::eq',
         'pattern': r'\(LuaType::Def\(a\), LuaType::Def\(b\)\) => a == b,', 'repl': '(LuaType::Def(a), LuaType::Def(b)) => true,',
         'expect': r'C16\.eq\.is-teq'},
        # ---- (e) union building
        {'name': 'structural-drops-integer-conflict', 'item': 'can_use_structural_union',
         'pattern': r'\|\| has_integer && has_integer_const\s*', 'repl': '', 'expect': r'C16\.union\.fast-path-only-without-pair-rules'},
        {'name': 'structural-drops-two-boolean-consts', 'item': 'can_use_structural_union',
         'pattern': r'\|\| boolean_const_count > 1\s*', 'repl': '', 'expect': r'C16\.union\.fast-path-only-without-pair-rules'},
        {'name': 'structural-lets-ref-through', 'item': 'can_use_structural_union',
         'pattern': r'\| LuaType::Ref\(_\)\s*', 'repl': '', 'expect': r'C16\.union\.fast-path-only-without-pair-rules'},
        {'name': 'structural-lets-nested-union-through', 'item': 'can_use_structural_union',
         'pattern': r'LuaType::Union\(_\)\s*\| LuaType::Ref\(_\)', 'repl': 'LuaType::Ref(_)', 'expect': r'C16\.union\.fast-path-only-without-pair-rules'},
        {'name': 'fast-path-unconditional', 'item': 'union_type_all',
         'pattern': r'if can_use_structural_union\(&result_types\) \{', 'repl': 'if true {', 'expect': r'C16\.union\.fast-path-only-for-structural-batches'},
        {'name': 'batch-keeps-never', 'item': 'union_type_all',
         'pattern': r'LuaType::Never => \{\}', 'repl': 'LuaType::Never => result_types.push(typ),', 'expect': r'C16\.union\.batch\.never-is-dropped'},
        {'name': 'batch-ignores-any', 'item': 'union_type_all',
         'pattern': r'LuaType::Any => return LuaType::Any,', 'repl': 'LuaType::Any => {}', 'expect': r'C16\.union\.batch\.any-absorbs'},
        {'name': 'from-vec-single-is-nil', 'item': 'LuaType::from_vec',
         'pattern': r'1 => result_types\[0\]\.clone\(\),', 'repl': '1 => LuaType::Nil,', 'expect': r'C16\.union\.from-vec-is-union-of-distinct-members'},
        {'name': 'from-vec-keeps-duplicates', 'item': 'LuaType::from_vec',
         'pattern': r'if !result_types\.contains\(&typ\) \{\s*result_types\.push\(typ\);\s*\}',
         'repl': 'if !result_types.contains(&typ) {\n result_types.push(typ);\n } else { result_types.push(LuaType::Nil); }',
         'expect': r'C16\.union\.from-vec-is-union-of-distinct-members'},
        {'name': 'union-from-vec-multi-becomes-basic', 'item': 'LuaUnionType::from_vec',
         'pattern': r'Self::Multi\(types\)\s*\}$', 'repl': 'Self::Basic(basic_type)\n    }', 'expect': r'C16\.union\.from-vec-keeps-members'},
        {'name': 'into-vec-nullable-drops-nil', 'item': 'LuaUnionType::into_vec',
         'pattern': r'vec!\[ty\.clone\(\), LuaType::Nil\]', 'repl': 'vec![ty.clone()]', 'expect': r'C16\.union\.into-vec'},
        {'name': 'impl-union-arm-skips-contains', 'item': 'union_type_impl',
         'pattern': r'if types\.contains\(right\) \{\s*return source\.clone\(\);\s*\}', 'repl': 'let _ = types.contains(right);',
         'expect': r'C16\.union\.step'},
        {'name': 'impl-never-arm-dropped', 'item': 'union_type_impl',
         'pattern': r'\(LuaType::Never, _\) => target,', 'repl': '', 'expect': r'C16\.union\.step'},
        {'name': 'impl-same-type-arm-dropped', 'item': 'union_type_impl',
         'pattern': r'\(left, right\) if \*left == \*right => source\.clone\(\),', 'repl': '', 'expect': r'C16\.union\.step'},
        {'name': 'fold-starts-from-nil', 'item': 'union_fold',
         'pattern': r'let mut result = LuaType::Never;', 'repl': 'let mut result = LuaType::Nil;', 'expect': r'C16\.union\.fold-is-union-of-distinct-members'},
        {'name': 'subtype-compares-with-sub', 'item': 'check_sub_type_of_iterative',
         'pattern': r'if super_id == super_type_ref_id \{', 'repl': 'if super_id == sub_type_ref_id {', 'expect': r'C16\.subtype\.ancestor-is-found'},
        {'name': 'subtype-stops-at-first-root', 'item': 'check_sub_type_of_iterative',
         'pattern': r'None => continue,', 'repl': 'None => break,', 'expect': r'check_sub_type_of_iterative:loop-invariant-not-satisfied'},
        {'name': 'subtype-pushes-only-visited', 'item': 'check_sub_type_of_iterative',
         'pattern': r'if visited\.insert\(super_id\) \{', 'repl': 'if !visited.insert(super_id) {', 'expect': r'C16\.subtype\.ancestor-is-found'},
        {'name': 'simple-docstring-needs-different-text', 'item': 'check_simple_type_compact',
         'pattern': r'LuaType::DocStringConst\(t\) => \{\s*if s == t \{', 'repl': 'LuaType::DocStringConst(t) => {\n                if s != t {',
         'expect': r'C16\.simple\.accepts'},
        {'name': 'simple-strtpl-accepts-everything', 'item': 'check_simple_type_compact',
         'pattern': r'LuaType::StrTplRef\(_\) => \{\s*if compact_type\.is_string\(\) \{', 'repl': 'LuaType::StrTplRef(_) => {\n            if true {',
         'expect': r'C16\.simple\.rejects'},
        {'name': 'ref-class-drops-subtype-check', 'item': 'check_ref_class',
         'pattern': r'if is_sub_type_of\(context\.db, id, source_id\) \{\s*return Ok\(\(\)\);\s*\}', 'repl': '', 'expect': r'C16\.ancestor\.class-accepts-descendant'},
        {'name': 'ref-class-goes-to-enum-branch', 'item': 'check_ref_type_compact',
         'pattern': r'if type_decl\.is_enum\(\) \{', 'repl': 'if !type_decl.is_enum() {', 'expect': r'C16\.ancestor\.ref-source-accepts-descendant'},
        {'name': 'ref-source-goes-to-simple-checker', 'item': 'check_general_type_compact',
         'pattern': r'LuaType::Ref\(type_decl_id\) => \{\s*check_ref_type_compact\(context, type_decl_id, &compact_type, check_guard\)\s*\}',
         'repl': 'LuaType::Ref(type_decl_id) => { check_simple_type_compact(context, &source, &compact_type, check_guard) }', 'expect': r'C16\.head-ok-accepts'},
        {'name': 'canonicalize-drops-union', 'item': 'canonicalize_callable_union',
         'pattern': r'return LuaType::from_vec\(members\);', 'repl': 'return LuaType::Nil;', 'expect': r'C16\.union\.canonicalize-keeps-plain-unions'},
    ],
}
