// replay for unit c16_laws: (e) batch union vs one-at-a-time union; (b) reflexivity of SelfInfer/StrTplRef; (a) any vs empty intersection
use emmylua_code_analysis::*;

fn fold(db: &DbIndex, ts: &[LuaType]) -> LuaType {
    let mut acc = LuaType::Never;
    for t in ts { acc = TypeOps::Union.apply(db, &acc, t); }
    acc
}
fn show(db: &DbIndex, name: &str, ts: Vec<LuaType>) {
    let batch = TypeOps::union_all(db, ts.clone());
    let one = fold(db, &ts);
    println!("{name}\n   batch       = {:?}\n   one-by-one  = {:?}\n   batch == one-by-one: {}", batch, one, batch == one);
}
fn main() {
    let mut ws = VirtualWorkspace::new();
    ws.def("---@class A<T>\n");
    let (ta, tb) = (ws.ty("A<integer>"), ws.ty("A<integer>"));
    let (oa, ob) = (ws.ty("{ x: integer }"), ws.ty("{ x: integer }"));
    let db = DbIndex::new();
    let g = || LuaType::Generic(LuaGenericType::new(LuaTypeDeclId::global("A"), vec![LuaType::Integer]).into());
    let (a, b) = (g(), g());
    println!("two separately allocated A<integer>: a == b is {}", a == b);
    show(&db, "E1 [A<integer>, A<integer>] (two allocations, pointer-hashed variant Generic)", vec![a.clone(), b.clone()]);
    show(&db, "E2 [A<integer>, A<integer>] (same allocation)", vec![a.clone(), a.clone()]);
    println!("annotation `A<integer>` written twice: {:?} == {:?} is {}", ta, tb, ta == tb);
    show(ws.get_db_mut(), "E1' [A<integer>, A<integer>] from two ---@type annotations", vec![ta.clone(), tb.clone()]);
    show(ws.get_db_mut(), "E1'' [{ x: integer }, { x: integer }] from two ---@type annotations", vec![oa.clone(), ob.clone()]);
    let tg = || LuaType::TableGeneric(vec![LuaType::String, LuaType::Integer].into());
    show(&db, "E3 [table<string,integer>, table<string,integer>] (two allocations)", vec![tg(), tg()]);
    show(&db, "E4 [0.0, -0.0] (FloatConst: == true, hashed by bits)", vec![LuaType::FloatConst(0.0), LuaType::FloatConst(-0.0)]);
    let def = LuaType::Def(LuaTypeDeclId::global("K"));
    show(&db, "E5 [nil, K(def), string] (member ORDER differs, == says equal)", vec![LuaType::Nil, def.clone(), LuaType::String]);
    show(&db, "E6 [integer, string, integer] (value-hashed duplicates: agree)", vec![LuaType::Integer, LuaType::String, LuaType::Integer]);

    // dropping `never` before folding: alias of any
    ws.def("---@alias AnyAlias any\n");
    let aa = ws.ty("AnyAlias");
    println!("AnyAlias = {:?}", aa);
    show(ws.get_db_mut(), "E7 [AnyAlias, never]", vec![aa.clone(), LuaType::Never]);
    // (a) any as the expected type vs a chain of 101 aliases
    let mut src = String::new();
    for i in 0..101 { src.push_str(&format!("---@alias Ch{} Ch{}\n", i, i + 1)); }
    src.push_str("---@alias Ch101 integer\n");
    ws.def(&src);
    let ch0 = ws.ty("Ch0"); let ch60 = ws.ty("Ch60");
    println!("Ch0 = {:?}; check_type_compact(any, Ch0).is_ok() = {:?}; check_type_compact(any, Ch60).is_ok() = {:?}", ch0, ws.check_type(&LuaType::Any, &ch0), ws.check_type(&LuaType::Any, &ch60));
    // (b) reflexivity
    for (n, t) in [("self", LuaType::SelfInfer), ("never", LuaType::Never), ("string", LuaType::String)] {
        println!("check_type_compact({n}, {n}).is_ok() = {:?}", ws.check_type(&t, &t));
    }
    let st = LuaType::StrTplRef(LuaStringTplType::new("pre.", "T", GenericTplId::Func(0), "", None).into());
    println!("check_type_compact(StrTplRef, same StrTplRef).is_ok() = {:?}", ws.check_type(&st, &st));
    // (a) any as the expected type vs an intersection without components
    let empty = LuaType::Intersection(LuaIntersectionType::new(vec![]).into());
    println!("check_type_compact(any, empty intersection).is_ok() = {:?}", ws.check_type(&LuaType::Any, &empty));
    println!("check_type_compact(any, string).is_ok() = {:?}", ws.check_type(&LuaType::Any, &LuaType::String));
}
