// unit c22_lineindex — C22 "Offsets and LSP positions convert consistently and stay in bounds"
// (also serves the range clause of C21 and the in-document clause of C25: LuaDocument conversions at the end).
// Hand-written part: text-size shim, the spec vocabulary of the property, lemmas. `//@@` items are
// the real functions, extracted from /repo on every run.
use vstd::prelude::*;
use vstd::utf8::*;
use vstd::string::*;
verus! {

//@@include common/textsize.rs

pub mod lsp_types {
    use vstd::prelude::*;
    verus!{
    // lsp_types::{Position, Range}, transcribed field by field (same shim as unit c20_config)
    #[derive(Clone, Copy, PartialEq, Eq)]
    pub struct Position { pub line: u32, pub character: u32 }
    #[derive(Clone, Copy, PartialEq, Eq)]
    pub struct Range { pub start: Position, pub end: Position }
    }
}

// ---------------------------------------------------------------------------------------------
// property vocabulary (from the statement of C22, not from the code)
// ---------------------------------------------------------------------------------------------
/// column weight of one character. The code counts Unicode scalar values; C23 (UTF-16) is a
/// separate unit. Everything below is stated through `cols`, so the unit survives a change of weight.
pub open spec fn cw(c: char) -> nat { 1 }

pub open spec fn cols(s: Seq<char>) -> nat
    decreases s.len()
{
    if s.len() == 0 { 0 } else { cols(s.drop_last()) + cw(s.last()) }
}

/// a line starts at 0 and after every `\n`
pub open spec fn is_line_start(b: Seq<u8>, p: int) -> bool {
    p == 0 || (0 < p <= b.len() && b[p - 1] == 10u8)
}

pub open spec fn all_ascii(b: Seq<u8>, lo: int, hi: int) -> bool {
    forall|p: int| lo <= p < hi ==> b[p] < 0x80u8
}

/// representation invariant of LineIndex w.r.t. the text it was built from
pub open spec fn wf(li: &LineIndex, b: Seq<u8>) -> bool {
    let offs = li.line_offsets@;
    &&& b.len() < 0xffff_ffff
    &&& valid_utf8(b)
    &&& offs.len() >= 1
    &&& offs[0] == 0
    &&& forall|i: int, j: int| 0 <= i < j < offs.len() ==> offs[i] < offs[j]
    &&& forall|i: int| 0 <= i < offs.len() ==> #[trigger] is_line_start(b, offs[i] as int)
    &&& forall|p: int| 0 <= p <= b.len() && is_line_start(b, p) ==> exists|i: int| 0 <= i < offs.len() && offs[i] == p
    &&& li.line_only_ascii_vec@.len() == offs.len()
    &&& forall|i: int| 0 <= i < offs.len() ==> (#[trigger] li.line_only_ascii_vec@[i] <==> all_ascii(b, offs[i] as int, line_end(li, b, i)))
}

/// exclusive end of line `i` including its terminator
pub open spec fn line_end(li: &LineIndex, b: Seq<u8>, i: int) -> int {
    if i + 1 < li.line_offsets@.len() { li.line_offsets@[i + 1] as int } else { b.len() as int }
}

/// end of the *content* of line `i`: the position of its `\n`, or the end of the text — the clamp target
pub open spec fn content_end(li: &LineIndex, b: Seq<u8>, i: int) -> int {
    if i + 1 < li.line_offsets@.len() { li.line_offsets@[i + 1] as int - 1 } else { b.len() as int }
}

/// the line an offset lies on: the last line start <= off
pub open spec fn on_line(li: &LineIndex, b: Seq<u8>, off: int, l: int) -> bool {
    &&& 0 <= l < li.line_offsets@.len()
    &&& li.line_offsets@[l] <= off
    &&& (l + 1 < li.line_offsets@.len() ==> off < li.line_offsets@[l + 1])
}

/// column of a char-boundary offset on its line
pub open spec fn col_of(li: &LineIndex, b: Seq<u8>, l: int, off: int) -> nat {
    cols(decode_utf8(b.subrange(li.line_offsets@[l] as int, off)))
}

/// what C22 demands of `get_offset(line, col)` when the line exists
pub open spec fn offset_ok(li: &LineIndex, b: Seq<u8>, line: int, col: int, o: int) -> bool {
    let ls = li.line_offsets@[line] as int;
    let ce = content_end(li, b, line);
    &&& ls <= o <= ce                                   // inside the document, on that line
    &&& is_char_boundary(b, o)
    &&& cols(decode_utf8(b.subrange(ls, o))) <= col     // never past the requested column
    &&& (o < ce ==> cols(decode_utf8(b.subrange(ls, o))) == col)   // exact when the column exists …
    // … otherwise clamped to the end of the line (o == ce)
}

// trusted std contract: `impl<I: SliceIndex<str>> Index<I> for str { fn index(&self, i: I) -> &I::Output { i.index(self) } }`
// (core/src/str/traits.rs). vstd specifies `SliceIndex<str>::index` for the range types and the
// *precondition* of `<str as Index<I>>::index` (IndexSpec::index_req), but -- unlike for `[T]` -- not this
// forwarding postcondition. Stated exactly as vstd states it for `<[T] as Index<I>>::index`.
pub assume_specification<I: core::slice::SliceIndex<str>>[ <str as core::ops::Index<I>>::index ](s: &str, index: I) -> (output: &<I as core::slice::SliceIndex<str>>::Output)
    ensures call_ensures(<I as core::slice::SliceIndex<str>>::index, (index, s), output);

// trusted std contracts introduced by rewrite rules
#[verifier::external_body]
pub fn vx_partition_point_le(v: &Vec<u32>, y: u32) -> (r: usize)
    requires forall|i: int, j: int| 0 <= i < j < v@.len() ==> v@[i] <= v@[j],
    ensures r <= v@.len(),
            forall|i: int| 0 <= i < r ==> v@[i] <= y,
            forall|i: int| r <= i < v@.len() ==> v@[i] > y,
{ v.partition_point(|&x| x <= y) }

#[verifier::external_body]
pub fn vx_chars_count(s: &str) -> (r: usize)
    ensures r == s@.len(),
{ s.chars().count() }

// ---------------------------------------------------------------------------------------------
// lemmas (proved, not assumed)
// ---------------------------------------------------------------------------------------------
//@@include common/utf8_lemmas.rs
//@@include c22_lineindex/lemmas.rs

// ---------------------------------------------------------------------------------------------
// extracted from /repo
// ---------------------------------------------------------------------------------------------
//@@ LineIndex

impl LineIndex {
    //@@ LineIndex::parse
    //@@ LineIndex::get_line_offset
    //@@ LineIndex::get_line
    //@@ LineIndex::get_line_with_start_offset
    //@@ LineIndex::is_line_only_ascii_index
    //@@ LineIndex::line_count
    //@@ LineIndex::get_col
    //@@ LineIndex::get_line_col
    //@@ LineIndex::get_offset
    //@@ LineIndex::get_col_offset_at_line
}

// LuaDocument (crates/emmylua_code_analysis/src/vfs/document.rs), projected to `text` and `line_index`.
// Representation invariant (established by Vfs: the index is `LineIndex::parse(text)`), stated as a
// precondition of every method: wf(self.line_index, self.text.spec_bytes()).
//@@ LuaDocument

impl<'a> LuaDocument<'a> {
    //@@ LuaDocument::get_line
    //@@ LuaDocument::get_line_col
    //@@ LuaDocument::get_offset
    //@@ LuaDocument::get_col_offset_at_line
    //@@ LuaDocument::get_line_range
    //@@ LuaDocument::to_lsp_range
    //@@ LuaDocument::to_lsp_position
    //@@ LuaDocument::to_rowan_range
}

// ---- C19: the scopes of `---@diagnostic disable-next-line` / `disable-line` (statement slices of
// analyze_diagnostic_disable_next_line / analyze_diagnostic_disable_line in diagnostic_tags.rs)
//@@ diagnostic_tags::next_line_scope
//@@ diagnostic_tags::line_scope

// ---- C21: DiagnosticContext::translate_range (checker/mod.rs), projected to `file_id` and `db` --------
#[derive(Clone, Copy, PartialEq, Eq)]
pub struct FileId { pub id: u32 }
#[verifier::external_body]
pub struct Vfs { _p: () }
#[verifier::external_body]
pub struct DbIndex { _p: () }
pub uninterp spec fn sp_vfs(db: &DbIndex) -> &Vfs;
/// the bytes of the text the Vfs holds for a file (None: unknown file)
pub uninterp spec fn sp_file_bytes(vfs: &Vfs, f: FileId) -> Option<Seq<u8>>;
impl DbIndex {
    #[verifier::external_body]
    pub fn get_vfs(&self) -> (r: &Vfs) ensures r == sp_vfs(self) { unimplemented!() }
}
impl Vfs {
    /// Vfs::get_document pairs a file's text with the LineIndex parsed from that text (representation
    /// invariant of LuaDocument; Vfs itself is not under contract)
    #[verifier::external_body]
    pub fn get_document<'a>(&'a self, file_id: &FileId) -> (r: Option<LuaDocument<'a>>)
        ensures r matches Some(d) ==> wf(d.line_index, d.text.spec_bytes()) && sp_file_bytes(self, *file_id) == Some(d.text.spec_bytes()),
    { unimplemented!() }
}
//@@ DiagnosticContext
impl<'a> DiagnosticContext<'a> {
    //@@ DiagnosticContext::translate_range
}

} // verus!
fn main() {}
