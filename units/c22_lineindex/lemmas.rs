// lemmas of unit c22_lineindex
