// lemmas of unit c22_lineindex (all proved; no assume/admit/external_body)
// ---------------------------------------------------------------------------------------------
// UTF-8 structure lemmas (vstd::utf8 gives the definitions; these are proved by induction on them)
// ---------------------------------------------------------------------------------------------

// ---------------------------------------------------------------------------------------------
// cols
// ---------------------------------------------------------------------------------------------
pub proof fn lemma_cols_add(a: Seq<char>, b: Seq<char>)
    ensures cols(a + b) == cols(a) + cols(b),
    decreases b.len(),
{
    if b.len() == 0 {
        assert(a + b =~= a);
    } else {
        assert((a + b).drop_last() =~= a + b.drop_last());
        lemma_cols_add(a, b.drop_last());
    }
}

/// the only place where `cw(c) == 1` for *every* char is used (the code counts scalar values)
pub proof fn lemma_cols_len(s: Seq<char>)
    ensures cols(s) == s.len(),
    decreases s.len(),
{
    if s.len() > 0 { lemma_cols_len(s.drop_last()); }
}

/// needs only `cw(c) >= 1`
pub proof fn lemma_cols_pos(s: Seq<char>)
    requires s.len() > 0,
    ensures cols(s) > 0,
{
}

/// the column is monotone, and strictly monotone, in the boundary offset
pub proof fn lemma_cols_monotonic(b: Seq<u8>, ls: int, o1: int, o2: int)
    requires valid_utf8(b), is_char_boundary(b, ls), is_char_boundary(b, o1), is_char_boundary(b, o2), ls <= o1 <= o2,
    ensures
        cols(decode_utf8(b.subrange(ls, o1))) <= cols(decode_utf8(b.subrange(ls, o2))),
        o1 < o2 ==> cols(decode_utf8(b.subrange(ls, o1))) < cols(decode_utf8(b.subrange(ls, o2))),
{
    lemma_decode_split3(b, ls, o1, o2);
    lemma_cols_add(decode_utf8(b.subrange(ls, o1)), decode_utf8(b.subrange(o1, o2)));
    if o1 < o2 {
        lemma_valid_subrange(b, o1, o2);
        lemma_decode_nonempty(b.subrange(o1, o2));
        lemma_cols_pos(decode_utf8(b.subrange(o1, o2)));
    }
}

// ---------------------------------------------------------------------------------------------
// LineIndex-level lemmas
// ---------------------------------------------------------------------------------------------

/// loop invariant of `parse` after the first `upto` bytes; `cur` is the ASCII flag of the line in progress
pub open spec fn parse_inv(offs: Seq<u32>, asc: Seq<bool>, cur: bool, b: Seq<u8>, upto: int) -> bool {
    &&& offs.len() >= 1
    &&& offs[0] == 0
    &&& forall|i: int, j: int| 0 <= i < j < offs.len() ==> offs[i] < offs[j]
    &&& forall|i: int| 0 <= i < offs.len() ==> #[trigger] offs[i] <= upto
    &&& forall|i: int| 0 <= i < offs.len() ==> is_line_start(b, #[trigger] offs[i] as int)
    &&& forall|p: int| 0 <= p <= upto && is_line_start(b, p) ==> exists|i: int| 0 <= i < offs.len() && offs[i] == p
    &&& asc.len() + 1 == offs.len()
    &&& forall|i: int| 0 <= i < asc.len() ==> (#[trigger] asc[i] <==> all_ascii(b, offs[i] as int, offs[i + 1] as int))
    &&& cur <==> all_ascii(b, offs.last() as int, upto)
}

pub proof fn lemma_parse_init(b: Seq<u8>)
    ensures parse_inv(seq![0u32], Seq::<bool>::empty(), true, b, 0),
{
    let offs = seq![0u32];
    assert(offs[0] == 0);
    assert forall|p: int| 0 <= p <= 0 && is_line_start(b, p) implies exists|i: int| 0 <= i < offs.len() && offs[i] == p by {
        assert(offs[0] == p);
    }
}

pub proof fn lemma_parse_step(offs: Seq<u32>, asc: Seq<bool>, cur: bool, b: Seq<u8>, index: int)
    requires parse_inv(offs, asc, cur, b, index), 0 <= index < b.len(), b.len() < 0xffff_ffff,
    ensures
        b[index] == 10u8 ==> parse_inv(offs.push((index + 1) as u32), asc.push(cur), true, b, index + 1),
        b[index] != 10u8 ==> parse_inv(offs, asc, cur && b[index] < 0x80u8, b, index + 1),
{
    let n = offs.len() as int;
    if b[index] == 10u8 {
        let o2 = offs.push((index + 1) as u32);
        let a2 = asc.push(cur);
        assert(o2[n] == index + 1);
        assert(forall|i: int| 0 <= i < n ==> o2[i] == offs[i]);
        assert(is_line_start(b, index + 1));
        assert forall|i: int, j: int| 0 <= i < j < o2.len() implies o2[i] < o2[j] by {
            if j == n { assert(offs[i] <= index); }
        }
        assert forall|i: int| 0 <= i < o2.len() implies #[trigger] o2[i] <= index + 1 by {
            if i < n { assert(offs[i] <= index); }
        }
        assert forall|i: int| 0 <= i < o2.len() implies is_line_start(b, #[trigger] o2[i] as int) by {
            if i < n { assert(is_line_start(b, offs[i] as int)); }
        }
        assert forall|p: int| 0 <= p <= index + 1 && is_line_start(b, p) implies exists|i: int| 0 <= i < o2.len() && o2[i] == p by {
            if p == index + 1 { assert(o2[n] == p); }
            else {
                let i0 = choose|i: int| 0 <= i < offs.len() && offs[i] == p;
                assert(o2[i0] == p);
            }
        }
        assert forall|i: int| 0 <= i < a2.len() implies (#[trigger] a2[i] <==> all_ascii(b, o2[i] as int, o2[i + 1] as int)) by {
            if i < asc.len() {
                assert(a2[i] == asc[i]);
                assert(o2[i] == offs[i] && o2[i + 1] == offs[i + 1]);
            } else {
                assert(a2[i] == cur);
                assert(o2[i] == offs.last() && o2[i + 1] == index + 1);
                assert(all_ascii(b, offs.last() as int, index) ==> all_ascii(b, offs.last() as int, index + 1));
                assert(all_ascii(b, offs.last() as int, index + 1) ==> all_ascii(b, offs.last() as int, index));
            }
        }
        assert(o2.last() == index + 1);
        assert(all_ascii(b, index + 1, index + 1));
    } else {
        assert(!is_line_start(b, index + 1));
        assert forall|i: int| 0 <= i < offs.len() implies #[trigger] offs[i] <= index + 1 by {
            assert(offs[i] <= index);
        }
        let s = offs.last() as int;
        assert(offs[n - 1] <= index);
        if cur && b[index] < 0x80u8 {
            assert(all_ascii(b, s, index + 1));
        }
        if all_ascii(b, s, index + 1) {
            assert(all_ascii(b, s, index));
            assert(b[index] < 0x80u8);
        }
    }
}

pub proof fn lemma_parse_finish(offs: Seq<u32>, asc: Seq<bool>, cur: bool, b: Seq<u8>)
    requires parse_inv(offs, asc, cur, b, b.len() as int), b.len() < 0xffff_ffff, valid_utf8(b),
    ensures forall|li: &LineIndex| li.line_offsets@ == offs && li.line_only_ascii_vec@ == asc.push(cur) ==> #[trigger] wf(li, b),
{
    assert forall|li: &LineIndex| li.line_offsets@ == offs && li.line_only_ascii_vec@ == asc.push(cur) implies #[trigger] wf(li, b) by {
        let a2 = asc.push(cur);
        assert forall|i: int| 0 <= i < offs.len() implies #[trigger] is_line_start(b, offs[i] as int) by {}
        assert forall|i: int| 0 <= i < offs.len() implies (#[trigger] a2[i] <==> all_ascii(b, offs[i] as int, line_end(li, b, i))) by {
            if i < asc.len() { assert(a2[i] == asc[i]); } else { assert(a2[i] == cur); }
        }
    }
}

/// geometry of line `l` under the representation invariant
pub proof fn lemma_line_facts(li: &LineIndex, b: Seq<u8>, l: int)
    requires wf(li, b), 0 <= l < li.line_offsets@.len(),
    ensures ({
        let ls = li.line_offsets@[l] as int;
        let ce = content_end(li, b, l);
        let le = line_end(li, b, l);
        &&& 0 <= ls <= ce <= le <= b.len()
        &&& is_char_boundary(b, ls)
        &&& is_char_boundary(b, ce)
        &&& (l + 1 < li.line_offsets@.len() ==> le == ce + 1 && b[ce] == 10u8)
        &&& (l + 1 >= li.line_offsets@.len() ==> le == ce && ce == b.len())
        &&& cols(decode_utf8(b.subrange(ls, ls))) == 0
        &&& offset_ok(li, b, l, 0, ls)
    }),
{
    let offs = li.line_offsets@;
    let ls = offs[l] as int;
    assert(is_line_start(b, offs[l] as int));
    if ls > 0 { lemma_ascii_byte_boundaries(b, ls - 1); }
    if l + 1 < offs.len() {
        assert(is_line_start(b, offs[l + 1] as int));
        assert(offs[l] < offs[l + 1]);
        lemma_ascii_byte_boundaries(b, offs[l + 1] as int - 1);
    } else {
        lemma_char_boundary_iff(b, b.len() as int);
    }
    assert(b.subrange(ls, ls).len() == 0);
    assert(decode_utf8(b.subrange(ls, ls)).len() == 0);
}

/// (L4 at line level) on an all-ASCII line every offset up to the content end is a boundary and its
/// column is the byte distance from the line start
pub proof fn lemma_ascii_line_col(li: &LineIndex, b: Seq<u8>, l: int, o: int)
    requires
        wf(li, b), 0 <= l < li.line_offsets@.len(), li.line_only_ascii_vec@[l],
        li.line_offsets@[l] <= o <= content_end(li, b, l),
    ensures
        is_char_boundary(b, o),
        cols(decode_utf8(b.subrange(li.line_offsets@[l] as int, o))) == o - li.line_offsets@[l],
{
    let ls = li.line_offsets@[l] as int;
    lemma_line_facts(li, b, l);
    assert(all_ascii(b, ls, line_end(li, b, l)));
    lemma_char_boundary_iff(b, o);
    if o < b.len() { assert(b[o] < 0x80u8); }
    lemma_valid_subrange(b, ls, o);
    let s = b.subrange(ls, o);
    assert forall|i: int| 0 <= i < s.len() implies s[i] < 0x80u8 by { assert(s[i] == b[ls + i]); }
    lemma_ascii_decode_len(s);
    lemma_cols_len(decode_utf8(s));
}

/// column of a boundary offset computed by counting the chars of the slice [line start, offset)
pub proof fn lemma_col_by_count(li: &LineIndex, b: Seq<u8>, l: int, off: int, t: Seq<char>)
    requires wf(li, b), 0 <= l < li.line_offsets@.len(), encode_utf8(t) == b.subrange(li.line_offsets@[l] as int, off),
    ensures col_of(li, b, l, off) == t.len(),
{
    encode_utf8_decode_utf8(t);
    lemma_cols_len(t);
}

/// result of the char-walk of `get_offset`: after consuming `k` chars of the line content `s`
/// (`k == col`, or the content is exhausted) the byte offset satisfies `offset_ok`
pub proof fn lemma_offset_from_chars(li: &LineIndex, b: Seq<u8>, l: int, col: int, s: Seq<char>, k: int, offset: int)
    requires
        wf(li, b), 0 <= l < li.line_offsets@.len(),
        encode_utf8(s) == b.subrange(li.line_offsets@[l] as int, content_end(li, b, l)),
        0 <= k <= s.len(), k <= col, k == col || k == s.len(),
        offset == encode_utf8(s.subrange(0, k)).len(),
    ensures
        offset_ok(li, b, l, col, li.line_offsets@[l] + offset),
{
    let ls = li.line_offsets@[l] as int;
    let ce = content_end(li, b, l);
    lemma_line_facts(li, b, l);
    lemma_encode_prefix(s, k);
    let pre = s.subrange(0, k);
    let suf = s.subrange(k, s.len() as int);
    let o = ls + offset;
    assert(encode_utf8(s).len() == ce - ls);
    assert(b.subrange(ls, o) =~= encode_utf8(pre)) by {
        assert(b.subrange(ls, o) =~= b.subrange(ls, ce).subrange(0, offset));
    }
    encode_utf8_decode_utf8(pre);
    lemma_cols_len(pre);
    lemma_char_boundary_iff(b, o);
    if k < s.len() {
        encode_utf8_valid_utf8(suf);
        assert(suf.len() > 0);
        lemma_encode_prefix(suf, 0);
        assert(encode_utf8(suf.subrange(0, 0)).len() == 0) by { assert(suf.subrange(0, 0).len() == 0); }
        lemma_first_scalar_shape(encode_utf8(suf));
        assert(b[o] == b.subrange(ls, ce)[offset]);
        assert(encode_utf8(s)[offset] == encode_utf8(suf)[0]);
    }
}

/// the slice the repaired `get_offset` iterates over, as chars
pub proof fn lemma_line_content_chars(li: &LineIndex, b: Seq<u8>, l: int)
    requires wf(li, b), 0 <= l < li.line_offsets@.len(),
    ensures
        valid_utf8(b.subrange(li.line_offsets@[l] as int, content_end(li, b, l))),
        encode_utf8(decode_utf8(b.subrange(li.line_offsets@[l] as int, content_end(li, b, l))))
            == b.subrange(li.line_offsets@[l] as int, content_end(li, b, l)),
        forall|t: Seq<char>| #[trigger] decode_utf8(encode_utf8(t)) == t,
{
    lemma_line_facts(li, b, l);
    lemma_valid_subrange(b, li.line_offsets@[l] as int, content_end(li, b, l));
    decode_utf8_encode_utf8(b.subrange(li.line_offsets@[l] as int, content_end(li, b, l)));
    assert forall|t: Seq<char>| #[trigger] decode_utf8(encode_utf8(t)) == t by { encode_utf8_decode_utf8(t); }
}

/// an offset on line `l` is not past the content end of `l`; line of an offset is unique and monotone
pub proof fn lemma_on_line(li: &LineIndex, b: Seq<u8>, off: int, l: int)
    requires wf(li, b), 0 <= off <= b.len(), on_line(li, b, off, l),
    ensures li.line_offsets@[l] <= off <= content_end(li, b, l),
{
}

pub proof fn lemma_on_line_monotonic(li: &LineIndex, b: Seq<u8>, o1: int, l1: int, o2: int, l2: int)
    requires wf(li, b), on_line(li, b, o1, l1), on_line(li, b, o2, l2), o1 <= o2,
    ensures l1 <= l2,
{
    if l2 < l1 {
        let offs = li.line_offsets@;
        assert(l2 + 1 <= l1);
        if l2 + 1 < l1 { assert(offs[l2 + 1] < offs[l1]); }
    }
}

/// C22, first sentence: converting a char-boundary offset to (line, col) and back returns the same
/// offset. Proved purely from the two contracts: `get_line_col` may return `(l, c)` only if
/// `on_line(off, l) && c == col_of(l, off)`; `get_offset(l, c)` may return `o` only if `offset_ok(l, c, o)`.
pub proof fn lemma_round_trip(li: &LineIndex, b: Seq<u8>, off: int, l: int, c: int, o: int)
    requires
        wf(li, b),
        0 <= off <= b.len(),
        is_char_boundary(b, off),
        on_line(li, b, off, l),
        c == col_of(li, b, l, off),
        offset_ok(li, b, l, c, o),
    ensures
        o == off /*@C22.round-trip*/,
{
    let ls = li.line_offsets@[l] as int;
    lemma_line_facts(li, b, l);
    lemma_on_line(li, b, off, l);
    if o < off {
        lemma_cols_monotonic(b, ls, o, off);
    } else if off < o {
        lemma_cols_monotonic(b, ls, off, o);
    }
}

// ---------------------------------------------------------------------------------------------
// LuaDocument-level lemmas (C21 range clause, C25 in-document clause)
// ---------------------------------------------------------------------------------------------
pub open spec fn pos_le(a: lsp_types::Position, b: lsp_types::Position) -> bool {
    a.line < b.line || (a.line == b.line && a.character <= b.character)
}

/// line numbers never exceed the start offset of the line (each earlier line has at least its `\n`)
pub proof fn lemma_line_no_le_start(li: &LineIndex, b: Seq<u8>, l: int)
    requires wf(li, b), 0 <= l < li.line_offsets@.len(),
    ensures l <= li.line_offsets@[l] <= b.len(),
    decreases l,
{
    assert(is_line_start(b, li.line_offsets@[l] as int));
    if l > 0 {
        lemma_line_no_le_start(li, b, l - 1);
        assert(li.line_offsets@[l - 1] < li.line_offsets@[l]);
    }
}

/// line and column of an offset fit in the u32 fields of an LSP position (text shorter than 2^32 - 1)
pub proof fn lemma_position_fits(li: &LineIndex, b: Seq<u8>, off: int, l: int)
    requires wf(li, b), 0 <= off <= b.len(), is_char_boundary(b, off), on_line(li, b, off, l),
    ensures l < 0xffff_ffff, col_of(li, b, l, off) < 0xffff_ffff,
{
    let ls = li.line_offsets@[l] as int;
    lemma_line_no_le_start(li, b, l);
    lemma_line_facts(li, b, l);
    lemma_valid_subrange(b, ls, off);
    lemma_decode_len_le(b.subrange(ls, off));
    lemma_cols_len(decode_utf8(b.subrange(ls, off)));
}

/// positions are monotone in the offset (lexicographic order on (line, col))
pub proof fn lemma_line_col_monotonic(li: &LineIndex, b: Seq<u8>, o1: int, l1: int, o2: int, l2: int)
    requires
        wf(li, b), 0 <= o1 <= o2 <= b.len(), is_char_boundary(b, o1), is_char_boundary(b, o2),
        on_line(li, b, o1, l1), on_line(li, b, o2, l2),
    ensures
        l1 < l2 || (l1 == l2 && col_of(li, b, l1, o1) <= col_of(li, b, l2, o2)),
{
    lemma_on_line_monotonic(li, b, o1, l1, o2, l2);
    if l1 == l2 {
        lemma_line_facts(li, b, l1);
        lemma_cols_monotonic(b, li.line_offsets@[l1] as int, o1, o2);
    }
}

/// offsets are monotone in the position: an ordered LSP range converts to an ordered text range
pub proof fn lemma_offsets_ordered(li: &LineIndex, b: Seq<u8>, l1: int, c1: int, o1: int, l2: int, c2: int, o2: int)
    requires
        wf(li, b), 0 <= l1 < li.line_offsets@.len(), 0 <= l2 < li.line_offsets@.len(),
        offset_ok(li, b, l1, c1, o1), offset_ok(li, b, l2, c2, o2),
        l1 < l2 || (l1 == l2 && c1 <= c2),
    ensures
        o1 <= o2 <= b.len(),
{
    lemma_line_facts(li, b, l1);
    lemma_line_facts(li, b, l2);
    if l1 < l2 {
        let offs = li.line_offsets@;
        if l1 + 1 < l2 { assert(offs[l1 + 1] < offs[l2]); }
    } else if o2 < o1 {
        lemma_cols_monotonic(b, li.line_offsets@[l1] as int, o2, o1);
    }
}
