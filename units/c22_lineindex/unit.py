LI = 'crates/emmylua_parser/src/text/line_index.rs'


def li_fn(name, **kw):
    d = {'src': {'file': LI, 'kind': 'fn', 'impl': 'LineIndex', 'name': name}}
    d.update(kw)
    return d


TEXT_OK = 'wf(self, source_text.spec_bytes())'
SORTED = ('forall|i: int, j: int| 0 <= i < j < self.line_offsets@.len() ==> self.line_offsets@[i] < self.line_offsets@[j], '
          'self.line_offsets@.len() >= 1, self.line_offsets@[0] == 0')

# ghost prelude shared by get_offset / get_col_offset_at_line (names only, no proof content)
OFFSET_GHOSTS = '''
let ghost b = source_text.spec_bytes();
let ghost col0 = col as int;
let ghost ls: int = if line < self.line_offsets@.len() { self.line_offsets@[line as int] as int } else { 0 };
let ghost ce: int = if line < self.line_offsets@.len() { content_end(self, b, line as int) } else { 0 };
proof {
    assert(self.line_offsets.len() == self.line_offsets@.len());   // a Vec's length is a usize: `line + 1` cannot overflow
    if line < self.line_offsets@.len() { lemma_line_facts(self, b, line as int); }
}
'''

# the char-walk `for c in <line slice>.chars()`: ghost `k` = number of chars consumed, `s` = the chars of
# the line content. Verus' ghost iterator of a `for` loop is `VERUS_ghost_iter` (seq(), index()).
WALK_BEFORE = '''
let ghost mut k: int = 0;
let ghost s: Seq<char> = decode_utf8(b.subrange(ls, ce));
proof { lemma_line_content_chars(self, b, line as int); }
'''
WALK_INV = '''
invariant_except_break
    k == VERUS_ghost_iter.index(),
invariant
    wf(self, b), line < self.line_offsets@.len(),
    ls == self.line_offsets@[line as int], ce == content_end(self, b, line as int),
    VERUS_ghost_iter.seq() == s /*@C22.offset.in-line-clamped.walk-over-line-content*/,
    encode_utf8(s) == b.subrange(ls, ce),
    0 <= ls <= ce <= b.len(),
    0 <= k <= s.len(),
    offset == encode_utf8(s.subrange(0, k)).len(),
    col + k == col0,
ensures
    k == s.len() || col == 0,
'''
WALK_STEP = '''
proof {
    assert(c == s[k]);
    lemma_encode_prefix(s, k);
    lemma_encode_prefix(s, k + 1);
}
'''
WALK_AFTER = '''
proof { lemma_offset_from_chars(self, b, line as int, col0, s, k, offset as int); }
'''
WALK_PROOF = [
    (r'for c in', 'before', WALK_BEFORE),
    (r'offset \+= c\.len_utf8\(\);', 'before', WALK_STEP),
    (r'col -= 1;', 'after', 'proof { k = k + 1; }'),
    (r'let col = col\.min\([^;]*\);', 'after',
     'proof { lemma_ascii_line_col(self, b, line as int, ls + col); }'),
]

COL_PROOF = [
    (r'let text = &source_text\[[^;]*\];', 'before', '''
proof {
    lemma_line_facts(self, source_text.spec_bytes(), line as int);
}'''),
    (r'let text = &source_text\[[^;]*\];', 'after', '''
proof {
    lemma_str_view_decode(text);
    lemma_col_by_count(self, source_text.spec_bytes(), line as int, offset.raw as int, text@);
    assert(on_line(self, source_text.spec_bytes(), offset.raw as int, line as int));   // witness of `exists l`
}'''),
    (r'if self\.is_line_only_ascii_index\(line\) \{', 'after', '''
proof {
    lemma_on_line(self, source_text.spec_bytes(), offset.raw as int, line as int);
    lemma_ascii_line_col(self, source_text.spec_bytes(), line as int, offset.raw as int);
    assert(col_of(self, source_text.spec_bytes(), line as int, offset.raw as int) == offset.raw - start_offset.raw);   // witness of `exists l`
}'''),
]

DOC = 'crates/emmylua_code_analysis/src/vfs/document.rs'


def doc_fn(name, **kw):
    d = {'src': {'file': DOC, 'kind': 'fn', 'impl': 'LuaDocument', 'name': name}}
    d.update(kw)
    return d


DOC_OK = 'wf(self.line_index, self.text.spec_bytes())'
DOC_B = 'self.text.spec_bytes()'


def in_text(off):
    return '%s.raw <= %s.len(), is_char_boundary(%s, %s.raw as int)' % (off, DOC_B, DOC_B, off)


def pos_of(pos, off):
    """`pos` is the LSP position of offset `off`"""
    return ('on_line(self.line_index, %s, %s.raw as int, %s.line as int) && %s.character == col_of(self.line_index, %s, %s.line as int, %s.raw as int)'
            % (DOC_B, off, pos, pos, DOC_B, pos, off))


DOC_ITEMS = {
    'LuaDocument': {'src': {'file': DOC, 'kind': 'struct', 'name': 'LuaDocument'},
                    'rules': [('struct-fields', {'keep': ['text', 'line_index']})]},
    'LuaDocument::get_line': doc_fn(
        'get_line', ret='r',
        requires=DOC_OK,
        ensures='r matches Some(l) && on_line(self.line_index, self.text.spec_bytes(), offset.raw as int, l as int) /*@C22.doc.get_line*/'),
    # C19: the region of `disable-next-line` is [comment.start, end of the line after the comment's last line)
    'diagnostic_tags::next_line_scope': {
        'src': {'kind': 'slice', 'name': 'next_line_scope',
                'in': {'file': 'crates/emmylua_code_analysis/src/compilation/analyzer/doc/diagnostic_tags.rs', 'kind': 'fn', 'name': 'analyze_diagnostic_disable_next_line'},
                'from': r'let comment_end_line = document\.get_line\(comment_range\.end\(\)\)\?;',
                'to': r'let valid_range = TextRange::new\(comment_range\.start\(\), line_range\.end\(\)\);',
                'head': 'pub fn next_line_scope(document: &LuaDocument, comment_range: TextRange) -> Option<TextRange>',
                'tail': 'Some(valid_range)'},
        'ret': 'r',
        'requires': 'wf(document.line_index, document.text.spec_bytes()), comment_range.wf()',
        'ensures': '''r matches Some(v) ==> v.wf() && v.start == comment_range.start
            && exists|l: int| on_line(document.line_index, document.text.spec_bytes(), comment_range.end.raw as int, l)
                && v.end.raw == line_end(document.line_index, document.text.spec_bytes(), l + 1) /*@C19.next-line.scope-is-comment-plus-one-line*/''',
        'proof': [(r'let line_range = document\.get_line_range\(comment_end_line \+ \d\)\?;', 'before',
                   'proof { assert(document.line_index.line_offsets.len() == document.line_index.line_offsets@.len()); }   // a Vec length is a usize: `+ 1` cannot overflow'),
                  (r'let line_range = document\.get_line_range\(comment_end_line \+ \d\)\?;', 'after', '''
proof {
    let li = document.line_index; let b = document.text.spec_bytes();
    lemma_line_facts(li, b, comment_end_line as int);
    lemma_line_facts(li, b, comment_end_line as int + 1);
}''')],
    },
    # C19: the region of `disable-line` is exactly the comment's (last) line
    'diagnostic_tags::line_scope': {
        'src': {'kind': 'slice', 'name': 'line_scope',
                'in': {'file': 'crates/emmylua_code_analysis/src/compilation/analyzer/doc/diagnostic_tags.rs', 'kind': 'fn', 'name': 'analyze_diagnostic_disable_line'},
                'from': r'let comment_end_line = document\.get_line\(comment_range\.end\(\)\)\?;',
                'to': r'let valid_range = document\.get_line_range\(comment_end_line\)\?;',
                'head': 'pub fn line_scope(document: &LuaDocument, comment_range: TextRange) -> Option<TextRange>',
                'tail': 'Some(valid_range)'},
        'ret': 'r',
        'requires': 'wf(document.line_index, document.text.spec_bytes()), comment_range.wf()',
        'ensures': '''r matches Some(v) ==> v.wf()
            && exists|l: int| on_line(document.line_index, document.text.spec_bytes(), comment_range.end.raw as int, l)
                && v.start.raw == document.line_index.line_offsets@[l]
                && v.end.raw == line_end(document.line_index, document.text.spec_bytes(), l) /*@C19.line.scope-is-own-line*/''',
    },
    'LuaDocument::get_line_col': doc_fn(
        'get_line_col', ret='r',
        requires=DOC_OK + ', ' + in_text('offset'),
        ensures="""r matches Some((l, c)) && on_line(self.line_index, self.text.spec_bytes(), offset.raw as int, l as int)
            && c == col_of(self.line_index, self.text.spec_bytes(), l as int, offset.raw as int) /*@C22.doc.get_line_col*/"""),
    'LuaDocument::get_offset': doc_fn(
        'get_offset', ret='r',
        requires=DOC_OK,
        ensures="""line >= self.line_index.line_offsets@.len() <==> r is None /*@C22.doc.offset.none-iff-line-missing*/,
        r matches Some(o) ==> offset_ok(self.line_index, self.text.spec_bytes(), line as int, col as int, o.raw as int) /*@C22.doc.offset.in-line-clamped*/,
        r matches Some(o) ==> o.raw <= self.text.spec_bytes().len() /*@C25.offset-in-document*/""",
        proof=[(r'self\.line_index\.get_offset\(line, col, self\.text\)', 'before',
                'proof { if line < self.line_index.line_offsets@.len() { lemma_line_facts(self.line_index, self.text.spec_bytes(), line as int); } }')]),
    'LuaDocument::get_col_offset_at_line': doc_fn(
        'get_col_offset_at_line', ret='r',
        requires=DOC_OK,
        ensures="""line >= self.line_index.line_offsets@.len() <==> r is None /*@C22.doc.coloffset.none-iff-line-missing*/,
        r matches Some(o) ==> offset_ok(self.line_index, self.text.spec_bytes(), line as int, col as int, self.line_index.line_offsets@[line as int] + o.raw) /*@C22.doc.coloffset.in-line-clamped*/,
        r matches Some(o) ==> self.line_index.line_offsets@[line as int] + o.raw <= self.text.spec_bytes().len() /*@C25.coloffset-in-document*/""",
        proof=[(r'self\.line_index\.get_col_offset_at_line\(line, col, self\.text\)', 'before',
                'proof { if line < self.line_index.line_offsets@.len() { lemma_line_facts(self.line_index, self.text.spec_bytes(), line as int); } }')]),
    'LuaDocument::get_line_range': doc_fn(
        'get_line_range', ret='r',
        requires=DOC_OK,
        ensures="""r matches Some(rg) ==> line < self.line_index.line_offsets@.len() && rg.wf()
            && rg.start.raw == self.line_index.line_offsets@[line as int]
            && rg.end.raw == line_end(self.line_index, self.text.spec_bytes(), line as int)
            && rg.end.raw <= self.text.spec_bytes().len() /*@C22.doc.line-range*/,
        // no range: the line does not exist, or it is the (empty) last line
        r is None <==> (line >= self.line_index.line_offsets@.len()
            || (line + 1 == self.line_index.line_offsets@.len() && self.line_index.line_offsets@[line as int] == self.text.spec_bytes().len())) /*@C22.doc.line-range.none*/""",
        body_first="""
proof {
    assert(self.line_index.line_offsets.len() == self.line_index.line_offsets@.len());   // Vec length is a usize: `line + 1` cannot overflow
    if line < self.line_index.line_offsets@.len() { lemma_line_facts(self.line_index, self.text.spec_bytes(), line as int); }
}"""),
    'LuaDocument::to_lsp_range': doc_fn(
        'to_lsp_range', ret='r',
        requires=DOC_OK + ', range.wf(), ' + in_text('range.start') + ', ' + in_text('range.end'),
        ensures='r matches Some(rg) && pos_le(rg.start, rg.end) /*@C21.range-wellformed*/,\n'
                + '        r matches Some(rg) && ' + pos_of('rg.start', 'range.start') + '\n            && ' + pos_of('rg.end', 'range.end') + ' /*@C22.doc.to_lsp_range*/',
        proof=[(r'let end = self\.get_line_col\(range\.end\(\)\)\?;', 'after', """
proof {
    let b = self.text.spec_bytes();
    lemma_position_fits(self.line_index, b, range.start.raw as int, start.0 as int);
    lemma_position_fits(self.line_index, b, range.end.raw as int, end.0 as int);
    lemma_line_col_monotonic(self.line_index, b, range.start.raw as int, start.0 as int, range.end.raw as int, end.0 as int);
}""")]),
    'DiagnosticContext': {'src': {'file': 'crates/emmylua_code_analysis/src/diagnostic/checker/mod.rs', 'kind': 'struct', 'name': 'DiagnosticContext'},
                          'rules': [('struct-fields', {'keep': ['file_id', 'db']})]},
    'DiagnosticContext::translate_range': {
        'src': {'file': 'crates/emmylua_code_analysis/src/diagnostic/checker/mod.rs', 'kind': 'fn', 'impl': 'DiagnosticContext', 'name': 'translate_range'},
        'ret': 'r',
        # checkers pass ranges of syntax nodes/tokens: ordered, inside the text, on char boundaries
        'requires': '''range.wf(),
            sp_file_bytes(sp_vfs(self.db), self.file_id) matches Some(b) ==> range.end.raw <= b.len()
                && is_char_boundary(b, range.start.raw as int) && is_char_boundary(b, range.end.raw as int)''',
        'ensures': 'r matches Some(rg) ==> pos_le(rg.start, rg.end) /*@C21.translate-range-wellformed*/',
        'proof': [(r'let \(end_line, end_character\) = document\.get_line_col\(range\.end\(\)\)\?;', 'after', '''
proof {
    let b = document.text.spec_bytes();
    lemma_position_fits(document.line_index, b, range.start.raw as int, start_line as int);
    lemma_position_fits(document.line_index, b, range.end.raw as int, end_line as int);
    lemma_line_col_monotonic(document.line_index, b, range.start.raw as int, start_line as int, range.end.raw as int, end_line as int);
}''')],
    },
    'LuaDocument::to_lsp_position': doc_fn(
        'to_lsp_position', ret='r',
        requires=DOC_OK + ', ' + in_text('offset'),
        ensures='r matches Some(p) && ' + pos_of('p', 'offset') + ' /*@C22.doc.to_lsp_position*/',
        proof=[(r'let line_col = self\.get_line_col\(offset\)\?;', 'after',
                'proof { lemma_position_fits(self.line_index, self.text.spec_bytes(), offset.raw as int, line_col.0 as int); }')]),
    'LuaDocument::to_rowan_range': doc_fn(
        'to_rowan_range', ret='r',
        # no precondition on the client range any more: `TextRange::new(start, end)` (its assert!(start <= end)) is guarded by the
        # code itself since fix 659629c (a reversed client range converts to nothing); the obligation start <= end is discharged here
        requires=DOC_OK,
        ensures="""(range.start.line >= self.line_index.line_offsets@.len() || range.end.line >= self.line_index.line_offsets@.len()) ==> r is None /*@C22.doc.to_rowan_range.none-iff-line-missing*/,
        // an ordered range on existing lines always converts; only a missing line or a reversed range gives nothing
        (range.start.line < self.line_index.line_offsets@.len() && range.end.line < self.line_index.line_offsets@.len() && pos_le(range.start, range.end)) ==> r is Some /*@C22.doc.to_rowan_range.ordered-range-converts*/,
        r matches Some(rg) ==> rg.wf() && rg.end.raw <= self.text.spec_bytes().len() /*@C25.offset-in-document*/,
        r matches Some(rg) ==> offset_ok(self.line_index, self.text.spec_bytes(), range.start.line as int, range.start.character as int, rg.start.raw as int)
            && offset_ok(self.line_index, self.text.spec_bytes(), range.end.line as int, range.end.character as int, rg.end.raw as int) /*@C22.doc.to_rowan_range.clamped*/""",
        proof=[(r'let end = self\.get_offset\([^;]*;', 'after', """
proof {
    if pos_le(range.start, range.end) {
        lemma_offsets_ordered(self.line_index, self.text.spec_bytes(), range.start.line as int, range.start.character as int, start.raw as int,
            range.end.line as int, range.end.character as int, end.raw as int);
    }
}""")]),
}

UNIT = {
    'items': {
        'LineIndex': {'src': {'file': LI, 'kind': 'struct', 'name': 'LineIndex'}, 'rules': [('struct-fields', {})]},
        'LineIndex::parse': li_fn(
            'parse', ret='r', rules=['iter-enum-copied', 'assert-eq'],
            requires='text.spec_bytes().len() < 0xffff_ffff',
            ensures='wf(&r, text.spec_bytes()) /*@C22.parse.wf*/',
            loops={0: '''
invariant
    __s@ == text.spec_bytes(),
    __s@.len() < 0xffff_ffff,
    parse_inv(line_offsets@, line_only_ascii_vec@, is_line_only_ascii, __s@, index as int) /*@C22.parse.wf.inv*/,
'''},
            proof=[
                (r'let mut is_line_only_ascii = true;', 'after',
                 'proof { lemma_parse_init(text.spec_bytes()); assert(line_offsets@ =~= seq![0u32]); assert(line_only_ascii_vec@ =~= Seq::<bool>::empty()); }'),
                (r'let byte = __s\[index\];', 'after',
                 'proof { lemma_parse_step(line_offsets@, line_only_ascii_vec@, is_line_only_ascii, __s@, index as int); }'),
                (r'line_only_ascii_vec\.push\(is_line_only_ascii\);\n\n', 'before',
                 '''proof {
    lemma_str_view_decode(text);
    lemma_parse_finish(line_offsets@, line_only_ascii_vec@, is_line_only_ascii, text.spec_bytes());
}'''),
            ]),
        'LineIndex::get_line_offset': li_fn(
            'get_line_offset', ret='r',
            ensures='''line < self.line_offsets@.len() ==> r == Some(TextSize { raw: self.line_offsets@[line as int] }),
            line >= self.line_offsets@.len() ==> r is None /*@C22.line-missing-is-none*/'''),
        'LineIndex::get_line': li_fn(
            'get_line', ret='r', rules=['partition-point-le'],
            requires=SORTED,
            ensures='''r matches Some(l) && 0 <= l < self.line_offsets@.len() && self.line_offsets@[l as int] <= offset.raw
                && (l + 1 < self.line_offsets@.len() ==> offset.raw < self.line_offsets@[l + 1]) /*@C22.get_line*/'''),
        'LineIndex::get_line_with_start_offset': li_fn(
            'get_line_with_start_offset', ret='r',
            requires=SORTED,
            ensures='''r matches Some((l, s)) && 0 <= l < self.line_offsets@.len() && s.raw == self.line_offsets@[l as int] && s.raw <= offset.raw
                && (l + 1 < self.line_offsets@.len() ==> offset.raw < self.line_offsets@[l + 1])'''),
        'LineIndex::is_line_only_ascii_index': li_fn(
            'is_line_only_ascii_index', ret='r', rules=['get-copied-unwrap-or'],
            ensures='r == (line < self.line_only_ascii_vec@.len() && self.line_only_ascii_vec@[line as int])'),
        'LineIndex::line_count': li_fn('line_count', ret='r', ensures='r == self.line_offsets@.len()'),
        'LineIndex::get_col': li_fn(
            'get_col', ret='r', rules=['chars-count'],
            requires=TEXT_OK + ', offset.raw <= source_text.spec_bytes().len(), is_char_boundary(source_text.spec_bytes(), offset.raw as int)',
            ensures='''r matches Some(c) && exists|l: int| on_line(self, source_text.spec_bytes(), offset.raw as int, l)
                && c == col_of(self, source_text.spec_bytes(), l, offset.raw as int) /*@C22.get_col*/''',
            proof=COL_PROOF),
        'LineIndex::get_line_col': li_fn(
            'get_line_col', ret='r', rules=['chars-count'],
            requires=TEXT_OK + ', offset.raw <= source_text.spec_bytes().len(), is_char_boundary(source_text.spec_bytes(), offset.raw as int)',
            ensures='''r matches Some((l, c)) && on_line(self, source_text.spec_bytes(), offset.raw as int, l as int)
                && c == col_of(self, source_text.spec_bytes(), l as int, offset.raw as int) /*@C22.get_line_col*/''',
            proof=COL_PROOF),
        'LineIndex::get_offset': li_fn(
            'get_offset', ret='r',
            requires=TEXT_OK,
            ensures='''line >= self.line_offsets@.len() <==> r is None /*@C22.offset.none-iff-line-missing*/,
            r matches Some(o) ==> offset_ok(self, source_text.spec_bytes(), line as int, col as int, o.raw as int) /*@C22.offset.in-line-clamped*/''',
            body_first=OFFSET_GHOSTS,
            loops={0: WALK_INV},
            proof=WALK_PROOF + [
                (r'Some\(start_offset \+ TextSize::from\(offset as u32\)\)', 'before', WALK_AFTER),
            ]),
        'LineIndex::get_col_offset_at_line': li_fn(
            'get_col_offset_at_line', ret='r',
            requires=TEXT_OK,
            ensures='''line >= self.line_offsets@.len() <==> r is None /*@C22.coloffset.none-iff-line-missing*/,
            r matches Some(o) ==> offset_ok(self, source_text.spec_bytes(), line as int, col as int, self.line_offsets@[line as int] + o.raw) /*@C22.coloffset.in-line-clamped*/''',
            body_first=OFFSET_GHOSTS,
            loops={0: WALK_INV},
            proof=WALK_PROOF + [
                (r'Some\(TextSize::from\(offset as u32\)\)', 'before', WALK_AFTER),
            ]),
        **DOC_ITEMS,
    },
    'extra_rules': [
        ('get-copied-unwrap-or', r'(\w+(?:\.\w+)*)\.get\((\w+)\)\.copied\(\)\.unwrap_or\(false\)',
         r'(if \2 < \1.len() { \1[\2] } else { false })',
         'V.get(i).copied().unwrap_or(false) -> if i < V.len() { V[i] } else { false } (std: slice::get returns None out of bounds)'),
    ],
    'mutants': [
        # the defect this unit was written for: ASCII path clamps to the text length instead of the line
        {'name': 'ascii-clamp-to-text-len', 'item': 'LineIndex::get_offset',
         'pattern': r'col\.min\(line_end - usize::from\(start_offset\)\)', 'repl': 'col.min(source_text.len())',
         'expect': r'C22\.offset\.in-line-clamped\]'},
        {'name': 'coloffset-ascii-clamp-to-text-len', 'item': 'LineIndex::get_col_offset_at_line',
         'pattern': r'col\.min\(line_end - usize::from\(start_offset\)\)', 'repl': 'col.min(source_text.len())',
         'expect': r'C22\.coloffset\.in-line-clamped\]'},
        # the other half of the defect: the char walk runs across the newline into later lines
        {'name': 'walk-past-line-end', 'item': 'LineIndex::get_offset',
         'pattern': r'\.\.line_end\]\.chars\(\)', 'repl': '..].chars()',
         'expect': r'C22\.offset\.in-line-clamped'},
        {'name': 'clamp-includes-newline', 'item': 'LineIndex::get_offset',
         'pattern': r'usize::from\(next_line_start\) - 1', 'repl': 'usize::from(next_line_start)',
         'expect': r'C22\.offset\.in-line-clamped'},
        {'name': 'parse-drop-plus-one', 'item': 'LineIndex::parse',
         'pattern': r'line_offsets\.push\(\(index \+ 1\) as u32\)', 'repl': 'line_offsets.push(index as u32)',
         'expect': r'C22\.parse\.wf'},
        {'name': 'parse-ascii-flag-off-by-one', 'item': 'LineIndex::parse',
         'pattern': r'byte >= 0x80', 'repl': 'byte > 0x80',
         'expect': r'C22\.parse\.wf'},
        {'name': 'parse-ascii-flag-not-reset', 'item': 'LineIndex::parse',
         'pattern': r'line_only_ascii_vec\.push\(is_line_only_ascii\);\s*is_line_only_ascii = true;', 'repl': 'line_only_ascii_vec.push(is_line_only_ascii);',
         'expect': r'C22\.parse\.wf'},
        {'name': 'get-line-off-by-one', 'item': 'LineIndex::get_line',
         'pattern': r'Some\(line - 1\)', 'repl': 'Some(line)',
         'expect': r'C22\.get_line\]'},
        {'name': 'line-offset-le', 'item': 'LineIndex::get_line_offset',
         'pattern': r'line_index < self\.line_offsets\.len\(\)', 'repl': 'line_index <= self.line_offsets.len()',
         'expect': r'C22\.line-missing-is-none'},
        {'name': 'col-zero-returns-none', 'item': 'LineIndex::get_offset',
         'pattern': r'return Some\(start_offset\);', 'repl': 'return None;',
         'expect': r'C22\.offset\.none-iff-line-missing'},
        {'name': 'line-col-ascii-col-from-text-start', 'item': 'LineIndex::get_line_col',
         'pattern': r'usize::from\(offset - start_offset\)', 'repl': 'usize::from(offset)',
         'expect': r'C22\.get_line_col'},
        # LuaDocument
        # killed by the proof obligation of TextRange::new's run-time assertion start <= end (precondition in the shim)
        {'name': 'doc-rowan-range-swapped', 'item': 'LuaDocument::to_rowan_range',
         'pattern': r'TextRange::new\(start, end\)', 'repl': 'TextRange::new(end, start)',
         'expect': r'to_rowan_range:precondition-not-satisfied\{Some\(TextRange::new'},
        # the repaired defect (659629c): without the guard a reversed client range reaches the assertion of TextRange::new
        {'name': 'doc-rowan-range-reversed-guard-removed', 'item': 'LuaDocument::to_rowan_range',
         'pattern': r'if start > end \{\s*return None;\s*\}', 'repl': '',
         'expect': r'to_rowan_range:precondition-not-satisfied\{Some\(TextRange::new'},
        {'name': 'doc-rowan-range-guard-rejects-ordered', 'item': 'LuaDocument::to_rowan_range',
         'pattern': r'if start > end \{', 'repl': 'if start >= end {',
         'expect': r'C22\.doc\.to_rowan_range\.ordered-range-converts'},
        {'name': 'doc-rowan-range-end-col-from-start', 'item': 'LuaDocument::to_rowan_range',
         'pattern': r'range\.end\.character as usize', 'repl': 'range.start.character as usize',
         'expect': r'C22\.doc\.to_rowan_range\.clamped'},
        {'name': 'next-line-scope-two-lines', 'item': 'diagnostic_tags::next_line_scope',
         'pattern': r'get_line_range\(comment_end_line \+ 1\)', 'repl': 'get_line_range(comment_end_line + 2)',
         'expect': r'C19\.next-line'},
        {'name': 'next-line-scope-from-line-start', 'item': 'diagnostic_tags::next_line_scope',
         'pattern': r'TextRange::new\(comment_range\.start\(\), line_range\.end\(\)\)', 'repl': 'TextRange::new(line_range.start(), line_range.end())',
         'expect': r'C19\.next-line'},
        {'name': 'line-scope-next-line', 'item': 'diagnostic_tags::line_scope',
         'pattern': r'get_line_range\(comment_end_line\)', 'repl': 'get_line_range(comment_end_line + 1)',
         'expect': r'C19\.line\.'},
        {'name': 'doc-line-range-empty', 'item': 'LuaDocument::get_line_range',
         'pattern': r'get_line_offset\(line \+ 1\)', 'repl': 'get_line_offset(line)',
         'expect': r'C22\.doc\.line-range'},
        {'name': 'doc-lsp-range-start-col-from-end', 'item': 'LuaDocument::to_lsp_range',
         'pattern': r'character: start\.1 as u32', 'repl': 'character: end.1 as u32',
         'expect': r'C22\.doc\.to_lsp_range|C21\.range-wellformed'},
        {'name': 'doc-lsp-range-reversed', 'item': 'LuaDocument::to_lsp_range',
         'pattern': r'line: start\.0 as u32,(\s*)character: start\.1 as u32,(.*?)line: end\.0 as u32,(\s*)character: end\.1 as u32,',
         'repl': r'line: end.0 as u32,\1character: end.1 as u32,\2line: start.0 as u32,\3character: start.1 as u32,',
         'expect': r'C21\.range-wellformed'},
        {'name': 'doc-lsp-position-swapped', 'item': 'LuaDocument::to_lsp_position',
         'pattern': r'line: line_col\.0 as u32', 'repl': 'line: line_col.1 as u32',
         'expect': r'C22\.doc\.to_lsp_position'},
    ],
    'samples': [
        'parse: ensures wf(&r, text.spec_bytes()) (sorted complete line starts, exact per-line ASCII flags, valid UTF-8)',
        'get_line_col: on_line(off, l) && c == cols(decode_utf8(b[line_start(l)..off]))',
        'get_offset: None iff the line is missing; Some(o) ==> offset_ok (on the line, char boundary, col exact or clamped to the content end)',
        'lemma_round_trip: get_line_col then get_offset returns the same offset (from the two contracts only)',
        'LuaDocument::to_lsp_range: start <= end lexicographically; to_rowan_range: ordered, end <= text.len()',
    ],
    'not_covered': [
        'LineIndex::is_line_only_ascii (public wrapper, one call), LuaDocument::{new, get_text_slice, get_line, get_col, get_line_count, get_document_lsp_range, get_uri, ...}',
        'that every LuaDocument is built with line_index == LineIndex::parse(text) (Vfs) is the stated representation invariant, not proved here',
        'UTF-16 column weight (C23): cw(c) == 1 is used in lemma_cols_len only',
    ],
    'allow': [r'external_body', r'assume_specification<I: core::slice::SliceIndex<str>>', r'uninterp spec fn sp_(vfs|file_bytes)'],
    'min_obligations': 60,
    'trusted': [
        'text-size shim (units/common/textsize.rs), cross-checked by Kani against the real crate (thorough tier)',
        'vx_partition_point_le: std doc contract of slice::partition_point; vx_chars_count: str::chars().count() == number of scalar values',
        'assume_specification <str as Index<I>>::index: forwards to SliceIndex<str>::index (core/src/str/traits.rs); vstd only ships the precondition',
        'input assumption: text.len() < 2^32 - 1 (offsets are u32; rowan has the same limit)',
    ],
}
