LI = 'crates/emmylua_parser/src/text/line_index.rs'


def li_fn(name, **kw):
    d = {'src': {'file': LI, 'kind': 'fn', 'impl': 'LineIndex', 'name': name}}
    d.update(kw)
    return d


TEXT_OK = 'wf(self, source_text.spec_bytes())'

UNIT = {
    'items': {
        'LineIndex': {'src': {'file': LI, 'kind': 'struct', 'name': 'LineIndex'}, 'rules': [('struct-fields', {})]},
        'LineIndex::parse': li_fn(
            'parse', ret='r', rules=['iter-enum-copied', 'assert-eq'],
            requires='text.spec_bytes().len() < 0xffff_ffff',
            ensures='wf(&r, text.spec_bytes()) /*@C22.parse.wf*/'),
        'LineIndex::get_line_offset': li_fn(
            'get_line_offset', ret='r',
            ensures='''line < self.line_offsets@.len() ==> r == Some(TextSize { raw: self.line_offsets@[line as int] }),
            line >= self.line_offsets@.len() ==> r is None /*@C22.line-missing-is-none*/'''),
        'LineIndex::get_line': li_fn(
            'get_line', ret='r', rules=['partition-point-le'],
            requires='forall|i: int, j: int| 0 <= i < j < self.line_offsets@.len() ==> self.line_offsets@[i] < self.line_offsets@[j], self.line_offsets@.len() >= 1, self.line_offsets@[0] == 0',
            ensures='''r matches Some(l) && 0 <= l < self.line_offsets@.len() && self.line_offsets@[l as int] <= offset.raw
                && (l + 1 < self.line_offsets@.len() ==> offset.raw < self.line_offsets@[l + 1]) /*@C22.get_line*/'''),
        'LineIndex::get_line_with_start_offset': li_fn(
            'get_line_with_start_offset', ret='r',
            requires='forall|i: int, j: int| 0 <= i < j < self.line_offsets@.len() ==> self.line_offsets@[i] < self.line_offsets@[j], self.line_offsets@.len() >= 1, self.line_offsets@[0] == 0',
            ensures='''r matches Some((l, s)) && 0 <= l < self.line_offsets@.len() && s.raw == self.line_offsets@[l as int] && s.raw <= offset.raw
                && (l + 1 < self.line_offsets@.len() ==> offset.raw < self.line_offsets@[l + 1])'''),
        'LineIndex::is_line_only_ascii_index': li_fn(
            'is_line_only_ascii_index', ret='r', rules=['get-copied-unwrap-or'],
            ensures='r == (line < self.line_only_ascii_vec@.len() && self.line_only_ascii_vec@[line as int])'),
        'LineIndex::line_count': li_fn('line_count', ret='r', ensures='r == self.line_offsets@.len()'),
        'LineIndex::get_col': li_fn(
            'get_col', ret='r', rules=['chars-count'],
            requires=TEXT_OK + ', offset.raw <= source_text.spec_bytes().len(), is_char_boundary(source_text.spec_bytes(), offset.raw as int)',
            ensures='''r matches Some(c) && exists|l: int| on_line(self, source_text.spec_bytes(), offset.raw as int, l)
                && c == col_of(self, source_text.spec_bytes(), l, offset.raw as int) /*@C22.get_col*/'''),
        'LineIndex::get_line_col': li_fn(
            'get_line_col', ret='r', rules=['chars-count'],
            requires=TEXT_OK + ', offset.raw <= source_text.spec_bytes().len(), is_char_boundary(source_text.spec_bytes(), offset.raw as int)',
            ensures='''r matches Some((l, c)) && on_line(self, source_text.spec_bytes(), offset.raw as int, l as int)
                && c == col_of(self, source_text.spec_bytes(), l as int, offset.raw as int) /*@C22.get_line_col*/'''),
        'LineIndex::get_offset': li_fn(
            'get_offset', ret='r',
            requires=TEXT_OK,
            ensures='''line >= self.line_offsets@.len() <==> r is None /*@C22.offset.none-iff-line-missing*/,
            r matches Some(o) ==> offset_ok(self, source_text.spec_bytes(), line as int, col as int, o.raw as int) /*@C22.offset.in-line-clamped*/'''),
        'LineIndex::get_col_offset_at_line': li_fn(
            'get_col_offset_at_line', ret='r',
            requires=TEXT_OK,
            ensures='''line >= self.line_offsets@.len() <==> r is None /*@C22.coloffset.none-iff-line-missing*/,
            r matches Some(o) ==> offset_ok(self, source_text.spec_bytes(), line as int, col as int, self.line_offsets@[line as int] + o.raw) /*@C22.coloffset.in-line-clamped*/'''),
    },
    'extra_rules': [
        ('get-copied-unwrap-or', r'(\w+(?:\.\w+)*)\.get\((\w+)\)\.copied\(\)\.unwrap_or\(false\)',
         r'(if \2 < \1.len() { \1[\2] } else { false })',
         'V.get(i).copied().unwrap_or(false) -> if i < V.len() { V[i] } else { false } (std: slice::get returns None out of bounds)'),
    ],
    'allow': [r'external_body'],
    'min_obligations': 10,
    'trusted': [
        'text-size shim (units/common/textsize.rs), cross-checked by Kani against the real crate (thorough tier)',
        'vx_partition_point_le: std doc contract of slice::partition_point; vx_chars_count: str::chars().count() == number of scalar values',
        'input assumption: text.len() < 2^32 - 1 (offsets are u32; rowan has the same limit)',
    ],
}
