CHK = 'crates/emmylua_code_analysis/src/diagnostic/checker/mod.rs'
DIAG = 'crates/emmylua_code_analysis/src/diagnostic/lua_diagnostic.rs'
CFG = 'crates/emmylua_code_analysis/src/diagnostic/lua_diagnostic_config.rs'


def ctx_fn(name, **kw):
    d = {'src': {'file': CHK, 'kind': 'fn', 'impl': 'DiagnosticContext', 'name': name}}
    d.update(kw)
    return d


UNIT = {
    'items': {
        'LuaDiagnosticConfig': {
            'src': {'file': CFG, 'kind': 'struct', 'name': 'LuaDiagnosticConfig'},
            'rules': [('struct-fields', {'keep': ['workspace_enabled', 'workspace_disabled', 'severity', 'level']})],
        },
        'DiagnosticContext': {
            'src': {'file': CHK, 'kind': 'struct', 'name': 'DiagnosticContext'},
            'rules': [('struct-fields', {'drop': ['table_expr_check_cache']})],
        },
        'DiagnosticContext::new': ctx_fn('new', rules=[('c20-drop-cache-init', {})], ret='r',
            ensures='r.file_id == file_id, r.db == db, r.config == config, r.diagnostics@.len() == 0 /*@C20.new*/'),
        'DiagnosticContext::get_db': ctx_fn('get_db', ret='r', ensures='r == self.db'),
        'DiagnosticContext::get_file_id': ctx_fn('get_file_id', ret='r', ensures='r == self.file_id'),
        'DiagnosticContext::is_checker_enable_by_code': ctx_fn(
            'is_checker_enable_by_code', ret='r',
            requires='key_model_ok()',
            ensures='ctx_enabled(self, *code, r) /*@C20.enable-precedence*/'),
        'DiagnosticContext::should_report_diagnostic': ctx_fn(
            'should_report_diagnostic', ret='r',
            ensures='r == !sp_range_suppressed(sp_diag_index(self.db), self.file_id, *code, *range) /*@C20.suppressed*/'),
        'DiagnosticContext::get_severity': ctx_fn(
            'get_severity', ret='r',
            requires='key_model_ok()',
            ensures='r == Some(expected_severity(&*self.config, code)) /*@C20.severity-override*/'),
        'DiagnosticContext::get_diagnostics': ctx_fn('get_diagnostics', ret='r', ensures='r == self.diagnostics'),
        'DiagnosticContext::add_diagnostic': ctx_fn(
            'add_diagnostic',
            rules=['struct-default-rest', 'str-into-string'],
            requires='key_model_ok()',
            ensures='''
            final(self).file_id == old(self).file_id && final(self).db == old(self).db && final(self).config == old(self).config /*@C20.add.frame*/,
            // nothing is reported for a code that is not enabled, or inside a suppressed range
            (exists|r: bool| !r && ctx_enabled(old(self), code, r)) ==> final(self).diagnostics@ == old(self).diagnostics@ /*@C20.add.disabled-not-reported*/,
            sp_range_suppressed(sp_diag_index(old(self).db), old(self).file_id, code, range) ==> final(self).diagnostics@ == old(self).diagnostics@ /*@C20.add.suppressed-not-reported*/,
            // otherwise exactly one diagnostic is appended, carrying the configured severity and the code name
            final(self).diagnostics@.len() <= old(self).diagnostics@.len() + 1 /*@C20.add.at-most-one*/,
            // C21: an enabled, unsuppressed code IS reported
            must_report(old(self), code) && !sp_range_suppressed(sp_diag_index(old(self).db), old(self).file_id, code, range)
                ==> final(self).diagnostics@.len() == old(self).diagnostics@.len() + 1 /*@C21.add.enabled-is-reported*/,
            final(self).diagnostics@.len() == old(self).diagnostics@.len() + 1 ==> ({
                let d = final(self).diagnostics@.last();
                &&& final(self).diagnostics@.drop_last() == old(self).diagnostics@
                &&& d.severity == Some(expected_severity(&*old(self).config, code))
                &&& (d.code matches Some(NumberOrString::String(s)) && s@ == sp_code_name(code))
                &&& d.source is Some
                &&& d.message == message
                &&& d.range == (match sp_translate(old(self).db, old(self).file_id, range) { Some(r) => r, None => zero_range() })
            }) /*@C20.add.wellformed*/,
            final(self).diagnostics@.len() == old(self).diagnostics@.len() ==> final(self).diagnostics@ == old(self).diagnostics@ /*@C20.add.frame-diags*/,
            '''),
        'LuaParseErrorKind': {'src': {'file': 'crates/emmylua_parser/src/parser_error/mod.rs', 'kind': 'enum', 'name': 'LuaParseErrorKind'},
                              'attrs': '#[derive(Clone, Copy)]'},
        'LuaParseError': {'src': {'file': 'crates/emmylua_parser/src/parser_error/mod.rs', 'kind': 'struct', 'name': 'LuaParseError'}},
        'SyntaxErrorChecker::check::parse_errors': {
            'src': {'kind': 'slice', 'name': 'report_parse_errors',
                    'in': {'file': 'crates/emmylua_code_analysis/src/diagnostic/checker/syntax_error.rs', 'kind': 'fn',
                           'impl': 'Checker for SyntaxErrorChecker', 'name': 'check'},
                    # from the first statement of `check` (an early return inserted in front of the loop is inside the slice)
                    # to the end of the `if let Some(parse_errors) = …` block
                    'from': 'BODY_START', 'to': r'context\.add_diagnostic\(code, parse_error\.range, parse_error\.message, None\);\s*\}\s*\}',
                    'head': 'pub fn report_parse_errors(context: &mut DiagnosticContext, semantic_model: &SemanticModel)', 'tail': ''},
            'requires': 'key_model_ok()',
            'ensures': '''
            final(context).file_id == old(context).file_id && final(context).db == old(context).db && final(context).config == old(context).config,
            final(context).diagnostics@.len() <= old(context).diagnostics@.len() + sp_parse_errors(semantic_model).len(),
            // every parse error of the file appears as a diagnostic at its location unless its code is disabled or suppressed there
            forall|i: int| 0 <= i < sp_parse_errors(semantic_model).len()
                && must_report(old(context), parse_error_code(sp_parse_errors(semantic_model)[i].kind))
                && !sp_range_suppressed(sp_diag_index(old(context).db), old(context).file_id, parse_error_code(sp_parse_errors(semantic_model)[i].kind), sp_parse_errors(semantic_model)[i].range)
                ==> exists|j: int| old(context).diagnostics@.len() <= j < final(context).diagnostics@.len()
                    && reports(old(context).db, old(context).file_id, #[trigger] final(context).diagnostics@[j],
                               parse_error_code(sp_parse_errors(semantic_model)[i].kind), sp_parse_errors(semantic_model)[i].range, sp_parse_errors(semantic_model)[i].message) /*@C21.syntax-errors-all-reported*/''',
            'proof': [
                (r'context\.add_diagnostic\(code, parse_error\.range, parse_error\.message, None\);', 'before',
                 '''let ghost pre = context.diagnostics@;
                let ghost k = it.index@;
                proof {
                    assert(parse_error == parse_errors@[k]);
                    assert(code == parse_error_code(parse_errors@[k].kind));
                    assert forall|r: bool| ctx_enabled(&*context, code, r) == ctx_enabled(old(context), code, r) by {}
                }'''),
                (r'context\.add_diagnostic\(code, parse_error\.range, parse_error\.message, None\);', 'after',
                 '''proof {
                    let post = context.diagnostics@;
                    assert(post.len() == pre.len() || (post.len() == pre.len() + 1 && post.drop_last() == pre));
                    assert forall|j: int| 0 <= j < pre.len() implies post[j] == pre[j] by {
                        if post.len() == pre.len() + 1 { assert(post.drop_last()[j] == post[j]); }
                    }
                    assert forall|i: int| 0 <= i < k + 1
                        && must_report(old(context), parse_error_code(parse_errors@[i].kind))
                        && !sp_range_suppressed(sp_diag_index(old(context).db), old(context).file_id, parse_error_code(parse_errors@[i].kind), parse_errors@[i].range)
                        implies exists|j: int| old(context).diagnostics@.len() <= j < post.len()
                            && reports(old(context).db, old(context).file_id, #[trigger] post[j],
                                       parse_error_code(parse_errors@[i].kind), parse_errors@[i].range, parse_errors@[i].message) by {
                        if i < k {
                            let j0 = choose|j: int| old(context).diagnostics@.len() <= j < pre.len()
                                && reports(old(context).db, old(context).file_id, #[trigger] pre[j],
                                       parse_error_code(parse_errors@[i].kind), parse_errors@[i].range, parse_errors@[i].message);
                            assert(post[j0] == pre[j0]);
                        } else {
                            assert(post.len() == pre.len() + 1);
                            assert(reports(old(context).db, old(context).file_id, post[pre.len() as int], code, parse_errors@[k].range, parse_errors@[k].message));
                        }
                    }
                }'''),
            ],
            'iter_names': {0: 'it'},
            'loops': {0: '''invariant
                    key_model_ok(), parse_errors@ == sp_parse_errors(semantic_model),
                    context.file_id == old(context).file_id && context.db == old(context).db && context.config == old(context).config,
                    old(context).diagnostics@.len() <= context.diagnostics@.len() <= old(context).diagnostics@.len() + it.index@,
                    forall|i: int| 0 <= i < it.index@
                        && must_report(old(context), parse_error_code(parse_errors@[i].kind))
                        && !sp_range_suppressed(sp_diag_index(old(context).db), old(context).file_id, parse_error_code(parse_errors@[i].kind), parse_errors@[i].range)
                        ==> exists|j: int| old(context).diagnostics@.len() <= j < context.diagnostics@.len()
                            && reports(old(context).db, old(context).file_id, #[trigger] context.diagnostics@[j],
                                       parse_error_code(parse_errors@[i].kind), parse_errors@[i].range, parse_errors@[i].message) /*@C21.syntax-errors-all-reported.inv*/,'''},
        },
        'LuaDiagnostic': {'src': {'file': DIAG, 'kind': 'struct', 'name': 'LuaDiagnostic'},
                          'rules': [('struct-fields', {})]},
        'LuaDiagnostic::diagnose_file': {
            'src': {'file': DIAG, 'kind': 'fn', 'impl': 'LuaDiagnostic', 'name': 'diagnose_file'},
            'rules': ['letchain-nest'],
            'ret': 'r',
            'ensures': '''
            !self.enable ==> r is None /*@C20.enable-false-reports-nothing*/,
            (sp_workspace(sp_module_index(sp_comp_db(compilation)), file_id) matches Some(w) && !sp_ws_is_main(w)) ==> r is None /*@C20.library-reports-nothing*/,
            ''',
        },
    },
    'extra_rules': [
        ('c20-drop-cache-init', r'\n\s*table_expr_check_cache: HashMap::new\(\),', '',
         'struct projection companion: the initialiser of the dropped field `table_expr_check_cache` is removed from `new`'),
    ],
    'allow': [r'external_body', r'uninterp spec fn sp_'],
    'min_obligations': 10,
    'trusted': [
        'shims: DiagnosticCode/FileId/TextRange/DiagnosticSeverity as opaque value types; lsp_types::{Position,Range,Diagnostic} transcribed field by field',
        'DiagnosticIndex::{is_file_enabled,is_file_disabled,is_file_diagnostic_code_disabled}, LuaModuleIndex::{is_meta_file,get_workspace_id}, is_code_default_enable, get_default_severity, translate_range, get_tags, check_file: uninterpreted results (weakest contract)',
        'obeys_key_model::<DiagnosticCode>() (derived Hash/Eq on a field-less enum) is a precondition',
        'frame: `self.diagnostics` is written only by add_diagnostic (checker modules are children of `checker`; scanned, not proved)',
    ],
    'samples': [
        'is_checker_enable_by_code: ensures ctx_enabled(self, *code, r)  (six precedence clauses of C20)',
        'add_diagnostic: disabled or suppressed => diagnostics unchanged; else exactly one pushed with configured severity and code name',
        'diagnose_file: !enable => None; non-main workspace => None',
    ],
    'mutants': [
        {'name': 'swap-meta-and-force-enable', 'item': 'DiagnosticContext::is_checker_enable_by_code',
         'pattern': r'if diagnostic_index\.is_file_enabled\(&file_id, code\) \{\s*return true;\s*\}', 'repl': '',
         'expect': r'C20\.enable-precedence'},
        {'name': 'drop-workspace-disabled', 'item': 'DiagnosticContext::is_checker_enable_by_code',
         'pattern': r'if self\.config\.workspace_disabled\.contains\(code\) \{\s*return false;\s*\}', 'repl': '',
         'expect': r'C20\.enable-precedence'},
        {'name': 'default-severity-wins', 'item': 'DiagnosticContext::get_severity',
         'pattern': r'if let Some\(severity\) = self\.config\.severity\.get\(&code\) \{\s*return Some\(\*severity\);\s*\}', 'repl': '',
         'expect': r'C20\.severity-override'},
        {'name': 'report-when-disabled', 'item': 'DiagnosticContext::add_diagnostic',
         'pattern': r'if !self\.is_checker_enable_by_code\(&code\) \{\s*return;\s*\}', 'repl': '',
         'expect': r'C20\.add\.disabled-not-reported'},
        {'name': 'doc-errors-dropped', 'item': 'SyntaxErrorChecker::check::parse_errors',
         'pattern': r'context\.add_diagnostic\(code, parse_error\.range, parse_error\.message, None\);',
         'repl': 'if matches!(parse_error.kind, LuaParseErrorKind::SyntaxError) { context.add_diagnostic(code, parse_error.range, parse_error.message, None); }',
         'expect': r'C21\.syntax-errors-all-reported'},
        {'name': 'checker-skipped-when-syntax-error-disabled', 'item': 'SyntaxErrorChecker::check::parse_errors',
         'pattern': r'if let Some\(parse_errors\) = semantic_model\.get_file_parse_error\(\) \{',
         'repl': 'if !context.is_checker_enable_by_code(&DiagnosticCode::SyntaxError) { return; }\n        if let Some(parse_errors) = semantic_model.get_file_parse_error() {',
         'expect': r'C21\.syntax-errors-all-reported'},
        {'name': 'diagnose-library', 'item': 'LuaDiagnostic::diagnose_file',
         'pattern': r'&& !module_info\.is_main\(\)', 'repl': '&& module_info.is_main()',
         'expect': r'C20\.library-reports-nothing'},
        {'name': 'ignore-enable-flag', 'item': 'LuaDiagnostic::diagnose_file',
         'pattern': r'if !self\.enable \{\s*return None;\s*\}', 'repl': '',
         'expect': r'C20\.enable-false'},
    ],
}
