CHK = 'crates/emmylua_code_analysis/src/diagnostic/checker/mod.rs'
DIAG = 'crates/emmylua_code_analysis/src/diagnostic/lua_diagnostic.rs'
CFG = 'crates/emmylua_code_analysis/src/diagnostic/lua_diagnostic_config.rs'


def ctx_fn(name, **kw):
    d = {'src': {'file': CHK, 'kind': 'fn', 'impl': 'DiagnosticContext', 'name': name}}
    d.update(kw)
    return d


UNIT = {
    'items': {
        'LuaDiagnosticConfig': {
            'src': {'file': CFG, 'kind': 'struct', 'name': 'LuaDiagnosticConfig'},
            'rules': [('struct-fields', {'keep': ['workspace_enabled', 'workspace_disabled', 'severity', 'level']})],
        },
        'DiagnosticContext': {
            'src': {'file': CHK, 'kind': 'struct', 'name': 'DiagnosticContext'},
            'rules': [('struct-fields', {'drop': ['table_expr_check_cache']})],
        },
        'DiagnosticContext::new': ctx_fn('new', rules=[('c20-drop-cache-init', {})], ret='r',
            ensures='r.file_id == file_id, r.db == db, r.config == config, r.diagnostics@.len() == 0 /*@C20.new*/'),
        'DiagnosticContext::get_db': ctx_fn('get_db', ret='r', ensures='r == self.db'),
        'DiagnosticContext::get_file_id': ctx_fn('get_file_id', ret='r', ensures='r == self.file_id'),
        'DiagnosticContext::is_checker_enable_by_code': ctx_fn(
            'is_checker_enable_by_code', ret='r',
            requires='key_model_ok()',
            ensures='ctx_enabled(self, *code, r) /*@C20.enable-precedence*/'),
        'DiagnosticContext::should_report_diagnostic': ctx_fn(
            'should_report_diagnostic', ret='r',
            ensures='r == !sp_range_suppressed(sp_diag_index(self.db), self.file_id, *code, *range) /*@C20.suppressed*/'),
        'DiagnosticContext::get_severity': ctx_fn(
            'get_severity', ret='r',
            requires='key_model_ok()',
            ensures='r == Some(expected_severity(&*self.config, code)) /*@C20.severity-override*/'),
        'DiagnosticContext::get_diagnostics': ctx_fn('get_diagnostics', ret='r', ensures='r == self.diagnostics'),
        'DiagnosticContext::add_diagnostic': ctx_fn(
            'add_diagnostic',
            rules=['struct-default-rest', 'str-into-string'],
            requires='key_model_ok()',
            ensures='''
            final(self).file_id == old(self).file_id && final(self).db == old(self).db && final(self).config == old(self).config /*@C20.add.frame*/,
            // nothing is reported for a code that is not enabled, or inside a suppressed range
            (exists|r: bool| !r && ctx_enabled(old(self), code, r)) ==> final(self).diagnostics@ == old(self).diagnostics@ /*@C20.add.disabled-not-reported*/,
            sp_range_suppressed(sp_diag_index(old(self).db), old(self).file_id, code, range) ==> final(self).diagnostics@ == old(self).diagnostics@ /*@C20.add.suppressed-not-reported*/,
            // otherwise exactly one diagnostic is appended, carrying the configured severity and the code name
            final(self).diagnostics@.len() <= old(self).diagnostics@.len() + 1 /*@C20.add.at-most-one*/,
            final(self).diagnostics@.len() == old(self).diagnostics@.len() + 1 ==> ({
                let d = final(self).diagnostics@.last();
                &&& final(self).diagnostics@.drop_last() == old(self).diagnostics@
                &&& d.severity == Some(expected_severity(&*old(self).config, code))
                &&& (d.code matches Some(NumberOrString::String(s)) && s@ == sp_code_name(code))
                &&& d.source is Some
                &&& d.message == message
                &&& d.range == (match sp_translate(old(self).db, old(self).file_id, range) { Some(r) => r, None => zero_range() })
            }) /*@C20.add.wellformed*/,
            final(self).diagnostics@.len() == old(self).diagnostics@.len() ==> final(self).diagnostics@ == old(self).diagnostics@ /*@C20.add.frame-diags*/,
            '''),
        'LuaDiagnostic': {'src': {'file': DIAG, 'kind': 'struct', 'name': 'LuaDiagnostic'},
                          'rules': [('struct-fields', {})]},
        'LuaDiagnostic::diagnose_file': {
            'src': {'file': DIAG, 'kind': 'fn', 'impl': 'LuaDiagnostic', 'name': 'diagnose_file'},
            'rules': ['letchain-nest'],
            'ret': 'r',
            'ensures': '''
            !self.enable ==> r is None /*@C20.enable-false-reports-nothing*/,
            (sp_workspace(sp_module_index(sp_comp_db(compilation)), file_id) matches Some(w) && !sp_ws_is_main(w)) ==> r is None /*@C20.library-reports-nothing*/,
            ''',
        },
    },
    'extra_rules': [
        ('c20-drop-cache-init', r'\n\s*table_expr_check_cache: HashMap::new\(\),', '',
         'struct projection companion: the initialiser of the dropped field `table_expr_check_cache` is removed from `new`'),
    ],
    'allow': [r'external_body', r'uninterp spec fn sp_'],
    'min_obligations': 10,
    'trusted': [
        'shims: DiagnosticCode/FileId/TextRange/DiagnosticSeverity as opaque value types; lsp_types::{Position,Range,Diagnostic} transcribed field by field',
        'DiagnosticIndex::{is_file_enabled,is_file_disabled,is_file_diagnostic_code_disabled}, LuaModuleIndex::{is_meta_file,get_workspace_id}, is_code_default_enable, get_default_severity, translate_range, get_tags, check_file: uninterpreted results (weakest contract)',
        'obeys_key_model::<DiagnosticCode>() (derived Hash/Eq on a field-less enum) is a precondition',
        'frame: `self.diagnostics` is written only by add_diagnostic (checker modules are children of `checker`; scanned, not proved)',
    ],
    'samples': [
        'is_checker_enable_by_code: ensures ctx_enabled(self, *code, r)  (six precedence clauses of C20)',
        'add_diagnostic: disabled or suppressed => diagnostics unchanged; else exactly one pushed with configured severity and code name',
        'diagnose_file: !enable => None; non-main workspace => None',
    ],
    'mutants': [
        {'name': 'swap-meta-and-force-enable', 'item': 'DiagnosticContext::is_checker_enable_by_code',
         'pattern': r'if diagnostic_index\.is_file_enabled\(&file_id, code\) \{\s*return true;\s*\}', 'repl': '',
         'expect': r'C20\.enable-precedence'},
        {'name': 'drop-workspace-disabled', 'item': 'DiagnosticContext::is_checker_enable_by_code',
         'pattern': r'if self\.config\.workspace_disabled\.contains\(code\) \{\s*return false;\s*\}', 'repl': '',
         'expect': r'C20\.enable-precedence'},
        {'name': 'default-severity-wins', 'item': 'DiagnosticContext::get_severity',
         'pattern': r'if let Some\(severity\) = self\.config\.severity\.get\(&code\) \{\s*return Some\(\*severity\);\s*\}', 'repl': '',
         'expect': r'C20\.severity-override'},
        {'name': 'report-when-disabled', 'item': 'DiagnosticContext::add_diagnostic',
         'pattern': r'if !self\.is_checker_enable_by_code\(&code\) \{\s*return;\s*\}', 'repl': '',
         'expect': r'C20\.add\.disabled-not-reported'},
        {'name': 'diagnose-library', 'item': 'LuaDiagnostic::diagnose_file',
         'pattern': r'&& !module_info\.is_main\(\)', 'repl': '&& module_info.is_main()',
         'expect': r'C20\.library-reports-nothing'},
        {'name': 'ignore-enable-flag', 'item': 'LuaDiagnostic::diagnose_file',
         'pattern': r'if !self\.enable \{\s*return None;\s*\}', 'repl': '',
         'expect': r'C20\.enable-false'},
    ],
}
