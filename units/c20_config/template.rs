// unit c20_config — C20 "Configuration controls which diagnostics are reported and how"
// Hand-written part: shims of external types (weakest contracts: uninterpreted spec functions) and the
// spec vocabulary of the property. The items marked `//@@` are extracted from /repo on every run.
use vstd::prelude::*;
use std::collections::{HashMap, HashSet};
use std::sync::Arc;
verus! {

// ---------------------------------------------------------------------------------------------
// shims
// ---------------------------------------------------------------------------------------------
#[derive(Clone, Copy, PartialEq, Eq, Hash)]
pub struct DiagnosticCode { pub id: u32 }
#[allow(non_upper_case_globals)]
impl DiagnosticCode {
    // the two variants the syntax-error checker names (any two distinct codes)
    pub const SyntaxError: DiagnosticCode = DiagnosticCode { id: 0 };
    pub const DocSyntaxError: DiagnosticCode = DiagnosticCode { id: 1 };
}

#[derive(Clone, Copy, PartialEq, Eq, Hash)]
pub struct FileId { pub id: u32 }

#[derive(Clone, Copy, PartialEq, Eq)]
pub struct LuaLanguageLevel { pub v: u8 }

#[derive(Clone, Copy, PartialEq, Eq)]
pub struct TextRange { pub start: u32, pub end: u32 }

#[derive(Clone, Copy, PartialEq, Eq)]
pub struct DiagnosticSeverity { pub v: i32 }

pub struct DiagnosticTag { pub v: i32 }

pub mod serde_json {
    use vstd::prelude::*;
    verus!{
    #[verifier::external_body]
    pub struct Value { _p: () }
    }
}

pub mod lsp_types {
    use vstd::prelude::*;
    verus!{
    #[derive(Clone, Copy, PartialEq, Eq)]
    pub struct Position { pub line: u32, pub character: u32 }
    #[derive(Clone, Copy, PartialEq, Eq)]
    pub struct Range { pub start: Position, pub end: Position }
    }
}

pub enum NumberOrString { Number(i32), String(String) }

#[verifier::external_body]
pub struct CodeDescription { _p: () }
#[verifier::external_body]
pub struct DiagnosticRelatedInformation { _p: () }

pub struct Diagnostic {
    pub range: lsp_types::Range,
    pub severity: Option<DiagnosticSeverity>,
    pub code: Option<NumberOrString>,
    pub code_description: Option<CodeDescription>,
    pub source: Option<String>,
    pub message: String,
    pub related_information: Option<Vec<DiagnosticRelatedInformation>>,
    pub tags: Option<Vec<DiagnosticTag>>,
    pub data: Option<serde_json::Value>,
}

#[verifier::external_body]
pub struct DiagnosticIndex { _p: () }
#[verifier::external_body]
pub struct LuaModuleIndex { _p: () }
#[verifier::external_body]
pub struct DbIndex { _p: () }
#[verifier::external_body]
pub struct LuaCompilation { _p: () }
#[verifier::external_body]
pub struct SemanticModel { _p: () }
#[verifier::external_body]
pub struct CancellationToken { _p: () }
#[verifier::external_body]
pub struct WorkspaceId { _p: () }

pub uninterp spec fn sp_file_enabled(d: &DiagnosticIndex, f: FileId, c: DiagnosticCode) -> bool;
pub uninterp spec fn sp_file_disabled(d: &DiagnosticIndex, f: FileId, c: DiagnosticCode) -> bool;
pub uninterp spec fn sp_range_suppressed(d: &DiagnosticIndex, f: FileId, c: DiagnosticCode, r: TextRange) -> bool;
pub uninterp spec fn sp_is_meta(m: &LuaModuleIndex, f: FileId) -> bool;
pub uninterp spec fn sp_default_enable(c: DiagnosticCode, level: LuaLanguageLevel) -> bool;
pub uninterp spec fn sp_default_severity(c: DiagnosticCode) -> DiagnosticSeverity;
pub uninterp spec fn sp_diag_index(db: &DbIndex) -> &DiagnosticIndex;
pub uninterp spec fn sp_module_index(db: &DbIndex) -> &LuaModuleIndex;
pub uninterp spec fn sp_code_name(c: DiagnosticCode) -> Seq<char>;
pub uninterp spec fn sp_translate(db: &DbIndex, f: FileId, r: TextRange) -> Option<lsp_types::Range>;
pub uninterp spec fn sp_tags(c: DiagnosticCode) -> Option<Vec<DiagnosticTag>>;
pub uninterp spec fn sp_workspace(m: &LuaModuleIndex, f: FileId) -> Option<WorkspaceId>;
pub uninterp spec fn sp_ws_is_main(w: WorkspaceId) -> bool;
pub uninterp spec fn sp_comp_db(c: &LuaCompilation) -> &DbIndex;
pub uninterp spec fn sp_cancelled(t: &CancellationToken) -> bool;
pub uninterp spec fn sp_check_file_result(db: &DbIndex, f: FileId, cfg: LuaDiagnosticConfig) -> Seq<Diagnostic>;

impl DiagnosticIndex {
    #[verifier::external_body]
    pub fn is_file_enabled(&self, file_id: &FileId, code: &DiagnosticCode) -> (r: bool)
        ensures r == sp_file_enabled(self, *file_id, *code) { unimplemented!() }
    #[verifier::external_body]
    pub fn is_file_disabled(&self, file_id: &FileId, code: &DiagnosticCode) -> (r: bool)
        ensures r == sp_file_disabled(self, *file_id, *code) { unimplemented!() }
    #[verifier::external_body]
    pub fn is_file_diagnostic_code_disabled(&self, file_id: &FileId, code: &DiagnosticCode, range: &TextRange) -> (r: bool)
        ensures r == sp_range_suppressed(self, *file_id, *code, *range) { unimplemented!() }
}
impl LuaModuleIndex {
    #[verifier::external_body]
    pub fn is_meta_file(&self, file_id: &FileId) -> (r: bool)
        ensures r == sp_is_meta(self, *file_id) { unimplemented!() }
    #[verifier::external_body]
    pub fn get_workspace_id(&self, file_id: FileId) -> (r: Option<WorkspaceId>)
        ensures r == sp_workspace(self, file_id) { unimplemented!() }
}
impl WorkspaceId {
    #[verifier::external_body]
    pub fn is_main(&self) -> (r: bool) ensures r == sp_ws_is_main(*self) { unimplemented!() }
}
impl DbIndex {
    #[verifier::external_body]
    pub fn get_diagnostic_index(&self) -> (r: &DiagnosticIndex) ensures r == sp_diag_index(self) { unimplemented!() }
    #[verifier::external_body]
    pub fn get_module_index(&self) -> (r: &LuaModuleIndex) ensures r == sp_module_index(self) { unimplemented!() }
}
impl LuaCompilation {
    #[verifier::external_body]
    pub fn get_db(&self) -> (r: &DbIndex) ensures r == sp_comp_db(self) { unimplemented!() }
    #[verifier::external_body]
    pub fn get_semantic_model(&self, file_id: FileId) -> (r: Option<SemanticModel>) { unimplemented!() }
}
impl CancellationToken {
    #[verifier::external_body]
    pub fn is_cancelled(&self) -> (r: bool) ensures r == sp_cancelled(self) { unimplemented!() }
}
impl DiagnosticCode {
    #[verifier::external_body]
    pub fn get_name(&self) -> (r: &'static str) ensures r@ == sp_code_name(*self) { unimplemented!() }
}
#[verifier::external_body]
pub fn is_code_default_enable(code: &DiagnosticCode, level: LuaLanguageLevel) -> (r: bool)
    ensures r == sp_default_enable(*code, level) { unimplemented!() }
#[verifier::external_body]
pub fn get_default_severity(code: DiagnosticCode) -> (r: DiagnosticSeverity)
    ensures r == sp_default_severity(code) { unimplemented!() }

#[verifier::external_body]
pub fn vx_string(s: &'static str) -> (r: String) ensures r@ == s@ { s.to_string() }

/// the parse errors the Vfs holds for the model's file (empty when it has none)
pub uninterp spec fn sp_parse_errors(m: &SemanticModel) -> Seq<LuaParseError>;
impl SemanticModel {
    #[verifier::external_body]
    pub fn get_file_parse_error(&self) -> (r: Option<Vec<LuaParseError>>)
        ensures r matches Some(v) ==> v@ == sp_parse_errors(self), r is None ==> sp_parse_errors(self).len() == 0,
    { unimplemented!() }
}

// `check_file` runs ~50 checkers over the AST; each can only append through `add_diagnostic`
// (frame: scan in DESIGN §5.C20). Its result is left uninterpreted here.
#[verifier::external_body]
pub fn check_file(context: &mut DiagnosticContext, semantic_model: &SemanticModel) -> (r: Option<()>)
    ensures final(context).file_id == old(context).file_id, final(context).config == old(context).config,
{ unimplemented!() }

// ---------------------------------------------------------------------------------------------
// the property's vocabulary
// ---------------------------------------------------------------------------------------------
/// C20, sentence by sentence. `fe` = the file enables the code with `---@diagnostic enable`,
/// `wd` = code in `diagnostics.disable`, `we` = code in `diagnostics.enables`, `meta` = meta file,
/// `fd` = the file disables the code with `---@diagnostic disable`.
pub open spec fn c20_enabled_ok(r: bool, fe: bool, wd: bool, meta: bool, fd: bool, we: bool, dflt: bool) -> bool {
    &&& (fe ==> r)                                   /* file-level enable overrides everything            */
    &&& (wd && !fe ==> !r)                           /* a disabled code is never reported unless enabled  */
    &&& (meta && !fe ==> !r)                         /* meta files report nothing                         */
    &&& (fd && !fe ==> !r)
    &&& (we && !wd && !meta && !fd ==> r)            /* `enables` reports codes that are off by default   */
    &&& (!fe && !wd && !meta && !fd && !we ==> r == dflt)
}

pub open spec fn ctx_enabled(ctx: &DiagnosticContext, code: DiagnosticCode, r: bool) -> bool {
    let di = sp_diag_index(ctx.db);
    c20_enabled_ok(r,
        sp_file_enabled(di, ctx.file_id, code),
        ctx.config.workspace_disabled@.contains(code),
        sp_is_meta(sp_module_index(ctx.db), ctx.file_id),
        sp_file_disabled(di, ctx.file_id, code),
        ctx.config.workspace_enabled@.contains(code),
        sp_default_enable(code, ctx.config.level))
}

/// the (unique) verdict the C20 precedence chain determines for a code
pub open spec fn must_report(ctx: &DiagnosticContext, code: DiagnosticCode) -> bool {
    forall|r: bool| ctx_enabled(ctx, code, r) ==> r
}

/// C21: diagnostic `d` is the report of a parse error (its code name, message and translated range)
pub open spec fn reports(ctx_db: &DbIndex, f: FileId, d: Diagnostic, code: DiagnosticCode, range: TextRange, message: String) -> bool {
    &&& (d.code matches Some(NumberOrString::String(s)) && s@ == sp_code_name(code))
    &&& d.message == message
    &&& d.severity is Some
    &&& d.range == (match sp_translate(ctx_db, f, range) { Some(r) => r, None => zero_range() })
}

pub open spec fn parse_error_code(k: LuaParseErrorKind) -> DiagnosticCode {
    match k { LuaParseErrorKind::SyntaxError => DiagnosticCode::SyntaxError, LuaParseErrorKind::DocError => DiagnosticCode::DocSyntaxError }
}

pub open spec fn zero_range() -> lsp_types::Range {
    lsp_types::Range { start: lsp_types::Position { line: 0, character: 0 }, end: lsp_types::Position { line: 0, character: 0 } }
}

pub open spec fn expected_severity(cfg: &LuaDiagnosticConfig, code: DiagnosticCode) -> DiagnosticSeverity {
    if cfg.severity@.contains_key(code) { cfg.severity@[code] } else { sp_default_severity(code) }
}

pub open spec fn key_model_ok() -> bool {
    vstd::std_specs::hash::obeys_key_model::<DiagnosticCode>()
}

// ---------------------------------------------------------------------------------------------
// extracted from /repo
// ---------------------------------------------------------------------------------------------
//@@ LuaDiagnosticConfig

//@@ DiagnosticContext

impl<'a> DiagnosticContext<'a> {
    //@@ DiagnosticContext::new
    //@@ DiagnosticContext::get_db
    //@@ DiagnosticContext::get_file_id
    //@@ DiagnosticContext::is_checker_enable_by_code
    //@@ DiagnosticContext::should_report_diagnostic
    //@@ DiagnosticContext::get_severity
    //@@ DiagnosticContext::get_diagnostics
    //@@ DiagnosticContext::add_diagnostic

    #[verifier::external_body]
    pub fn translate_range(&self, range: TextRange) -> (r: Option<lsp_types::Range>)
        ensures r == sp_translate(self.db, self.file_id, range) { unimplemented!() }
    #[verifier::external_body]
    pub fn get_tags(&self, code: DiagnosticCode) -> (r: Option<Vec<DiagnosticTag>>)
        ensures r == sp_tags(code) { unimplemented!() }
}

//@@ LuaParseErrorKind
//@@ LuaParseError
//@@ SyntaxErrorChecker::check::parse_errors

//@@ LuaDiagnostic

impl LuaDiagnostic {
    //@@ LuaDiagnostic::diagnose_file
}

} // verus!
fn main() {}
