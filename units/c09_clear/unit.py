"""unit c09_clear — C09: after DbIndex::clear every fact-holding field equals its value in DbIndex::new().

The template is GENERATED from the struct definitions found in the repository on every run:
  * every field of every index struct must be classified below as `fact` (must be fresh after clear)
    or `config` (configuration / id allocation / remote cache, with the reason) — an unclassified field
    makes the unit undecided, so a newly added field cannot silently escape;
  * `fresh_<S>` = conjunction over the fact fields (containers empty; scalars as listed) and is the
    postcondition of BOTH `S::new` and `S::clear`: new() pins down what "fresh" means, clear() must
    re-establish it;
  * every other type mentioned in a field is an opaque shim (clear/new never inspect values).
"""
import os
import re
import sys

sys.path.insert(0, os.path.dirname(os.path.dirname(os.path.dirname(os.path.abspath(__file__)))))
from vc import extract as X           # noqa: E402
from vc.extract import Undecided      # noqa: E402

REPO = os.environ.get('VERIF_REPO', '/repo')
DB = 'crates/emmylua_code_analysis/src/db_index/'

# struct -> (file, {field: class})   class: 'fact' | ('fact', '<fresh value expr over `s`>') | ('config', reason)
INDEXES = {
    'LuaDeclIndex': (DB + 'declaration/mod.rs', {'decl_trees': 'fact'}),
    'LuaReferenceIndex': (DB + 'reference/mod.rs', {
        'file_references': 'fact', 'index_reference': 'fact', 'global_references': 'fact',
        'string_references': 'fact', 'type_references': 'fact', 'label_references': 'fact'}),
    'LuaTypeIndex': (DB + 'type/mod.rs', {
        'file_namespace': 'fact', 'file_using_namespace': 'fact', 'file_types': 'fact', 'full_name_type_map': 'fact',
        'generic_params': 'fact', 'supers': 'fact', 'types': 'fact', 'in_filed_type_owner': 'fact',
        'global_name_type_map': 'fact', 'internal_name_type_map': 'fact', 'local_name_type_map': 'fact'}),
    'LuaModuleIndex': (DB + 'module/mod.rs', {
        'module_patterns': ('config', 'set from Emmyrc by update_config'),
        'module_root_id': ('config', 'constant id of the root node'),
        'module_nodes': ('fact', 's.module_nodes@ == Map::<ModuleNodeId, ModuleNode>::empty().insert(s.module_root_id, sp_default_module_node())'),
        'file_module_map': 'fact', 'module_name_to_file_ids': 'fact',
        'workspaces': ('config', 'workspace roots are configuration, re-applied by the caller'),
        'id_counter': ('config', 'node id allocation counter: ids are not observable'),
        'fuzzy_search': ('config', 'set from Emmyrc'), 'module_replace_vec': ('config', 'set from Emmyrc')}),
    'LuaMemberIndex': (DB + 'member/mod.rs', {
        'members': 'fact', 'in_filed': 'fact', 'owner_members': 'fact', 'member_current_owner': 'fact'}),
    'LuaPropertyIndex': (DB + 'property/mod.rs', {
        'properties': 'fact', 'property_owners_map': 'fact', 'id_count': ('fact', 's.id_count == 0'), 'in_filed_owner': 'fact'}),
    'LuaSignatureIndex': (DB + 'signature/mod.rs', {'signatures': 'fact', 'in_file_signatures': 'fact'}),
    'DiagnosticIndex': (DB + 'diagnostic/mod.rs', {
        'diagnostic_actions': 'fact', 'diagnostics': 'fact', 'file_diagnostic_disabled': 'fact', 'file_diagnostic_enabled': 'fact'}),
    'LuaOperatorIndex': (DB + 'operators/mod.rs', {'operators': 'fact', 'type_operators_map': 'fact', 'in_filed_operator_map': 'fact'}),
    'LuaFlowIndex': (DB + 'flow/mod.rs', {'file_flow_tree': 'fact', 'signature_cast_cache': 'fact'}),
    'LuaDependencyIndex': (DB + 'dependency/mod.rs', {'dependencies': 'fact'}),
    'LuaMetatableIndex': (DB + 'metatable/mod.rs', {'metatables': 'fact'}),
    'LuaGlobalIndex': (DB + 'global/mod.rs', {'global_decl': 'fact'}),
    'JsonSchemaIndex': (DB + 'schema/mod.rs', {'schema_files': ('config', 'URL-keyed cache of remote schema resources, not derived from workspace files')}),
}
# DbIndex fields that are not indexes
DB_NON_INDEX = {'vfs': 'file contents: file ids are intentionally stable across reindex', 'emmyrc': 'configuration'}

# hash-table reasoning needs the key model of the key type (derived Hash/Eq on a u32 newtype): a precondition
REQ = {'LuaModuleIndex': 'vstd::std_specs::hash::obeys_key_model::<ModuleNodeId>()'}

KNOWN = {'HashMap', 'HashSet', 'Vec', 'Option', 'String', 'u32', 'u64', 'usize', 'bool', 'Arc', 'Box', 'i32', 'i64', 'u8', 'str'}
SPECIAL_SHIMS = {
    'FileId': '#[derive(Clone, Copy, PartialEq, Eq, Hash)]\npub struct FileId { pub id: u32 }',
    'ModuleNodeId': '#[derive(Clone, Copy, PartialEq, Eq, Hash)]\npub struct ModuleNodeId { pub id: u32 }',
    'ModuleNode': '''#[verifier::external_body]
pub struct ModuleNode { _p: () }
pub uninterp spec fn sp_default_module_node() -> ModuleNode;
impl ModuleNode {
    #[verifier::external_body]
    pub fn default() -> (r: ModuleNode) ensures r == sp_default_module_node() { unimplemented!() }
}''',
}


def parse_fields(struct_text):
    body = struct_text[struct_text.index('{') + 1:struct_text.rindex('}')]
    fields, depth, cur = [], 0, ''
    for ch in body:
        if ch in '<([{': depth += 1
        if ch in '>)]}': depth -= 1
        if ch == ',' and depth == 0:
            fields.append(cur); cur = ''
        else:
            cur += ch
    if cur.strip(): fields.append(cur)
    out = []
    for f in fields:
        f = re.sub(r'//[^\n]*', '', f)
        f = re.sub(r'#\[[^\]]*\]', '', f).strip()
        if not f: continue
        m = re.match(r'(?:pub(?:\([^)]*\))?\s+)?(\w+)\s*:\s*(.+)$', f, flags=re.S)
        if not m: raise Undecided('cannot parse field: %r' % f)
        out.append((m.group(1), ' '.join(m.group(2).split())))
    return out


def type_names(ty):
    """(name, arity) of every path-free type identifier used in `ty`"""
    res = {}
    for m in re.finditer(r'\b([A-Z]\w*)\b(\s*<)?', ty):
        name = m.group(1)
        arity = 0
        if m.group(2):
            i, depth, arity = m.end(), 1, 1
            while i < len(ty) and depth:
                c = ty[i]
                if c in '<(': depth += 1
                elif c in '>)': depth -= 1
                elif c == ',' and depth == 1: arity += 1
                i += 1
        res[name] = max(res.get(name, 0), arity)
    return res


def fresh_clause(field, ty, cls):
    if isinstance(cls, tuple) and cls[0] == 'fact':
        return cls[1]
    head = ty.split('<')[0].strip()
    if head in ('HashMap', 'HashSet', 'Vec'):
        return 's.%s@.len() == 0' % field
    raise Undecided('fact field %s: %s has no generated fresh clause; list one explicitly' % (field, ty))


def build():
    items, body, shims_needed, notes = {}, [], {}, []
    for sname, (file, classes) in INDEXES.items():
        st = X.find_item(REPO, {'file': file, 'kind': 'struct', 'name': sname})
        fields = parse_fields(st.raw)
        clauses = []
        for fname, ty in fields:
            if fname not in classes:
                raise Undecided('%s.%s (%s) is not classified as fact/config in units/c09_clear/unit.py — new field?' % (sname, fname, ty))
            cls = classes[fname]
            for n, a in type_names(ty).items():
                if n not in KNOWN: shims_needed[n] = max(shims_needed.get(n, 0), a)
            if cls == 'fact' or (isinstance(cls, tuple) and cls[0] == 'fact'):
                clauses.append('(%s) /*@C09.%s.%s*/' % (fresh_clause(fname, ty, cls), sname, fname))
            else:
                notes.append('%s.%s: config (%s)' % (sname, fname, cls[1]))
        gone = set(classes) - {f for f, _ in fields}
        if gone:
            raise Undecided('%s: classified fields no longer exist: %s' % (sname, sorted(gone)))
        items[sname] = {'src': {'file': file, 'kind': 'struct', 'name': sname}, 'rules': [('struct-fields', {})]}
        items[sname + '::new'] = {'src': {'file': file, 'kind': 'fn', 'impl': sname, 'name': 'new'},
                                  'ret': 'r', 'requires': REQ.get(sname), 'ensures': 'fresh_%s(&r) /*@C09.%s.new-is-fresh*/' % (sname, sname)}
        items[sname + '::clear'] = {'src': {'file': file, 'kind': 'fn', 'impl': 'LuaIndex for ' + sname, 'name': 'clear'},
                                    'requires': REQ.get(sname),
                                    'ensures': 'fresh_%s(final(self)) /*@C09.%s.clear-is-fresh*/' % (sname, sname)
                                               + (', final(self).module_root_id == old(self).module_root_id' if sname == 'LuaModuleIndex' else '')}
        body.append('pub open spec fn fresh_%s(s: &%s) -> bool {\n    %s\n}\n' % (
            sname, sname, '\n    '.join('&&& ' + c for c in (['true'] + clauses))))
        body.append('//@@ %s\nimpl %s {\n    //@@ %s::new\n    //@@ %s::clear\n}\n' % (sname, sname, sname, sname))
    # DbIndex: every field is an index listed above or a declared non-index
    dbf = DB + 'mod.rs'
    st = X.find_item(REPO, {'file': dbf, 'kind': 'struct', 'name': 'DbIndex'})
    db_fields = parse_fields(st.raw)
    keep, db_clauses = [], []
    for fname, ty in db_fields:
        if ty in INDEXES:
            keep.append(fname)
            db_clauses.append('fresh_%s(&s.%s) /*@C09.DbIndex.%s*/' % (ty, fname, fname))
        elif fname in DB_NON_INDEX:
            notes.append('DbIndex.%s: not an index (%s)' % (fname, DB_NON_INDEX[fname]))
        else:
            raise Undecided('DbIndex.%s: %s is neither a known index nor a declared non-index field' % (fname, ty))
    items['DbIndex'] = {'src': {'file': dbf, 'kind': 'struct', 'name': 'DbIndex'}, 'rules': [('struct-fields', {'keep': keep})]}
    items['DbIndex::clear'] = {'src': {'file': dbf, 'kind': 'fn', 'impl': 'LuaIndex for DbIndex', 'name': 'clear'},
                               'requires': ', '.join(sorted(set(REQ.values()))),
                               'ensures': 'fresh_DbIndex(final(self)) /*@C09.DbIndex.clear-is-fresh*/'}
    body.append('pub open spec fn fresh_DbIndex(s: &DbIndex) -> bool {\n    %s\n}\n' % '\n    '.join('&&& ' + c for c in (['true'] + db_clauses)))
    body.append('//@@ DbIndex\nimpl DbIndex {\n    //@@ DbIndex::clear\n}\n')
    shims = []
    for n in sorted(shims_needed):
        if n in INDEXES: continue
        if n in SPECIAL_SHIMS:
            shims.append(SPECIAL_SHIMS[n]); continue
        a = shims_needed[n]
        if a == 0:
            shims.append('#[verifier::external_body]\n#[derive(PartialEq, Eq, Hash)]\npub struct %s { _p: () }' % n)
        else:
            ps = ', '.join('T%d' % i for i in range(a))
            rej = '\n'.join('#[verifier::reject_recursive_types(T%d)]' % i for i in range(a))
            shims.append('#[verifier::external_body]\n%s\n#[derive(PartialEq, Eq, Hash)]\npub struct %s<%s> { _p: core::marker::PhantomData<(%s,)> }' % (rej, n, ps, ps))
    text = ('// GENERATED by units/c09_clear/unit.py from the struct definitions in the repository (see its doc string)\n'
            'use vstd::prelude::*;\nuse std::collections::{HashMap, HashSet};\nuse std::sync::Arc;\nverus! {\n\n'
            '// ---- opaque shims of every type mentioned in an index field (values are never inspected) ----\n'
            + '\n'.join(shims) + '\n\n// ---- fresh state + extracted structs / new / clear ----\n' + '\n'.join(body)
            + '\n} // verus!\nfn main() {}\n')
    return items, text, notes


_items, _text, _notes = build()

UNIT = {
    'items': _items,
    'template_text': _text,
    'allow': [r'external_body', r'uninterp spec fn sp_default_module_node'],
    'min_obligations': 30,
    'trusted': [
        'hashbrown::{HashMap,HashSet} replaced by std::collections (same new/clear API)',
        'every value/key type is an opaque shim (new/clear never inspect values)',
        'trait-impl methods `LuaIndex::clear` are placed in inherent impl blocks: the real calls are statically dispatched on concrete field types (no dyn LuaIndex)',
        'field classification (config fields are not required to be fresh): ' + '; '.join(_notes),
    ],
    'samples': ['<Index>::new ensures fresh_<Index>(r); <Index>::clear ensures fresh_<Index>(final(self)); DbIndex::clear ensures the conjunction over all 14 index fields'],
    'mutants': [
        {'name': 'type-index-forgets-supers', 'item': 'LuaTypeIndex::clear', 'pattern': r'self\.supers\.clear\(\);', 'repl': '', 'expect': r'C09\.LuaTypeIndex\.'},
        {'name': 'dbindex-skips-flow', 'item': 'DbIndex::clear', 'pattern': r'self\.flow_index\.clear\(\);', 'repl': '', 'expect': r'C09\.DbIndex\.'},
        {'name': 'module-root-missing', 'item': 'LuaModuleIndex::clear', 'pattern': r'self\.module_nodes\.insert\(self\.module_root_id, root_node\);', 'repl': '', 'expect': r'C09\.LuaModuleIndex\.'},
        {'name': 'property-counter-kept', 'item': 'LuaPropertyIndex::clear', 'pattern': r'self\.id_count = 0;', 'repl': '', 'expect': r'C09\.LuaPropertyIndex\.'},
    ],
}
