"""unit c25_sites — C25: every `token_at_offset(..)` / `covering_element(..)` call of emmylua_ls/src/handlers/** under
contract. rowan's assertion `range.start() <= offset && offset <= range.end()` is the precondition of the shimmed
`token_at_offset`; each call site is a statement slice of the real handler (root / document / offset computation, the
guard if there is one, the whole `match root.syntax().token_at_offset(x) { .. };`).

Inventory (re-derive: grep -rn 'token_at_offset(\\|covering_element(' crates/emmylua_ls/src/handlers): 20 calls of
token_at_offset, 0 of covering_element.

  site (file:line at 8b03b52)                               item                                   safe by
  references/mod.rs:55                                      C25.site.references                    get_offset + link, and guard
  implementation/mod.rs:46                                  C25.site.implementation                get_offset + link, and guard
  definition/mod.rs:60                                      C25.site.definition                    get_offset + link, and guard
  completion/mod.rs:76                                      C25.site.completion                    get_offset + link, and guard
  call_hierarchy/mod.rs:40                                  C25.site.prepare_call_hierarchy        get_offset + link, and guard
  rename/mod.rs:57                                          C25.site.prepare_rename                get_offset + link, and guard
  rename/mod.rs:101                                         C25.site.rename                        get_offset + link, and guard
  signature_helper/mod.rs:54                                C25.site.signature_help                get_offset + link, and guard
  document_highlight/mod.rs:35                              C25.site.document_highlight            get_offset + link, and guard
  hover/mod.rs:56                                           C25.site.hover                         get_offset + link, and guard
  code_actions/actions/build_disable_code.rs:83             C25.site.disable_next_line             get_offset + link, and guard (>=)
  inline_values/build_inline_values.rs:14                   C25.site.inline_values                 get_offset + link (no guard)
  code_actions/actions/build_fix_code.rs:18                 C25.site.need_check_nil                get_offset + link (no guard)
  document_selection_range/mod.rs:29                        C25.site.selection_range (+ .pair)     get_offset + link (no guard)
  call_hierarchy/build_call_hierarchy.rs:131                C25.site.incoming_hierarchy_item       get_offset + link (no guard)
  completion/resolve_completion.rs:70                       C25.site.completion_resolve            guard only (remembered offset)
  inlay_hint/build_inlay_hint.rs:104                        C25.site.inlay_hint_param_location     guard only (index position; fix 8b03b52)
  definition/goto_function.rs:161                           not covered (index position, signature-index lookup in front, no range guard)
  completion/providers/postfix_provider.rs:84               not covered (token of the same tree, no range guard)
  references/reference_searcher.rs:571                      not covered (reference-index range of the same file, no range guard)
 client RANGE sites (`params.range` -> LuaDocument::to_rowan_range, contract of c22 after fix 659629c):
  document_range_formatting/mod.rs:75                       C25.site.range_formatting              `?` on None; selection inside the text
  document_color/mod.rs:65                                  C25.site.color_presentation            `else { return vec![] }`; get_text_slice in range
"""
import re

from vc.rules import rule

H = 'crates/emmylua_ls/src/handlers/'
DOC = 'crates/emmylua_code_analysis/src/vfs/document.rs'
LI = 'crates/emmylua_parser/src/text/line_index.rs'
TK = 'crates/emmylua_parser/src/kind/lua_token_kind.rs'


@rule('c25-label-call')
def label_call(text, label=None, calls='token_at_offset|covering_element', **_):
    """`X.token_at_offset(ARG)` -> `X.token_at_offset(ARG) /*@<label>*/` (likewise for the other method names given in
    `calls`): a block comment behind the (single-line) call, so that a failed precondition of that call is reported under
    the site's label. Comments have no run-time meaning."""
    pat = re.compile(r'\.(?:%s)\((?:[^()\n]|\([^()\n]*\))*\)' % calls)
    ms = list(pat.finditer(text))
    for m in reversed(ms):
        text = text[:m.end()] + ' /*@%s*/' % label + text[m.end():]
    return text, len(ms)


def match_end(arg, indent=4):
    """the whole statement `.. match <recv>.token_at_offset(<arg>) { arms };` (closing `};` at the statement's indentation)"""
    return r'\.token_at_offset\(%s\) \{.*?\n%s\};' % (re.escape(arg), ' ' * indent)


def site(key, file, host, frm, arg, head, requires, tail='Some(token)', indent=4, **kw):
    d = {
        'src': {'kind': 'slice', 'name': 'site_' + key.replace('.', '_'),
                'in': {'file': H + file, 'kind': 'fn', 'name': host},
                'from': frm, 'to': match_end(arg, indent),
                'head': 'pub fn site_%s(%s) -> Option<LuaSyntaxToken>' % (key.replace('.', '_'), head),
                'tail': tail},
        'rules': [('c25-label-call', {'label': 'C25.site.' + key, 'count': 1})],
        'requires': requires,
        'attrs': '#[verifier::spinoff_prover]',
    }
    d.update(kw)
    return 'C25.site.' + key, d


GET_ROOT = r'let root = semantic_model\.get_root\(\);'
GET_DOC = r'let document = semantic_model\.get_document\(\);'
MODEL_POS = 'semantic_model: &SemanticModel, position: Position'
# the link assumption + the c22 representation invariant, for the model's own document and root
MODEL_OK = 'model_ok(semantic_model)'


def std_site(key, file, host):
    """`let root = semantic_model.get_root(); let position_offset = { .. document.get_offset(..)? }; [guard]; let token = match ..;`"""
    return site(key, file, host, GET_ROOT, 'position_offset', MODEL_POS, MODEL_OK)


SITES = dict([
    std_site('references', 'references/mod.rs', 'references'),
    std_site('implementation', 'implementation/mod.rs', 'implementation'),
    std_site('definition', 'definition/mod.rs', 'definition'),
    std_site('completion', 'completion/mod.rs', 'completion'),
    std_site('prepare_call_hierarchy', 'call_hierarchy/mod.rs', 'on_prepare_call_hierarchy_handler'),
    std_site('prepare_rename', 'rename/mod.rs', 'on_prepare_rename_handler'),
    std_site('rename', 'rename/mod.rs', 'rename'),
    std_site('signature_help', 'signature_helper/mod.rs', 'signature_help'),
    std_site('document_highlight', 'document_highlight/mod.rs', 'on_document_highlight_handler'),
    std_site('hover', 'hover/mod.rs', 'hover'),
    # no guard in the text: safe by the get_offset contract + the link assumption only
    site('inline_values', 'inline_values/build_inline_values.rs', 'build_inline_values', GET_ROOT, 'offset', MODEL_POS, MODEL_OK),
    site('need_check_nil', 'code_actions/actions/build_fix_code.rs', 'build_need_check_nil', GET_DOC, 'offset',
         'semantic_model: &SemanticModel, range: Range', MODEL_OK),
    # get_offset AND the guard `offset >= root.get_range().end()`
    site('disable_next_line', 'code_actions/actions/build_disable_code.rs', 'build_disable_next_line_changes', GET_DOC, 'offset',
         'semantic_model: &SemanticModel, start: Position', MODEL_OK),
    # on_document_selection_range_handle: `document` / `root` are fetched once (slice .pair), the call is in the loop body
    site('selection_range', 'document_selection_range/mod.rs', 'on_document_selection_range_handle',
         r'let offset = document\.get_offset\(pos\.line as usize, pos\.character as usize\)\?;', 'offset',
         'document: LuaDocument, root: &LuaChunk, pos: Position',
         # exactly the postcondition of slice C25.site.selection_range.pair
         'wf(document.line_index, document.text.spec_bytes()), doc_of_root(&document, root)', indent=8),
    # build_incoming_hierarchy_item: `tree` and `document` both come from `db.get_vfs()` for the same `file_id` (the three
    # statements in front of the slice): the link assumption for that pair
    site('incoming_hierarchy_item', 'call_hierarchy/build_call_hierarchy.rs', 'build_incoming_hierarchy_item',
         r'let pos = document\.get_offset\(range\.start\.line as usize, range\.start\.character as usize\)\?;', 'pos',
         'document: LuaDocument, root_chunk: LuaChunk, range: Range',
         'wf(document.line_index, document.text.spec_bytes()), doc_of_root(&document, &root_chunk)'),
])

UNIT = {
    'items': {
        'LuaTokenKind': {'src': {'file': TK, 'kind': 'enum', 'name': 'LuaTokenKind'}, 'attrs': '#[derive(Clone, Copy)]'},
        'LineIndex': {'src': {'file': LI, 'kind': 'struct', 'name': 'LineIndex'}, 'rules': [('struct-fields', {})]},
        'LuaDocument': {'src': {'file': DOC, 'kind': 'struct', 'name': 'LuaDocument'},
                        'rules': [('struct-fields', {'keep': ['text', 'line_index']})]},
        **SITES,
        'C25.site.selection_range.pair': {
            'src': {'kind': 'slice', 'name': 'site_selection_range_pair',
                    'in': {'file': H + 'document_selection_range/mod.rs', 'kind': 'fn', 'name': 'on_document_selection_range_handle'},
                    'from': GET_DOC, 'to': GET_ROOT,
                    'head': "pub fn site_selection_range_pair<'a>(semantic_model: &'a SemanticModel) -> (LuaDocument<'a>, &'a LuaChunk)",
                    'tail': '(document, root)'},
            'ret': 'r',
            'requires': MODEL_OK,
            'ensures': 'wf(r.0.line_index, r.0.text.spec_bytes()) && doc_of_root(&r.0, r.1) /*@C25.site.selection_range.document-of-root*/',
        },
        # get_call_signature_param_location: the position stored in a LuaSignatureId of an INFERRED type; the file it names may
        # have been edited since (fix 8b03b52 added the guard). No client position, no document: the guard alone.
        'C25.site.inlay_hint_param_location': site('inlay_hint_param_location', 'inlay_hint/build_inlay_hint.rs', 'get_call_signature_param_location',
             r'if let Some\(root\) = semantic_model\.get_root_by_file_id\(sig_file_id\) \{', 'sig_position',
             'semantic_model: &SemanticModel, sig_file_id: FileId, sig_position: TextSize',
             'file_root_at_zero(semantic_model, sig_file_id)',
             tail='return Some(token);\n}\nNone', indent=12)[1],
        # ---- client RANGE -> to_rowan_range: nothing in the slice may panic for ANY client range
        'C25.site.range_formatting': {
            'src': {'kind': 'slice', 'name': 'site_range_formatting',
                    'in': {'file': H + 'document_range_formatting/mod.rs', 'kind': 'fn', 'name': 'on_range_formatting_handler'},
                    'from': r'let selection = document\.to_rowan_range\(request_range\)\?;',
                    'to': r'let selection = document\.to_rowan_range\(request_range\)\?;',
                    'head': 'pub fn site_range_formatting(document: LuaDocument, request_range: Range) -> Option<TextRange>',
                    'tail': 'Some(selection)'},
            'rules': [('c25-label-call', {'label': 'C25.site.range_formatting', 'calls': 'to_rowan_range|unwrap'})],
            'ret': 'r',
            'requires': 'wf(document.line_index, document.text.spec_bytes())',
            # what reformat_range_in_chunk(document.get_text(), &chunk, selection, ..) is handed: an ordered range inside the text
            'ensures': 'r matches Some(s) ==> s.wf() && s.end.raw <= document.text.spec_bytes().len() /*@C25.site.range_formatting.selection-in-text*/',
            'attrs': '#[verifier::spinoff_prover]',
        },
        'C25.site.color_presentation': {
            'src': {'kind': 'slice', 'name': 'site_color_presentation',
                    'in': {'file': H + 'document_color/mod.rs', 'kind': 'fn', 'name': 'on_document_color_presentation'},
                    'from': GET_DOC, 'to': r'let text = document\.get_text_slice\(range\);',
                    'head': 'pub fn site_color_presentation(semantic_model: &SemanticModel, params: ColorPresentationParams) -> Vec<ColorPresentation>',
                    'tail': 'vec![]'},
            'rules': [('c25-label-call', {'label': 'C25.site.color_presentation', 'calls': 'to_rowan_range|get_text_slice|unwrap'})],
            'requires': MODEL_OK,
            'attrs': '#[verifier::spinoff_prover]',
        },
        # the site of the seeded defect: the offset is remembered in a completion item (`data.trigger_offset`), the
        # document may have shrunk since -> only the guard in the text makes the call safe. Whole function.
        'C25.site.completion_resolve': {
            'src': {'file': H + 'completion/resolve_completion.rs', 'kind': 'fn', 'name': 'get_completion_trigger_token'},
            'rules': [('c25-label-call', {'label': 'C25.site.completion_resolve', 'count': 1})],
            'requires': MODEL_OK,
            'attrs': '#[verifier::spinoff_prover]',
        },
    },
    'mutants': [
        # the seeded defect nothing caught
        {'name': 'resolve-guard-removed', 'item': 'C25.site.completion_resolve',
         'pattern': r'if offset > root\.syntax\(\)\.text_range\(\)\.end\(\) \{\s*return None;\s*\}', 'repl': '',
         'expect': r'C25\.site\.completion_resolve:precondition-not-satisfied\[C25\.site\.completion_resolve\]'},
        {'name': 'resolve-guard-on-wrong-bound', 'item': 'C25.site.completion_resolve',
         'pattern': r'if offset > root\.syntax\(\)\.text_range\(\)\.end\(\)', 'repl': 'if offset < root.syntax().text_range().start()',
         'expect': r'\[C25\.site\.completion_resolve\]'},
        # a client position that bypasses get_offset's None / clamp at a site without guard
        {'name': 'inline-values-unwrap-or-max', 'item': 'C25.site.inline_values',
         'pattern': r'(document\.get_offset\(position\.line as usize, position\.character as usize\))\?',
         'repl': r'\1.unwrap_or(TextSize::from(u32::MAX))',
         'expect': r'\[C25\.site\.inline_values\]'},
        {'name': 'inline-values-column-as-offset', 'item': 'C25.site.inline_values',
         'pattern': r'token_at_offset\(offset\)', 'repl': 'token_at_offset(TextSize::from(position.character))',
         'expect': r'\[C25\.site\.inline_values\]'},
        # one past the checked offset (guard and get_offset both speak about `position_offset`)
        {'name': 'hover-offset-plus-one', 'item': 'C25.site.hover',
         'pattern': r'token_at_offset\(position_offset\)', 'repl': 'token_at_offset(position_offset + TextSize::from(1))',
         'expect': r'C25\.site\.hover:precondition-not-satisfied'},
        # the guard of build_disable_next_line_changes alone does not have to carry the call (get_offset does); but an
        # offset from another document does need it
        {'name': 'need-check-nil-offset-plus-len', 'item': 'C25.site.need_check_nil',
         'pattern': r'token_at_offset\(offset\)', 'repl': 'token_at_offset(root.get_range().end() + offset)',
         'expect': r'C25\.site\.need_check_nil:precondition-not-satisfied'},
        # fix 8b03b52 undone: the stale signature position reaches rowan unchecked
        {'name': 'inlay-hint-guard-removed', 'item': 'C25.site.inlay_hint_param_location',
         'pattern': r'if sig_position > root\.syntax\(\)\.text_range\(\)\.end\(\) \{\s*return None;\s*\}', 'repl': '',
         'expect': r'\[C25\.site\.inlay_hint_param_location\]'},
        # a client range is not always convertible (missing line, reversed): None must be handled, not unwrapped
        {'name': 'range-formatting-unwrap', 'item': 'C25.site.range_formatting',
         'pattern': r'document\.to_rowan_range\(request_range\)\?', 'repl': 'document.to_rowan_range(request_range).unwrap()',
         'expect': r'\[C25\.site\.range_formatting\]'},
        {'name': 'color-presentation-unwrap', 'item': 'C25.site.color_presentation',
         'pattern': r'if let Some\(range\) = document\.to_rowan_range\(params\.range\) \{\s*range\s*\} else \{\s*return vec!\[\];\s*\}',
         'repl': 'document.to_rowan_range(params.range).unwrap()',
         'expect': r'\[C25\.site\.color_presentation\]'},
        {'name': 'color-presentation-slice-swapped', 'item': 'C25.site.color_presentation',
         'pattern': r'get_text_slice\(range\)', 'repl': 'get_text_slice(TextRange { start: range.end(), end: range.start() })',
         'expect': r'\[C25\.site\.color_presentation\]'},
    ],
    'allow': [r'external_body', r'uninterp spec fn (sp_text_range|sp_syntax|sp_root|sp_root_of_file|sp_document|wf)\b'],
    'min_obligations': 40,
    'trusted': [
        'rowan 0.16.1 shim: SyntaxNode::token_at_offset requires text_range().start() <= offset <= text_range().end() (cursor.rs:887 assert!, '
        'the documented panic), covering_element requires text_range().contains_range(range) (cursor.rs:922 assert!); no postconditions; '
        'text_range() uninterpreted; TokenAtOffset + right_biased / left_biased transcribed from utility_types.rs',
        'text-size shim (units/common/textsize.rs), cross-checked by Kani against the real crate (thorough tier)',
        'LuaDocument::{get_offset, get_col_offset_at_line, to_rowan_range}: external_body with the [C25.offset-in-document] / '
        '[C25.coloffset-in-document] clauses and the preconditions of unit c22_lineindex, where they are PROVED on the real functions; '
        '`wf` (the LuaDocument representation invariant of c22) is uninterpreted here and only ever a precondition',
        'LINK ASSUMPTION, a precondition of every slice (`model_ok` = wf(document) && doc_of_root(document, root)): the root returned by '
        'semantic_model.get_root() (resp. vfs.get_syntax_tree(file).get_chunk_node()) is the root node, at offset 0, of the tree parsed from '
        'the text of semantic_model.get_document() (resp. vfs.get_document(file)), and a tree covers exactly its text: '
        'root.syntax().text_range() == [0, text.len()) (C01 lossless tree + rowan new_root + Vfs replacing text / index / tree together)',
        'opaque accessors: SemanticModel::{get_root, get_document}, LuaChunk::{syntax, get_range = syntax().text_range() (LuaAstNode default '
        'method)}, LuaSyntaxToken::kind, From<LuaTokenKind> for LuaKind and back (no contract; only the arms that choose left / right use them)',
        'LuaDocument::get_text_slice: external_body, precondition = the panic condition of std `&str[a..b]` (a <= b <= len, both on char boundaries); '
        'to_rowan_range additionally ensures the is_char_boundary conjunct of offset_ok ([C22.doc.to_rowan_range.clamped], proved in c22)',
        'SemanticModel::get_root_by_file_id opaque (sp_root_of_file); precondition of the inlay-hint slice file_root_at_zero: the chunk node of a '
        'file is the root node of its tree, offset 0 (rowan new_root)',
        'lsp_types::ColorPresentationParams projected to `range`, `color`; Color, ColorPresentation opaque',
        'rule c25-label-call: inserts a block comment behind the call (site label)',
    ],
    'not_covered': [
        'definition/goto_function.rs:161 extract_semantic_decl_from_signature: token_at_offset(signature_id.get_position()) on '
        'get_root_by_file_id(signature_id.get_file_id()) — no range guard; both callers first require '
        'get_signature_index().get(&signature_id) to be Some. Needs the index invariant: every key of the signature index of file F is the '
        'position of a closure of F\'s CURRENT tree (update_file_by_uri: remove_index + re-analysis under the write lock). A stale id held '
        'by another file then fails the index lookup before the call',
        'completion/providers/postfix_provider.rs:84 get_postfix_target: token_at_offset(left_pos.into()), left_pos = '
        'builder.trigger_token.text_range().start() - 1 (behind `trigger_pos > 0`) — no range guard; needs: trigger_token is a token of '
        'builder.semantic_model.get_root() (by construction in completion(): same model, same request, read lock held; no stale value possible)',
        'references/reference_searcher.rs:571 enqueue_value_alias_references: token_at_offset(decl_ref.range.start()) — NO guard; decl_ref is '
        'read from the reference index of decl_id.file_id and semantic_model is the model of that same file: needs the index invariant '
        '"reference ranges of file F are token ranges of F\'s current tree" (rebuilt with the tree under the write lock; no stale value possible)',
        'everything after the token is known (the rest of each handler); the async wrappers around the slices',
    ],
    'samples': [
        'site_hover(semantic_model, position) requires model_ok(semantic_model): the precondition of root.syntax().token_at_offset(position_offset) holds',
        'get_completion_trigger_token: the remembered trigger_offset reaches token_at_offset only behind `offset > root.syntax().text_range().end()`',
    ],
}
