// unit c25_sites — C25 "every position-taking request completes with a result or null and never crashes its task":
// the step from "LuaDocument::get_offset returns None or an offset <= text.len()" (proved on the real functions in
// unit c22_lineindex, labels C25.*) to EVERY call `root.syntax().token_at_offset(x)` in
// crates/emmylua_ls/src/handlers/**: rowan's run-time assertion (cursor.rs, rowan 0.16.1)
//     assert!(range.start() <= offset && offset <= range.end(), "Bad offset: range {:?} offset {:?}", ..)
// is the PRECONDITION of the shimmed `token_at_offset` here, hence a proof obligation at every extracted call site.
// Each call site is a statement slice of the real handler (from the statement that fetches root / document /
// offset through the whole `match .. token_at_offset(..) { .. };`), the free variables are the parameters.
// Hand-written: the shims below (specification of dependencies), the property vocabulary. Everything marked `//@@`
// is the repository's text, re-extracted on every run.
use vstd::prelude::*;
use vstd::string::*;
use vstd::utf8::*;
verus! {

//@@include common/textsize.rs

pub mod lsp_types {
    use vstd::prelude::*;
    verus!{
    // lsp_types::{Position, Range}, transcribed field by field (same shim as units c22_lineindex / c20_config)
    #[derive(Clone, Copy, PartialEq, Eq)]
    pub struct Position { pub line: u32, pub character: u32 }
    #[derive(Clone, Copy, PartialEq, Eq)]
    pub struct Range { pub start: Position, pub end: Position }
    /// lsp_types::Color: opaque
    #[verifier::external_body]
    pub struct Color { _p: () }
    /// lsp_types::ColorPresentationParams projected to the fields the slice reads (`range`, `color`)
    pub struct ColorPresentationParams { pub range: Range, pub color: Color }
    /// lsp_types::ColorPresentation: opaque (only the element type of the handler's result)
    #[verifier::external_body]
    pub struct ColorPresentation { _p: () }
    }
}
use lsp_types::{Position, Range, ColorPresentationParams, ColorPresentation};

// ---------------------------------------------------------------------------------------------
// rowan 0.16.1 (api.rs / cursor.rs / utility_types.rs): the syntax tree, opaque
// ---------------------------------------------------------------------------------------------
/// rowan::TokenAtOffset (utility_types.rs), transcribed
pub enum TokenAtOffset<T> {
    None,
    Single(T),
    Between(T, T),
}
impl<T> TokenAtOffset<T> {
    // utility_types.rs:106 / :115, transcribed (total functions; shimmed so that a call site written with them is decidable)
    pub fn right_biased(self) -> Option<T> {
        match self {
            TokenAtOffset::None => None,
            TokenAtOffset::Single(node) => Some(node),
            TokenAtOffset::Between(_, right) => Some(right),
        }
    }
    pub fn left_biased(self) -> Option<T> {
        match self {
            TokenAtOffset::None => None,
            TokenAtOffset::Single(node) => Some(node),
            TokenAtOffset::Between(left, _) => Some(left),
        }
    }
}

/// rowan::SyntaxNode<LuaLanguage>
#[verifier::external_body]
pub struct LuaSyntaxNode { _p: () }
/// rowan::SyntaxToken<LuaLanguage>
#[verifier::external_body]
pub struct LuaSyntaxToken { _p: () }
/// rowan::SyntaxElement<LuaLanguage> (only as the result type of covering_element)
#[verifier::external_body]
pub struct LuaSyntaxElement { _p: () }

/// the text range a node covers (uninterpreted)
pub uninterp spec fn sp_text_range(n: &LuaSyntaxNode) -> TextRange;

impl LuaSyntaxNode {
    #[verifier::external_body]
    pub fn text_range(&self) -> (r: TextRange)
        ensures r == sp_text_range(self),
    { unimplemented!() }

    /// cursor.rs:882 — `assert!(range.start() <= offset && offset <= range.end(), "Bad offset: ..")` with
    /// `range = self.text_range()`: the panic condition of C25, stated as the precondition. No postcondition.
    #[verifier::external_body]
    pub fn token_at_offset(&self, offset: TextSize) -> (r: TokenAtOffset<LuaSyntaxToken>)
        requires
            sp_text_range(self).start.raw <= offset.raw && offset.raw <= sp_text_range(self).end.raw,   // C25.token_at_offset.offset-in-node-range
    { unimplemented!() }

    /// cursor.rs:919 — `assert!(res.text_range().contains_range(range), "Bad range: ..")`, first iteration `res = self`;
    /// text-size `contains_range`: `self.start() <= other.start() && other.end() <= self.end()`.
    /// (no call site in handlers/** at present; kept so that a new one is under contract as soon as it is sliced)
    #[verifier::external_body]
    pub fn covering_element(&self, range: TextRange) -> (r: LuaSyntaxElement)
        requires
            sp_text_range(self).start.raw <= range.start.raw && range.end.raw <= sp_text_range(self).end.raw,   // C25.covering_element.range-in-node-range
    { unimplemented!() }
}

// ---------------------------------------------------------------------------------------------
// emmylua_parser: token kinds (only compared in the match arms that pick left / right; no contract), LuaChunk
// ---------------------------------------------------------------------------------------------
/// emmylua_parser::LuaKind (`enum { Syntax(LuaSyntaxKind), Token(LuaTokenKind) }`, derived PartialEq): an opaque
/// value type with equality here
#[derive(Clone, Copy, PartialEq, Eq)]
pub struct LuaKind { pub raw: u32 }

// the real enum (crates/emmylua_parser/src/kind/lua_token_kind.rs): the variant names used by the arms are checked
//@@ LuaTokenKind

impl From<LuaTokenKind> for LuaKind {
    #[verifier::external_body]
    fn from(kind: LuaTokenKind) -> (r: LuaKind) { unimplemented!() }
}
impl From<LuaKind> for LuaTokenKind {
    #[verifier::external_body]
    fn from(val: LuaKind) -> (r: LuaTokenKind) { unimplemented!() }
}

impl LuaSyntaxToken {
    #[verifier::external_body]
    pub fn kind(&self) -> (r: LuaKind) { unimplemented!() }
}

/// emmylua_parser::LuaChunk: the AST wrapper of a tree's root node
#[verifier::external_body]
pub struct LuaChunk { _p: () }
pub uninterp spec fn sp_syntax(c: &LuaChunk) -> &LuaSyntaxNode;
impl LuaChunk {
    /// `LuaAstNode::syntax`
    #[verifier::external_body]
    pub fn syntax(&self) -> (r: &LuaSyntaxNode)
        ensures r == sp_syntax(self),
    { unimplemented!() }
    /// `LuaAstNode::get_range` (emmylua_parser/src/syntax/traits/mod.rs: `self.syntax().text_range()`)
    #[verifier::external_body]
    pub fn get_range(&self) -> (r: TextRange)
        ensures r == sp_text_range(sp_syntax(self)),
    { unimplemented!() }
}

// ---------------------------------------------------------------------------------------------
// emmylua_code_analysis: LuaDocument — the contracts PROVED in unit c22_lineindex, restated
// ---------------------------------------------------------------------------------------------
// the real structs, projected like in unit c22_lineindex (the clauses below name these fields)
//@@ LineIndex
//@@ LuaDocument

/// the representation invariant of LuaDocument: `wf(li, b)` of units/c22_lineindex/template.rs (the LineIndex is the
/// one parsed from the text: proved for `LineIndex::parse`, [C22.parse.wf]). Only ever a PRECONDITION here, so it is
/// left uninterpreted (weakest reading).
pub uninterp spec fn wf(li: &LineIndex, b: Seq<u8>) -> bool;

/// units/c22_lineindex/lemmas.rs, copied
pub open spec fn pos_le(a: lsp_types::Position, b: lsp_types::Position) -> bool {
    a.line < b.line || (a.line == b.line && a.character <= b.character)
}

impl<'a> LuaDocument<'a> {
    /// unit c22_lineindex, item LuaDocument::get_offset: requires DOC_OK, clause [C25.offset-in-document] (copied)
    #[verifier::external_body]
    pub fn get_offset(&self, line: usize, col: usize) -> (r: Option<TextSize>)
        requires
            wf(self.line_index, self.text.spec_bytes()),
        ensures
            r matches Some(o) ==> o.raw <= self.text.spec_bytes().len(),   // c22_lineindex [C25.offset-in-document]
    { unimplemented!() }

    /// unit c22_lineindex, item LuaDocument::get_col_offset_at_line: clause [C25.coloffset-in-document] (copied)
    #[verifier::external_body]
    pub fn get_col_offset_at_line(&self, line: usize, col: usize) -> (r: Option<TextSize>)
        requires
            wf(self.line_index, self.text.spec_bytes()),
        ensures
            r matches Some(o) ==> self.line_index.line_offsets@[line as int] + o.raw <= self.text.spec_bytes().len(),   // c22_lineindex [C25.coloffset-in-document]
    { unimplemented!() }

    /// unit c22_lineindex, item LuaDocument::to_rowan_range (contract after fix 659629c: NO precondition on the client
    /// range; a reversed range converts to nothing). Clauses copied: [C22.doc.to_rowan_range.none-iff-line-missing],
    /// [C22.doc.to_rowan_range.ordered-range-converts], [C25.offset-in-document]; the last clause is the
    /// `is_char_boundary` conjunct of `offset_ok` in [C22.doc.to_rowan_range.clamped] (a consequence, weaker).
    #[verifier::external_body]
    pub fn to_rowan_range(&self, range: lsp_types::Range) -> (r: Option<TextRange>)
        requires
            wf(self.line_index, self.text.spec_bytes()),
        ensures
            (range.start.line >= self.line_index.line_offsets@.len() || range.end.line >= self.line_index.line_offsets@.len()) ==> r is None,
            (range.start.line < self.line_index.line_offsets@.len() && range.end.line < self.line_index.line_offsets@.len() && pos_le(range.start, range.end)) ==> r is Some,
            r matches Some(rg) ==> rg.wf() && rg.end.raw <= self.text.spec_bytes().len(),   // c22_lineindex [C25.offset-in-document]
            r matches Some(rg) ==> is_char_boundary(self.text.spec_bytes(), rg.start.raw as int) && is_char_boundary(self.text.spec_bytes(), rg.end.raw as int),
    { unimplemented!() }

    /// document.rs: `&self.text[range.start().into()..range.end().into()]` — std `str` range indexing panics when
    /// begin > end, end > len, or an end point is not on a char boundary: that panic condition is the PRECONDITION.
    #[verifier::external_body]
    pub fn get_text_slice(&self, range: TextRange) -> (r: &str)
        requires
            range.start.raw <= range.end.raw && range.end.raw <= self.text.spec_bytes().len(),
            is_char_boundary(self.text.spec_bytes(), range.start.raw as int) && is_char_boundary(self.text.spec_bytes(), range.end.raw as int),
    { unimplemented!() }
}

// ---------------------------------------------------------------------------------------------
// emmylua_code_analysis: SemanticModel — opaque accessors
// ---------------------------------------------------------------------------------------------
#[verifier::external_body]
pub struct SemanticModel { _p: () }
/// the `root` field (`LuaCompilation::get_semantic_model`: `vfs.get_syntax_tree(&file_id)?.get_chunk_node()`)
pub uninterp spec fn sp_root(m: &SemanticModel) -> &LuaChunk;
/// what `get_document()` returns (`db.get_vfs().get_document(&self.file_id)`)
pub uninterp spec fn sp_document<'a>(m: &'a SemanticModel) -> LuaDocument<'a>;
#[derive(Clone, Copy, PartialEq, Eq)]
pub struct FileId { pub id: u32 }
/// what `get_root_by_file_id(f)` returns (`vfs.get_syntax_tree(&f)?.get_chunk_node()`)
pub uninterp spec fn sp_root_of_file(m: &SemanticModel, f: FileId) -> Option<LuaChunk>;
impl SemanticModel {
    #[verifier::external_body]
    pub fn get_root_by_file_id(&self, file_id: FileId) -> (r: Option<LuaChunk>)
        ensures r == sp_root_of_file(self, file_id),
    { unimplemented!() }
    #[verifier::external_body]
    pub fn get_root(&self) -> (r: &LuaChunk)
        ensures r == sp_root(self),
    { unimplemented!() }
    #[verifier::external_body]
    pub fn get_document<'a>(&'a self) -> (r: LuaDocument<'a>)
        ensures r == sp_document(self),
    { unimplemented!() }
}

// ---------------------------------------------------------------------------------------------
// the LINK ASSUMPTION (a precondition of every slice, never assumed inside a proof):
// the root handed out for a file is the root (offset 0) of the tree of THAT document's text, and a tree covers its
// text — `root.text_range() == [0, text.len())`. Sources: C01 (the tree is lossless: units c01_*), rowan
// (`SyntaxNode::new_root`: offset 0; `text_range()` = offset .. offset + green.text_len()), Vfs (text, LineIndex and
// tree of a file are replaced together).
// ---------------------------------------------------------------------------------------------
pub open spec fn doc_of_root(document: &LuaDocument, root: &LuaChunk) -> bool {
    &&& sp_text_range(sp_syntax(root)).start.raw == 0
    &&& sp_text_range(sp_syntax(root)).end.raw == document.text.spec_bytes().len()
}

/// what the slices require of a SemanticModel: its document satisfies the c22 representation invariant and is the
/// document of its root
pub open spec fn model_ok(m: &SemanticModel) -> bool {
    &&& wf(sp_document(m).line_index, sp_document(m).text.spec_bytes())
    &&& doc_of_root(&sp_document(m), sp_root(m))
}

/// for a root fetched by FILE (no document involved): the chunk node of a file's tree is that tree's root node, at
/// offset 0 (rowan `SyntaxNode::new_root`; `LuaSyntaxTree::get_chunk_node` casts the red root). A precondition of
/// the inlay-hint slice; the upper bound there comes from the guard in the text alone.
pub open spec fn file_root_at_zero(m: &SemanticModel, f: FileId) -> bool {
    sp_root_of_file(m, f) matches Some(c) ==> sp_text_range(sp_syntax(&c)).start.raw == 0
}

// ---------------------------------------------------------------------------------------------
// the call sites (statement slices of the real handlers; one whole fn)
// ---------------------------------------------------------------------------------------------
//@@ C25.site.references
//@@ C25.site.implementation
//@@ C25.site.definition
//@@ C25.site.completion
//@@ C25.site.prepare_call_hierarchy
//@@ C25.site.prepare_rename
//@@ C25.site.rename
//@@ C25.site.signature_help
//@@ C25.site.document_highlight
//@@ C25.site.hover
//@@ C25.site.inline_values
//@@ C25.site.need_check_nil
//@@ C25.site.disable_next_line
//@@ C25.site.selection_range.pair
//@@ C25.site.selection_range
//@@ C25.site.incoming_hierarchy_item
//@@ C25.site.completion_resolve
//@@ C25.site.inlay_hint_param_location

// ---- client RANGE sites: `params.range` -> LuaDocument::to_rowan_range
//@@ C25.site.range_formatting
//@@ C25.site.color_presentation

} // verus!
fn main() {}
