// ---- interface of unit c01_reader (C01/L1): the predicates of the contract of `LuaLexer::tokenize` / `Reader::new`.
// Included by units/c01_reader/template.rs and by units/c01_compose/template.rs (same text, no copies).
/// a real `&str` is never longer than `isize::MAX` bytes (std: allocation size limit). vstd has no
/// such axiom, so it is a stated precondition of the constructors.
pub open spec fn str_len_ok(s: &str) -> bool { s.spec_bytes().len() <= usize::MAX }

pub open spec fn tok_end(t: LuaTokenData) -> int { t.range.start_offset + t.range.length }

/// one token: non-empty, a real kind, both ends on char boundaries of the text (`b` = its bytes,
/// `base` = offset of the text's first byte)
pub open spec fn tok_ok(t: LuaTokenData, b: Seq<u8>, base: int) -> bool {
    &&& t.range.length > 0
    &&& t.kind != LuaTokenKind::TkEof
    &&& t.kind != LuaTokenKind::None
    &&& is_char_boundary(b, t.range.start_offset - base)
    &&& is_char_boundary(b, tok_end(t) - base)
}

/// C01/L1: the tokens tile the byte interval [base, hi): the first starts at `base`, each ends where
/// the next starts, the last ends at `hi`; no gaps, no overlaps, no empty token.
pub open spec fn tiled(toks: Seq<LuaTokenData>, b: Seq<u8>, base: int, hi: int) -> bool {
    &&& (toks.len() == 0 ==> hi == base)
    &&& (toks.len() > 0 ==> toks[0].range.start_offset == base && tok_end(toks.last()) == hi)
    &&& (forall|i: int, j: int| 0 <= i && j == i + 1 && j < toks.len()
            ==> tok_end(#[trigger] toks[i]) == (#[trigger] toks[j]).range.start_offset)
    &&& (forall|i: int| 0 <= i < toks.len() ==> tok_ok(#[trigger] toks[i], b, base))
}