RD = 'crates/emmylua_parser/src/text/reader.rs'
TR = 'crates/emmylua_parser/src/text/text_range.rs'
LX = 'crates/emmylua_parser/src/lexer/lua_lexer.rs'


def rd_fn(name, **kw):
    d = {'src': {'file': RD, 'kind': 'fn', 'impl': 'Reader', 'name': name}}
    d.update(kw)
    return d


def sr_fn(name, **kw):
    d = {'src': {'file': TR, 'kind': 'fn', 'impl': 'SourceRange', 'name': name}}
    d.update(kw)
    return d


# ---- Reader contracts ------------------------------------------------------------------------------
# ghost names used in several overlays
K0 = 'let ghost k0 = consumed(&*self);\nproof { lemma_rinv(&*self); }\n'

# loop overlay shared by eat_when / consume_* / eat_while: the pending token only grows, the counter is
# the number of chars consumed, the measure is the number of chars left
def eat_loop(counter, extra=''):
    return '''
    invariant
        rinv(old(self)), bumped(old(self), &*self),
        %s == consumed(&*self) - consumed(old(self)),
        %s
    decreases r_n(&*self) - consumed(&*self) /*@C02.reader.eat-loops-terminate*/
''' % (counter, extra)


EAT_STEP = [(r'(count|eaten) \+= 1;', 'before',
             'proof { lemma_rinv(&*self); lemma_rinv(old(self)); lemma_plen_ge(self.text@, r_n(&*self)); lemma_plen_full(self.text@); }')]

READER = {
    'SourceRange': {'src': {'file': TR, 'kind': 'struct', 'name': 'SourceRange', 'drop_attrs': False}},
    'SourceRange::new': sr_fn('new', ret='r', ensures='r.start_offset == start_offset, r.length == length'),
    'SourceRange::from_start_end': sr_fn(
        'from_start_end', ret='r', rules=['assert-bang'],
        requires='start_offset <= end_offset',
        ensures='r.start_offset == start_offset, r.length == end_offset - start_offset'),
    'SourceRange::end_offset': sr_fn(
        'end_offset', ret='r', requires='self.start_offset + self.length <= usize::MAX',
        ensures='r == self.start_offset + self.length'),
    'SourceRange::moved': sr_fn(
        'moved', ret='r', rules=['debug-assert'],
        requires='offset <= self.length, self.start_offset + offset <= usize::MAX',
        ensures='r.start_offset == self.start_offset + offset, r.length == self.length - offset'),
    'SourceRange::is_empty': sr_fn('is_empty', ret='r', ensures='r == (self.length == 0)'),

    'EOF': {'src': {'file': RD, 'kind': 'const', 'name': 'EOF'}},
    'Reader': {'src': {'file': RD, 'kind': 'struct', 'name': 'Reader'}, 'rules': [('struct-fields', {})]},
    'Reader::new': rd_fn(
        'new', ret='r',
        requires='str_len_ok(text)',
        ensures='''rinv(&r), consumed(&r) == 0, r.text == text,
        r.valid_range.start_offset == 0, r.valid_range.length == text.spec_bytes().len(),
        r.current_buffer_byte_pos == 0, r.current_buffer_byte_len == 0 /*@C01.reader.new-starts-at-zero*/'''),
    'Reader::new_with_range': rd_fn(
        'new_with_range', ret='r', rules=['assert-eq'],
        requires='''str_len_ok(text),
        text.spec_bytes().len() == range.length /* the run-time assert_eq! */,
        range.start_offset + range.length <= usize::MAX''',
        ensures='''rinv(&r), consumed(&r) == 0, r.text == text, r.valid_range == range,
        r.current_buffer_byte_pos == 0, r.current_buffer_byte_len == 0 /*@C01.reader.new-starts-at-zero*/''',
        proof=[(r'res\.next = res\.chars\.next\(\)\.unwrap_or\(EOF\);', 'after', '''
        proof {
            let s = text@;
            lemma_plen_zero(s);
            lemma_plen_boundary(s, 0);
            if s.len() >= 2 { assert(s.drop_first().drop_first() =~= s.subrange(2, s.len() as int)); }
            let n = s.len() as int;
            assert(res.chars.remaining() == (if 2 <= n { s.subrange(2, n) } else { Seq::<char>::empty() }));
            assert(1 < n ==> res.next == s[1]);
            assert(r_at(&res, 0));
            lemma_r_at(&res, 0);
        }''')]),
    'Reader::bump': rd_fn(
        'bump',
        requires='rinv(old(self))',
        ensures='''
        rinv(final(self)) /*@C01.reader.bump-keeps-byte-offset-invariant*/,
        (consumed(old(self)) < r_n(old(self)) ==> consumed(final(self)) == consumed(old(self)) + 1)
          && (consumed(old(self)) >= r_n(old(self)) ==> consumed(final(self)) == consumed(old(self))) /*@C01.reader.bump-advances-unless-at-end*/,
        consumed(old(self)) >= r_n(old(self)) ==> *final(self) == *old(self),
        bumped(old(self), final(self)) /*@C01.reader.bump-only-grows-pending-token*/''',
        body_first=K0 + '''
        proof { if k0 < r_n(&*self) { lemma_plen_step(self.text@, k0); lemma_plen_bound(self.text@, k0 + 1); } }''',
        proof=[(r'self\.next = self\.chars\.next\(\)\.unwrap_or\(EOF\);', 'after', '''
        proof {
            let s = self.text@;
            lemma_plen_boundary(s, k0 + 1);
            if k0 + 3 <= s.len() { assert(s.subrange(k0 + 2, s.len() as int).drop_first() =~= s.subrange(k0 + 3, s.len() as int)); }
            let n = s.len() as int;
            assert(self.chars.remaining() == (if k0 + 3 <= n { s.subrange(k0 + 3, n) } else { Seq::<char>::empty() }));
            assert(self.current_buffer_byte_pos + self.current_buffer_byte_len == plen(s, k0 + 1));
            assert(r_at(&*self, k0 + 1));
            lemma_r_at(&*self, k0 + 1);
        }''')]),
    'Reader::reset_buff': rd_fn(
        'reset_buff',
        requires='rinv(old(self))',
        ensures='''
        rinv(final(self)), same_src(old(self), final(self)), consumed(final(self)) == consumed(old(self)),
        final(self).current_buffer_byte_pos == old(self).current_buffer_byte_pos + old(self).current_buffer_byte_len
          && final(self).current_buffer_byte_len == 0 /*@C01.reader.reset-moves-start-to-cursor*/,
        final(self).current == old(self).current, final(self).next == old(self).next''',
        body_first=K0,
        proof=[(r'self\.current_buffer_byte_len = 0;', 'after', '''
        proof { assert(r_at(&*self, k0)); lemma_r_at(&*self, k0); }''')]),
    'Reader::is_eof': rd_fn(
        'is_eof', ret='r',
        requires='rinv(self)',
        ensures='r <==> consumed(self) == r_n(self) /*@C01.reader.eof-iff-end-of-text*/',
        body_first='proof { lemma_rinv(self); }'),
    'Reader::is_start_of_line': rd_fn('is_start_of_line', ret='r', ensures='r == (self.current_buffer_byte_pos == 0)'),
    'Reader::prev_char': rd_fn('prev_char', ret='r', ensures='r == self.prev'),
    'Reader::current_char': rd_fn(
        'current_char', ret='r', requires='rinv(self)', ensures='cur_ok(self, r)',
        body_first='proof { lemma_rinv(self); }'),
    'Reader::next_char': rd_fn(
        'next_char', ret='r', requires='rinv(old(self))',
        ensures='''*final(self) == *old(self), r == old(self).next,
        consumed(old(self)) + 1 < r_n(old(self)) ==> r == old(self).text@[consumed(old(self)) + 1],
        consumed(old(self)) + 1 >= r_n(old(self)) ==> r == '\\0' ''',
        body_first='proof { lemma_rinv(&*self); }'),
    'Reader::current_range': rd_fn(
        'current_range', ret='r', requires='rinv(self)',
        ensures='''r.start_offset == self.valid_range.start_offset + self.current_buffer_byte_pos,
        r.length == self.current_buffer_byte_len /*@C01.reader.current-range-is-pending-token*/''',
        body_first='proof { lemma_rinv(self); }'),
    'Reader::tail_range': rd_fn(
        'tail_range', ret='r', requires='rinv(self)',
        ensures='''r.start_offset == self.valid_range.start_offset + self.current_buffer_byte_pos + self.current_buffer_byte_len,
        r.length == self.valid_range.length - (self.current_buffer_byte_pos + self.current_buffer_byte_len)''',
        body_first='proof { lemma_rinv(self); }'),
    'Reader::current_text': rd_fn(
        'current_text', ret='r', requires='rinv(self)',
        body_first='proof { lemma_rinv(self); }'),
    'Reader::tail_text': rd_fn(
        'tail_text', ret='r', requires='rinv(self)',
        body_first='proof { lemma_rinv(self); lemma_plen_boundary(self.text@, r_n(self)); lemma_plen_full(self.text@); }'),
    'Reader::eat_when': rd_fn(
        'eat_when', ret='r', requires='rinv(old(self))',
        ensures='''bumped(old(self), final(self)), r == consumed(final(self)) - consumed(old(self)),
        consumed(final(self)) < r_n(final(self)) ==> final(self).text@[consumed(final(self))] != ch,
        (consumed(old(self)) < r_n(old(self)) && old(self).text@[consumed(old(self))] == ch) ==> consumed(final(self)) > consumed(old(self))''',
        loops={0: eat_loop('count')}, proof=EAT_STEP),
    'Reader::consume_char_n_times': rd_fn(
        'consume_char_n_times', ret='r', requires='rinv(old(self))',
        ensures='bumped(old(self), final(self)), r == consumed(final(self)) - consumed(old(self)), r <= count',
        loops={0: eat_loop('eaten', 'eaten <= count,')}, proof=EAT_STEP),
    'Reader::consume_n_times': rd_fn(
        'consume_n_times', ret='r',
        requires='rinv(old(self)), forall|c: char| func.requires((c,))',
        ensures='bumped(old(self), final(self)), r == consumed(final(self)) - consumed(old(self)), r <= count',
        loops={0: eat_loop('eaten', 'eaten <= count, forall|c: char| func.requires((c,)),')}, proof=EAT_STEP),
    'Reader::eat_while': rd_fn(
        'eat_while', ret='r',
        requires='rinv(old(self)), forall|c: char| func.requires((c,))',
        ensures='''bumped(old(self), final(self)), r == consumed(final(self)) - consumed(old(self)),
        // it stops only at the end of the text or in front of a char the predicate rejects ...
        consumed(final(self)) < r_n(final(self)) ==> func.ensures((final(self).text@[consumed(final(self))],), false),
        // ... and eats the first char unless the predicate may reject it
        (consumed(old(self)) < r_n(old(self)) && !func.ensures((old(self).text@[consumed(old(self))],), false))
            ==> consumed(final(self)) > consumed(old(self)) /*@C02.reader.eat-while-progress*/''',
        loops={0: eat_loop('count', 'forall|c: char| func.requires((c,)),')}, proof=EAT_STEP),
    'Reader::eat_till_end': rd_fn(
        'eat_till_end', ret='r', rules=['closure-wildcard'], requires='rinv(old(self))',
        ensures='bumped(old(self), final(self)), r == consumed(final(self)) - consumed(old(self))'),
    'Reader::get_source_text': rd_fn('get_source_text', ret='r', ensures='r == self.text'),
    'Reader::get_current_end_pos': rd_fn(
        'get_current_end_pos', ret='r', requires='rinv(self)',
        ensures='r == self.current_buffer_byte_pos + self.current_buffer_byte_len',
        body_first='proof { lemma_rinv(self); }'),
}

UNIT = {
    'items': dict(READER),
    'extra_rules': [
        ('closure-wildcard', r'\|_\|', '|_c: char|',
         'closure parameter `_` -> named, unused parameter `_c` (Verus accepts only variables as closure parameters)'),
        ('assert-bang', r'(?<![\w!])assert!\(([^;]*?)\);', r'assert(\1);',
         'assert!(c) -> assert(c): the run-time panic condition becomes a proof obligation (callers must establish it)'),
        ('debug-assert', r'debug_assert!\(([^;]*?)\);', r'assert(\1);',
         'debug_assert!(c) -> assert(c): the debug-build panic condition becomes a proof obligation; in release builds the '
         'statement is absent, so proving it changes nothing there'),
    ],
    'allow': [r'assume_specification\[ char::is_(alphabetic|alphanumeric|ascii_digit) \]'],
    'min_obligations': 20,
    'trusted': [
        'char::{is_alphabetic,is_alphanumeric,is_ascii_digit}: total, result unconstrained (assume_specification without ensures)',
        'str_len_ok: a &str is at most usize::MAX bytes long (precondition of Reader::new / new_with_range; vstd has no such axiom)',
        'vstd specs of str::chars / Chars::next / char::len_utf8 / str slicing',
    ],
    'samples': [],
    'mutants': [],
}
