from vc.rules import rule
from vc.extract import Undecided
from vc import rustlex as L

# ---- unit-local rewrite rules for `match` guards -------------------------------------------------------
# Why they exist (Verus 0.2026.09.13 limitation, reproduced in units/c01_reader/probe_guard_limitation.rs): when a
# *guarded* match arm's body mutates a `&mut` parameter, Verus loses `final(param) == *param` on the
# path where the guard fails (assertions about `*param` still hold, only the postcondition link is lost).
# Every guarded arm of `lex` / `lex_number` bumps the reader, so these functions cannot be checked with
# guards in place. The two rules below remove guards by the textbook meaning of `match` (Rust reference,
# "Match expressions": arms are tried in order; an arm is taken iff its pattern matches and its guard, if
# any, evaluates to true; the scrutinee is evaluated once).


def _is_arrow(text, toks, k):
    return (k + 1 < len(toks) and L.tok_text(text, toks[k]) == '=' and L.tok_text(text, toks[k + 1]) == '>'
            and toks[k][2] == toks[k + 1][1])


def _parse_match(text, toks, mi):
    """toks[mi] is the ident `match`. -> (scrut_span, open_idx, close_idx, arms) ; arm = dict(pat, guard, body, block)"""
    j = mi + 1
    while True:
        t = L.tok_text(text, toks[j])
        if t in ('(', '['):
            j = L.match_close(text, toks, j) + 1; continue
        if t == '{': break
        j += 1
    ob, cb = j, L.match_close(text, toks, j)
    scrut = (toks[mi + 1][1], toks[ob - 1][2])
    arms = []
    k = ob + 1
    while k < cb:
        a = k
        g = None
        while not _is_arrow(text, toks, k):
            t = L.tok_text(text, toks[k])
            if t in ('(', '[', '{'):
                k = L.match_close(text, toks, k) + 1; continue
            if t == 'if' and toks[k][0] == 'ident' and g is None: g = k
            k += 1
            if k >= cb: raise Undecided('match arm without =>')
        arrow = k
        pat = (toks[a][1], toks[(g if g is not None else arrow) - 1][2])
        guard = (toks[g + 1][1], toks[arrow - 1][2]) if g is not None else None
        k = arrow + 2
        if L.tok_text(text, toks[k]) == '{':
            e = L.match_close(text, toks, k)
            body, block = (toks[k][1], toks[e][2]), True
            k = e + 1
        else:
            b0 = k
            while k < cb and L.tok_text(text, toks[k]) != ',':
                if L.tok_text(text, toks[k]) in ('(', '[', '{'):
                    k = L.match_close(text, toks, k) + 1
                else:
                    k += 1
            body, block = (toks[b0][1], toks[k - 1][2]), False
        if k < cb and L.tok_text(text, toks[k]) == ',': k += 1
        arms.append({'pat': pat, 'guard': guard, 'body': body, 'block': block,
                     'start': toks[a][1], 'end': toks[k - 1][2]})
    return scrut, ob, cb, arms


def _matches(text):
    toks = L.code_tokens(text)
    for i, t in enumerate(toks):
        if t[0] == 'ident' and L.tok_text(text, t) == 'match':
            yield toks, i, _parse_match(text, toks, i)


def _blk(text, arm):
    b = text[arm['body'][0]:arm['body'][1]]
    return b if arm['block'] else '{ ' + b + ' }'


def _irrefutable(text, arm):
    p = text[arm['pat'][0]:arm['pat'][1]]
    return p == '_' or (p.isidentifier() and p[0].islower())


@rule('guard-catchall-merge')
def guard_catchall_merge(text, **_):
    """the trailing run of arms whose patterns are irrefutable (`_` or a plain binding `x`), the last one unguarded:
    `_ if G1 => B1, x if G2 => B2, _ => B3`  ->  `x => if G1 {B1} else if G2 {B2} else {B3}`.
    All these patterns match every value, so which body runs is decided by the guards alone, in order; the binding
    (a by-value copy of the scrutinee) is merely introduced earlier."""
    n = 0
    while True:
        hit = None
        for toks, mi, (scrut, ob, cb, arms) in _matches(text):
            k = len(arms)
            while k > 0 and _irrefutable(text, arms[k - 1]): k -= 1
            run = arms[k:]
            if len(run) >= 2 and run[-1]['guard'] is None and any(a['guard'] for a in run):
                if any(a['guard'] is None for a in run[:-1]):
                    raise Undecided('guard-catchall-merge: unguarded catch-all before the last arm')
                hit = run; break
        if not hit: break
        names = {text[a['pat'][0]:a['pat'][1]] for a in hit} - {'_'}
        if len(names) > 1: raise Undecided('guard-catchall-merge: different binders')
        binder = names.pop() if names else '_'
        parts = []
        for a in hit[:-1]:
            parts.append('if %s %s' % (text[a['guard'][0]:a['guard'][1]], _blk(text, a)))
        chain = ' else '.join(parts) + ' else ' + _blk(text, hit[-1])
        text = text[:hit[0]['start']] + '%s => %s' % (binder, chain) + text[hit[-1]['end']:]
        n += 1
    return text, n


@rule('match-guard-if-chain')
def match_guard_if_chain(text, max_arms=8, **_):
    """a `match` on a `char` value that has guarded literal arms and ends in an unguarded `_` arm:
    `match E { P1 if G1 => B1, P2 => B2, _ => B3 }` -> `{ let vx_m = E; if matches!(vx_m, P1) && (G1) {B1}
    else if matches!(vx_m, P2) {B2} else {B3} }`. Patterns are char literals / ranges / or-patterns (no bindings),
    so testing them has no effect; order of tests and guards is the order of the arms."""
    n = 0
    while True:
        hit = None
        for toks, mi, (scrut, ob, cb, arms) in _matches(text):
            if any(a['guard'] for a in arms):
                hit = (toks, mi, scrut, ob, cb, arms); break
        if not hit: break
        toks, mi, scrut, ob, cb, arms = hit
        if len(arms) > max_arms:
            raise Undecided('match-guard-if-chain: %d arms (> %d); use guard-catchall-merge first' % (len(arms), max_arms))
        last = arms[-1]
        if text[last['pat'][0]:last['pat'][1]] != '_' or last['guard']:
            raise Undecided('match-guard-if-chain: last arm is not an unguarded `_`')
        parts = []
        for a in arms[:-1]:
            p = text[a['pat'][0]:a['pat'][1]]
            if any(t[0] == 'ident' for t in L.code_tokens(p)) and p != '_':
                raise Undecided('match-guard-if-chain: pattern with identifiers: ' + p)
            conds = []
            if p != '_': conds.append('matches!(vx_m, %s)' % p)
            if a['guard']: conds.append('(%s)' % text[a['guard'][0]:a['guard'][1]])
            if not conds: raise Undecided('match-guard-if-chain: unguarded `_` before the last arm')
            parts.append('if %s %s' % (' && '.join(conds), _blk(text, a)))
        chain = ' else '.join(parts) + ' else ' + _blk(text, last)
        new = '{ let vx_m = %s; %s }' % (text[scrut[0]:scrut[1]], chain)
        text = text[:toks[mi][1]] + new + text[toks[cb][2]:]
        n += 1
    return text, n


RD = 'crates/emmylua_parser/src/text/reader.rs'
TR = 'crates/emmylua_parser/src/text/text_range.rs'
LX = 'crates/emmylua_parser/src/lexer/lua_lexer.rs'


def rd_fn(name, **kw):
    d = {'src': {'file': RD, 'kind': 'fn', 'impl': 'Reader', 'name': name}}
    d.update(kw)
    return d


def sr_fn(name, **kw):
    d = {'src': {'file': TR, 'kind': 'fn', 'impl': 'SourceRange', 'name': name}}
    d.update(kw)
    return d


# ---- Reader contracts ------------------------------------------------------------------------------
# ghost names used in several overlays
K0 = 'let ghost k0 = consumed(&*self);\nproof { lemma_rinv(&*self); }\n'

# loop overlay shared by eat_when / consume_* / eat_while: the pending token only grows, the counter is
# the number of chars consumed, the measure is the number of chars left
def eat_loop(counter, extra=''):
    return '''
    invariant
        rinv(old(self)), bumped(old(self), &*self),
        %s == consumed(&*self) - consumed(old(self)) /*@C02.reader.eat-counts-every-char-it-bumps*/,
        %s
    decreases r_n(&*self) - consumed(&*self) /*@C02.reader.eat-loops-terminate*/
''' % (counter, extra)


EAT_STEP = [(r'(count|eaten) \+= 1;', 'before',
             'proof { lemma_rinv(&*self); lemma_rinv(old(self)); lemma_plen_ge(self.text@, r_n(&*self)); lemma_plen_full(self.text@); }')]

READER = {
    'SourceRange': {'src': {'file': TR, 'kind': 'struct', 'name': 'SourceRange', 'drop_attrs': False}},
    'SourceRange::new': sr_fn('new', ret='r', ensures='r.start_offset == start_offset, r.length == length'),
    'SourceRange::from_start_end': sr_fn(
        'from_start_end', ret='r', rules=['assert-bang'],
        requires='start_offset <= end_offset',
        ensures='r.start_offset == start_offset, r.length == end_offset - start_offset'),
    'SourceRange::end_offset': sr_fn(
        'end_offset', ret='r', requires='self.start_offset + self.length <= usize::MAX',
        ensures='r == self.start_offset + self.length'),
    'SourceRange::moved': sr_fn(
        'moved', ret='r', rules=['debug-assert'],
        requires='offset <= self.length, self.start_offset + offset <= usize::MAX',
        ensures='r.start_offset == self.start_offset + offset, r.length == self.length - offset'),
    'SourceRange::is_empty': sr_fn('is_empty', ret='r', ensures='r == (self.length == 0)'),

    'EOF': {'src': {'file': RD, 'kind': 'const', 'name': 'EOF'}},
    'Reader': {'src': {'file': RD, 'kind': 'struct', 'name': 'Reader'}, 'rules': [('struct-fields', {})]},
    'Reader::new': rd_fn(
        'new', ret='r',
        requires='str_len_ok(text)',
        ensures='''rinv(&r), consumed(&r) == 0, r.text == text,
        r.valid_range.start_offset == 0, r.valid_range.length == text.spec_bytes().len(),
        r.current_buffer_byte_pos == 0, r.current_buffer_byte_len == 0 /*@C01.reader.new-starts-at-zero*/'''),
    'Reader::new_with_range': rd_fn(
        'new_with_range', ret='r', rules=['assert-eq'],
        requires='''str_len_ok(text),
        text.spec_bytes().len() == range.length /* the run-time assert_eq! */,
        range.start_offset + range.length <= usize::MAX''',
        ensures='''rinv(&r), consumed(&r) == 0, r.text == text, r.valid_range == range,
        r.current_buffer_byte_pos == 0, r.current_buffer_byte_len == 0 /*@C01.reader.new-starts-at-zero*/''',
        proof=[(r'res\.next = res\.chars\.next\(\)\.unwrap_or\(EOF\);', 'after', '''
        proof {
            let s = text@;
            lemma_plen_zero(s);
            lemma_plen_boundary(s, 0);
            if s.len() >= 2 { assert(s.drop_first().drop_first() =~= s.subrange(2, s.len() as int)); }
            let n = s.len() as int;
            assert(res.chars.remaining() == (if 2 <= n { s.subrange(2, n) } else { Seq::<char>::empty() }));
            assert(1 < n ==> res.next == s[1]);
            assert(r_at(&res, 0));
            lemma_r_at(&res, 0);
        }''')]),
    'Reader::bump': rd_fn(
        'bump',
        requires='rinv(old(self))',
        ensures='''
        rinv(final(self)) /*@C01.reader.bump-keeps-byte-offset-invariant*/,
        (consumed(old(self)) < r_n(old(self)) ==> consumed(final(self)) == consumed(old(self)) + 1)
          && (consumed(old(self)) >= r_n(old(self)) ==> consumed(final(self)) == consumed(old(self))) /*@C01.reader.bump-advances-unless-at-end*/,
        consumed(old(self)) >= r_n(old(self)) ==> *final(self) == *old(self),
        bumped(old(self), final(self)) /*@C01.reader.bump-only-grows-pending-token*/''',
        body_first=K0 + '''
        proof { if k0 < r_n(&*self) { lemma_plen_step(self.text@, k0); lemma_plen_bound(self.text@, k0 + 1); } }''',
        proof=[(r'self\.next = self\.chars\.next\(\)\.unwrap_or\(EOF\);', 'after', '''
        proof {
            let s = self.text@;
            lemma_plen_boundary(s, k0 + 1);
            if k0 + 3 <= s.len() { assert(s.subrange(k0 + 2, s.len() as int).drop_first() =~= s.subrange(k0 + 3, s.len() as int)); }
            let n = s.len() as int;
            assert(self.chars.remaining() == (if k0 + 3 <= n { s.subrange(k0 + 3, n) } else { Seq::<char>::empty() }));
            assert(self.current_buffer_byte_pos + self.current_buffer_byte_len == plen(s, k0 + 1)) /*@C01.reader.bump-keeps-byte-offset-invariant*/;
            assert(r_at(&*self, k0 + 1));
            lemma_r_at(&*self, k0 + 1);
        }''')]),
    'Reader::reset_buff': rd_fn(
        'reset_buff',
        requires='rinv(old(self))',
        ensures='''
        rinv(final(self)), same_src(old(self), final(self)), 0 <= consumed(final(self)) == consumed(old(self)) <= r_n(old(self)),
        final(self).current_buffer_byte_pos == old(self).current_buffer_byte_pos + old(self).current_buffer_byte_len
          && final(self).current_buffer_byte_len == 0 /*@C01.reader.reset-moves-start-to-cursor*/,
        final(self).current == old(self).current, final(self).next == old(self).next''',
        body_first=K0,
        proof=[(r'self\.current_buffer_byte_len = 0;', 'after', '''
        proof { assert(r_at(&*self, k0)) /*@C01.reader.reset-moves-start-to-cursor*/; lemma_r_at(&*self, k0); }''')]),
    'Reader::is_eof': rd_fn(
        'is_eof', ret='r',
        requires='rinv(self)',
        ensures='r <==> consumed(self) == r_n(self) /*@C01.reader.eof-iff-end-of-text*/, 0 <= consumed(self) <= r_n(self)',
        body_first='proof { lemma_rinv(self); }'),
    'Reader::is_start_of_line': rd_fn('is_start_of_line', ret='r', ensures='r == (self.current_buffer_byte_pos == 0)'),
    'Reader::prev_char': rd_fn('prev_char', ret='r', ensures='r == self.prev'),
    'Reader::current_char': rd_fn(
        'current_char', ret='r', requires='rinv(self)', ensures='cur_ok(self, r)',
        body_first='proof { lemma_rinv(self); }'),
    'Reader::next_char': rd_fn(
        'next_char', ret='r', requires='rinv(old(self))',
        ensures='''*final(self) == *old(self), r == old(self).next,
        consumed(old(self)) + 1 < r_n(old(self)) ==> r == old(self).text@[consumed(old(self)) + 1],
        consumed(old(self)) + 1 >= r_n(old(self)) ==> r == '\\0' ''',
        body_first='proof { lemma_rinv(&*self); }'),
    'Reader::current_range': rd_fn(
        'current_range', ret='r', requires='rinv(self)',
        ensures='''r.start_offset == self.valid_range.start_offset + self.current_buffer_byte_pos,
        r.length == self.current_buffer_byte_len /*@C01.reader.current-range-is-pending-token*/''',
        body_first='proof { lemma_rinv(self); }'),
    'Reader::tail_range': rd_fn(
        'tail_range', ret='r', requires='rinv(self)',
        ensures='''r.start_offset == self.valid_range.start_offset + self.current_buffer_byte_pos + self.current_buffer_byte_len,
        r.length == self.valid_range.length - (self.current_buffer_byte_pos + self.current_buffer_byte_len)''',
        body_first='proof { lemma_rinv(self); }'),
    'Reader::current_text': rd_fn(
        'current_text', ret='r', requires='rinv(self)',
        body_first='proof { lemma_rinv(self); }'),
    'Reader::tail_text': rd_fn(
        'tail_text', ret='r', requires='rinv(self)',
        body_first='proof { lemma_rinv(self); lemma_plen_boundary(self.text@, r_n(self)); lemma_plen_full(self.text@); }'),
    'Reader::eat_when': rd_fn(
        'eat_when', ret='r', requires='rinv(old(self))',
        ensures='''bumped(old(self), final(self)), r == consumed(final(self)) - consumed(old(self)),
        consumed(final(self)) < r_n(final(self)) ==> final(self).text@[consumed(final(self))] != ch,
        (consumed(old(self)) < r_n(old(self)) && old(self).text@[consumed(old(self))] == ch) ==> consumed(final(self)) > consumed(old(self))''',
        body_first='proof { lemma_rinv(&*self); }', loops={0: eat_loop('count')}, proof=EAT_STEP),
    'Reader::consume_char_n_times': rd_fn(
        'consume_char_n_times', ret='r', requires='rinv(old(self))',
        ensures='bumped(old(self), final(self)), r == consumed(final(self)) - consumed(old(self)), r <= count',
        body_first='proof { lemma_rinv(&*self); }', loops={0: eat_loop('eaten', 'eaten <= count,')}, proof=EAT_STEP),
    'Reader::consume_n_times': rd_fn(
        'consume_n_times', ret='r',
        requires='rinv(old(self)), forall|c: char| func.requires((c,))',
        ensures='bumped(old(self), final(self)), r == consumed(final(self)) - consumed(old(self)), r <= count',
        body_first='proof { lemma_rinv(&*self); }', loops={0: eat_loop('eaten', 'eaten <= count, forall|c: char| func.requires((c,)),')}, proof=EAT_STEP),
    'Reader::eat_while': rd_fn(
        'eat_while', ret='r',
        requires='rinv(old(self)), forall|c: char| func.requires((c,))',
        ensures='''bumped(old(self), final(self)), r == consumed(final(self)) - consumed(old(self)),
        // it stops only at the end of the text or in front of a char the predicate rejects ...
        consumed(final(self)) < r_n(final(self)) ==> func.ensures((final(self).text@[consumed(final(self))],), false),
        // ... and eats the first char unless the predicate may reject it
        (consumed(old(self)) < r_n(old(self)) && !func.ensures((old(self).text@[consumed(old(self))],), false))
            ==> consumed(final(self)) > consumed(old(self)) /*@C02.reader.eat-while-progress*/''',
        body_first='proof { lemma_rinv(&*self); }', loops={0: eat_loop('count', 'forall|c: char| func.requires((c,)),')}, proof=EAT_STEP),
    'Reader::eat_till_end': rd_fn(
        'eat_till_end', ret='r', rules=['closure-wildcard'], requires='rinv(old(self))',
        ensures='bumped(old(self), final(self)), r == consumed(final(self)) - consumed(old(self))'),
    'Reader::get_source_text': rd_fn('get_source_text', ret='r', ensures='r == self.text'),
    'Reader::get_current_end_pos': rd_fn(
        'get_current_end_pos', ret='r', requires='rinv(self)',
        ensures='r == self.current_buffer_byte_pos + self.current_buffer_byte_len',
        body_first='proof { lemma_rinv(self); }'),
}

# ---- lexer -------------------------------------------------------------------------------------------
KD = 'crates/emmylua_parser/src/kind/lua_token_kind.rs'
FT = 'crates/emmylua_parser/src/kind/lua_features.rs'
LM = 'crates/emmylua_parser/src/lexer/mod.rs'
TD = 'crates/emmylua_parser/src/lexer/token_data.rs'
LC = 'crates/emmylua_parser/src/lexer/lexer_config.rs'


def lx_fn(name, **kw):
    d = {'src': {'file': LX, 'kind': 'fn', 'impl': 'LuaLexer', 'name': name}}
    d.update(kw)
    return d


R0, R1, RC = '&old(self).reader', '&final(self).reader', '&self.reader'
PRE = 'rinv(%s)' % R0
CFG = 'final(self).lexer_config == old(self).lexer_config'
SAME_STATE = 'final(self).state == old(self).state'
# after a string / long-string scan the lexer is back in Normal state unless the text ended inside it
STATE_DONE = ('(final(self).state == LexerState::Normal || (final(self).state == old(self).state && '
              'consumed(%s) == r_n(%s)))' % (R1, R1))
PROGRESS = 'consumed(%s) < r_n(%s) ==> consumed(%s) > consumed(%s)' % (R0, R0, R1, R0)
CUR0 = 'old(self).reader.text@[consumed(%s)]' % R0


def lx_loop(extra=''):
    """loop overlay of the scanning loops: only bumps since entry, lexer mode untouched, chars left decrease"""
    return """
    invariant
        rinv(%(R0)s), bumped(%(R0)s, %(RC)s), self.lexer_config == old(self).lexer_config, self.state == old(self).state,
        %(extra)s
    decreases r_n(%(RC)s) - consumed(%(RC)s) /*@C02.lexer.scan-loops-terminate*/
""" % {'R0': R0, 'RC': RC, 'extra': extra}


STARTED = 'consumed(%s) < r_n(%s) ==> consumed(%s) > consumed(%s),' % (R0, R0, RC, R0)

LEXER = {
    'LuaTokenKind': {'src': {'file': KD, 'kind': 'enum', 'name': 'LuaTokenKind', 'drop_attrs': False}},
    'LuaTokenData': {'src': {'file': TD, 'kind': 'struct', 'name': 'LuaTokenData', 'drop_attrs': False}},
    'LuaTokenData::new': {'src': {'file': TD, 'kind': 'fn', 'impl': 'LuaTokenData', 'name': 'new'},
                          'ret': 'r', 'ensures': 'r.kind == kind, r.range == range'},
    'LexerState': {'src': {'file': LM, 'kind': 'enum', 'name': 'LexerState', 'drop_attrs': False}},
    'LuaFeatures': {'src': {'file': FT, 'kind': 'enum', 'name': 'LuaFeatures'}},
    'LuaFeaturesSet': {'src': {'file': FT, 'kind': 'struct', 'name': 'LuaFeaturesSet'}},
    'LuaFeaturesSet::support': {'src': {'file': FT, 'kind': 'fn', 'impl': 'LuaFeaturesSet', 'name': 'support'}},
    'LexerConfig': {'src': {'file': LC, 'kind': 'struct', 'name': 'LexerConfig'},
                    'rules': [('struct-fields', {'keep': ['features']})]},
    'LexerConfig::support': {'src': {'file': LC, 'kind': 'fn', 'impl': 'LexerConfig', 'name': 'support'}},
    'is_name_start': {'src': {'file': LM, 'kind': 'fn', 'name': 'is_name_start'}},
    'is_name_continue': {'src': {'file': LM, 'kind': 'fn', 'name': 'is_name_continue'}},
    'LuaLexer': {'src': {'file': LX, 'kind': 'struct', 'name': 'LuaLexer'},
                 'rules': [('struct-fields', {'drop': ['errors']})]},
    'LuaLexer::new': lx_fn('new', ret='r', ensures='r.reader == reader, r.state == LexerState::Normal, r.lexer_config == lexer_config'),
    'LuaLexer::new_with_state': lx_fn('new_with_state', ret='r', rules=['c01-drop-errors-init'],
                                      ensures='r.reader == reader, r.state == state, r.lexer_config == lexer_config'),
    'LuaLexer::tokenize': lx_fn(
        'tokenize', ret='tokens', rules=['closure-ensures'],
        requires="""rinv(%(R0)s),
        old(self).reader.current_buffer_byte_pos == 0 && old(self).reader.current_buffer_byte_len == 0 /* fresh reader */,
        old(self).state == LexerState::Normal""" % {'R0': R0},
        ensures="""
        tiled(tokens@, old(self).reader.text.spec_bytes(), old(self).reader.valid_range.start_offset as int,
              old(self).reader.valid_range.start_offset + old(self).reader.text.spec_bytes().len()) /*@C01.tokenize.tiles-the-text*/,
        no_soft_kinds(tokens@) /*@C02.lexer.no-soft-keyword-kinds*/,
        rinv(%(R1)s), same_src(%(R0)s, %(R1)s), consumed(%(R1)s) == r_n(%(R1)s)""" % {'R0': R0, 'R1': R1},
        body_first='proof { lemma_rinv(&self.reader); }',
        loops={0: """
    invariant
        rinv(%(RC)s), same_src(%(R0)s, %(RC)s),
        tiled(tokens@, self.reader.text.spec_bytes(), self.reader.valid_range.start_offset as int,
              self.reader.valid_range.start_offset + self.reader.current_buffer_byte_pos + self.reader.current_buffer_byte_len),
        self.state != LexerState::Normal ==> consumed(%(RC)s) == r_n(%(RC)s),
        no_soft_kinds(tokens@), /*@C02.lexer.no-soft-keyword-kinds*/
    ensures
        consumed(%(RC)s) == r_n(%(RC)s) /*@C01.tokenize.covers-to-end-of-text*/,
    decreases r_n(%(RC)s) - consumed(%(RC)s) /*@C02.tokenize.terminates*/
""" % {'R0': R0, 'RC': RC}},
        proof=[
            (r'LuaTokenKind::TkShebang,\s*self\.reader\.current_range\(\),\s*\)\);', 'after', """
            proof {
                lemma_rinv(&self.reader);
                lemma_tiled_push(Seq::<LuaTokenData>::empty(), self.reader.text.spec_bytes(),
                    self.reader.valid_range.start_offset as int, self.reader.valid_range.start_offset as int, tokens@.last()) /*@C01.tokenize.tiles-the-text*/;
                assert(tokens@ =~= Seq::<LuaTokenData>::empty().push(tokens@.last()));
            }"""),
            (r'let kind = match self\.state \{', 'before', """
            let ghost toks0 = tokens@;
            let ghost hi0 = self.reader.valid_range.start_offset + self.reader.current_buffer_byte_pos + self.reader.current_buffer_byte_len;
            """),
            (r'tokens\.push\(LuaTokenData::new\(kind, self\.reader\.\w+\(\)\)\);', 'after', """
            proof {
                lemma_rinv(&self.reader);
                lemma_tiled_push(toks0, self.reader.text.spec_bytes(), self.reader.valid_range.start_offset as int, hi0, tokens@.last()) /*@C01.tokenize.tiles-the-text*/;
                assert(tokens@ =~= toks0.push(tokens@.last()));
            }"""),
            (r'break;', 'before', 'proof { assert(false) /*@C01.tokenize.never-stops-before-end-of-text*/; }'),
            (r'tokens\s*\}\s*$', 'before', 'proof { lemma_rinv(&self.reader); }'),
        ]),
    'LuaLexer::get_state': lx_fn('get_state', ret='r', ensures='r == self.state'),
    'LuaLexer::support': lx_fn('support'),
    'LuaLexer::name_to_kind': lx_fn('name_to_kind', ret='r', ensures='real_kind(r) /*@C01.lex.name-kind-is-real*/,\n        !soft_kind(r) /*@C02.lexer.no-soft-keyword-kinds*/'),
    'LuaLexer::lex': lx_fn(
        'lex', ret='r', rules=['drop-errors', ('guard-catchall-merge', {'count': 3}), ('match-guard-if-chain', {'count': 4})], attrs='#[verifier::spinoff_prover]',
        requires=PRE,
        ensures="""
        !soft_kind(r) /*@C02.lexer.no-soft-keyword-kinds*/,
        reset_then_bumped(%(R0)s, %(R1)s) /*@C01.lex.one-reset-then-bumps-only*/,
        %(PROGRESS)s /*@C02.lex.progress*/,
        consumed(%(R0)s) < r_n(%(R0)s) ==> real_kind(r) /*@C01.lex.no-eof-kind-before-end*/,
        old(self).state == LexerState::Normal ==> (final(self).state == LexerState::Normal || consumed(%(R1)s) == r_n(%(R1)s)),
        %(CFG)s""" % {'R0': R0, 'R1': R1, 'PROGRESS': PROGRESS, 'CFG': CFG},
        loops={0: """
    invariant
        rinv(%(R0)s), reset_then_bumped(%(R0)s, %(RC)s), consumed(%(RC)s) > consumed(%(R0)s),
        self.lexer_config == old(self).lexer_config, self.state == old(self).state,
    decreases r_n(%(RC)s) - consumed(%(RC)s) /*@C02.lexer.scan-loops-terminate*/
""" % {'R0': R0, 'RC': RC}}),
    'LuaLexer::lex_new_line': lx_fn(
        'lex_new_line', ret='r', requires=PRE,
        ensures="""bumped(%(R0)s, %(R1)s), %(SAME)s, %(CFG)s, r == LuaTokenKind::TkEndOfLine,
        (consumed(%(R0)s) < r_n(%(R0)s) && (%(CUR0)s == '\\n' || %(CUR0)s == '\\r')) ==> consumed(%(R1)s) > consumed(%(R0)s) /*@C02.lex.progress*/"""
        % {'R0': R0, 'R1': R1, 'SAME': SAME_STATE, 'CFG': CFG, 'CUR0': CUR0}),
    'LuaLexer::lex_white_space': lx_fn(
        'lex_white_space', ret='r', rules=['closure-ensures'], requires=PRE,
        ensures="""bumped(%(R0)s, %(R1)s), %(SAME)s, %(CFG)s, r == LuaTokenKind::TkWhitespace,
        (consumed(%(R0)s) < r_n(%(R0)s) && (%(CUR0)s == ' ' || %(CUR0)s == '\\t')) ==> consumed(%(R1)s) > consumed(%(R0)s) /*@C02.lex.progress*/"""
        % {'R0': R0, 'R1': R1, 'SAME': SAME_STATE, 'CFG': CFG, 'CUR0': CUR0}),
    'LuaLexer::skip_sep': lx_fn(
        'skip_sep', ret='r', requires=PRE,
        ensures='bumped(%s, %s), %s, %s' % (R0, R1, SAME_STATE, CFG)),
    'LuaLexer::lex_string': lx_fn(
        'lex_string', ret='r', rules=['drop-errors'], requires=PRE,
        ensures='bumped(%s, %s), %s, r == LuaTokenKind::TkString,\n        %s /*@C01.lex.back-to-normal-state-unless-text-ended*/' % (R0, R1, CFG, STATE_DONE),
        body_first='proof { lemma_rinv(&self.reader); }', loops={0: lx_loop()}),
    'LuaLexer::lex_long_string': lx_fn(
        'lex_long_string', ret='r', rules=['drop-errors'], requires=PRE,
        ensures='bumped(%s, %s), %s, r == LuaTokenKind::TkLongString,\n        %s /*@C01.lex.back-to-normal-state-unless-text-ended*/' % (R0, R1, CFG, STATE_DONE),
        body_first='proof { lemma_rinv(&self.reader); }', loops={0: lx_loop()}),
    'LuaLexer::lex_number': lx_fn(
        'lex_number', ret='r', rules=['drop-errors', ('guard-catchall-merge', {'count': 4}), ('match-guard-if-chain', {'count': 1})], requires=PRE,
        ensures='bumped(%s, %s), %s, %s, real_kind(r), %s /*@C02.lex.progress*/,\n        !soft_kind(r) /*@C02.lexer.no-soft-keyword-kinds*/' % (R0, R1, SAME_STATE, CFG, PROGRESS),
        body_first='proof { lemma_rinv(&self.reader); }', loops={0: lx_loop(STARTED), 1: lx_loop(STARTED)}),
}

UNIT = {
    'items': dict(READER, **LEXER),
    'extra_rules': [
        ('drop-errors', r'self\.error\(\|\| t!\((?:[^()]|\([^()]*\))*\)\);', 'vx_note_error();',
         'self.error(|| t!(..)) -> vx_note_error(): `LuaLexer::error` only pushes a LuaParseError (message text from the i18n '
         'macro, range = reader.current_range()) onto the projected-out field `errors`; reader, state and config are untouched'),
        ('c01-drop-errors-init', r'\n\s*errors,(?=\s*\n\s*state,)', '',
         'struct projection companion: the initialiser of the dropped field `errors` is removed from `new_with_state`'),
        ('closure-ensures', r"\|(\w+)\| ((?:\1 [!=]= '(?:\\.|[^'\\])'(?: (?:&&|\|\|) )?)+)(?=\))",
         r'|\1: char| -> (vx_b: bool) ensures vx_b == (\2) { \2 }',
         'closure `|c| <comparisons of c with char literals>` gets its own body as a (verified) `ensures` annotation: ghost '
         'annotation only, the executable body is unchanged'),
        ('closure-wildcard', r'\|_\|', '|_c: char|',
         'closure parameter `_` -> named, unused parameter `_c` (Verus accepts only variables as closure parameters)'),
        ('assert-bang', r'(?<![\w!])assert!\(([^;]*?)\);', r'assert(\1);',
         'assert!(c) -> assert(c): the run-time panic condition becomes a proof obligation (callers must establish it)'),
        ('debug-assert', r'debug_assert!\(([^;]*?)\);', r'assert(\1);',
         'debug_assert!(c) -> assert(c): the debug-build panic condition becomes a proof obligation; in release builds the '
         'statement is absent, so proving it changes nothing there'),
    ],
    'allow': [r'assume_specification\[ char::is_(alphabetic|alphanumeric|ascii_digit) \]',
              r'external_body', r'pub struct LuaParseError', r'pub fn vx_note_error'],
    'min_obligations': 60,
    'trusted': [
        'char::{is_alphabetic,is_alphanumeric,is_ascii_digit}: total, result unconstrained (assume_specification without ensures)',
        'str_len_ok: a &str is at most usize::MAX bytes long (precondition of Reader::new / new_with_range; vstd has no such axiom)',
        'vstd specs of str::chars / Chars::next (IteratorSpec::remaining) / char::len_utf8 / str::len / str slicing / Vec::push',
        '#[derive(PartialEq)] on LuaTokenKind and LexerState is structural equality (PartialEqSpecImpl in the template)',
        'vx_note_error(): `self.error(|| t!(..))` touches only the projected-out field `errors` (and the i18n macro does not panic)',
        'rewrite rules drop-errors, guard-catchall-merge, match-guard-if-chain, closure-ensures, closure-wildcard, assert-eq, debug-assert, assert-bang (see extra_rules / unit.py doc strings)',
    ],
    'not_covered': [
        'LuaLexer::tokenize started in state String/LongString/LongComment (continue_with_new_reader): contract requires LexerState::Normal and a fresh reader',
        'Reader::reset_buff_into_sub_reader (Chars::next_back has no vstd spec), LuaLexer::error (rust_i18n), SourceRange::{merge,contains*,intersect} and the TextRange conversions',
        'LuaDocLexer and the lexers of emmylua_parser_desc that are built on Reader',
    ],
    'samples': [
        'Reader::bump: consumed\' == consumed + 1 iff consumed < chars(text).len(); byte offset pos+len == |utf8(chars[..consumed])|',
        'Reader::is_eof: r <==> consumed == chars(text).len()   (fails on the unrepaired reader: NUL sentinel)',
        'LuaLexer::lex (verbatim 400-line match): exactly one reset_buff then bumps only; >= 1 char consumed and kind not TkEof/None unless at end of text',
        'LuaLexer::tokenize: no_soft_kinds(tokens) (units/c02_grammar/nosoft_iface.rs): no produced token has kind TkContinue or TkConst (C02: precondition nosoft of parse_chunk in the grammar units); name_to_kind / lex / lex_number ensure !soft_kind(r)',
        'LuaLexer::tokenize: tiled(tokens, text bytes, start, start + text.len()): first starts at start, adjacent, last ends at the end, every token non-empty, on char boundaries, kind != TkEof/None',
    ],
    'mutants': [
        {'name': 'bump-adds-one-byte', 'item': 'Reader::bump',
         'pattern': r'self\.current\.len_utf8\(\)', 'repl': '1',
         'expect': r'C01\.reader\.bump-keeps-byte-offset-invariant'},
        {'name': 'reset-forgets-length', 'item': 'Reader::reset_buff',
         'pattern': r'self\.current_buffer_byte_pos \+= self\.current_buffer_byte_len;', 'repl': '',
         'expect': r'C01\.reader\.reset-moves-start-to-cursor'},
        {'name': 'eof-by-sentinel', 'item': 'Reader::is_eof',
         'pattern': r'self\.current_buffer_byte_pos \+ self\.current_buffer_byte_len >= self\.text\.len\(\)', 'repl': 'self.current == EOF',
         'expect': r'C01\.reader\.eof-iff-end-of-text'},
        {'name': 'bump-stops-at-sentinel', 'item': 'Reader::bump',
         'pattern': r'if !self\.is_eof\(\) \{', 'repl': 'if self.current != EOF {',
         'expect': r'C01\.reader\.bump-advances-unless-at-end'},
        {'name': 'tokenize-pushes-tail-range', 'item': 'LuaLexer::tokenize',
         'pattern': r'LuaTokenData::new\(kind, self\.reader\.current_range\(\)\)', 'repl': 'LuaTokenData::new(kind, self.reader.tail_range())',
         'expect': r'C01\.tokenize\.tiles-the-text'},
        {'name': 'tokenize-breaks-before-push', 'item': 'LuaLexer::tokenize',
         'pattern': r'if kind == LuaTokenKind::TkEof \{', 'repl': 'if kind != LuaTokenKind::TkEof {',
         'expect': r'C01\.tokenize\.never-stops-before-end-of-text'},
        {'name': 'name-to-kind-emits-continue', 'item': 'LuaLexer::name_to_kind',
         'pattern': r'_ => LuaTokenKind::TkName,', 'repl': '"continue" => LuaTokenKind::TkContinue,\n            _ => LuaTokenKind::TkName,',
         'expect': r'C02\.lexer\.no-soft-keyword-kinds'},
        {'name': 'lex-arm-forgets-to-bump', 'item': 'LuaLexer::lex',
         'pattern': r"'#' => \{\s*self\.reader\.bump\(\);", 'repl': "'#' => {",
         'expect': r'C02\.lex\.progress'},
        {'name': 'lex-resets-in-the-middle', 'item': 'LuaLexer::lex',
         'pattern': r"'=' => \{\s*self\.reader\.bump\(\);\s*if self\.reader\.current_char\(\) != '='",
         'repl': "'=' => { self.reader.bump(); self.reader.reset_buff(); if self.reader.current_char() != '='",
         'expect': r'C01\.lex\.one-reset-then-bumps-only'},
        {'name': 'lex-eof-arm-by-sentinel', 'item': 'LuaLexer::lex',
         'pattern': r"_ if self\.reader\.is_eof\(\) => LuaTokenKind::TkEof,", 'repl': "'\\0' => LuaTokenKind::TkEof,",
         'expect': r'C0[12]\.lex\.(no-eof-kind-before-end|progress)'},
        {'name': 'long-string-keeps-state-after-close', 'item': 'LuaLexer::lex_long_string',
         'pattern': r'if end \|\| !self\.reader\.is_eof\(\) \{', 'repl': 'if !end && !self.reader.is_eof() {',
         'expect': r'C01\.lex\.back-to-normal-state-unless-text-ended'},
        {'name': 'eat-while-does-not-bump', 'item': 'Reader::eat_while',
         'pattern': r'count \+= 1;\s*self\.bump\(\);', 'repl': 'count += 1;',
         'expect': r'C02\.reader\.eat-'},
    ],
}
