// Probe (not part of the unit): Verus 0.2026.09.13 loses `final(p) == *p` on the fall-through path of a
// GUARDED match arm whose body mutates the `&mut` parameter p (asserts about *p hold, postconditions fail).
// `verus --edition 2024 probe_guard_limitation.rs` -> 7 errors; the if/else forms of the same code verify.
use vstd::prelude::*;
verus! {
pub fn g() -> bool { true }
pub struct S { pub a: u8, pub b: u8 }
impl S {
    pub fn inc(&mut self) ensures final(self).a == 1, final(self).b == old(self).b { self.a = 1; }
    pub fn m1(&mut self, c: char) ensures final(self).b == old(self).b {
        match c { 'a' if g() => { self.inc(); } _ => {} }
    }
    pub fn m2(&mut self, c: char) ensures final(self).b == old(self).b {
        match c { 'a' if g() => { self.inc(); } _ => {} }
        proof { assert(self.b == old(self).b); }
    }
    pub fn m3(&mut self, c: char) ensures final(self).b == old(self).b {
        let ghost s0 = *self;
        match c { 'a' if g() => { self.inc(); } _ => { assert(*self == s0); } }
    }
    pub fn m4(&mut self, c: char) -> (r: u8) ensures final(self).b == old(self).b {
        match c { 'a' if g() => { self.inc(); 1 } _ => { 2 } }
    }
    pub fn m5(&mut self, c: char) -> (r: u8) ensures final(self).b == old(self).b {
        let r = match c { 'a' if g() => { self.inc(); 1 } _ => { 2 } };
        r
    }
}
pub fn f2(c: char, s: &mut S) ensures final(s).b == old(s).b {
    match c { 'a' if g() => { s.a = 1; } _ => {} }
}
pub fn f6(c: char, s: &mut S) ensures final(s).b == old(s).b {
    match c { 'a' if g() => { s.a = 1; } _ => {} }
    assert(s.b == old(s).b);
}
}
fn main() {}
