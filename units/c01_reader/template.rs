// unit c01_reader — C01/L1 "the lexer's tokens tile the input text" (+ the lexer's share of C02:
// panic-freedom and termination of Reader / LuaLexer::tokenize / lex*).
// Hand-written part: specification vocabulary, UTF-8 lemmas, shims of std items vstd does not know.
// Every `//@@ <key>` item is the REAL text of the repository, extracted on every run.
use vstd::prelude::*;
use vstd::utf8::*;
use vstd::string::*;
use vstd::std_specs::iter::IteratorSpec;
use std::str::Chars;
verus! {

// ---------------------------------------------------------------------------------------------
// std items without a vstd specification: weakest contract (result unconstrained, no panic —
// documented: these are total functions on `char`)
// ---------------------------------------------------------------------------------------------
pub assume_specification[ char::is_alphabetic ](c: char) -> bool;
pub assume_specification[ char::is_alphanumeric ](c: char) -> bool;
pub assume_specification[ char::is_ascii_digit ](c: &char) -> bool;

//@@include c01_reader/lemmas.rs

// ---------------------------------------------------------------------------------------------
// text_range.rs
// ---------------------------------------------------------------------------------------------
//@@ SourceRange

impl SourceRange {
    //@@ SourceRange::new
    //@@ SourceRange::from_start_end
    //@@ SourceRange::end_offset
    //@@ SourceRange::moved
    //@@ SourceRange::is_empty
}

// ---------------------------------------------------------------------------------------------
// Reader: abstract view and representation invariant
// ---------------------------------------------------------------------------------------------
//@@ EOF

//@@ Reader

/// the reader `r` stands in front of char number `k` of its text (`k == len` = end of the text)
#[verifier::prophetic]
pub open spec fn r_at(r: &Reader, k: int) -> bool {
    let s = r.text@;
    let n = s.len() as int;
    &&& 0 <= k <= n
    // byte offset of the cursor = encoded length of the consumed chars
    &&& r.current_buffer_byte_pos + r.current_buffer_byte_len == plen(s, k)
    &&& (k < n ==> r.current == s[k])
    &&& (k >= n ==> r.current == '\0')
    &&& (k + 1 < n ==> r.next == s[k + 1])
    &&& (k + 1 >= n ==> r.next == '\0')
    &&& r.chars.remaining() == (if k + 2 <= n { s.subrange(k + 2, n) } else { Seq::<char>::empty() })
    // the pending token starts on a char boundary
    &&& is_char_boundary(r.text.spec_bytes(), r.current_buffer_byte_pos as int)
    &&& is_char_boundary(r.text.spec_bytes(), r.current_buffer_byte_pos + r.current_buffer_byte_len)
    &&& r.valid_range.length == r.text.spec_bytes().len()
    &&& r.valid_range.start_offset + r.valid_range.length <= usize::MAX
}

#[verifier::opaque]
#[verifier::prophetic]
pub open spec fn rinv(r: &Reader) -> bool { exists|k: int| r_at(r, k) }

/// number of chars bumped so far (determined by the byte offset: prefix lengths are injective)
pub open spec fn at_offset(r: &Reader, k: int) -> bool {
    0 <= k <= r.text@.len() && r.current_buffer_byte_pos + r.current_buffer_byte_len == plen(r.text@, k)
}
#[verifier::opaque]
pub open spec fn consumed(r: &Reader) -> int { choose|k: int| at_offset(r, k) }

pub open spec fn r_n(r: &Reader) -> int { r.text@.len() as int }

pub proof fn lemma_r_at(r: &Reader, k: int)
    requires r_at(r, k),
    ensures rinv(r), consumed(r) == k,
{
    reveal(rinv); reveal(consumed);
    assert(at_offset(r, k));
    let c = choose|c: int| at_offset(r, c);
    lemma_plen_inj(r.text@, c, k);
}

pub proof fn lemma_rinv(r: &Reader)
    requires rinv(r),
    ensures
        r_at(r, consumed(r)),
        0 <= consumed(r) <= r_n(r),
        r.current_buffer_byte_pos + r.current_buffer_byte_len <= r.text.spec_bytes().len(),
        r.text.spec_bytes().len() <= usize::MAX,
        (r.current_buffer_byte_pos + r.current_buffer_byte_len == r.text.spec_bytes().len()) <==> consumed(r) == r_n(r),
{
    reveal(rinv); reveal(consumed);
    let k = choose|k: int| r_at(r, k);
    lemma_r_at(r, k);
    lemma_plen_bound(r.text@, consumed(r));
}

pub open spec fn same_src(r1: &Reader, r2: &Reader) -> bool {
    r1.text == r2.text && r1.valid_range == r2.valid_range
}

/// `r2` is `r1` after zero or more `bump`s: the pending token only grows, nothing is skipped
#[verifier::prophetic]
pub open spec fn bumped(r1: &Reader, r2: &Reader) -> bool {
    &&& rinv(r2)
    &&& same_src(r1, r2)
    &&& r2.current_buffer_byte_pos == r1.current_buffer_byte_pos
    &&& r2.current_buffer_byte_len >= r1.current_buffer_byte_len
    &&& 0 <= consumed(r1) <= consumed(r2) <= r_n(r2)
    &&& (consumed(r2) > consumed(r1) <==> r2.current_buffer_byte_len > r1.current_buffer_byte_len)
}

/// what `current_char()` returns in a valid state
pub open spec fn cur_ok(r: &Reader, c: char) -> bool {
    &&& c == r.current
    &&& 0 <= consumed(r) <= r_n(r)
    &&& (consumed(r) < r_n(r) ==> c == r.text@[consumed(r)])
    &&& (consumed(r) >= r_n(r) ==> c == '\0')
}

impl<'a> Reader<'a> {
    //@@ Reader::new
    //@@ Reader::new_with_range
    //@@ Reader::bump
    //@@ Reader::reset_buff
    //@@ Reader::is_eof
    //@@ Reader::is_start_of_line
    //@@ Reader::prev_char
    //@@ Reader::current_char
    //@@ Reader::next_char
    //@@ Reader::current_range
    //@@ Reader::tail_range
    //@@ Reader::current_text
    //@@ Reader::tail_text
    //@@ Reader::eat_when
    //@@ Reader::consume_char_n_times
    //@@ Reader::consume_n_times
    //@@ Reader::eat_while
    //@@ Reader::eat_till_end
    //@@ Reader::get_source_text
    //@@ Reader::get_current_end_pos
}

// ---------------------------------------------------------------------------------------------
// lexer: kinds, features, state (extracted verbatim) and the tiling vocabulary of C01/L1
// ---------------------------------------------------------------------------------------------
//@@ LuaTokenKind

//@@ LuaTokenData

impl LuaTokenData {
    //@@ LuaTokenData::new
}

//@@ LexerState

// `#[derive(PartialEq)]` on a field-less enum / an enum of `char`,`usize` payloads is structural
// equality (std documentation of the derive); stated here so that `==` in exec code has a meaning.
impl vstd::std_specs::cmp::PartialEqSpecImpl for LuaTokenKind {
    open spec fn obeys_eq_spec() -> bool { true }
    open spec fn eq_spec(&self, other: &LuaTokenKind) -> bool { *self == *other }
}
impl vstd::std_specs::cmp::PartialEqSpecImpl for LexerState {
    open spec fn obeys_eq_spec() -> bool { true }
    open spec fn eq_spec(&self, other: &LexerState) -> bool { *self == *other }
}

//@@ LuaFeatures

//@@ LuaFeaturesSet

impl LuaFeaturesSet {
    //@@ LuaFeaturesSet::support
}

//@@ LexerConfig

impl LexerConfig {
    //@@ LexerConfig::support
}

//@@ is_name_start

//@@ is_name_continue

/// error sink of the lexer: `LuaLexer.errors` is projected out of the struct (it is written only by
/// `LuaLexer::error`, which reads `reader.current_range()` and changes nothing else).
#[verifier::external_body]
pub struct LuaParseError { _p: () }
#[verifier::external_body]
pub fn vx_note_error() {}

//@@ LuaLexer

//@@include c01_reader/iface.rs

// interface "no soft-keyword token kinds" (C02), same text as in the grammar units and c01_compose
//@@include c02_grammar/nosoft_iface.rs

pub proof fn lemma_tiled_push(toks: Seq<LuaTokenData>, b: Seq<u8>, base: int, hi: int, t: LuaTokenData)
    requires tiled(toks, b, base, hi), t.range.start_offset == hi, tok_ok(t, b, base),
    ensures tiled(toks.push(t), b, base, tok_end(t)),
{
    let n = toks.push(t);
    assert forall|i: int, j: int| 0 <= i && j == i + 1 && j < n.len()
        implies tok_end(#[trigger] n[i]) == (#[trigger] n[j]).range.start_offset by {
        if j < toks.len() { assert(n[i] == toks[i]); assert(n[j] == toks[j]); }
        else { assert(n[i] == toks[i]); assert(toks[i] == toks.last()); }
    }
    assert forall|i: int| 0 <= i < n.len() implies tok_ok(#[trigger] n[i], b, base) by {
        if i < toks.len() { assert(n[i] == toks[i]); }
    }
}

/// `r2` is `r1` after ONE `reset_buff` followed by bumps only (the frame of `lex`): the new pending
/// token starts exactly where the previous one ended
#[verifier::prophetic]
pub open spec fn reset_then_bumped(r1: &Reader, r2: &Reader) -> bool {
    &&& rinv(r2)
    &&& same_src(r1, r2)
    &&& r2.current_buffer_byte_pos == r1.current_buffer_byte_pos + r1.current_buffer_byte_len
    &&& 0 <= consumed(r1) <= consumed(r2) <= r_n(r2)
    &&& (consumed(r2) > consumed(r1) <==> r2.current_buffer_byte_len > 0)
}

pub open spec fn real_kind(k: LuaTokenKind) -> bool { k != LuaTokenKind::TkEof && k != LuaTokenKind::None }

impl<'a> LuaLexer<'a> {
    //@@ LuaLexer::new
    //@@ LuaLexer::new_with_state
    //@@ LuaLexer::tokenize
    //@@ LuaLexer::get_state
    //@@ LuaLexer::support
    //@@ LuaLexer::name_to_kind
    //@@ LuaLexer::lex
    //@@ LuaLexer::lex_new_line
    //@@ LuaLexer::lex_white_space
    //@@ LuaLexer::skip_sep
    //@@ LuaLexer::lex_string
    //@@ LuaLexer::lex_long_string
    //@@ LuaLexer::lex_number
}

} // verus!
fn main() {}
