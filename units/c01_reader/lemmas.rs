// ---- UTF-8 prefix-length lemmas (all bodies verified; built on vstd::utf8) ----------------------
/// byte length of the UTF-8 encoding of the first `k` chars of `s`
pub open spec fn plen(s: Seq<char>, k: int) -> int {
    encode_utf8(s.subrange(0, k)).len() as int
}

pub proof fn lemma_plen_zero(s: Seq<char>)
    ensures plen(s, 0) == 0,
{
    assert(s.subrange(0, 0) =~= Seq::<char>::empty());
}

pub proof fn lemma_plen_full(s: Seq<char>)
    ensures plen(s, s.len() as int) == encode_utf8(s).len(),
{
    assert(s.subrange(0, s.len() as int) =~= s);
}

pub proof fn lemma_plen_step(s: Seq<char>, k: int)
    requires 0 <= k < s.len(),
    ensures
        plen(s, k + 1) == plen(s, k) + encode_scalar(s[k] as u32).len(),
        1 <= encode_scalar(s[k] as u32).len() <= 4,
{
    assert(s.subrange(0, k + 1) =~= s.subrange(0, k).push(s[k]));
    encode_utf8_push(s.subrange(0, k), s[k]);
}

pub proof fn lemma_plen_mono(s: Seq<char>, i: int, j: int)
    requires 0 <= i <= j <= s.len(),
    ensures
        plen(s, i) <= plen(s, j),
        i < j ==> plen(s, i) < plen(s, j),
{
    if i < j {
        lemma_encode_utf8_len_strictly_monotonic(s, i, j);
    }
}

/// two prefixes with the same byte length are the same prefix
pub proof fn lemma_plen_inj(s: Seq<char>, i: int, j: int)
    requires 0 <= i <= s.len(), 0 <= j <= s.len(), plen(s, i) == plen(s, j),
    ensures i == j,
{
    if i < j { lemma_plen_mono(s, i, j); }
    if j < i { lemma_plen_mono(s, j, i); }
}

pub proof fn lemma_plen_bound(s: Seq<char>, k: int)
    requires 0 <= k <= s.len(),
    ensures
        0 <= plen(s, k) <= encode_utf8(s).len(),
        (plen(s, k) == encode_utf8(s).len()) <==> (k == s.len()),
{
    lemma_plen_full(s);
    lemma_plen_mono(s, k, s.len() as int);
}

/// every prefix length is a char boundary of the encoded text
pub proof fn lemma_plen_boundary(s: Seq<char>, k: int)
    requires 0 <= k <= s.len(),
    ensures is_char_boundary(encode_utf8(s), plen(s, k)),
    decreases k,
{
    encode_utf8_valid_utf8(s);
    if k == 0 {
        lemma_plen_zero(s);
    } else {
        let b = encode_utf8(s);
        let t = s.drop_first();
        let p = s.subrange(0, k);
        encode_utf8_first_scalar(s);
        assert(pop_first_scalar(b) =~= encode_utf8(t));
        assert(p.drop_first() =~= t.subrange(0, k - 1));
        assert(p[0] == s[0]);
        assert(encode_utf8(p) == encode_scalar(p[0] as u32) + encode_utf8(p.drop_first()));
        assert(plen(s, k) == encode_scalar(s[0] as u32).len() + plen(t, k - 1));
        lemma_plen_boundary(t, k - 1);
        lemma_plen_bound(s, k);
        lemma_plen_bound(t, k - 1);
        encode_utf8_valid_utf8(s);
        let idx = plen(s, k);
        let l = encode_scalar(s[0] as u32).len() as int;
        assert(length_of_first_scalar(b) == l);
        assert(1 <= l <= idx <= b.len());
        assert(is_char_boundary(pop_first_scalar(b), idx - l));
        assert(is_char_boundary(b, idx));
    }
}

/// a char takes at least one byte: k chars take at least k bytes
pub proof fn lemma_plen_ge(s: Seq<char>, k: int)
    requires 0 <= k <= s.len(),
    ensures plen(s, k) >= k,
    decreases k,
{
    if k == 0 { lemma_plen_zero(s); } else { lemma_plen_ge(s, k - 1); lemma_plen_step(s, k - 1); }
}
