// =====================================================================================================================
// OPAQUE SHIMS: everything that is not about locks. No shim below has a contract that mentions `held`, except the awaited ones at the end.
// A SYNCHRONOUS callee cannot acquire a tokio lock or suspend the task (that needs `.await`; `blocking_*` / `try_*` do not occur in
// crates/emmylua_ls/src — checked by unit.py on every run), so sync callees are shimmed without `held`.
// =====================================================================================================================
#[verifier::external_body]
pub struct Uri { _p: () }
impl Clone for Uri {
    #[verifier::external_body]
    fn clone(&self) -> Self { unimplemented!() }
}
#[verifier::external_body]
pub struct PathBuf { _p: () }
impl Clone for PathBuf {
    #[verifier::external_body]
    fn clone(&self) -> Self { unimplemented!() }
}
#[verifier::external_body]
pub struct CancellationToken { _p: () }
impl Clone for CancellationToken {
    #[verifier::external_body]
    fn clone(&self) -> Self { unimplemented!() }
}
pub struct WorkspaceFolder { pub root: PathBuf, pub is_library: bool }
impl Clone for WorkspaceFolder {
    #[verifier::external_body]
    fn clone(&self) -> Self { unimplemented!() }
}
#[verifier::external_body]
pub struct WorkspaceFileMatcher { _p: () }
impl Clone for WorkspaceFileMatcher {
    #[verifier::external_body]
    fn clone(&self) -> Self { unimplemented!() }
}
#[derive(Clone, PartialEq, Eq, Hash)]
pub struct RequestId { pub id: i32 }
#[verifier::external_body]
pub struct Value { _p: () }
impl Clone for Value {
    #[verifier::external_body]
    fn clone(&self) -> Self { unimplemented!() }
}
#[verifier::external_body]
pub struct LuaCompilation { _p: () }
#[verifier::external_body]
pub struct DbIndex { _p: () }
#[verifier::external_body]
pub struct LuaModuleIndex { _p: () }
#[verifier::external_body]
pub struct ModuleInfo { _p: () }
#[verifier::external_body]
pub struct LspFeatures { _p: () }
#[verifier::external_body]
pub struct Diagnostic { _p: () }
#[verifier::external_body]
pub struct RecommendedWatcher { _p: () }
pub struct Response { pub id: RequestId, pub result: Option<Value> }
#[verifier::external_body]
pub struct Vfs { _p: () }

#[derive(Clone, Copy, PartialEq, Eq, Hash)]
pub struct FileId { pub id: u32 }
#[derive(Clone, Copy)]
pub struct Duration { pub ms: u64 }
impl Duration {
    #[verifier::external_body]
    pub fn from_millis(ms: u64) -> Duration { unimplemented!() }
    #[verifier::external_body]
    pub fn from_secs(s: u64) -> Duration { unimplemented!() }
}
#[verifier::external_body]
pub fn vx_string() -> String { unimplemented!() }
#[verifier::external_body]
pub fn vx_str() -> &'static str { unimplemented!() }
#[verifier::external_body]
pub fn uri_to_file_path(uri: &Uri) -> Option<PathBuf> { unimplemented!() }
#[verifier::external_body]
pub fn read_file_with_encoding(path: &PathBuf, encoding: &str) -> Option<String> { unimplemented!() }
impl PathBuf {
    #[verifier::external_body]
    pub fn exists(&self) -> bool { unimplemented!() }
}
impl CancellationToken {
    #[verifier::external_body]
    pub fn new() -> CancellationToken { unimplemented!() }
    #[verifier::external_body]
    pub fn cancel(&self) { }
    #[verifier::external_body]
    pub fn is_cancelled(&self) -> bool { unimplemented!() }
    /// `cancelled().await`: waits until somebody cancels the token
    #[verifier::external_body]
    pub fn cancelled(&self, held: &mut Held)
        requires may_wait_long(*old(held)),
        ensures *final(held) == *old(held),
    { }
}

// ---- lsp_types parameter structs (plain data; only the fields the extracted fns read) ------------------------------
pub struct TextDocumentItem { pub uri: Uri, pub text: String }
pub struct DidOpenTextDocumentParams { pub text_document: TextDocumentItem }
pub struct DidSaveTextDocumentParams { pub _p: () }
pub struct TextDocumentIdentifier { pub uri: Uri }
pub struct TextDocumentContentChangeEvent { pub text: String }
pub struct DidChangeTextDocumentParams { pub text_document: TextDocumentIdentifier, pub content_changes: Vec<TextDocumentContentChangeEvent> }
pub struct DidCloseTextDocumentParams { pub text_document: TextDocumentIdentifier }
#[derive(Clone, Copy, PartialEq, Eq)]
pub struct FileChangeType(pub i32);
impl FileChangeType {
    pub const CREATED: FileChangeType = FileChangeType(1);
    pub const CHANGED: FileChangeType = FileChangeType(2);
    pub const DELETED: FileChangeType = FileChangeType(3);
}
pub struct FileEvent { pub uri: Uri, pub typ: FileChangeType }
pub struct DidChangeWatchedFilesParams { pub changes: Vec<FileEvent> }
pub struct PublishDiagnosticsParams { pub uri: Uri, pub diagnostics: Vec<Diagnostic>, pub version: Option<i32> }
pub mod lsp_types {
    pub use super::{PublishDiagnosticsParams, Uri};
}
pub mod notify {
    pub use super::RecommendedWatcher;
}
/// watched_file_handler.rs:94-101 / :69-87: synchronous, path inspection and a blocking file read (not covered: blocking calls)
#[verifier::external_body]
pub fn get_file_type(uri: &Uri) -> Option<WatchedFileType> { unimplemented!() }
#[verifier::external_body]
pub fn collect_lua_files(watched_lua_files: &mut Vec<(Uri, Option<String>)>, uri: Uri, file_change_event: FileChangeType, encoding: &str) { }

// ---- emmylua_code_analysis ------------------------------------------------------------------------------------------
pub struct EmmyrcDiagnostic { pub diagnostic_interval: Option<u64> }
pub struct EmmyrcWorkspace { pub enable_reindex: bool, pub reindex_duration: u64, pub encoding: String }
pub struct Emmyrc { pub diagnostics: EmmyrcDiagnostic, pub workspace: EmmyrcWorkspace }
pub struct EmmyLuaAnalysis { pub compilation: LuaCompilation }
impl EmmyLuaAnalysis {
    #[verifier::external_body]
    pub fn get_file_id(&self, uri: &Uri) -> Option<FileId> { unimplemented!() }
    #[verifier::external_body]
    pub fn get_uri(&self, file_id: FileId) -> Option<Uri> { unimplemented!() }
    #[verifier::external_body]
    pub fn update_file_by_uri(&mut self, uri: &Uri, text: Option<String>) -> Option<FileId> { unimplemented!() }
    #[verifier::external_body]
    pub fn update_files_by_uri(&mut self, files: Vec<(Uri, Option<String>)>) -> Vec<FileId> { unimplemented!() }
    #[verifier::external_body]
    pub fn remove_file_by_uri(&mut self, uri: &Uri) -> Option<FileId> { unimplemented!() }
    #[verifier::external_body]
    pub fn get_emmyrc(&self) -> Arc<Emmyrc> { unimplemented!() }
    #[verifier::external_body]
    pub fn diagnose_file(&self, file_id: FileId, cancel_token: CancellationToken) -> Option<Vec<Diagnostic>> { unimplemented!() }
    #[verifier::external_body]
    pub fn cleanup_nonexistent_files(&mut self) { }
    #[verifier::external_body]
    pub fn reindex(&mut self) { }
    #[verifier::external_body]
    pub fn clear_non_std_workspaces(&mut self) { }
    #[verifier::external_body]
    pub fn update_config(&mut self, emmyrc: Arc<Emmyrc>) { }
    #[verifier::external_body]
    pub fn add_library_workspace(&mut self, workspace: &WorkspaceFolder) { }
    #[verifier::external_body]
    pub fn add_main_workspace(&mut self, root: PathBuf) { }
    #[verifier::external_body]
    pub fn reload_workspace_files(&mut self, files: Vec<(PathBuf, Option<String>)>, open_files: Vec<(Uri, String)>) -> Vec<Uri> { unimplemented!() }
    #[verifier::external_body]
    pub fn init_std_lib(&mut self, resources_path: Option<String>) { }
}
impl LuaCompilation {
    #[verifier::external_body]
    pub fn get_db(&self) -> &DbIndex { unimplemented!() }
}
impl DbIndex {
    #[verifier::external_body]
    pub fn get_module_index(&self) -> &LuaModuleIndex { unimplemented!() }
    #[verifier::external_body]
    pub fn get_vfs(&self) -> &Vfs { unimplemented!() }
}
impl LuaModuleIndex {
    #[verifier::external_body]
    pub fn get_module(&self, file_id: FileId) -> Option<&ModuleInfo> { unimplemented!() }
    #[verifier::external_body]
    pub fn get_main_workspace_file_ids(&self) -> Vec<FileId> { unimplemented!() }
}

// ---- emmylua_ls context (sync parts) ----------------------------------------------------------------------------------
impl LspFeatures {
    #[verifier::external_body]
    pub fn supports_pull_diagnostic(&self) -> bool { unimplemented!() }
    #[verifier::external_body]
    pub fn supports_workspace_diagnostic(&self) -> bool { unimplemented!() }
    #[verifier::external_body]
    pub fn supports_config_request(&self) -> bool { unimplemented!() }
    #[verifier::external_body]
    pub fn supports_dynamic_watched_files_registration(&self) -> bool { unimplemented!() }
    #[verifier::external_body]
    pub fn supports_multiline_tokens(&self) -> bool { unimplemented!() }
}
#[derive(Clone, Copy, PartialEq, Eq)]
pub enum WorkspaceDiagnosticLevel { None, Fast, Slow }
#[derive(Clone, Copy, PartialEq, Eq)]
pub enum ClientId { VSCode, Intellij, Neovim, Other }
impl Clone for ClientConfig {
    #[verifier::external_body]
    fn clone(&self) -> Self { unimplemented!() }
}

/// context/snapshot.rs: the accessors return the fields of the shared `ServerContextInner` (snapshot.rs:23-45). THE IDENTITY OF A LOCK
/// IS THE FIELD IT LIVES IN: `analysis()` is the analysis lock, `workspace_manager()` the workspace-manager lock.
#[verifier::external_body]
pub struct ServerContextSnapshot { _p: () }
impl Clone for ServerContextSnapshot {
    #[verifier::external_body]
    fn clone(&self) -> Self { unimplemented!() }
}
impl ServerContextSnapshot {
    #[verifier::external_body]
    pub fn analysis(&self) -> (r: &RwLock<EmmyLuaAnalysis>) ensures r.id() == L::Analysis { unimplemented!() }
    #[verifier::external_body]
    pub fn workspace_manager(&self) -> (r: &RwLock<WorkspaceManager>) ensures r.id() == L::WorkspaceManager { unimplemented!() }
    #[verifier::external_body]
    pub fn file_diagnostic(&self) -> (r: &FileDiagnostic) ensures r.wf() { unimplemented!() }
    #[verifier::external_body]
    pub fn lsp_features(&self) -> &LspFeatures { unimplemented!() }
    #[verifier::external_body]
    pub fn client(&self) -> (r: &ClientProxy) ensures r.wf() { unimplemented!() }
    #[verifier::external_body]
    pub fn status_bar(&self) -> (r: &StatusBar) ensures r.wf() { unimplemented!() }
}

// ---- WorkspaceManager: the struct is the repository's (projection); its SYNCHRONOUS methods are opaque -----------------------------
#[verifier::external_body]
pub struct PendingTask { _p: () }
impl WorkspaceManager {
    /// the locks reachable from a WorkspaceManager are THE analysis lock and THE reload lock (mod.rs:127-132, workspace_manager.rs:55)
    pub open spec fn wf(&self) -> bool {
        self.analysis.id() == L::Analysis && self.reload_lock.id() == L::ReloadLock && self.file_diagnostic.wf() && self.client.wf()
    }
    #[verifier::external_body]
    pub fn sync_open_file(&mut self, uri: Uri, text: String) { }
    #[verifier::external_body]
    pub fn close_open_file(&mut self, uri: &Uri) { }
    #[verifier::external_body]
    pub fn is_open_file(&self, uri: &Uri) -> bool { unimplemented!() }
    #[verifier::external_body]
    pub fn is_workspace_file(&self, uri: &Uri) -> bool { unimplemented!() }
    #[verifier::external_body]
    pub fn update_workspace_version(&self, level: WorkspaceDiagnosticLevel, add_version: bool) { }
    #[verifier::external_body]
    pub fn get_workspace_diagnostic_level(&self) -> WorkspaceDiagnosticLevel { unimplemented!() }
    #[verifier::external_body]
    pub fn get_workspace_version(&self) -> i64 { unimplemented!() }
    /// synchronous: takes the std mutex of `reindex_token` (PendingTask, a leaf) and SPAWNS the reindex task (item `reindex_workspace::task`)
    #[verifier::external_body]
    pub fn reindex_workspace(&self, delay: Duration) { }
    /// synchronous: std mutex of `reindex_token` only
    #[verifier::external_body]
    pub fn extend_reindex_delay(&self) { }
    /// synchronous: std mutex of `config_reload_token`, SPAWNS the debounce task (item `add_update_emmyrc_task::task`)
    #[verifier::external_body]
    pub fn add_update_emmyrc_task(&self, context: ServerContextSnapshot, config_path: PathBuf) { }
    /// synchronous: reads the config files and SPAWNS the reload task (item `spawn_workspace_reload_task::task`)
    #[verifier::external_body]
    pub fn add_reload_workspace_task(&self, context: ServerContextSnapshot) { }
    #[verifier::external_body]
    pub fn update_match_state(&mut self, emmyrc: &Emmyrc) { }
}
impl FileDiagnostic {
    /// the locks reachable from THE FileDiagnostic (mod.rs:122-126: built from a clone of the analysis Arc)
    pub open spec fn wf(&self) -> bool {
        self.analysis.id() == L::Analysis && self.diagnostic_tokens.id() == L::DiagnosticTokens
            && self.workspace_diagnostic_token.id() == L::WorkspaceDiagnosticToken && self.client.wf() && self.status_bar.wf()
    }
    #[verifier::external_body]
    pub fn clear_push_file_diagnostics(&self, uri: Uri) { }
}
impl ClientProxy {
    /// client.rs:31: THE response-manager lock
    pub open spec fn wf(&self) -> bool { self.response_manager.id() == L::ResponseManager }
    #[verifier::external_body]
    pub fn next_id(&self) -> RequestId { unimplemented!() }
    #[verifier::external_body]
    pub fn dynamic_register_capability(&self, registration_param: RegistrationParams) { }
    #[verifier::external_body]
    pub fn dynamic_unregister_capability(&self, registration_param: UnregistrationParams) { }
    #[verifier::external_body]
    pub fn refresh_workspace_diagnostics(&self) { }
    #[verifier::external_body]
    pub fn publish_diagnostics(&self, params: PublishDiagnosticsParams) { }
}
impl StatusBar {
    pub open spec fn wf(&self) -> bool { self.client.wf() }
}
#[verifier::external_body]
pub struct RegistrationParams { _p: () }
#[verifier::external_body]
pub struct UnregistrationParams { _p: () }
/// util/time_cancel_token.rs: a token that a spawned timer task cancels after `time` (no lock)
#[verifier::external_body]
pub fn time_cancel_token(time: Duration) -> CancellationToken { unimplemented!() }
pub mod serde { pub trait Serialize {} }
/// the parameters of a client request / notification (struct literals of lsp_types, elided by rule c28-elide)
#[verifier::external_body]
pub struct VxParams { _p: () }
impl serde::Serialize for VxParams {}
#[verifier::external_body]
pub fn vx_params() -> VxParams { unimplemented!() }
/// `FUTURE.await` on a future that is not a call (rule c28-held): here only the oneshot receiver of a client response
pub trait VxFuture { type Output; }
#[verifier::external_body]
pub fn vx_await<F: VxFuture>(f: F, held: &mut Held) -> F::Output
    requires client_ok(*old(held)),
    ensures *final(held) == *old(held),
{ unimplemented!() }
pub mod oneshot {
    use super::*;
    #[verifier::external_body]
    #[verifier::reject_recursive_types(T)]
    pub struct Sender<T> { _p: PhantomData<T> }
    #[verifier::external_body]
    #[verifier::reject_recursive_types(T)]
    pub struct Receiver<T> { _p: PhantomData<T> }
    #[verifier::external_body]
    pub struct RecvError { _p: () }
    #[verifier::external_body]
    pub fn channel<T>() -> (Sender<T>, Receiver<T>) { unimplemented!() }
    impl<T> Sender<T> {
        /// synchronous
        #[verifier::external_body]
        pub fn send(self, t: T) -> Result<(), T> { unimplemented!() }
    }
    impl<T> VxFuture for Receiver<T> { type Output = Result<T, RecvError>; }
}
pub mod tokio {
pub mod sync { pub mod mpsc {
    use super::super::super::*;
    #[verifier::external_body]
    #[verifier::reject_recursive_types(T)]
    pub struct Sender<T> { _p: PhantomData<T> }
    #[verifier::external_body]
    #[verifier::reject_recursive_types(T)]
    pub struct Receiver<T> { _p: PhantomData<T> }
    #[verifier::external_body]
    #[verifier::reject_recursive_types(T)]
    pub struct SendError<T> { _p: PhantomData<T> }
    impl<T> Clone for Sender<T> {
        #[verifier::external_body]
        fn clone(&self) -> Self { unimplemented!() }
    }
    /// a BOUNDED channel: `send` waits for capacity, `recv` for a message of another task. `needs` (rule c28-held, computed by unit.py from the
    /// spawn bodies of the receiving fn) = the locks the producing tasks take
    #[verifier::external_body]
    pub fn channel<T>(buffer: usize) -> (Sender<T>, Receiver<T>) { unimplemented!() }
    impl<T> Sender<T> {
        #[verifier::external_body]
        pub fn send(&self, value: T, held: &mut Held) -> Result<(), SendError<T>>
            requires may_wait_long(*old(held)),
            ensures *final(held) == *old(held),
        { unimplemented!() }
    }
    impl<T> Receiver<T> {
        #[verifier::external_body]
        pub fn recv(&mut self, held: &mut Held, needs: JoinNeeds) -> Option<T>
            requires may_wait_long(*old(held)), join_ok(*old(held), needs.s@),
            ensures *final(held) == *old(held),
        { unimplemented!() }
    }
} }
pub mod time {
    use super::super::*;
    /// tokio::time::sleep(d).await: a timer
    #[verifier::external_body]
    pub fn sleep(d: Duration, held: &mut Held)
        requires may_wait_long(*old(held)),
        ensures *final(held) == *old(held),
    { }
} }
/// `tokio::select!` (rule c28-select-seq): the task is suspended until one of the branch futures completes; which one is not known
#[verifier::external_body]
pub fn vx_select(held: &mut Held) -> bool
    requires may_wait_long(*old(held)),
    ensures *final(held) == *old(held),
{ unimplemented!() }

/// a spawned task (rule c28-spawn-out): its body is a separate item of this unit, starting with `held == {}`
#[verifier::external_body]
pub fn vx_spawned() { }
#[verifier::external_body]
pub fn vx_u32() -> u32 { unimplemented!() }
#[derive(Clone, Copy)]
pub enum ProgressTask { LoadWorkspace, DiagnoseWorkspace, RefreshIndex }
impl StatusBar {
    #[verifier::external_body]
    pub fn update_progress_task(&self, task: ProgressTask, percentage: Option<u32>, message: Option<String>) { }
    #[verifier::external_body]
    pub fn finish_progress_task(&self, task: ProgressTask, message: Option<String>) { }
}
/// std: "Replaces the actual value in the option by the value given in parameter, returning the old value if present"
pub assume_specification<T>[ Option::<T>::replace ](o: &mut Option<T>, value: T) -> (r: Option<T>)
    ensures r == *old(o), *final(o) == Some(value);

// ---- handlers/initialized, context/workspace_manager.rs: synchronous helpers --------------------------------------------------------
pub struct CmdBool(pub bool);
pub struct NoneableString(pub Option<String>);
pub struct CmdArgs { pub load_stdlib: CmdBool, pub resources_path: NoneableString }
#[verifier::external_body]
pub struct InitializeParams { _p: () }
#[verifier::external_body]
pub struct LoadedFile { _p: () }
#[verifier::external_body]
pub fn build_workspace_folders(workspace_folders: &Vec<WorkspaceFolder>, emmyrc: &Emmyrc) -> Vec<WorkspaceFolder> { unimplemented!() }
/// blocking directory walk + file reads (not covered: blocking calls inside handlers)
#[verifier::external_body]
pub fn collect_workspace_files(workspaces: &Vec<WorkspaceFolder>, emmyrc: &Arc<Emmyrc>, a: Option<()>, b: Option<()>) -> Vec<LoadedFile> { unimplemented!() }
#[verifier::external_body]
pub fn vx_files() -> Vec<(PathBuf, Option<String>)> { unimplemented!() }
#[verifier::external_body]
pub fn try_generate_translated_std() { }
/// workspace_manager.rs:243: reads the config files (blocking IO, no lock)
#[verifier::external_body]
pub fn load_emmy_config(config_root: Option<PathBuf>, client_config: ClientConfig) -> Arc<Emmyrc> { unimplemented!() }
#[verifier::external_body]
pub fn vx_config_root() -> Option<PathBuf> { unimplemented!() }
impl PartialEq for ClientConfig {
    #[verifier::external_body]
    fn eq(&self, other: &Self) -> bool { unimplemented!() }
}
impl ClientId {
    #[verifier::external_body]
    pub fn is_vscode(&self) -> bool { unimplemented!() }
    #[verifier::external_body]
    pub fn is_intellij(&self) -> bool { unimplemented!() }
    #[verifier::external_body]
    pub fn is_other(&self) -> bool { unimplemented!() }
}
#[verifier::external_body]
pub struct AtomicU8 { _p: () }
#[verifier::external_body]
pub struct AtomicU64 { _p: () }
pub enum Ordering { Acquire, Release, AcqRel }
impl AtomicU8 {
    #[verifier::external_body]
    pub fn store(&self, v: u8, o: Ordering) { }
}
impl AtomicU64 {
    #[verifier::external_body]
    pub fn load(&self, o: Ordering) -> u64 { unimplemented!() }
}
impl WorkspaceDiagnosticLevel {
    #[verifier::external_body]
    pub fn to_u8(self) -> u8 { unimplemented!() }
}
impl LspFeatures {
    #[verifier::external_body]
    pub fn supports_work_done_progress(&self) -> bool { unimplemented!() }
}
/// workspace_manager.rs:296-336: a debounce timer; `wait` selects over `tokio::time::sleep` and `cancelled()` (no lock)
#[verifier::external_body]
pub struct DebounceToken { _p: () }
impl DebounceToken {
    #[verifier::external_body]
    pub fn wait(&self, held: &mut Held)
        requires may_wait_long(*old(held)),
        ensures *final(held) == *old(held),
    { }
    #[verifier::external_body]
    pub fn is_cancelled(&self) -> bool { unimplemented!() }
}
impl PendingTask {
    /// std::sync::Mutex, a leaf: nothing is acquired or awaited while it is held (workspace_manager.rs:341-366)
    #[verifier::external_body]
    pub fn clear(&self, finished_token: &Arc<DebounceToken>) { }
}
#[verifier::external_body]
pub fn vx_removed_actions() -> Vec<OpenFileSyncAction> { unimplemented!() }
#[verifier::external_body]
pub fn vx_updates() -> Vec<(Uri, Option<String>)> { unimplemented!() }
impl WorkspaceManager {
    #[verifier::external_body]
    pub fn workspace_open_files_snapshot(&self) -> OpenFilesSnapshot { unimplemented!() }
}
/// workspace_manager.rs:397: synchronous, bumps `reload_generation` and SPAWNS the reload task (item `spawn_workspace_reload_task::task`)
#[verifier::external_body]
pub fn spawn_workspace_reload_task(handles: ReloadTaskHandles, context: ServerContextSnapshot, workspace_folders: Vec<WorkspaceFolder>, emmyrc: Arc<Emmyrc>) { }
impl ReloadTaskHandles {
    pub open spec fn wf(&self) -> bool { self.reload_lock.id() == L::ReloadLock && self.file_diagnostic.wf() && self.client.wf() }
}

// ---- handlers/text_document/register_file_watch.rs: synchronous helpers -----------------------------------------------------------------
impl WorkspaceFileMatcher {
    #[verifier::external_body]
    pub fn watch_roots(&self) -> Vec<PathBuf> { unimplemented!() }
    #[verifier::external_body]
    pub fn source_file_globs(&self) -> &[String] { unimplemented!() }
}
#[verifier::external_body]
pub fn reduce_watch_roots(roots: Vec<PathBuf>) -> Vec<PathBuf> { unimplemented!() }
#[verifier::external_body]
pub fn build_watch_registration_plan(supports_dynamic_watch: bool, workspace_folders: &Vec<WorkspaceFolder>, watch_roots: Vec<PathBuf>) -> WatchRegistrationPlan { unimplemented!() }
/// register_file_watch.rs:119-161: synchronous, `client.dynamic_(un)register_capability` = a request that is not waited for
#[verifier::external_body]
pub fn register_files_watch_use_lsp_client(client: &ClientProxy, source_file_globs: &[String]) { }
#[verifier::external_body]
pub fn unregister_files_watch_use_lsp_client(client: &ClientProxy) { }
/// register_file_watch.rs:168-201: creates the notify watcher and watches the roots (synchronous)
#[verifier::external_body]
pub fn vx_watcher() -> RecommendedWatcher { unimplemented!() }

// ---- context/mod.rs ---------------------------------------------------------------------------------------------------------------
impl ServerContextInner {
    pub open spec fn wf(&self) -> bool {
        self.analysis.id() == L::Analysis && self.workspace_manager.id() == L::WorkspaceManager && self.client.wf()
            && self.file_diagnostic.wf() && self.status_bar.wf()
    }
}
impl ServerContext {
    pub open spec fn wf(&self) -> bool { self.cancellations.id() == L::Cancellations && self.inner.wf() }
}
// ---- handlers: configuration, did_rename_files, diagnostics, commands ------------------------------------------------------------------
#[verifier::external_body]
pub struct DidChangeConfigurationParams { _p: () }
pub struct FileRename { pub old_uri: String, pub new_uri: String }
pub struct RenameFilesParams { pub files: Vec<FileRename> }
impl Uri {
    #[verifier::external_body]
    pub fn from_str(s: &String) -> Result<Uri, ()> { unimplemented!() }
}
pub struct RenameInfo { pub old_uri: Uri, pub new_uri: Uri }
impl Clone for RenameInfo {
    #[verifier::external_body]
    fn clone(&self) -> Self { unimplemented!() }
}
#[verifier::external_body]
pub fn collect_rename_info(old_uri: &Uri, new_uri: &Uri, module_index: &LuaModuleIndex) -> Option<RenameInfo> { unimplemented!() }
/// blocking directory walk (not covered: blocking calls)
#[verifier::external_body]
pub fn collect_directory_lua_files(old_path: &PathBuf, new_path: &PathBuf, module_index: &LuaModuleIndex) -> Option<Vec<RenameInfo>> { unimplemented!() }
#[verifier::external_body]
pub struct VxChanges { _p: () }
impl VxChanges {
    #[verifier::external_body]
    pub fn is_empty(&self) -> bool { unimplemented!() }
}
#[verifier::external_body]
pub fn try_modify_require_path(compilation: &LuaCompilation, renames: &Vec<RenameInfo>) -> Option<VxChanges> { unimplemented!() }
#[verifier::external_body]
pub fn vx_bool() -> bool { unimplemented!() }
pub struct MessageActionItem { pub title: String }
#[verifier::external_body]
pub struct ApplyWorkspaceEditResponse { _p: () }
pub type ConfigurationParams = VxParams;
pub type ShowMessageRequestParams = VxParams;
pub type ApplyWorkspaceEditParams = VxParams;
pub trait DeserializeOwned {}
impl DeserializeOwned for Value {}
impl DeserializeOwned for VscodeFilesConfig {}
#[verifier::external_body]
pub struct VscodeFilesConfig { _p: () }
pub mod serde_json {
    use super::*;
    #[verifier::external_body]
    pub fn from_value<T>(v: Value) -> Result<T, ()> { unimplemented!() }
}
pub struct WorkspaceDiagnosticReport { pub items: Vec<VxParams> }
#[verifier::external_body]
pub fn vx_report() -> WorkspaceDiagnosticReport { unimplemented!() }
impl LspFeatures {
    #[verifier::external_body]
    pub fn supports_refresh_diagnostic(&self) -> bool { unimplemented!() }
}
#[verifier::external_body]
pub fn load_configs_raw(files: Vec<PathBuf>, partial: Option<Vec<Value>>) -> Value { unimplemented!() }
impl PathBuf {
    #[verifier::external_body]
    pub fn join(&self, s: &str) -> PathBuf { unimplemented!() }
}
/// `Vec::extend` (outside vstd): opaque, the element values are irrelevant here
#[verifier::external_body]
pub fn vx_extend<T>(v: &mut Vec<T>, more: Vec<T>) { }

// ---- handlers/initialized/client_config ------------------------------------------------------------------------------------------------
/// default_config.rs:22-26 / :47-79: building the request parameters, filtering / logging / storing the fetched values (no lock, no await)
#[verifier::external_body]
pub fn vx_scopes(scopes: Option<&[&str]>) -> Vec<String> { unimplemented!() }
#[verifier::external_body]
pub fn vx_store_configs(config: &mut ClientConfig, fetched: Vec<Value>) { }
#[verifier::external_body]
pub fn vx_store_files_configs(config: &mut ClientConfig, fetched: Vec<VscodeFilesConfig>) { }

/// the locks the tasks need whose results a channel `recv` waits for (an erased value handed to `recv` by rule c28-held; unit.py derives which
/// constructor from the acquisitions inside the spawn bodies of the receiving fn: exactly {analysis}, or — whenever it is anything else — every lock)
pub struct JoinNeeds { pub s: Ghost<Set<L>> }
pub open spec fn only_analysis() -> Set<L> { set![L::Analysis] }
pub fn vx_join_analysis() -> (r: JoinNeeds) ensures r.s@ == only_analysis() { JoinNeeds { s: Ghost(only_analysis()) } }
pub open spec fn all_locks() -> Set<L> {
    set![L::ReloadLock, L::WorkspaceManager, L::Analysis, L::DiagnosticTokens, L::WorkspaceDiagnosticToken, L::ResponseManager, L::Cancellations]
}
pub fn vx_join_all() -> (r: JoinNeeds) ensures r.s@ == all_locks() { JoinNeeds { s: Ghost(all_locks()) } }
