"""Rewrite rules of unit c28_locks (C28: lock-order discipline of emmylua_ls).

Rule family `c28-held`: the set of locks a task holds becomes the explicit ghost parameter `held` (state-passing form, the
technique of unit c36_channel's `ch` and unit c39_write's `disk`):

  (h1) `async fn f(P) -> T` -> `fn f(P, held: &mut Held) -> T`; `E(args).await` -> `E(args, held)`: EVERY await point of the
       text is a call that is handed `held` (an await is the only place where a tokio lock can be acquired and the only place
       where the task can be suspended while it holds `held`); `X.read().await` / `X.write().await` / `X.lock().await` are the
       special case `X.read(held)`... whose shim contract carries the rank / re-entrancy precondition.
  (h2) guards follow Rust's drop rules, written out as ghost releases:
       * a guard bound by `let g = X.read().await;` lives to the end of the innermost enclosing block: the rule records its ghost key
         (`let ghost vx_kN = g.key();`) and inserts `vx_scope_end(held, Ghost(vx_kN));` at the end of that block (after the block's
         tail expression has been evaluated: `{ ..; TAIL }` -> `{ ..; let vx_t = TAIL; ENDS vx_t }`), in front of every `return`,
         on the `None` path of every `?` (`E?` -> `match E { Some(v) => v, None => { ENDS return None; } }`, the std definition of
         `?` on Option), and in front of `break` / `continue` (guards declared inside the loop body).
         `vx_scope_end` releases the lock only if THAT guard instance is still live (Rust's drop flag: a guard that was moved into
         `drop(g)` is not dropped again), so inserting it for every guard that is lexically in scope is exact.
       * `drop(g)` -> `vx_drop(g, held, Ghost(vx_kN))` (the key of the latest in-scope guard of that name).
       * a TEMPORARY guard (`X.read().await.foo()`, not bound) lives to the end of the enclosing statement: the rule binds it
         (`let mut vx_gN = X.read().await; <statement with vx_gN>; drop(vx_gN);`, the drop then becomes a `vx_drop` like any other). This is only done when the acquisition is the
         leftmost sub-expression of a `let` / expression statement (so that hoisting it does not change the evaluation order), or the
         head of the second operand of `||` / `&&` (a temporary scope of its own: `A || B` -> `A || { let mut g = ..; let vx_b = g.REST; drop(g); vx_b }`).
       * `let _ = g;` does not move `g` (the wildcard pattern binds nothing): untouched, the guard stays live.
  (h3) `tokio::spawn(async move { BODY });` -> `vx_spawned();`: the task body is verified as its own item (a statement slice) that
       starts with `held == {}`; nothing of the spawning task's `held` is visible to it and vice versa.
  (h4) `tokio::select! { P1 = F1 => B1, P2 = F2 => B2 }` -> `if vx_select(held) { let P1 = F1.await; B1 } else { let P2 = F2.await; B2 }`:
       exactly one branch runs, after its future completed; the select is itself a suspension point.
Everything else is left as it is."""
import re

from vc import rustlex as L
from vc import extract as X
from vc.extract import Undecided
from vc.rules import rule

ACQ = ('read', 'write', 'lock')


def _T(text, toks):
    return lambda i: L.tok_text(text, toks[i]) if 0 <= i < len(toks) else ''


def _apply(text, edits):
    for a, b, new in sorted(edits, key=lambda e: (e[0], e[1]), reverse=True):
        text = text[:a] + new + text[b:]
    return text


def _chain_start(text, toks, i):
    """toks[i] is the last token of a postfix chain (ident, `)`, `]`, `?`); return the index of its first token"""
    T = _T(text, toks)
    j = i
    while True:
        t = T(j)
        if t in (')', ']'):
            depth = 0
            while j >= 0:
                c = T(j)
                if c in (')', ']', '}'): depth += 1
                elif c in ('(', '[', '{'):
                    depth -= 1
                    if depth == 0: break
                j -= 1
            # what is in front of the opening bracket?
            p = T(j - 1)
            if toks[j - 1][0] == 'ident' and p not in ('let', 'return', 'if', 'while', 'match', 'in', 'else', '=', 'mut'):
                j -= 1; continue        # call / method name / index base: goes on
            if p in (')', ']', '?'):
                j -= 1; continue
            if p == '>':
                raise Undecided('c28: turbofish in a postfix chain is not handled')
            return j                    # parenthesised expression
        if t == '?':
            j -= 1; continue
        if toks[j][0] in ('ident', 'num'):
            p = T(j - 1)
            if p == '.':
                j -= 2; continue
            if p == ':' and T(j - 2) == ':':
                j -= 3; continue
            return j
        raise Undecided('c28: cannot find the start of a postfix chain at %r' % text[toks[j][1] - 20:toks[j][2] + 10])


def _stmt_end(text, toks, i):
    """index of the `;` that ends the statement containing toks[i] (depth 0 from i)"""
    T = _T(text, toks)
    j = i
    while j < len(toks):
        t = T(j)
        if t in ('(', '[', '{'):
            j = L.match_close(text, toks, j) + 1; continue
        if t in (')', ']', '}'):
            raise Undecided('c28: statement does not end with `;`')
        if t == ';':
            return j
        j += 1
    raise Undecided('c28: statement end not found')


# ------------------------------------------------------------------------------------------------------------------
@rule('c28-cfg-not-test')
def cfg_not_test(text, **_):
    """the production build: a statement under `#[cfg(test)]` is removed, `#[cfg(not(test))]` in front of a statement / block is
    dropped (the statement stays)"""
    n = 0
    while True:
        toks = L.code_tokens(text)
        T = _T(text, toks)
        hit = None
        for i in range(len(toks) - 6):
            if T(i) == '#' and T(i + 1) == '[' and T(i + 2) == 'cfg' and T(i + 3) == '(':
                c = L.match_close(text, toks, i + 1)
                inner = ''.join(T(k) for k in range(i + 4, c - 1))
                if inner == 'test':
                    e = _stmt_end(text, toks, c + 1)
                    hit = (toks[i][1], toks[e][2], '')
                elif inner == 'not(test)':
                    hit = (toks[i][1], toks[c][2], '')
                else:
                    continue
                break
        if not hit: break
        text = text[:hit[0]] + hit[2] + text[hit[1]:]
        n += 1
    return text, n


@rule('c28-drop-log')
def drop_log(text, **_):
    """`log::info!(..);` / `info!(..)` / `debug!` / `warn!` / `error!` are removed: a log line is no lock event. The arguments are
    Debug / Display formatting of values (checked: no `.await` inside)"""
    n = 0
    while True:
        toks = L.code_tokens(text)
        T = _T(text, toks)
        hit = None
        for i in range(len(toks) - 2):
            if toks[i][0] == 'ident' and T(i) in ('info', 'debug', 'warn', 'error') and T(i + 1) == '!' and T(i + 2) == '(':
                c = L.match_close(text, toks, i + 2)
                if re.search(r'\.\s*await\b', text[toks[i][1]:toks[c][2]]):
                    raise Undecided('c28-drop-log: a log macro argument awaits')
                a = i
                if T(i - 1) == ':' and T(i - 2) == ':' and T(i - 3) == 'log': a = i - 3
                b = c
                if T(c + 1) == ';': b = c + 1
                hit = (toks[a][1], toks[b][2], '' if T(b) == ';' else '()')
                break
        if not hit: break
        text = text[:hit[0]] + hit[2] + text[hit[1]:]
        n += 1
    return text, n


@rule('c28-opaque-macros')
def opaque_macros(text, **_):
    """`format!(..)` -> `vx_string()`, `t!(..)` -> `vx_str()`: message text is no lock event (opaque String / &str; checked: no `.await` inside)"""
    n = 0
    while True:
        toks = L.code_tokens(text)
        T = _T(text, toks)
        hit = None
        for i in range(len(toks) - 2):
            if toks[i][0] == 'ident' and T(i) in ('format', 't') and T(i + 1) == '!' and T(i + 2) == '(':
                c = L.match_close(text, toks, i + 2)
                if re.search(r'\.\s*await\b', text[toks[i][1]:toks[c][2]]):
                    raise Undecided('c28-opaque-macros: a macro argument awaits')
                hit = (toks[i][1], toks[c][2], 'vx_string()' if T(i) == 'format' else 'vx_str()')
                break
        if not hit: break
        text = text[:hit[0]] + hit[2] + text[hit[1]:]
        n += 1
    return text, n


@rule('c28-spawn-out')
def spawn_out(text, **_):
    """(h3) `tokio::spawn(async move { BODY });` -> `vx_spawned();` — the body is a separate item of the unit that starts with
    `held == {}` (unit.py lists, per spawn, the item that carries the body, or `not_covered`)"""
    n = 0
    while True:
        toks = L.code_tokens(text)
        T = _T(text, toks)
        hit = None
        for i in range(len(toks) - 8):
            if (T(i) == 'tokio' and T(i + 1) == ':' and T(i + 2) == ':' and T(i + 3) == 'spawn' and T(i + 4) == '('
                    and T(i + 5) == 'async' and T(i + 6) == 'move' and T(i + 7) == '{'):
                bc = L.match_close(text, toks, i + 7)
                pc = L.match_close(text, toks, i + 4)
                if pc != bc + 1 or T(pc + 1) != ';':
                    raise Undecided('c28-spawn-out: spawn is not a statement `tokio::spawn(async move { .. });`')
                hit = (toks[i][1], toks[pc + 1][2], 'vx_spawned();')
                break
        if not hit: break
        text = text[:hit[0]] + hit[2] + text[hit[1]:]
        n += 1
    return text, n


@rule('c28-select-seq')
def select_seq(text, **_):
    """(h4) `[tokio::]select! { P1 = F1 => B1[,] P2 = F2 => B2[,] }` -> `if vx_select().await { let P1 = F1.await; B1 } else { let P2 = F2.await; B2 }`
    (two arms). `vx_select` is a suspension point (rule c28-held hands it `held`); the branch futures are awaited like any other."""
    n = 0
    while True:
        toks = L.code_tokens(text)
        T = _T(text, toks)
        hit = None
        for i in range(len(toks) - 3):
            if T(i) == 'select' and T(i + 1) == '!' and T(i + 2) == '{':
                a = i
                if T(i - 1) == ':' and T(i - 2) == ':' and T(i - 3) == 'tokio': a = i - 3
                c = L.match_close(text, toks, i + 2)
                arms = []
                k = i + 3
                while k < c:
                    # PAT = FUT => BODY
                    p0 = k
                    while T(k) != '=' or T(k + 1) == '>': k += 1
                    pat = text[toks[p0][1]:toks[k - 1][2]]
                    f0 = k + 1
                    k = f0
                    while not (T(k) == '=' and T(k + 1) == '>'):
                        if T(k) in ('(', '[', '{'): k = L.match_close(text, toks, k)
                        k += 1
                    fut = text[toks[f0][1]:toks[k - 1][2]]
                    b0 = k + 2
                    if T(b0) == '{':
                        be = L.match_close(text, toks, b0)
                        body = text[toks[b0][2]:toks[be][1]]
                        k = be + 1
                    else:
                        k = b0
                        while k < c and T(k) != ',':
                            if T(k) in ('(', '[', '{'): k = L.match_close(text, toks, k)
                            k += 1
                        body = text[toks[b0][1]:toks[k - 1][2]]
                    if T(k) == ',': k += 1
                    arms.append((pat, fut, body))
                if len(arms) != 2:
                    raise Undecided('c28-select-seq: select! with %d arms' % len(arms))
                new = 'if vx_select().await { let %s = %s.await; %s } else { let %s = %s.await; %s }' % (
                    arms[0][0], arms[0][1], arms[0][2], arms[1][0], arms[1][1], arms[1][2])
                hit = (toks[a][1], toks[c][2], new)
                break
        if not hit: break
        text = text[:hit[0]] + hit[2] + text[hit[1]:]
        n += 1
    return text, n


@rule('c28-elide')
def elide(text, regions=(), allow_exit=False, **_):
    """a region of text (two anchor regexes, inclusive) that contains no lock event is removed or replaced by an OPAQUE value (`repl`, a
    `vx_*` shim without contract): checked mechanically — no `.await`, no `drop(`, no `return` / `?` / `break` / `continue`, no `spawn`,
    no `select!`, no `read` / `write` / `lock`. Values the region defined and the rest uses must be supplied by `repl` (otherwise the unit
    does not compile: undecided). Used for message building / progress arithmetic / iterator pipelines / struct literals of lsp_types
    that are outside Verus' dialect or would only add shims. Sound for C28 because the lock events and the control flow around them stay."""
    n = 0
    for frm, to, repl in regions:
        ms = list(re.finditer(frm, text, flags=re.S))
        if len(ms) != 1:
            raise Undecided('c28-elide: anchor /%s/ matched %d times' % (frm, len(ms)))
        a = ms[0].start()
        me = re.search(to, text[a:], flags=re.S)
        if not me:
            raise Undecided('c28-elide: end anchor /%s/ not found' % to)
        b = a + me.end()
        region = text[a:b]
        toks = L.code_tokens(region)
        words = {L.tok_text(region, t) for t in toks if t[0] == 'ident'}
        bad = words & {'await', 'drop', 'return', 'break', 'continue', 'spawn', 'select', 'read', 'write', 'lock'}
        tries = any(L.tok_text(region, t) == '?' for t in toks)
        if allow_exit:
            # `return` / `?` of a CLOSURE inside the region (it leaves the closure, not the fn), or an early exit of the fn that is
            # over-approximated by going on (every later lock event is still checked; an exit releases everything)
            bad -= {'return'}; tries = False
        if bad or tries:
            raise Undecided('c28-elide: region /%s/ contains a lock event or a control transfer: %s' % (frm, sorted(bad) or '?'))
        text = text[:a] + repl + text[b:]
        n += 1
    return text, n


@rule('c28-for-next')
def for_next(text, **_):
    """`for PAT in EXPR { B }` -> `let mut vx_itN = vx_iter(EXPR); while let Some(PAT) = vx_itN.next() { B }`: the definition of `for` (Rust
    reference: IntoIterator::into_iter, then `next()` until None). Needed because Verus' `for` does not take `continue`; the iterator is opaque."""
    n = 0
    while True:
        toks = L.code_tokens(text)
        T = _T(text, toks)
        hit = None
        for i in range(len(toks)):
            if toks[i][0] == 'ident' and T(i) == 'for' and T(i + 1) != '<' and T(i - 1) in (';', '{', '}'):
                j = i + 1
                while not (toks[j][0] == 'ident' and T(j) == 'in'):
                    if T(j) in ('(', '['): j = L.match_close(text, toks, j)
                    j += 1
                k = j + 1
                while T(k) != '{':
                    if T(k) in ('(', '['): k = L.match_close(text, toks, k)
                    k += 1
                n += 1
                pat = text[toks[i + 1][1]:toks[j - 1][2]]
                expr = text[toks[j + 1][1]:toks[k - 1][2]]
                hit = (toks[i][1], toks[k][1], 'let mut vx_it%d = vx_iter(%s); while let Some(%s) = vx_it%d.next() ' % (n, expr, pat, n))
                break
        if not hit: break
        text = text[:hit[0]] + hit[2] + text[hit[1]:]
    return text, n


# ------------------------------------------------------------------------------------------------------------------
class _Guard:
    pass


def _guards(text, toks):
    """guard table from the ghost-key lets inserted by pass P4: `let ghost vx_kN = NAME.key();`"""
    T = _T(text, toks)
    out = []
    for i in range(len(toks) - 8):
        if T(i) == 'let' and T(i + 1) == 'ghost' and T(i + 2).startswith('vx_k') and T(i + 3) == '=' and T(i + 5) == '.' and T(i + 6) == 'key':
            g = _Guard()
            g.key, g.name, g.decl = T(i + 2), T(i + 4), i
            # innermost enclosing brace pair
            depth, j = 0, i
            while j >= 0:
                c = T(j)
                if c in (')', ']', '}'): depth += 1
                elif c in ('(', '[', '{'):
                    if depth == 0: break
                    depth -= 1
                j -= 1
            if j < 0 or T(j) != '{':
                raise Undecided('c28: guard %s is not declared directly in a block' % g.name)
            g.open, g.close = j, L.match_close(text, toks, j)
            out.append(g)
    return out


def _in_scope(guards, idx):
    gs = [g for g in guards if g.decl < idx and g.open < idx < g.close]
    return sorted(gs, key=lambda g: -g.decl)


def _ends(gs):
    return ''.join('vx_scope_end(held, Ghost(%s)); ' % g.key for g in gs)


def _enclosing(text, toks, idx):
    """stack of indices of the open brackets enclosing toks[idx], innermost last"""
    T = _T(text, toks)
    st = []
    for j in range(idx):
        c = T(j)
        if toks[j][0] != 'punct': continue
        if c in ('(', '[', '{'): st.append(j)
        elif c in (')', ']', '}'): st.pop()
    return st


def _closure_check(text, toks, idx, what):
    """`return` / `?` inside a closure or an async block exits that closure, not the fn: not handled -> undecided"""
    T = _T(text, toks)
    for o in _enclosing(text, toks, idx):
        c = T(o)
        if c in ('(', '['):
            for k in range(o + 1, idx):
                if T(k) == '|' and len([x for x in _enclosing(text, toks, k) if x >= o]) == 1:
                    raise Undecided('c28: `%s` inside a closure argument is not handled' % what)
        elif c == '{':
            if T(o - 1) in ('|', 'move', 'async'):
                raise Undecided('c28: `%s` inside a closure / async block is not handled' % what)


def _held_pass_sig(text):
    sh = X.fn_shape(text)
    # `_: T` parameters get a name (Verus wants identifier patterns; an unused parameter named or not is the same fn)
    params = text[sh.params[0]:sh.params[1]]
    cnt = [0]
    def _name(m):
        cnt[0] += 1
        return '%s_vx_unused%d:' % (m.group(1), cnt[0])
    params2 = re.sub(r'([(,]\s*)_\s*:', _name, params)
    text = text[:sh.params[0]] + params2 + text[sh.params[1]:]
    sh = X.fn_shape(text)
    text2, n = re.subn(r'\basync\s+fn\b', 'fn', text[:sh.params[1]], count=1)
    delta = len(text2) - sh.params[1]
    text = text2 + text[sh.params[1]:]
    pe = sh.params[1] + delta - 1            # position of `)`
    inner = text[:pe].rstrip()
    if inner.endswith('('):
        add = 'held: &mut Held'
    elif inner.endswith(','):
        add = ' held: &mut Held'
    else:
        add = ', held: &mut Held'
    return inner + add + text[pe:]


def _hoist_temps(text):
    k = 0
    while True:
        toks = L.code_tokens(text)
        T = _T(text, toks)
        hit = None
        for i in range(1, len(toks) - 5):
            if T(i) == '.' and T(i + 1) in ACQ and T(i + 2) == '(' and T(i + 3) == ')' and T(i + 4) == '.' and T(i + 5) == 'await' and T(i + 6) == '.':
                cs = _chain_start(text, toks, i - 1)
                lazy = (T(cs - 1) == T(cs - 2) and T(cs - 1) in ('|', '&') and toks[cs - 1][1] == toks[cs - 2][2]
                        and (T(cs - 3) in (')', ']', '?') or toks[cs - 3][0] in ('ident', 'num', 'str')))
                if lazy:
                    # the temporary is (the head of) the SECOND OPERAND OF A LAZY BOOLEAN expression `A || B` / `A && B`: that operand is a
                    # temporary scope of its own (Rust reference, temporary scopes), so the guard is dropped when B has been evaluated, while
                    # everything A left held is still held:  A || B  ->  A || { let mut g = ACQ; let vx_b = g.REST; drop(g); vx_b }
                    e = i + 6
                    while e < len(toks):
                        t = T(e)
                        if t in ('(', '['):
                            e = L.match_close(text, toks, e) + 1; continue
                        if t in (';', ',', ')', ']', '}', '{'): break
                        if t in ('|', '&') and T(e + 1) == t and toks[e + 1][1] == toks[e][2]: break
                        e += 1
                    k += 1
                    g = 'vx_g%d' % k
                    acq = text[toks[cs][1]:toks[i + 5][2]]
                    rest = text[toks[i + 5][2]:toks[e - 1][2]]
                    hit = (toks[cs][1], toks[e - 1][2], '{ let mut %s = %s; let vx_b = %s%s; drop(%s); vx_b }' % (g, acq, g, rest, g))
                    break
                # the statement: `let PAT = CHAIN...;` or `CHAIN...;`
                s = cs
                if T(cs - 1) == '=':
                    s = cs - 1
                    while s >= 0 and T(s) != 'let':
                        if T(s) in (';', '{', '}'): raise Undecided('c28: temporary guard in an assignment')
                        s -= 1
                if T(s - 1) not in (';', '{', '}'):
                    raise Undecided('c28: a temporary guard is not the leftmost sub-expression of a statement: %r' % text[toks[cs][1]:toks[i + 5][2]])
                e = _stmt_end(text, toks, i + 6)
                k += 1
                g = 'vx_g%d' % k
                acq = text[toks[cs][1]:toks[i + 5][2]]
                stmt = text[toks[s][1]:toks[cs][1]] + g + text[toks[i + 5][2]:toks[e][2]]
                hit = (toks[s][1], toks[e][2], 'let mut %s = %s; %s drop(%s);' % (g, acq, stmt, g))
                break
        if not hit: break
        text = text[:hit[0]] + hit[2] + text[hit[1]:]
    return text, k


def _awaits(text, fn_name, long_names, client_names=(), join='vx_join_all()'):
    n_acq = n_call = 0
    while True:
        toks = L.code_tokens(text)
        T = _T(text, toks)
        hit = None
        for i in range(1, len(toks)):
            if not (toks[i][0] == 'ident' and T(i) == 'await' and T(i - 1) == '.'):
                continue
            a = toks[i - 1][1]
            while a > 0 and text[a - 1] in ' \t\n': a -= 1
            b = toks[i][2]
            if T(i - 2) == ')':
                # a call: find `(`
                depth, j = 0, i - 2
                while True:
                    c = T(j)
                    if c in (')', ']', '}'): depth += 1
                    elif c in ('(', '[', '{'):
                        depth -= 1
                        if depth == 0: break
                    j -= 1
                name = T(j - 1)
                extra = ''
                if name == '>':
                    # `callee::<T>(..)`: the callee is in front of the turbofish
                    d, q = 0, j - 1
                    while q > 0:
                        if T(q) == '>': d += 1
                        elif T(q) == '<':
                            d -= 1
                            if d == 0: break
                        q -= 1
                    if T(q - 1) == ':' and T(q - 2) == ':': name = T(q - 3)
                empty = (j == i - 3)
                if name in ACQ and empty and T(j - 2) == '.':
                    label = '/*@C28.order.%s*/' % fn_name
                    n_acq += 1
                elif name in client_names:
                    label = '/*@C28.no-client-round-trip-under-any-guard.%s*/' % fn_name
                    n_call += 1
                elif name == 'recv':
                    # waiting for the results of spawned tasks: the shim is also told which locks those tasks take
                    label = '/*@C28.no-task-join-under-guard.%s*/' % fn_name
                    extra = ', %s' % join
                    n_call += 1
                elif name in long_names:
                    label = '/*@C28.no-long-await-under-write-lock.%s*/' % fn_name
                    n_call += 1
                else:
                    label = '/*@C28.order.%s*/' % fn_name
                    n_call += 1
                close = toks[i - 2][1]
                if T(i - 3) == ',':
                    edits = [(toks[i - 3][2], close, ' held' + extra), (toks[i - 2][2], b, ' ' + label)]
                else:
                    edits = [(close, close, ('held' if empty else ', held') + extra), (toks[i - 2][2], b, ' ' + label)]
                hit = edits
            else:
                cs = _chain_start(text, toks, i - 2)
                label = '/*@C28.no-client-round-trip-under-any-guard.%s*/' % fn_name
                hit = [(toks[cs][1], b, 'vx_await(%s, held) %s' % (text[toks[cs][1]:toks[i - 2][2]], label))]
                n_call += 1
            break
        if not hit: break
        text = _apply(text, hit)
    return text, n_acq, n_call


def _guard_lets(text):
    n = 0
    while True:
        toks = L.code_tokens(text)
        T = _T(text, toks)
        hit = None
        for i in range(1, len(toks) - 5):
            if T(i) == '.' and T(i + 1) in ACQ and T(i + 2) == '(' and T(i + 3) == 'held' and T(i + 4) == ')':
                if T(i + 5) != ';':
                    raise Undecided('c28: acquisition is neither bound by `let` nor a hoisted temporary: %r' % text[max(0, toks[i][1] - 40):toks[i + 4][2] + 10])
                if T(i + 6) == 'let' and T(i + 7) == 'ghost':
                    continue        # done
                cs = _chain_start(text, toks, i - 1)
                if T(cs - 1) != '=' or toks[cs - 2][0] != 'ident':
                    raise Undecided('c28: guard is not bound by `let NAME = ..`')
                name = T(cs - 2)
                s = cs - 3
                if T(s) == 'mut': s -= 1
                if T(s) != 'let':
                    raise Undecided('c28: guard is not bound by `let NAME = ..`')
                n += 1
                hit = (toks[i + 5][2], ' let ghost vx_k%d = %s.key();' % (n, name))
                break
        if not hit: break
        text = text[:hit[0]] + hit[1] + text[hit[0]:]
    return text, n


def _drops(text):
    toks = L.code_tokens(text)
    T = _T(text, toks)
    guards = _guards(text, toks)
    names = {g.name for g in guards}
    edits = []
    for i in range(len(toks) - 3):
        if T(i) == 'drop' and T(i + 1) == '(' and T(i + 2) in names and T(i + 3) == ')' and T(i - 1) not in ('.', 'fn', ':'):
            # the guard the name refers to: the latest declaration of that name that is in scope (shadowing)
            gs = [g for g in _in_scope(guards, i) if g.name == T(i + 2)]
            if not gs:
                raise Undecided('c28: drop(%s): no guard of that name is in scope' % T(i + 2))
            edits.append((toks[i][1], toks[i + 3][2], 'vx_drop(%s, held, Ghost(%s))' % (T(i + 2), gs[0].key)))
    return _apply(text, edits), len(edits)


def _returns(text):
    toks = L.code_tokens(text)
    T = _T(text, toks)
    guards = _guards(text, toks)
    edits = []
    for i in range(len(toks)):
        if toks[i][0] == 'ident' and T(i) == 'return':
            gs = _in_scope(guards, i)
            if not gs: continue
            _closure_check(text, toks, i, 'return')
            j = i + 1
            while T(j) not in (';', ',', '}', ')'):
                if T(j) in ('(', '[', '{'): j = L.match_close(text, toks, j)
                j += 1
            if j == i + 1:
                edits.append((toks[i][1], toks[i][2], '{ %sreturn; }' % _ends(gs)))
            else:
                edits.append((toks[i][1], toks[j - 1][2], '{ let vx_r = %s; %sreturn vx_r; }' % (text[toks[i + 1][1]:toks[j - 1][2]], _ends(gs))))
    return _apply(text, edits), len(edits)


def _tries(text, ret_option):
    n = 0
    skip = 0
    while True:
        toks = L.code_tokens(text)
        T = _T(text, toks)
        guards = _guards(text, toks)
        hit = None
        seen = 0
        for i in range(1, len(toks)):
            if T(i) == '?' and toks[i][0] == 'punct' and (T(i - 1) in (')', ']', '?') or toks[i - 1][0] == 'ident'):
                seen += 1
                if seen <= skip: continue
                gs = _in_scope(guards, i)
                if not gs:
                    skip = seen; continue
                _closure_check(text, toks, i, '?')
                if not ret_option:
                    raise Undecided('c28: `?` under a live guard in a fn that does not return Option')
                cs = _chain_start(text, toks, i - 1)
                operand = text[toks[cs][1]:toks[i][1]].rstrip()      # keeps a label comment that sits between the call and the `?`
                new = '(match %s { Some(vx_v) => vx_v, None => { %sreturn None; } })' % (operand, _ends(gs))
                hit = (toks[cs][1], toks[i][2], new)
                n += 1
                break
        if not hit: break
        text = text[:hit[0]] + hit[2] + text[hit[1]:]
    return text, n


def _loop_bodies(text, toks):
    sh = X.fn_shape(text)
    pos2idx = {t[1]: k for k, t in enumerate(toks)}
    return [(pos2idx[kw], pos2idx[bo]) for kw, bo in sh.loops]


def _breaks(text):
    toks = L.code_tokens(text)
    T = _T(text, toks)
    guards = _guards(text, toks)
    loops = _loop_bodies(text, toks)
    edits = []
    for i in range(len(toks)):
        if toks[i][0] == 'ident' and T(i) in ('break', 'continue'):
            inner = None
            for kw, bo in loops:
                bc = L.match_close(text, toks, bo)
                if bo < i < bc and (inner is None or bo > inner): inner = bo
            if inner is None:
                raise Undecided('c28: break/continue outside a loop')
            gs = [g for g in _in_scope(guards, i) if g.open >= inner]
            if not gs: continue
            if T(i + 1) not in (';', ',', '}'):
                raise Undecided('c28: break with a value / label')
            edits.append((toks[i][1], toks[i][2], '{ %s%s }' % (_ends(gs), T(i))))
    return _apply(text, edits), len(edits)


BLOCKLIKE = ('if', 'match', 'for', 'while', 'loop', 'unsafe')


def _tail_start(text, toks, o, c):
    """first token of the tail expression of the block toks[o]..toks[c], or c when the block has none"""
    T = _T(text, toks)
    j = o + 1
    while j < c:
        s = j
        first = T(s)
        ended = False
        while j < c:
            t = T(j)
            if t in ('(', '['):
                j = L.match_close(text, toks, j) + 1; continue
            if t == '{':
                j = L.match_close(text, toks, j) + 1
                if first in BLOCKLIKE or first == '{':
                    if T(j) in ('else', '.', '?'): continue      # the expression goes on
                    ended = True; break
                continue
            if t == 'else' and first in BLOCKLIKE:
                j += 1; continue
            if t == ';':
                j += 1; ended = True; break
            j += 1
        if not ended:
            return s                      # ran into the closing brace: a tail expression
        if j >= c and T(j - 1) == '}':
            # a block-like expression in tail position: its value is the value of the block (loops: unit)
            return c if first in ('for', 'while', 'loop') else s
    return c


def _block_ends(text):
    n = 0
    done = 0
    while True:
        toks = L.code_tokens(text)
        T = _T(text, toks)
        guards = _guards(text, toks)
        scopes = sorted({(g.open, g.close) for g in guards})
        if done >= len(scopes): break
        o, c = scopes[done]
        done += 1
        gs = sorted([g for g in guards if g.open == o], key=lambda g: -g.decl)
        ends = _ends(gs)
        ts = _tail_start(text, toks, o, c)
        if ts >= c:
            text = text[:toks[c][1]] + ends + text[toks[c][1]:]
        else:
            tail = text[toks[ts][1]:toks[c - 1][2]]
            text = text[:toks[ts][1]] + 'let vx_t = %s; %svx_t\n' % (tail, ends) + text[toks[c][1]:]
        n += 1
    return text, n


def _loop_invariants(text, extra):
    n = 0
    toks = L.code_tokens(text)
    T = _T(text, toks)
    edits = []
    for kw, bo in _loop_bodies(text, toks):
        bc = L.match_close(text, toks, bo)
        loop = text[toks[kw][1]:toks[bc][2]]
        if not re.search(r'\bheld\b', loop):
            continue
        if T(kw - 1) not in (';', '{', '}'):
            raise Undecided('c28: a loop that changes `held` is not in statement position')
        n += 1
        more = (' ' + extra[n].strip().rstrip(',') + ',') if n in extra else ''
        edits.append((toks[kw][1], toks[kw][1], 'let ghost vx_h%d = held.locks@; let ghost vx_n%d = held.next@;\n' % (n, n)))
        edits.append((toks[bo][1], toks[bo][1], '\ninvariant held.locks@ =~= vx_h%d /*@C28.held-restored.loop*/, held.next@ >= vx_n%d,%s\n' % (n, n, more)))
    for k in extra:
        if k > n: raise Undecided('c28-held: extra invariant for loop #%d but only %d loops touch `held`' % (k, n))
    return _apply(text, edits), n


@rule('c28-held')
def c28_held(text, fn=None, sig=True, long=(), client=(), join='vx_join_all()', ret_option=None, inv=None, **_):
    """(h1) + (h2) of the rule family `c28-held` (module docstring): thread the ghost `held`, write out the guard releases."""
    if fn is None:
        sh = X.fn_shape(text)
        fn = re.match(r'fn\s+(\w+)', text[sh.fn_kw:]).group(1)
    if ret_option is None:
        sh = X.fn_shape(text)
        ret_option = sh.ret is not None and text[sh.ret[0]:sh.ret[1]].strip().startswith('Option<')
    if sig:
        text = _held_pass_sig(text)
    text, n_tmp = _hoist_temps(text)
    text, n_acq, n_call = _awaits(text, fn, set(long), set(client), join)
    words = {L.tok_text(text, t) for t in L.code_tokens(text) if t[0] == 'ident'}
    if 'await' in words or 'async' in words:
        raise Undecided('c28-held: an await / async block remains in %s' % fn)
    text, n_g = _guard_lets(text)
    if n_g != n_acq:
        raise Undecided('c28-held: %d acquisitions but %d guards in %s' % (n_acq, n_g, fn))
    text, _n = _drops(text)
    text, _n = _returns(text)
    text, _n = _tries(text, ret_option)
    text, _n = _breaks(text)
    text, _n = _block_ends(text)
    text, _n = _loop_invariants(text, inv or {})
    return text, max(1, n_acq + n_call)
