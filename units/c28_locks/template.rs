// unit c28_locks — C28, second sentence: "Shared state is always acquired in a single global order per lock, never re-acquired
// while already held, and never awaited while holding a lock another waiter needs."
// The set of locks a task holds is the explicit ghost parameter `held` (rule family `c28-held`, lockrules.py); every acquisition
// `X.read().await` / `X.write().await` / `X.lock().await` of the REAL text is a call of a shim below whose precondition is the
// rank / non-re-entrancy condition; guards release on drop (Rust's scoping, written out by the rule).
#![allow(unused)]
use vstd::prelude::*;
use std::sync::Arc;
use std::collections::HashMap;
use std::marker::PhantomData;
verus! {

// =====================================================================================================================
// THE LOCK MODEL (trusted: this is the specification of the platform, nothing in it is proved)
// =====================================================================================================================
/// the tokio locks of emmylua_ls (every `RwLock<` / `Mutex<` of crates/emmylua_ls/src that is acquired with `.await`)
#[derive(PartialEq, Eq, Clone, Copy)]
pub enum L {
    /// workspace_manager.rs:29 `reload_lock: Arc<AsyncMutex<()>>` — serialises full workspace reloads
    ReloadLock,
    /// snapshot.rs:52 `workspace_manager: Arc<RwLock<WorkspaceManager>>`
    WorkspaceManager,
    /// snapshot.rs:49 `analysis: Arc<RwLock<EmmyLuaAnalysis>>` (the same Arc is cloned into FileDiagnostic.analysis and WorkspaceManager.analysis, mod.rs:116-131)
    Analysis,
    /// file_diagnostic.rs:15 `diagnostic_tokens: Arc<Mutex<HashMap<FileId, CancellationToken>>>`
    DiagnosticTokens,
    /// file_diagnostic.rs:16 `workspace_diagnostic_token: Arc<Mutex<Option<CancellationToken>>>`
    WorkspaceDiagnosticToken,
    /// client.rs:22 `response_manager: Arc<Mutex<HashMap<RequestId, oneshot::Sender<Response>>>>`
    ResponseManager,
    /// mod.rs:105 `cancellations: Arc<Mutex<HashMap<RequestId, CancellationToken>>>`
    Cancellations,
}

/// THE RANK TABLE: one rank per LOCK (not per lock and mode: tokio's RwLock is fair — a `read()` behind a queued `write()` waits — so
/// an order that ranks `analysis (read)` below `workspace_manager` and `analysis (write)` above it, as the comment block of
/// context/mod.rs:33-41 does, is not a deadlock-freedom argument). Derived from the nestings in the code:
///   reload_lock -> everything a reload touches (workspace_manager.rs:405-421);
///   workspace_manager -> analysis (text_document_handler.rs:18 and :99 "Follow lock order: workspace_manager (read) -> analysis (write)",
///       mod.rs:55-63 the CORRECT example, watched_file_handler.rs:10-11);
///   analysis -> diagnostic_tokens (file_diagnostic.rs:56 -> :71; watched_file_handler.rs:11 -> file_diagnostic.rs:35);
///   analysis -> response_manager (initialized/mod.rs:109 -> status_bar.rs:65 -> client.rs:50);
///   the four token / bookkeeping mutexes are leaves (nothing is acquired under them).
pub open spec fn rank(l: L) -> int {
    match l {
        L::ReloadLock => 1,
        L::WorkspaceManager => 2,
        L::Analysis => 3,
        L::DiagnosticTokens => 4,
        L::WorkspaceDiagnosticToken => 5,
        L::ResponseManager => 6,
        L::Cancellations => 7,
    }
}

/// what one task holds: lock -> (guard instance, exclusive?). `next` numbers the guard instances.
pub struct Held { pub locks: Ghost<Map<L, (nat, bool)>>, pub next: Ghost<nat> }
impl Held {
    pub open spec fn none(&self) -> bool { forall|l: L| !(#[trigger] self.locks@.contains_key(l)) }
    /// every held lock ranks below `r`
    pub open spec fn below(&self, r: int) -> bool { forall|l: L| #[trigger] self.locks@.contains_key(l) ==> rank(l) < r }
    /// the precondition of every acquisition: not re-acquired while held, and above everything held (single global order)
    pub open spec fn can_acquire(&self, l: L) -> bool { !self.locks@.contains_key(l) && self.below(rank(l)) }
    /// the task holds a lock EXCLUSIVELY that request / notification handlers need: a write guard of `analysis` or
    /// `workspace_manager`, or one of the bookkeeping mutexes (all but `reload_lock`, which only other reloads wait for)
    pub open spec fn exclusive(&self) -> bool {
        exists|l: L| #[trigger] self.locks@.contains_key(l) && self.locks@[l].1 && l != L::ReloadLock
    }
    /// a new task (spawned, or a handler at its entry point) holds nothing
    pub fn new_task() -> (h: Held) ensures h.none() { Held { locks: Ghost(Map::empty()), next: Ghost(0) } }
}
/// (when the lock is ALREADY held — the precondition of the acquisition is then violated and reported — the model keeps the older
/// guard's entry, so that the one violation is not followed by bookkeeping errors)
pub open spec fn acquired(h0: Held, h1: Held, l: L, excl: bool) -> bool {
    h1.next@ == h0.next@ + 1
        && h1.locks@ == (if h0.locks@.contains_key(l) { h0.locks@ } else { h0.locks@.insert(l, (h0.next@, excl)) })
}
pub open spec fn same_held(h0: Held, h1: Held) -> bool { h1.locks@ =~= h0.locks@ && h1.next@ >= h0.next@ }

#[verifier::external_body]
#[verifier::reject_recursive_types(T)]
pub struct RwLock<T> { _p: PhantomData<T> }
#[verifier::external_body]
#[verifier::reject_recursive_types(T)]
pub struct RwLockReadGuard<'a, T> { _p: PhantomData<&'a T> }
#[verifier::external_body]
#[verifier::reject_recursive_types(T)]
pub struct RwLockWriteGuard<'a, T> { _p: PhantomData<&'a mut T> }
#[verifier::external_body]
#[verifier::reject_recursive_types(T)]
pub struct Mutex<T> { _p: PhantomData<T> }
pub type AsyncMutex<T> = Mutex<T>;
#[verifier::external_body]
#[verifier::reject_recursive_types(T)]
pub struct MutexGuard<'a, T> { _p: PhantomData<&'a mut T> }

impl<T> RwLock<T> {
    /// which lock this is
    pub uninterp spec fn id(&self) -> L;
    /// tokio::sync::RwLock::read: "Locks this RwLock with shared read access, causing the current task to yield until the lock has been
    /// acquired. [...] the priority policy is fair (write-preferring) [...] if a task that wishes to acquire the write lock is at the head
    /// of the queue, read locks will not be given out until the write lock has been released" — hence not re-entrant even for readers.
    #[verifier::external_body]
    pub fn read<'a>(&'a self, held: &mut Held) -> (g: RwLockReadGuard<'a, T>)
        requires old(held).can_acquire(self.id()),
        ensures acquired(*old(held), *final(held), self.id(), false), g.key() == (self.id(), old(held).next@),
    { unimplemented!() }
    #[verifier::external_body]
    pub fn write<'a>(&'a self, held: &mut Held) -> (g: RwLockWriteGuard<'a, T>)
        requires old(held).can_acquire(self.id()),
        ensures acquired(*old(held), *final(held), self.id(), true), g.key() == (self.id(), old(held).next@),
    { unimplemented!() }
}
impl<T> Mutex<T> {
    pub uninterp spec fn id(&self) -> L;
    #[verifier::external_body]
    pub fn lock<'a>(&'a self, held: &mut Held) -> (g: MutexGuard<'a, T>)
        requires old(held).can_acquire(self.id()),
        ensures acquired(*old(held), *final(held), self.id(), true), g.key() == (self.id(), old(held).next@),
    { unimplemented!() }
}
/// a guard: the lock it belongs to and its instance number (read off right after the acquisition: `let ghost vx_kN = g.key();`)
impl<'a, T> RwLockReadGuard<'a, T> { pub uninterp spec fn key(&self) -> (L, nat); }
impl<'a, T> RwLockWriteGuard<'a, T> { pub uninterp spec fn key(&self) -> (L, nat); }
impl<'a, T> MutexGuard<'a, T> { pub uninterp spec fn key(&self) -> (L, nat); }
impl<'a, T> std::ops::Deref for RwLockReadGuard<'a, T> {
    type Target = T;
    #[verifier::external_body]
    fn deref(&self) -> &T { unimplemented!() }
}
impl<'a, T> std::ops::Deref for RwLockWriteGuard<'a, T> {
    type Target = T;
    #[verifier::external_body]
    fn deref(&self) -> &T { unimplemented!() }
}
impl<'a, T> std::ops::DerefMut for RwLockWriteGuard<'a, T> {
    #[verifier::external_body]
    fn deref_mut(&mut self) -> &mut T { unimplemented!() }
}
impl<'a, T> std::ops::Deref for MutexGuard<'a, T> {
    type Target = T;
    #[verifier::external_body]
    fn deref(&self) -> &T { unimplemented!() }
}
impl<'a, T> std::ops::DerefMut for MutexGuard<'a, T> {
    #[verifier::external_body]
    fn deref_mut(&mut self) -> &mut T { unimplemented!() }
}

/// the guard with key `k` goes out of scope: Rust drops it iff it has not been moved (into `drop`) before — the lock is released iff
/// THIS instance is still the live guard of the lock
pub open spec fn released(h0: Held, h1: Held, k: (L, nat)) -> bool {
    h1.next@ == h0.next@ && h1.locks@ == (
        if h0.locks@.contains_key(k.0) && h0.locks@[k.0].0 == k.1 { h0.locks@.remove(k.0) } else { h0.locks@ })
}
pub fn vx_scope_end(held: &mut Held, k: Ghost<(L, nat)>)
    ensures released(*old(held), *final(held), k@),
{
    proof {
        if held.locks@.contains_key(k@.0) && held.locks@[k@.0].0 == k@.1 { held.locks@ = held.locks@.remove(k@.0); }
    }
}
/// `drop(guard)`: `k` is the key of the guard the name refers to
pub fn vx_drop<G>(g: G, held: &mut Held, k: Ghost<(L, nat)>)
    ensures released(*old(held), *final(held), k@),
{
    vx_scope_end(held, k);
}
/// `.unwrap()` (rule c28-unwrap-exit): a panic ends the task, unwinding drops its guards: an exit, not a lock event. C28 does not
/// claim panic freedom, so the `is_some` / `is_ok` precondition of the std specs is not imposed here.
pub trait VxUnwrap<T> { fn vx_unwrap(self) -> T; }
impl<T> VxUnwrap<T> for Option<T> {
    #[verifier::external_body]
    fn vx_unwrap(self) -> T { self.unwrap() }
}
impl<T, E: core::fmt::Debug> VxUnwrap<T> for Result<T, E> {
    #[verifier::external_body]
    fn vx_unwrap(self) -> T { self.unwrap() }
}
/// `for` = `into_iter()` + `next()` (rule c28-for-next); the iterator is opaque
#[verifier::external_body]
#[verifier::reject_recursive_types(T)]
pub struct VxIter<T> { _p: PhantomData<T> }
#[verifier::external_body]
pub fn vx_iter<I: IntoIterator>(e: I) -> VxIter<I::Item> { unimplemented!() }
impl<T> VxIter<T> {
    #[verifier::external_body]
    pub fn next(&mut self) -> Option<T> { unimplemented!() }
}

/// an await that does not return before something outside the task happens (a client round trip, a timer, a message of another
/// task, a child process): the task must not hold, while it waits, a lock exclusively that handlers need
pub open spec fn may_wait_long(h: Held) -> bool { !h.exclusive() }
/// waiting for the CLIENT's answer (send_request and whatever awaits it, the oneshot receiver): the answer is dispatched by the main loop,
/// which runs `on_did_change_text_document` inline (analysis.read/write, workspace_manager.read/write) — a guard on `analysis` or
/// `workspace_manager` in ANY mode (a read guard blocks the writer, and behind a queued writer every later reader) or a bookkeeping mutex
/// held across the wait can keep the answer from ever being dispatched. Only `reload_lock` (which no handler takes) may be held.
pub open spec fn client_ok(h: Held) -> bool { forall|l: L| #[trigger] h.locks@.contains_key(l) ==> l == L::ReloadLock }
/// waiting for results of spawned tasks that themselves take the locks `needs` (channel `recv`): none of them may be held in any mode
/// (tokio's RwLock is FIFO-fair: one queued writer and the tasks' `read()` wait behind it, the writer behind us, we behind the tasks)
pub open spec fn join_ok(h: Held, needs: Set<L>) -> bool { forall|l: L| #[trigger] needs.contains(l) ==> !h.locks@.contains_key(l) }

//@@include c28_locks/shims.rs

// =====================================================================================================================
// extracted from /repo
// =====================================================================================================================
//@@include c28_locks/items.rs

// ---- the single-acquisition handlers (generated by unit.py from the inventory: the one acquisition statement of each handler whose
// ---- body has no other `.await`, hence no other lock event and no suspension while the guard is held) -----------------------------
//@@AUTO-HANDLERS

} // verus!
fn main() {}
