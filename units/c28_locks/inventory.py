"""Mechanical inventory of every `.await` of crates/emmylua_ls/src (tests excluded): which async fn, which lock, which other awaits.
Used by unit.py (a) to generate the single-acquisition handler items, (b) to check that what a slice drops is await-free, (c) to list
what is covered and what is not."""
import os
import re

from vc import rustlex as L

ACQ = ('read', 'write', 'lock')


def _T(text, toks):
    return lambda i: L.tok_text(text, toks[i]) if 0 <= i < len(toks) else ''


class Fn:
    pass


def scan_file(repo, rel):
    text = open(os.path.join(repo, rel), encoding='utf-8').read()
    toks = L.code_tokens(text)
    T = _T(text, toks)
    line = lambda i: text.count('\n', 0, toks[i][1]) + 1
    out = []
    i = 0
    # skip `#[cfg(test)] mod tests { .. }`
    skip = []
    for k in range(len(toks) - 8):
        if T(k) == '#' and T(k + 2) == 'cfg' and 'test' in ''.join(T(x) for x in range(k + 3, min(k + 16, len(toks)))) and T(L.match_close(text, toks, k + 1) + 1) == 'mod':
            m = L.match_close(text, toks, k + 1) + 1
            b = m
            while T(b) not in ('{', ';'): b += 1
            if T(b) == '{': skip.append((k, L.match_close(text, toks, b)))
    while i < len(toks) - 2:
        if any(a <= i <= b for a, b in skip):
            i += 1; continue
        if T(i) == 'fn' and toks[i + 1][0] == 'ident':
            is_async = T(i - 1) == 'async'
            name = T(i + 1)
            j = i + 2
            while j < len(toks) and T(j) not in ('{', ';'):
                if T(j) in ('(', '['): j = L.match_close(text, toks, j)
                j += 1
            if j >= len(toks) or T(j) == ';':
                i = j; continue
            bc = L.match_close(text, toks, j)
            f = Fn()
            f.file, f.name, f.is_async, f.line, f.body = rel, name, is_async, line(i), (toks[j][1], toks[bc][2])
            f.acq, f.awaits, f.spawns = [], [], 0
            spans = []
            for k in range(j, bc):
                if T(k) == 'spawn' and T(k - 1) == ':' and T(k + 1) == '(':
                    spans.append((k, L.match_close(text, toks, k + 1)))
            f.start = toks[i][1]
            for k in range(j, bc):
                if T(k) == 'await' and T(k - 1) == '.':
                    if T(k - 2) == ')' and T(k - 3) == '(' and T(k - 4) in ACQ and T(k - 5) == '.':
                        # receiver text
                        s = k - 6
                        while s > j and (toks[s][0] == 'ident' or T(s) in ('.', ')', '(')):
                            if T(s) in ('let', 'mut', 'return', '=', 'if', 'match'): break
                            s -= 1
                        recv = ''.join(T(x) for x in range(s + 1, k - 5))
                        bound = T(k + 1) == ';'
                        f.acq.append({'line': line(k), 'recv': recv, 'kind': T(k - 4), 'bound': bound, 'tok': k, 'pos': toks[k][1],
                                      'in_spawn': any(a < k < b for a, b in spans)})
                    else:
                        # callee name
                        nm = '?'
                        if T(k - 2) == ')':
                            depth, q = 0, k - 2
                            while True:
                                c = T(q)
                                if c in (')', ']', '}'): depth += 1
                                elif c in ('(', '[', '{'):
                                    depth -= 1
                                    if depth == 0: break
                                q -= 1
                            nm = T(q - 1)
                            if nm == '>':
                                d, r = 0, q - 1
                                while r > 0:
                                    if T(r) == '>': d += 1
                                    elif T(r) == '<':
                                        d -= 1
                                        if d == 0: break
                                    r -= 1
                                if T(r - 1) == ':' and T(r - 2) == ':': nm = T(r - 3)
                        else:
                            nm = T(k - 2)
                        f.awaits.append({'line': line(k), 'callee': nm, 'pos': toks[k][1]})
                if T(k) == 'spawn' and T(k - 1) == ':':
                    f.spawns += 1
            f.text = text
            if is_async or f.acq or f.awaits:
                out.append(f)
            i += 2
            continue
        i += 1
    return out


def scan(repo, root='crates/emmylua_ls/src'):
    fns = []
    for d, _, files in sorted(os.walk(os.path.join(repo, root))):
        for fn in sorted(files):
            rel = os.path.relpath(os.path.join(d, fn), repo)
            if not fn.endswith('.rs') or fn == 'tests.rs' or '/test/' in rel or '/test_lib/' in rel or rel.endswith('_test.rs'):
                continue
            fns.extend(scan_file(repo, rel))
    return fns


def lock_of(recv):
    if 'workspace_manager' in recv: return 'workspace_manager'
    if 'analysis' in recv: return 'analysis'
    for k in ('diagnostic_tokens', 'workspace_diagnostic_token', 'response_manager', 'cancellations', 'reload_lock'):
        if k in recv: return k
    return recv


def forbidden_calls(repo, root='crates/emmylua_ls/src'):
    """`blocking_read` / `blocking_write` / `blocking_lock` / `try_read` / `try_write` / `try_lock` would acquire a tokio lock without an await"""
    hits = []
    for d, _, files in os.walk(os.path.join(repo, root)):
        for fn in files:
            if fn.endswith('.rs'):
                p = os.path.join(d, fn)
                for n, ln in enumerate(open(p, encoding='utf-8'), 1):
                    if re.search(r'\.(blocking_(read|write|lock)|try_(read|write|lock)(_owned)?|(read|write|lock)_owned|block_on)\s*\(', ln):
                        hits.append('%s:%d' % (os.path.relpath(p, repo), n))
    return hits


if __name__ == '__main__':
    import sys
    sys.path.insert(0, '/verif')
    for f in scan('/repo'):
        print('%-70s %-45s acq=%s awaits=%s spawns=%d' % (f.file.replace('crates/emmylua_ls/src/', '') + ':' + str(f.line), f.name,
              [(a['line'], lock_of(a['recv']), a['kind'], 'let' if a['bound'] else 'tmp') for a in f.acq], [(a['line'], a['callee']) for a in f.awaits], f.spawns))
    print('forbidden:', forbidden_calls('/repo'))
