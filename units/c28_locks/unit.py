"""unit c28_locks — C28 (second sentence): the lock-order discipline of emmylua_ls as per-function contracts.

Every tokio lock acquisition of the real text (`X.read().await`, `X.write().await`, `X.lock().await`) becomes, by rule family `c28-held`
(lockrules.py), a call of a shim that is handed the ghost set `held` of locks the task holds; its precondition is
    !held.contains(X)  &&  forall l in held: rank(l) < rank(X)          /*@C28.order.<fn>*/
Guards release when Rust drops them (scope end / `drop(g)` / end of statement for temporaries, written out by the rule). Every other
`.await` is a call that is handed `held` too; the awaits that wait for something outside the task (client round trip, timer, message of
another task, child process) require that no lock handlers need is held exclusively   /*@C28.no-long-await-under-write-lock.<fn>*/."""
import os
import re
import sys

HERE = os.path.dirname(os.path.abspath(__file__))
if HERE not in sys.path:
    sys.path.insert(0, HERE)
import lockrules  # noqa: E402,F401  (registers the c28-* rules)
import inventory as INV  # noqa: E402
from vc import extract as X  # noqa: E402
from vc.extract import Undecided  # noqa: E402

REPO = os.environ.get('VERIF_REPO', '/repo')
FNS = INV.scan(REPO)
_forbidden = INV.forbidden_calls(REPO)  # incl. block_on
if _forbidden:
    raise Undecided('a tokio lock is acquired without an await (blocking_* / try_* / *_owned): %s' % _forbidden)


def host_fn(file, name):
    fs = [f for f in FNS if f.file == file and f.name == name]
    if len(fs) != 1:
        raise Undecided('inventory: fn %s not found (or not unique) in %s' % (name, file))
    return fs[0]


SLICE_NOTES = []


def check_slice(file, name, frm, to, rest=(), rest_note=None):
    """a statement slice of `name` drops the text in front of and behind it: every `.await` of the fn must lie INSIDE the slice, except the
    awaits whose callee is listed in `rest` (they are reported in the inventory as not covered by a clause)"""
    f = host_fn(file, name)
    body = f.text[f.body[0]:f.body[1]]
    ms = list(re.finditer(frm, body, flags=re.S))
    if len(ms) != 1:
        raise Undecided('slice anchor /%s/ matched %d times in %s' % (frm, len(ms), name))
    a = f.body[0] + ms[0].start()
    me = re.search(to, f.text[a:f.body[1]], flags=re.S)
    if not me:
        raise Undecided('slice end anchor /%s/ not found in %s' % (to, name))
    b = a + me.end()
    for ev in f.acq:
        if not (a <= ev['pos'] < b + 8):
            raise Undecided('slice of %s leaves out the acquisition at line %d' % (name, ev['line']))
    for ev in f.awaits:
        if not (a <= ev['pos'] < b + 8):
            if ev['callee'] in rest:
                SLICE_NOTES.append('%s:%d %s awaits `%s` outside the slice: %s' % (
                    file[len(LS):], ev['line'], name, ev['callee'], rest_note or 'still holding the guards the slice acquired (a long await under READ guards: no clause)'))
            else:
                raise Undecided('slice of %s leaves out the await of `%s` at line %d' % (name, ev['callee'], ev['line']))

LS = 'crates/emmylua_ls/src/'
TDH = LS + 'handlers/text_document/text_document_handler.rs'
WFH = LS + 'handlers/text_document/watched_file_handler.rs'
FD = LS + 'context/file_diagnostic.rs'
WM = LS + 'context/workspace_manager.rs'
CL = LS + 'context/client.rs'
SB = LS + 'context/status_bar.rs'
INIT = LS + 'handlers/initialized/mod.rs'
RFW = LS + 'handlers/text_document/register_file_watch.rs'
CTX = LS + 'context/mod.rs'
SNAP = LS + 'context/snapshot.rs'
H = LS + 'handlers/'

ATTRS = '#[verifier::spinoff_prover]\n#[verifier::loop_isolation(false)]\n#[verifier::exec_allows_no_decreases_clause]'
RESTORED = 'same_held(*old(held), *final(held)) /*@C28.held-restored*/'
ENTRY = 'old(held).none()'
# the awaits that wait for something outside the task
LONG = ('sleep', 'cancelled', 'vx_select', 'vx_await', 'recv', 'send', 'wait', 'send_request', 'create_progress_task',
        'get_configuration', 'show_message_request', 'apply_edit', 'external_tool_format', 'external_tool_range_format',
        'get_client_config', 'get_client_config_default', 'get_client_config_vscode')
# the awaits that wait for the CLIENT's answer (or are fns that do so before they take any lock)
CLIENT = ('send_request', 'show_message_request', 'apply_edit', 'get_configuration', 'create_progress_task', 'vx_await', 'get_client_config',
          'get_client_config_default', 'get_client_config_vscode', 'init_analysis', 'apply_workspace_reload', 'pull_workspace_diagnostics_fast',
          'push_workspace_diagnostic')
LNAME = {'analysis': 'L::Analysis', 'workspace_manager': 'L::WorkspaceManager', 'diagnostic_tokens': 'L::DiagnosticTokens',
         'workspace_diagnostic_token': 'L::WorkspaceDiagnosticToken', 'response_manager': 'L::ResponseManager', 'cancellations': 'L::Cancellations',
         'reload_lock': 'L::ReloadLock'}
ALL_LOCKS = 'vx_join_all()'


def join_locks(file, name):
    """the locks taken INSIDE the `tokio::spawn(async move { .. })` bodies of fn `name`: what the tasks whose results the fn's channel `recv` waits
    for need. Mechanical (inventory); every lock when it cannot be derived."""
    try:
        f = host_fn(file, name)
    except Undecided:
        return ALL_LOCKS
    ls = set()
    for a in f.acq:
        if a['in_spawn']:
            if INV.lock_of(a['recv']) not in LNAME: return ALL_LOCKS
            ls.add(LNAME[INV.lock_of(a['recv'])])
    return 'vx_join_analysis()' if ls == {'L::Analysis'} else ALL_LOCKS


PRE = [('c28-drop-log', {'optional': True}), ('c28-opaque-macros', {'optional': True}), ('c28-cfg-not-test', {'optional': True}),
       ('c28-spawn-out', {'optional': True}), ('c28-select-seq', {'optional': True}), ('c28-for-next', {'optional': True}), ('c28-unwrap-exit', {'optional': True})]


# progress arithmetic in f32 / a profiling scope guard (`Profile::new`, emmylua_code_analysis: logs the elapsed time on drop; no lock)
PERCENT = (r'\(\(count as f32 / valid_file_count as f32\) \* 100\.0\) as u32', r'as u32', 'vx_u32()')
# the completion counter cannot overflow: it stops at the number of files (no C28 clause, only Verus' overflow check of `count += 1`)
COUNT = 'count < valid_file_count'
PROFILE = (r'let _p = Profile::new\(text\.as_str\(\)\);', r';', '')


SENDREQ = 'self.wf(), old(held).can_acquire(L::ResponseManager), client_ok(*old(held))'
CLIENTCFG = 'old(held).can_acquire(L::WorkspaceManager), old(held).can_acquire(L::ResponseManager), client_ok(*old(held))'
ANALYSIS_READ = r'let analysis = context\.analysis\(\)\.read\(\)\.await;'


def fn(file, name, impl=None, requires=ENTRY, pre=(), held=None, **kw):
    src = {'file': file, 'kind': 'fn', 'name': name}
    if impl: src['impl'] = impl
    h = {'long': LONG, 'client': CLIENT, 'join': join_locks(file, name)}
    h.update(held or {})
    cfg = {'src': src, 'rules': list(pre) + PRE + [('c28-held', h)], 'attrs': ATTRS, 'requires': requires, 'ensures': RESTORED}
    cfg.update(kw)
    return cfg


def _stmt_span(f, pos):
    """the statement of `f` that contains the character position `pos` (from the previous `;` / `{` / `}` to the next `;` at depth 0)"""
    from vc import rustlex as LX
    body = f.text[f.body[0]:f.body[1]]
    toks = LX.code_tokens(body)
    k = max(i for i, t in enumerate(toks) if t[1] + f.body[0] <= pos)
    s = k
    depth = 0
    while s > 0:
        c = LX.tok_text(body, toks[s - 1])
        if c in (')', ']', '}') and depth == 0 and c == '}': break
        if c in (')', ']'): depth += 1
        elif c in ('(', '['): depth -= 1
        elif c in (';', '{') and depth == 0: break
        s -= 1
    e = k
    while LX.tok_text(body, toks[e]) != ';':
        if LX.tok_text(body, toks[e]) in ('(', '[', '{'): e = LX.match_close(body, toks, e)
        e += 1
    return body[toks[s][1]:toks[e][2]]


def hslice(file, name, frm, to, head, requires=ENTRY, impl=None, rest=(), tail='', rest_note=None, **kw):
    """a handler as a statement slice from its first to its last lock event (checked: what is dropped has no await). With `frm=None` the
    anchors are computed: the statement of the first acquisition .. the statement of the last one."""
    if frm is None:
        f = host_fn(file, name)
        if not f.acq: raise Undecided('%s has no acquisition' % name)
        frm = re.escape(_stmt_span(f, f.acq[0]['pos']))
        to = re.escape(_stmt_span(f, f.acq[-1]['pos']))
    check_slice(file, name, frm, to, rest, rest_note)
    return task(file, name, name, frm, to, head, requires, impl=impl, tail=tail, **kw)


def task(file, host, name, frm, to, head, requires, impl=None, pre=(), held=None, **kw):
    """the body of a `tokio::spawn(async move { .. })` inside `host`, as a statement slice: a task of its own, `held == {}` at its start"""
    hsrc = {'file': file, 'kind': 'fn', 'name': host}
    if impl: hsrc['impl'] = impl
    h = {'long': LONG, 'client': CLIENT, 'join': join_locks(file, host), 'sig': False, 'fn': name}
    h.update(held or {})
    cfg = {'src': {'kind': 'slice', 'name': name, 'in': hsrc, 'from': frm, 'to': to, 'head': head, 'tail': kw.pop('tail', '')},
           'rules': list(pre) + PRE + [('c28-held', h)], 'attrs': ATTRS, 'requires': requires, 'ensures': RESTORED}
    cfg.update(kw)
    return cfg


ITEMS = {
    'FileDiagnostic': {'src': {'file': FD, 'kind': 'struct', 'name': 'FileDiagnostic'}, 'rules': [('struct-fields', {'drop': []})]},
    'WorkspaceManager': {'src': {'file': WM, 'kind': 'struct', 'name': 'WorkspaceManager'},
                         'rules': [('struct-fields', {'keep': ['analysis', 'client', 'reload_lock', 'file_diagnostic', 'lsp_features', 'client_config',
                                                                'workspace_folders', 'watcher', 'match_file_pattern']})]},
    # ---- text_document_handler.rs
    'on_did_open_text_document': fn(TDH, 'on_did_open_text_document'),
    'on_did_save_text_document': fn(TDH, 'on_did_save_text_document'),
    'on_did_change_text_document': fn(TDH, 'on_did_change_text_document'),
    'on_did_close_document': fn(TDH, 'on_did_close_document'),
    # ---- watched_file_handler.rs
    'on_did_change_watched_files': fn(WFH, 'on_did_change_watched_files'),
    'WatchedFileType': {'src': {'file': WFH, 'kind': 'enum', 'name': 'WatchedFileType'}, 'rules': ['vis-pub']},
    # ---- file_diagnostic.rs
    'FileDiagnostic::add_diagnostic_task': fn(FD, 'add_diagnostic_task', impl='FileDiagnostic',
                                              requires='self.wf(), old(held).can_acquire(L::DiagnosticTokens)'),
    'FileDiagnostic::add_diagnostic_task::task': task(
        FD, 'add_diagnostic_task', 'add_diagnostic_task_task', r'tokio::select! \{', r'debug!\("cancel diagnostic: \{:\?\}", file_id_clone\);\s*\}\s*\}',
        'pub fn add_diagnostic_task_task(analysis: Arc<RwLock<EmmyLuaAnalysis>>, client: Arc<ClientProxy>, '
        'diagnostic_tokens: Arc<Mutex<HashMap<FileId, CancellationToken>>>, file_id_clone: FileId, interval: u64, cancel_token: CancellationToken, held: &mut Held)',
        'analysis.id() == L::Analysis, diagnostic_tokens.id() == L::DiagnosticTokens, old(held).none()', impl='FileDiagnostic'),
    'FileDiagnostic::add_files_diagnostic_task': fn(FD, 'add_files_diagnostic_task', impl='FileDiagnostic',
                                                    requires='self.wf(), old(held).can_acquire(L::DiagnosticTokens)'),
    'FileDiagnostic::cancel_workspace_diagnostic': fn(FD, 'cancel_workspace_diagnostic', impl='FileDiagnostic',
                                                      requires='self.wf(), old(held).can_acquire(L::WorkspaceDiagnosticToken)'),
    'FileDiagnostic::add_workspace_diagnostic_task': fn(FD, 'add_workspace_diagnostic_task', impl='FileDiagnostic',
                                                        requires='self.wf(), old(held).can_acquire(L::WorkspaceDiagnosticToken)'),
    'FileDiagnostic::add_workspace_diagnostic_task::task': task(
        FD, 'add_workspace_diagnostic_task', 'add_workspace_diagnostic_task_task', r'tokio::select! \{', r'log::info!\("cancel workspace diagnostic"\);\s*\}\s*\}',
        'pub fn add_workspace_diagnostic_task_task(analysis: Arc<RwLock<EmmyLuaAnalysis>>, client_proxy: Arc<ClientProxy>, status_bar: Arc<StatusBar>, '
        'silent: bool, interval: u64, cancel_token: CancellationToken, held: &mut Held)',
        'analysis.id() == L::Analysis, client_proxy.wf(), status_bar.wf(), old(held).none()', impl='FileDiagnostic'),
    'FileDiagnostic::cancel_all': fn(FD, 'cancel_all', impl='FileDiagnostic', requires='self.wf(), old(held).can_acquire(L::DiagnosticTokens)'),
    'FileDiagnostic::pull_file_diagnostics': fn(FD, 'pull_file_diagnostics', impl='FileDiagnostic', requires='self.wf(), old(held).can_acquire(L::Analysis)'),
    'FileDiagnostic::pull_workspace_diagnostics_slow': fn(
        FD, 'pull_workspace_diagnostics_slow', impl='FileDiagnostic',
        requires='self.wf(), old(held).can_acquire(L::Analysis), old(held).can_acquire(L::WorkspaceDiagnosticToken)'),
    'FileDiagnostic::pull_workspace_diagnostics_fast': fn(
        FD, 'pull_workspace_diagnostics_fast', impl='FileDiagnostic', pre=[('c28-elide', {'regions': [PERCENT, PROFILE]})],
        held={'inv': {1: COUNT}},
        requires='self.wf(), old(held).can_acquire(L::Analysis), old(held).can_acquire(L::WorkspaceDiagnosticToken), client_ok(*old(held))'),
    'FileDiagnostic::pull_workspace_diagnostics_fast::task': task(
        FD, 'pull_workspace_diagnostics_fast', 'pull_workspace_diagnostics_fast_task',
        r'let analysis = analysis\.read\(\)\.await;\s*let diagnostics = analysis\.diagnose_file\(file_id, token\);', r'let _ = tx\.send\(None\)\.await;\s*\}',
        'pub fn pull_workspace_diagnostics_fast_task(analysis: Arc<RwLock<EmmyLuaAnalysis>>, file_id: FileId, token: CancellationToken, '
        'tx: tokio::sync::mpsc::Sender<Option<(Vec<Diagnostic>, Uri)>>, held: &mut Held)',
        'analysis.id() == L::Analysis, old(held).none()', impl='FileDiagnostic'),
    'push_workspace_diagnostic': fn(FD, 'push_workspace_diagnostic', pre=[('c28-elide', {'regions': [PERCENT, PROFILE]})], held={'inv': {1: COUNT, 2: COUNT}},
                                    requires='analysis.id() == L::Analysis, client_proxy.wf(), status_bar.wf(), old(held).can_acquire(L::Analysis), client_ok(*old(held))'),
    'push_workspace_diagnostic::task': task(
        FD, 'push_workspace_diagnostic', 'push_workspace_diagnostic_task',
        r'let analysis = analysis\.read\(\)\.await;\s*let diagnostics = analysis\.diagnose_file\(file_id, token\);', r'let _ = tx\.send\(file_id\)\.await;',
        'pub fn push_workspace_diagnostic_task(analysis: Arc<RwLock<EmmyLuaAnalysis>>, file_id: FileId, token: CancellationToken, client: Arc<ClientProxy>, '
        'tx: tokio::sync::mpsc::Sender<FileId>, held: &mut Held)',
        'analysis.id() == L::Analysis, old(held).none()'),
    # ---- client.rs / status_bar.rs
    'ClientProxy': {'src': {'file': CL, 'kind': 'struct', 'name': 'ClientProxy'}, 'rules': [('struct-fields', {'keep': ['response_manager']})]},
    'StatusBar': {'src': {'file': SB, 'kind': 'struct', 'name': 'StatusBar'}, 'rules': [('struct-fields', {'drop': []})]},
    'ClientProxy::send_request': fn(
        CL, 'send_request', impl='ClientProxy',
        pre=[('c28-elide', {'regions': [(r'let _ = self\.conn\.sender\.send\(Message::Request', r'\}\)\);', '')]})],
        requires='self.wf(), old(held).can_acquire(L::ResponseManager), client_ok(*old(held))'),
    'ClientProxy::on_response': fn(CL, 'on_response', impl='ClientProxy', requires='self.wf(), old(held).can_acquire(L::ResponseManager)'),
    'ClientProxy::get_configuration': fn(CL, 'get_configuration', impl='ClientProxy', requires=SENDREQ),
    'ClientProxy::show_message_request': fn(CL, 'show_message_request', impl='ClientProxy', requires=SENDREQ),
    'ClientProxy::apply_edit': fn(CL, 'apply_edit', impl='ClientProxy', requires=SENDREQ),
    'ClientConfig': {'src': {'file': H + 'initialized/client_config/mod.rs', 'kind': 'struct', 'name': 'ClientConfig'}, 'rules': [('struct-fields', {'drop': []})]},
    'get_client_config': fn(H + 'initialized/client_config/mod.rs', 'get_client_config', requires=CLIENTCFG),
    'get_client_config_default': fn(
        H + 'initialized/client_config/default_config.rs', 'get_client_config_default', requires=CLIENTCFG,
        pre=[('c28-elide', {'allow_exit': False, 'regions': [
            (r'let main_workspace_folder = workspace_folders\.first\(\);', r'let mut used_scope = None;', 'let client = context.client(); let mut configs: Vec<Value> = Vec::new();'),
            (r'scopes\.unwrap_or\(&\["emmylua"\]\)', r'\)', 'vx_scopes(scopes)'),
            (r'let params = lsp_types::ConfigurationParams \{', r'\}\],\s*\};', 'let params = vx_params();'),
            (r'let fetched_configs: Vec<_> = fetched_configs\s*\.into_iter\(\)', r'used_scope = Some\(scope\.to_string\(\)\);\s*\}', 'configs = fetched_configs;'),
            (r'if let Some\(used_scope\) = used_scope \{', r'config\.partial_emmyrcs = Some\(configs\);', 'vx_store_configs(config, configs);')]})]),
    'get_client_config_vscode': fn(
        H + 'initialized/client_config/vscode_config.rs', 'get_client_config_vscode', requires=CLIENTCFG,
        pre=[('c28-elide', {'regions': [
            (r'let params = lsp_types::ConfigurationParams \{', r'\}\],\s*\};', 'let params = vx_params();'),
            (r'for files_config in files_configs \{', r'unwrap_or\("utf-8"\.to_string\(\)\);\s*\}', 'vx_store_files_configs(config, files_configs);')]})]),
    'StatusBar::create_progress_task': fn(
        SB, 'create_progress_task', impl='StatusBar',
        pre=[('c28-cfg-not-test', {}), 'c28-std-duration',
             ('c28-elide', {'regions': [(r'WorkDoneProgressCreateParams \{', r'\},', 'vx_params(),'),
                                        (r'self\.client\.send_notification\(\s*"\$/progress",', r'\)(?=\s*\}\s*\Z)', '')]})],
        requires='self.wf(), old(held).can_acquire(L::ResponseManager), client_ok(*old(held))'),
    # ---- handlers/initialized/mod.rs
    'initialized_handler': task(
        INIT, 'initialized_handler', 'initialized_handler', r'\{\s*log::info!\("set workspace folders', r'Some\(\(\)\)',
        'pub fn initialized_handler(context: ServerContextSnapshot, cmd_args: CmdArgs, workspace_folders: Vec<WorkspaceFolder>, client_id: ClientId, '
        'supports_config_request: bool, held: &mut Held) -> Option<()>',
        ENTRY,
        pre=[('c28-elide', {'regions': [(r'let params_json = serde_json::to_string_pretty', r';', ''),
                                        (r'let config_root: Option<PathBuf> = main_root\.map\(PathBuf::from\);', r';', 'let config_root = vx_config_root();')]}),
             'c28-arc-as-ref']),
    'init_analysis': fn(
        INIT, 'init_analysis',
        pre=[('c28-elide', {'regions': [(r'if let Ok\(emmyrc_json\) = serde_json::to_string_pretty', r'emmyrc_json\);\s*\}', ''),
                                        (r'let files: Vec<\(PathBuf, Option<String>\)> =', r'collect\(\);', 'let files = vx_files();')]}),
             'c28-arc-as-ref', 'c28-str-lit'],
        requires='analysis.id() == L::Analysis, status_bar.wf(), file_diagnostic.wf(), old(held).can_acquire(L::Analysis), client_ok(*old(held))'),
    'init_std_lib': fn(INIT, 'init_std_lib', requires='analysis.id() == L::Analysis, old(held).can_acquire(L::Analysis)'),
    # ---- workspace_manager.rs
    'ReloadTaskHandles': {'src': {'file': WM, 'kind': 'struct', 'name': 'ReloadTaskHandles'}, 'rules': [('struct-fields', {'drop': []}), 'vis-pub']},
    'OpenFilesSnapshot': {'src': {'file': WM, 'kind': 'struct', 'name': 'OpenFilesSnapshot'}, 'rules': [('struct-fields', {'drop': []}), 'vis-pub']},
    'OpenFileSyncAction': {'src': {'file': WM, 'kind': 'enum', 'name': 'OpenFileSyncAction'}, 'rules': ['vis-pub']},
    'refresh_workspace_diagnostics': fn(WM, 'refresh_workspace_diagnostics',
                                        requires='file_diagnostic.wf(), client.wf(), old(held).can_acquire(L::WorkspaceDiagnosticToken)'),
    'apply_workspace_reload': fn(WM, 'apply_workspace_reload', pre=['c28-arc-as-ref'],
                                 requires='old(held).can_acquire(L::WorkspaceManager), client_ok(*old(held))'),
    'sync_reloaded_open_files': fn(
        WM, 'sync_reloaded_open_files',
        pre=[('c28-elide', {'allow_exit': True, 'regions': [(r'let next_open_uris = next_snapshot', r'collect::<Vec<_>>\(\);', 'let removed_actions = vx_removed_actions();')]})],
        requires='old(held).can_acquire(L::WorkspaceManager)'),
    'apply_open_file_sync': fn(
        WM, 'apply_open_file_sync',
        pre=[('c28-elide', {'regions': [(r'let mut updates = current_open_files', r'collect::<Vec<_>>\(\);', 'let mut updates = vx_updates();')]})],
        requires='analysis.id() == L::Analysis, old(held).can_acquire(L::Analysis)'),
    'reindex_workspace::task': task(
        WM, 'reindex_workspace', 'reindex_workspace_task', r'cancel_token\.wait\(\)\.await;', r'\.await;\s*reindex_token\.clear\(&cancel_token\);',
        'pub fn reindex_workspace_task(cancel_token: Arc<DebounceToken>, analysis: Arc<RwLock<EmmyLuaAnalysis>>, client: Arc<ClientProxy>, '
        'file_diagnostic: Arc<FileDiagnostic>, lsp_features: Arc<LspFeatures>, reindex_token: Arc<PendingTask>, workspace_diagnostic_level: Arc<AtomicU8>, held: &mut Held)',
        'analysis.id() == L::Analysis, client.wf(), file_diagnostic.wf(), old(held).none()', impl='WorkspaceManager'),
    'add_update_emmyrc_task::task': task(
        WM, 'add_update_emmyrc_task', 'add_update_emmyrc_task_task', r'cancel_token\.wait\(\)\.await;',
        r'spawn_workspace_reload_task\(reload_task_handles, context, workspace_folders, emmyrc\);\s*config_reload_token\.clear\(&cancel_token\);',
        'pub fn add_update_emmyrc_task_task(cancel_token: Arc<DebounceToken>, config_reload_token: Arc<PendingTask>, config_root: PathBuf, client_config: ClientConfig, '
        'reload_task_handles: ReloadTaskHandles, context: ServerContextSnapshot, workspace_folders: Vec<WorkspaceFolder>, held: &mut Held)',
        'old(held).none()', impl='WorkspaceManager'),
    'spawn_workspace_reload_task::task': task(
        WM, 'spawn_workspace_reload_task', 'spawn_workspace_reload_task_task', r'let _reload_guard = handles\.reload_lock\.lock\(\)\.await;',
        r'handles\.workspace_diagnostic_level,\s*\)\s*\.await;',
        'pub fn spawn_workspace_reload_task_task(handles: ReloadTaskHandles, generation: u64, context: ServerContextSnapshot, workspace_folders: Vec<WorkspaceFolder>, '
        'emmyrc: Arc<Emmyrc>, held: &mut Held)',
        'handles.wf(), old(held).none()'),
    # ---- register_file_watch.rs
    'WatchRegistrationPlan': {'src': {'file': RFW, 'kind': 'struct', 'name': 'WatchRegistrationPlan'}, 'rules': [('struct-fields', {'drop': []}), 'vis-pub']},
    'register_files_watch': fn(RFW, 'register_files_watch', requires='old(held).can_acquire(L::WorkspaceManager)'),
    'register_files_watch_use_fsnotify': fn(
        RFW, 'register_files_watch_use_fsnotify',
        pre=[('c28-elide', {'allow_exit': True, 'regions': [(r'let \(tx, rx\) = channel\(\);', r'return false;\s*\}(?=\s*let mut workspace_manager)', 'let watcher = vx_watcher();')]})],
        requires='old(held).can_acquire(L::WorkspaceManager)'),
    'register_files_watch_use_fsnotify::task': task(
        RFW, 'register_files_watch_use_fsnotify', 'register_files_watch_use_fsnotify_task',
        r'on_did_change_watched_files\(context\.clone\(\), params\)\.await;', r';',
        'pub fn register_files_watch_use_fsnotify_task(context: ServerContextSnapshot, params: DidChangeWatchedFilesParams, held: &mut Held)',
        'old(held).none()'),
    # ---- context/mod.rs
    'ServerContextInner': {'src': {'file': SNAP, 'kind': 'struct', 'name': 'ServerContextInner'}, 'rules': [('struct-fields', {'drop': []})]},
    'ServerContext': {'src': {'file': CTX, 'kind': 'struct', 'name': 'ServerContext'}, 'rules': [('struct-fields', {'keep': ['cancellations', 'inner']})]},
    'ServerContext::task::register': task(
        CTX, 'task', 'task_register', r'let mut cancellations = self\.cancellations\.lock\(\)\.await;', r'cancel_token\.clone\(\)\);',
        'pub fn task_register(&self, req_id: RequestId, cancel_token: CancellationToken, held: &mut Held)', 'self.wf(), old(held).none()', impl='ServerContext'),
    'ServerContext::task::finish': task(
        CTX, 'task', 'task_finish', r'let mut cancellations = cancellations\.lock\(\)\.await;', r'cancellations\.remove\(&req_id\);',
        'pub fn task_finish(cancellations: Arc<Mutex<HashMap<RequestId, CancellationToken>>>, req_id: RequestId, held: &mut Held)',
        'cancellations.id() == L::Cancellations, old(held).none()', impl='ServerContext'),
    'ServerContext::cancel': fn(CTX, 'cancel', impl='ServerContext', requires='self.wf(), old(held).none()'),
    'ServerContext::close': fn(CTX, 'close', impl='ServerContext', requires='self.wf(), old(held).none()'),
    'ServerContext::send_response': fn(CTX, 'send_response', impl='ServerContext', requires='self.wf(), old(held).none()'),
    # ---- configuration / did_rename_files
    'on_did_change_configuration': fn(
        H + 'configuration/mod.rs', 'on_did_change_configuration',
        pre=[('c28-elide', {'allow_exit': True, 'regions': [(r'let pretty_json = serde_json::to_string_pretty', r';', '')]})]),
    'on_did_rename_files_handler': fn(
        H + 'workspace/did_rename_files.rs', 'on_did_rename_files_handler',
        pre=[('c28-elide', {'regions': [(r'all_renames\.extend\(collected_renames\);', r';', 'vx_extend(&mut all_renames, collected_renames);'),
                                        (r'let show_message_params = ShowMessageRequestParams \{', r'\}\]\),\s*\};', 'let show_message_params = vx_params();'),
                                        (r'selected_action\.title == t!\("Modify"\)', r'\)', 'vx_bool()'),
                                        (r'ApplyWorkspaceEditParams \{', r'label: None,\s*\},', 'vx_params(),')]})]),
    # ---- handlers with two locks, as slices
    'on_completion_resolve_handler': hslice(
        H + 'completion/mod.rs', 'on_completion_resolve_handler', None, None,
        'pub fn on_completion_resolve_handler(context: ServerContextSnapshot, held: &mut Held)'),
    'on_semantic_token_handler': hslice(
        H + 'semantic_token/mod.rs', 'on_semantic_token_handler', None, None,
        'pub fn on_semantic_token_handler(context: ServerContextSnapshot, uri: Uri, held: &mut Held) -> Option<()>', tail='Some(())'),
    'on_resolve_code_lens_handler': hslice(
        H + 'code_lens/mod.rs', 'on_resolve_code_lens_handler', None, None,
        'pub fn on_resolve_code_lens_handler(context: ServerContextSnapshot, held: &mut Held)'),
    'on_folding_range_handler': hslice(
        H + 'fold_range/mod.rs', 'on_folding_range_handler', None, None,
        'pub fn on_folding_range_handler(context: ServerContextSnapshot, held: &mut Held)'),
    'on_inlay_hint_handler': hslice(
        H + 'inlay_hint/mod.rs', 'on_inlay_hint_handler', None, None,
        'pub fn on_inlay_hint_handler(context: ServerContextSnapshot, held: &mut Held)'),
    'on_formatting_handler': hslice(
        H + 'document_formatting/mod.rs', 'on_formatting_handler', None, None,
        'pub fn on_formatting_handler(context: ServerContextSnapshot, held: &mut Held)', rest=('external_tool_format',)),
    'on_range_formatting_handler': hslice(
        H + 'document_range_formatting/mod.rs', 'on_range_formatting_handler', None, None,
        'pub fn on_range_formatting_handler(context: ServerContextSnapshot, held: &mut Held)', rest=('external_tool_range_format',)),
    'on_pull_workspace_diagnostic': hslice(
        H + 'diagnostic/workspace_diagnostic.rs', 'on_pull_workspace_diagnostic', r'let workspace_manager = context\.workspace_manager\(\)\.read\(\)\.await;',
        r'\.pull_workspace_diagnostics_slow\(token\)\s*\.await\s*\}\s*\};',
        'pub fn on_pull_workspace_diagnostic(context: ServerContextSnapshot, token: CancellationToken, held: &mut Held) -> WorkspaceDiagnosticReport',
        tail='vx_report()', requires=ENTRY),
    'on_pull_document_diagnostic': hslice(
        H + 'diagnostic/document_diagnostic.rs', 'on_pull_document_diagnostic', r'let diagnostics = context', r'\.await;',
        'pub fn on_pull_document_diagnostic(context: ServerContextSnapshot, uri: Uri, token: CancellationToken, held: &mut Held)'),
    'AutoRequireCommand::handle': hslice(
        H + 'command/commands/emmy_auto_require.rs', 'handle', ANALYSIS_READ, r';', 'pub fn auto_require_handle(context: ServerContextSnapshot, held: &mut Held)',
        rest=('apply_edit',), rest_note='inside the spawned task (item AutoRequireCommand::handle::task), which holds nothing',
        impl='CommandSpec for AutoRequireCommand'),
    'AutoRequireCommand::handle::task': task(
        H + 'command/commands/emmy_auto_require.rs', 'handle', 'auto_require_handle_task', r'let res = context_clone', r'\.await;',
        'pub fn auto_require_handle_task(context_clone: ServerContextSnapshot, apply_edit_params: VxParams, cancel_token: CancellationToken, held: &mut Held)',
        'old(held).none()', impl='CommandSpec for AutoRequireCommand'),
    'add_doc_tag': hslice(
        H + 'command/commands/emmy_add_doc_tag.rs', 'add_doc_tag', r'let workspace_manager = workspace_manager\.read\(\)\.await;', r'drop\(workspace_manager\);',
        'pub fn add_doc_tag(workspace_manager: &RwLock<WorkspaceManager>, held: &mut Held) -> Option<()>', tail='Some(())',
        requires='workspace_manager.id() == L::WorkspaceManager, old(held).none()'),
    'add_disable_project': hslice(
        H + 'command/commands/emmy_disable_code.rs', 'add_disable_project', r'let workspace_manager = workspace_manager\.read\(\)\.await;', r'drop\(workspace_manager\);',
        'pub fn add_disable_project(workspace_manager: &RwLock<WorkspaceManager>, held: &mut Held) -> Option<()>', tail='Some(())',
        requires='workspace_manager.id() == L::WorkspaceManager, old(held).none()'),
}

# ---- the single-acquisition handlers: generated from the inventory ----------------------------------------------------------------
_named = {c['src'].get('name') if c['src'].get('kind') != 'slice' else c['src']['in']['name'] for c in ITEMS.values()}
AUTO = []
for _f in FNS:
    if (_f.is_async and len(_f.acq) == 1 and _f.acq[0]['bound'] and not _f.awaits and _f.spawns == 0 and _f.name not in _named
            and _f.acq[0]['recv'] in ('context.analysis()', 'context.workspace_manager()')):
        _stmt = r'let (mut )?\w+ = ' + re.escape(_f.acq[0]['recv']) + r'\.' + _f.acq[0]['kind'] + r'\(\)\.await;'
        ITEMS[_f.name] = hslice(_f.file, _f.name, _stmt, r';', 'pub fn %s(context: ServerContextSnapshot, held: &mut Held)' % _f.name)
        AUTO.append(_f)
        _named.add(_f.name)

with open(os.path.join(HERE, 'template.rs'), encoding='utf-8') as _fh:
    _TEMPLATE = _fh.read().replace('//@@AUTO-HANDLERS', '\n'.join('//@@ ' + f.name for f in AUTO))

EXTRA_RULES = [
    ('c28-arc-as-ref', r'\bemmyrc\.as_ref\(\)', '&*emmyrc', '`emmyrc.as_ref()` on an `Arc<Emmyrc>` -> `&*emmyrc` (std: `AsRef<T> for Arc<T>` returns the pointee, as Deref does)'),
    ('c28-str-lit', r'"[^"\\]*"\.to_string\(\)|String::from\("[^"\\]*"\)', 'vx_string()', 'a string literal turned into a String (message text) -> opaque String'),
    ('c28-std-duration', r'std::time::Duration', 'Duration', '`std::time::Duration` -> the shim `Duration` of the same name (opaque value type)'),
    ('c28-unwrap-exit', r'\.unwrap\(\)', '.vx_unwrap()',
     '`.unwrap()` -> `.vx_unwrap()`: same value; the panic of the None / Err case ends the task (unwinding drops its guards) and is an exit, '
     'not a lock event. C28 does not claim panic freedom, so vstd\'s `is_some()` precondition of unwrap is not imposed'),
]

# ---- every `tokio::spawn` of the tree is accounted for -----------------------------------------------------------------------------------
SPAWNS = {
    ('context/mod.rs', 'task'): 'the request task: runs the handler (entry contract `held == {}`), then item ServerContext::task::finish',
    ('context/file_diagnostic.rs', 'add_diagnostic_task'): 'item FileDiagnostic::add_diagnostic_task::task',
    ('context/file_diagnostic.rs', 'add_workspace_diagnostic_task'): 'item FileDiagnostic::add_workspace_diagnostic_task::task',
    ('context/file_diagnostic.rs', 'pull_workspace_diagnostics_fast'): 'item FileDiagnostic::pull_workspace_diagnostics_fast::task',
    ('context/file_diagnostic.rs', 'push_workspace_diagnostic'): 'item push_workspace_diagnostic::task',
    ('context/workspace_manager.rs', 'add_update_emmyrc_task'): 'item add_update_emmyrc_task::task',
    ('context/workspace_manager.rs', 'reindex_workspace'): 'item reindex_workspace::task',
    ('context/workspace_manager.rs', 'spawn_workspace_reload_task'): 'item spawn_workspace_reload_task::task',
    ('handlers/text_document/register_file_watch.rs', 'register_files_watch_use_fsnotify'): 'item register_files_watch_use_fsnotify::task',
    ('handlers/command/commands/emmy_auto_require.rs', 'handle'): 'item AutoRequireCommand::handle::task',
    ('server/main_loop.rs', 'main_loop'): 'the initialization task: item initialized_handler',
    ('util/time_cancel_token.rs', 'time_cancel_token'): 'inventory only: sleeps, then cancels a token; no lock',
}
for _f in FNS:
    if _f.spawns and (_f.file[len(LS):], _f.name) not in SPAWNS:
        raise Undecided('a tokio::spawn in %s (%s) is not accounted for by unit c28_locks' % (_f.name, _f.file))


# ---- the inventory (every fn of the tree with an await), with its status in this unit ----------------------------------------------------
def _status(f):
    for key, c in ITEMS.items():
        src = c['src']
        if src.get('kind') == 'slice':
            if src['in']['name'] == f.name and src['in']['file'] == f.file:
                if f in AUTO: return 'contract (generated slice: the one acquisition; the fn has no other await)'
                return 'contract (statement slice, item %s)' % key
        elif src.get('kind') == 'fn' and src['name'] == f.name and src['file'] == f.file:
            return 'contract (whole fn)'
    return None


ASSUMED = {
    'external_tool_format': 'no lock; child process with a timeout: a long await (inventory only)',
    'external_tool_range_format': 'no lock; wraps external_tool_format (inventory only)',
    'wait': 'DebounceToken::wait: select over sleep / cancelled, no lock (shim: long await)',
    'time_cancel_token': 'no lock (shim)',
}
INVENTORY = []
for _f in FNS:
    st = _status(_f)
    if st is None:
        if _f.acq:
            raise Undecided('fn %s (%s:%d) acquires a tokio lock and is not under contract in unit c28_locks' % (_f.name, _f.file, _f.line))
        if not _f.acq:
            st = ASSUMED.get(_f.name, 'no acquisition: main loop / dispatch plumbing (enters the handlers holding nothing)')
        else:
            st = 'NOT COVERED: ' + ASSUMED.get(_f.name, 'inventory only')
    INVENTORY.append('%s:%d %s | locks: %s | other awaits: %s | spawns: %d | %s' % (
        _f.file[len(LS):], _f.line, _f.name,
        ', '.join('%s.%s@%d%s' % (INV.lock_of(a['recv']), a['kind'], a['line'], '' if a['bound'] else '(temporary)') for a in _f.acq) or '-',
        ', '.join('%s@%d' % (a['callee'], a['line']) for a in _f.awaits) or '-', _f.spawns, st))
try:
    _bd = os.path.join(os.environ.get('VERIF_BUILD') or os.path.join(os.path.dirname(os.path.dirname(HERE)), 'build'), 'c28_locks')
    os.makedirs(_bd, exist_ok=True)
    with open(os.path.join(_bd, 'inventory.txt'), 'w', encoding='utf-8') as _fh:
        _fh.write('\n'.join(INVENTORY + ['', 'awaits left out by slices:'] + SLICE_NOTES) + '\n')
except OSError:
    pass

A_W = r'let mut analysis = context\.analysis\(\)\.write\(\)\.await;'
MUTANTS = [
    # analysis.write is taken first and workspace_manager.read inside it (the two acquisitions of on_did_change swapped / nested)
    {'name': 'did-change-analysis-before-workspace', 'item': 'on_did_change_text_document', 'pattern': A_W,
     'repl': 'let mut analysis = context.analysis().write().await; let vx_w = context.workspace_manager().read().await; vx_w.extend_reindex_delay();',
     'expect': r'C28\.order\.on_did_change_text_document'},
    # analysis.read() inside the block that holds analysis.write()
    {'name': 'did-open-read-under-write', 'item': 'on_did_open_text_document', 'pattern': A_W,
     'repl': 'let mut analysis = context.analysis().write().await; let vx_r = context.analysis().read().await;',
     'expect': r'C28\.order\.on_did_open_text_document'},
    # the workspace_manager write guard stays alive (block braces removed): legal by rank across analysis.write, but it is then
    # re-acquired by the `workspace_manager().read()` of the reindex branch
    {'name': 'did-change-workspace-write-guard-kept', 'item': 'on_did_change_text_document',
     'pattern': r'\{\s*(let mut workspace = context\.workspace_manager\(\)\.write\(\)\.await;\s*workspace\.sync_open_file\(uri\.clone\(\), text\.clone\(\)\);)\s*\}',
     'repl': r'\1', 'expect': r'C28\.order\.on_did_change_text_document'},
    # the reload holds analysis.write across init_analysis (which takes analysis.write itself)
    {'name': 'reload-holds-analysis-across-init', 'item': 'apply_workspace_reload',
     'pattern': r'\{\s*(let mut analysis = context\.analysis\(\)\.write\(\)\.await;\s*analysis\.clear_non_std_workspaces\(\);)\s*\}',
     'repl': r'\1', 'expect': r'C28\.order\.apply_workspace_reload'},
    # the read guard is not dropped before the per-file loop re-acquires it
    {'name': 'slow-pull-read-guard-not-dropped', 'item': 'FileDiagnostic::pull_workspace_diagnostics_slow',
     'pattern': r'drop\(analysis\);', 'repl': '', 'expect': r'C28\.order\.pull_workspace_diagnostics_slow'},
    # the diagnostic task takes diagnostic_tokens BEFORE analysis (opposite of watched_file_handler -> add_diagnostic_task)
    {'name': 'diagnostic-task-tokens-before-analysis', 'item': 'FileDiagnostic::add_diagnostic_task::task',
     'pattern': r'let analysis = analysis\.read\(\)\.await;',
     'repl': 'let mut vx_tk = diagnostic_tokens.lock().await; let analysis = analysis.read().await;',
     'expect': r'C28\.order\.add_diagnostic_task_task'},
    # the response-manager mutex is held across the wait for the client's response
    {'name': 'send-request-holds-mutex-while-waiting', 'item': 'ClientProxy::send_request',
     'pattern': r'self\.response_manager\s*\.lock\(\)\s*\.await\s*\.insert\(id\.clone\(\), sender\);',
     'repl': 'let mut vx_m = self.response_manager.lock().await; vx_m.insert(id.clone(), sender);',
     'expect': r'C28\.(no-long-await-under-write-lock|no-client-round-trip-under-any-guard|order)\.send_request'},
    # the debounce sleep of the reindex task happens under analysis.write
    {'name': 'reindex-sleeps-under-write-lock', 'item': 'reindex_workspace::task',
     'pattern': r'cancel_token\.wait\(\)\.await;', 'repl': 'let mut vx_a = analysis.write().await;\n cancel_token.wait().await;\n drop(vx_a);',
     'expect': r'C28\.no-long-await-under-write-lock\.reindex_workspace_task'},
    # a task entry: the token mutex is taken while the caller (a handler) still holds analysis... in the other order
    {'name': 'did-save-cancel-under-workspace-write', 'item': 'on_did_save_text_document',
     'pattern': r'(context\s*\.file_diagnostic\(\)\s*\.cancel_workspace_diagnostic\(\)\s*\.await;)\s*(let workspace_manager = context\.workspace_manager\(\)\.write\(\)\.await;)',
     'repl': r'\2 let vx_e = context.analysis().read().await.get_emmyrc(); let vx_w2 = context.workspace_manager().read().await;',
     'expect': r'C28\.order\.on_did_save_text_document'},
    # seeded C28_1: the push sweep keeps analysis.read while it asks the client for a progress token and waits for its per-file tasks
    {'name': 'push-sweep-keeps-read-guard', 'item': 'push_workspace_diagnostic', 'pattern': r'drop\(read_analysis\);', 'repl': '',
     'expect': r'C28\.(no-task-join-under-guard|no-client-round-trip-under-any-guard)\.push_workspace_diagnostic'},
    {'name': 'pull-fast-keeps-read-guard', 'item': 'FileDiagnostic::pull_workspace_diagnostics_fast', 'pattern': r'drop\(analysis\);', 'repl': '',
     'expect': r'C28\.(no-task-join-under-guard|no-client-round-trip-under-any-guard)\.pull_workspace_diagnostics_fast'},
    # seeded C28_3: the question to the user is asked under analysis.read
    {'name': 'rename-asks-user-under-read-guard', 'item': 'on_did_rename_files_handler', 'pattern': r'drop\(analysis\);(\s*if changes\.is_empty\(\))', 'repl': r'\1',
     'expect': r'C28\.no-client-round-trip-under-any-guard\.on_did_rename_files_handler'},
    {'name': 'config-change-fetches-under-workspace-read', 'item': 'on_did_change_configuration', 'pattern': r'let new_client_config = get_client_config',
     'repl': 'let vx_w = context.workspace_manager().read().await;\n let new_client_config = get_client_config',
     'expect': r'C28\.no-client-round-trip-under-any-guard\.on_did_change_configuration'},
    # seeded C28_2: workspace_manager.read as the right operand of `||` while analysis.read is held
    {'name': 'did-open-lazy-or-reverse-order', 'item': 'on_did_open_text_document',
     'pattern': r'let old_file_id = analysis\.get_file_id\(&uri\);\s*if old_file_id\.is_some\(\) \{\s*true\s*\} else \{.*?is_workspace_file\(&uri\)\s*\}',
     'repl': 'analysis.get_file_id(&uri).is_some() || context.workspace_manager().read().await.is_workspace_file(&uri)',
     'expect': r'C28\.order\.on_did_open_text_document'},
    # a generated single-acquisition handler: the lock is taken twice
    {'name': 'hover-takes-analysis-twice', 'item': 'on_hover', 'pattern': r'(let analysis = context\.analysis\(\)\.read\(\)\.await;)',
     'repl': r'let vx_a0 = context.analysis().read().await; \1', 'expect': r'C28\.order\.on_hover'},
]

TRUSTED = [
    'THE LOCK MODEL (template.rs): `Held` = the locks one task holds (lock -> guard instance, exclusive?); tokio RwLock::read/write and Mutex::lock '
    'require `!held.contains(X) && forall l in held: rank(l) < rank(X)`; a guard releases its lock when Rust drops it. That a global rank per lock with '
    'no re-entrant acquisition excludes deadlock AMONG THE LOCKS is the classical argument (a wait-for cycle needs a rank-decreasing edge); it is the '
    'premise of this unit, not proved here. tokio doc (fair / write-preferring RwLock: a read() behind a queued write() waits) is why the rank is per '
    'lock and not per lock-and-mode, and why a second read() of a held lock counts as re-entrant',
    'THE RANK TABLE (template.rs `rank`): reload_lock 1 < workspace_manager 2 < analysis 3 < diagnostic_tokens 4 < workspace_diagnostic_token 5 < '
    'response_manager 6 < cancellations 7; derived from the nestings in the code and the comments "Follow lock order: workspace_manager (read) -> '
    'analysis (write)" (text_document_handler.rs:18/:99, mod.rs:55-63). NOTE the comment block mod.rs:33-41 ranks the token mutexes BELOW analysis; the code '
    'acquires diagnostic_tokens while holding analysis (file_diagnostic.rs:56->71, watched_file_handler.rs:11->64): the derived table follows the code',
    'rule family c28-held (lockrules.py docstring): (h1) every `.await` becomes a call that is handed `held`; (h2) Rust drop scoping of guards written out '
    'as ghost releases (block end after the tail expression, return, `?` = match/return None, break/continue, drop(g), end of statement for temporaries, '
    'drop flags via guard instances); (h3) a spawned task is a separate item starting with `held == {}`; (h4) select! = one branch after its future completes',
    'SEQUENTIAL reading of one task: the contracts speak about ONE task\'s `held`; interleavings are covered by the rank argument, not enumerated',
    'lock IDENTITY = the field the lock lives in: ServerContextSnapshot::analysis()/workspace_manager() return THE two locks (snapshot.rs:23-45, shim ensures); '
    'FileDiagnostic.analysis / WorkspaceManager.analysis are clones of the same Arc (mod.rs:116-131) — `wf()` of those structs, ASSUMED at accessors and task heads; '
    'the parameters of a spawned-task item are what the spawner moved in (the `.clone()`s in front of each tokio::spawn)',
    'entry points are entered with `held == {}`: the main loop and the dispatch macros (server/*.rs, notification_handler.rs, request_handler.rs) contain no '
    'acquisition (mechanical inventory, checked on every run), so nothing is held when a handler is called or spawned',
    'a SYNCHRONOUS callee cannot take a tokio lock or suspend the task: `blocking_*` / `try_*` / `*_owned` / `block_on` do not occur in crates/emmylua_ls/src '
    '(checked on every run, else undecided); all sync callees are opaque shims without `held`',
    'rule c28-elide / c28-opaque-macros / c28-drop-log / c28-str-lit / c28-unwrap-exit / c28-for-next / c28-cfg-not-test / c28-arc-as-ref / c28-std-duration: lock-free text '
    '(message building, struct literals of lsp_types, iterator pipelines, f32 progress arithmetic, log lines) is removed or replaced by opaque values; '
    'each elided region is checked to contain no await / drop / lock event / control transfer (an early exit inside a region marked allow_exit is '
    'over-approximated by going on). `.unwrap()` panics are exits, not lock events. `#[cfg(not(test))]` = the production build',
    'statement slices (handlers with two locks, the generated single-acquisition handlers, spawned-task bodies): what a slice leaves out of its fn is checked '
    'to contain no `.await` (exceptions listed in build/c28_locks/inventory.txt: the external formatter under two read guards)',
    'shims WITH a contract on `held` (all: held unchanged, require !held.exclusive()): tokio::time::sleep, mpsc Sender::send / Receiver::recv (bounded channel), '
    'the oneshot receiver (vx_await), CancellationToken::cancelled, select! (vx_select), DebounceToken::wait (workspace_manager.rs:312-323: select over sleep and '
    'cancelled, no lock). Everything else that is awaited in the tree is extracted',
    'assume_specification Option::replace (std doc); `count < valid_file_count` loop invariants only discharge Verus\' overflow check of the progress counters',
]
NOT_COVERED = [
    'liveness / fairness of tokio\'s locks and scheduler themselves (C28 first sentence); that rank discipline implies deadlock freedom is the classical theorem, not proved here',
    'std::sync::Mutex of PendingTask (workspace_manager.rs:339-366: three fns, each takes the one mutex, no await, no other lock: leaf) and every lock inside dependencies / the analysis crate',
    'BLOCKING calls inside async fns: file IO under analysis.write (collect_workspace_files, read_file_with_encoding in init_analysis / watched files / did_rename / apply_open_file_sync), '
    'load_configs_raw under workspace_manager.read (emmy_add_doc_tag.rs, emmy_disable_code.rs), std mpsc `rx.recv()` in the notify task (register_file_watch.rs:209, blocks a runtime worker)',
    'long awaits under READ guards other than client round trips and task joins: on_formatting_handler / on_range_formatting_handler hold analysis.read across the external '
    'formatter (child process, bounded by the user timeout): every didChange (main loop) waits that long; the diagnostic tasks `tx.send().await` on a bounded channel (100) under analysis.read '
    '(the receiver holds nothing and keeps receiving: proved by the join clause); JoinHandle awaits do not occur in the tree',
    'external_tool_format / external_tool_range_format (child process, no lock), DebounceToken::wait, time_cancel_token: inventory only (shims)',
    'ServerContext::new (that the three `analysis` fields alias one Arc) and the generic `ServerContext::task` body around `exec(..)` (only its two lock blocks are extracted)',
    'the main loop itself (server/*.rs): it takes no lock; `on_did_change_text_document` runs INLINE on it (notification_handler.rs:67), so whatever blocks that handler blocks every later message',
]
SAMPLES = [
    'RwLock::read / write, Mutex::lock (shims): requires !held.contains(X) && forall l in held: rank(l) < rank(X)   [C28.order.<fn> at every acquisition of the real text]',
    'every extracted fn: ensures held is restored [C28.held-restored]; entry points / spawned tasks: requires held == {}',
    'callee contracts: FileDiagnostic::add_diagnostic_task requires held.can_acquire(DiagnosticTokens); init_analysis requires can_acquire(Analysis) && no exclusive lock held; '
    'ClientProxy::send_request requires can_acquire(ResponseManager) && no exclusive lock held (it waits for the client)',
    'waiting for the CLIENT (send_request, get_configuration / show_message_request / apply_edit, create_progress_task, the oneshot receiver, and the fns that do so first: '
    'get_client_config*, init_analysis, apply_workspace_reload, pull_workspace_diagnostics_fast, push_workspace_diagnostic) requires that nothing but reload_lock is held, in ANY mode '
    '[C28.no-client-round-trip-under-any-guard.<fn>]; channel recv (= waiting for spawned tasks) requires that no lock those tasks take is held in any mode '
    '[C28.no-task-join-under-guard.<fn>] (the set is derived from the acquisitions inside the spawn bodies of the receiving fn: {analysis}; every lock when not derivable)',
    'other long awaits (sleep, cancelled(), select!, mpsc send, DebounceToken::wait) require !held.exclusive() '
    '[C28.no-long-await-under-write-lock.<fn>]; exclusive = write guard of analysis / workspace_manager or any of the four bookkeeping mutexes (reload_lock excepted)',
    'FINDING on_did_change_watched_files: workspace_manager.read() at watched_file_handler.rs:50-53 while the guard of :10 (and analysis.write of :11) is alive [C28.order fails]',
    'FINDING seven request handlers take analysis.read() then workspace_manager.read() (opposite of the documented order and of watched_file_handler.rs:10-11) [C28.order fails]',
    'FINDING init_analysis awaits StatusBar::create_progress_task (client round trip, 5 s timeout) under analysis.write() [C28.no-long-await-under-write-lock fails]',
]

FINDINGS = [
    'F1 RE-ENTRANT workspace_manager.read() [C28.order.on_did_change_watched_files]: watched_file_handler.rs:10 `workspace = workspace_manager().read()` and :11 '
    '`analysis = analysis().write()` live to the end of the fn; for a changed `.emmyrc.json` / `.luarc.json` / `.emmyrc.lua` line :50-53 takes `workspace_manager().read().await` AGAIN. '
    'Interleaving: T1 = that handler past :11; T2 = on_did_close_document at text_document_handler.rs:156 `workspace_manager().write().await` (queued behind T1\'s read guard; also '
    'register_files_watch :60/:203, on_did_change_configuration :33, ServerContext::close mod.rs:204); T1 reaches :53 and queues BEHIND T2 (tokio RwLock is FIFO-fair). T1 waits for T2, T2 for '
    'T1\'s first guard: deadlock, and T1 keeps analysis.write() forever: every handler (all take analysis.read) and the main loop (on_did_change_text_document runs inline, '
    ':101 analysis.read) hang. Trigger: save the workspace config file while a tab is closed',
    'F2 OPPOSITE ORDERS [C28.order.<7 handlers>]: analysis.read() then workspace_manager.read() in on_completion_resolve_handler (completion/mod.rs:100-101), on_semantic_token_handler '
    '(semantic_token/mod.rs:26,29; `let _ = workspace_manager;` :31 does NOT drop the guard), on_resolve_code_lens_handler (code_lens/mod.rs:39,43), on_folding_range_handler '
    '(fold_range/mod.rs:33,36), on_inlay_hint_handler (inlay_hint/mod.rs:21,24), on_formatting_handler (document_formatting/mod.rs:34-35), on_range_formatting_handler '
    '(document_range_formatting/mod.rs:35-36) versus workspace_manager.read() then analysis.write() in on_did_change_watched_files (watched_file_handler.rs:10-11), the order the comments '
    'prescribe. Interleaving (3 tasks): T2 watched-files :10 (wm.read granted); T1 formatting :34 (analysis.read granted); T3 on_did_close_document text_document_handler.rs:156 wm.write -> queued '
    'behind T2 (or the main loop\'s on_did_change_text_document :113, past :101-110); T2 :11 analysis.write -> queued behind T1; T1 :35 wm.read -> queued behind T3 (fair queue). Cycle T1->T3->T2->T1. '
    'The comment block mod.rs:33-41 permits both orders (it ranks per lock AND MODE: analysis-read 5 < wm-read 6 < wm-write 7 < analysis-write 8), which is not an order on locks',
    'F3 CLIENT ROUND TRIP UNDER analysis.write() [C28.no-long-await-under-write-lock.init_analysis]: initialized/mod.rs:109 takes analysis.write(), :118-120 awaits '
    'StatusBar::create_progress_task = status_bar.rs:65-75 send_request("window/workDoneProgress/create") = client.rs:59-62 wait for the client\'s response or the 5 s token (status_bar.rs:64). '
    'On a workspace RELOAD (workspace_manager.rs:441, after a config change) the main loop is in normal mode: a didChange runs on_did_change_text_document INLINE '
    '(notification_handler.rs:67) -> text_document_handler.rs:101 analysis.read().await blocks -> the main loop reads no more messages -> the response the reload waits for is never dispatched -> '
    'every message stalls for the full 5 s (no deadlock only because of the timeout)',
    'F4 (documentation) mod.rs:33-41 ranks diagnostic_tokens (1) below analysis (5/8) and forbids taking a lower lock while holding a higher one; file_diagnostic.rs:56->71 and '
    'watched_file_handler.rs:11->64 (-> file_diagnostic.rs:35) take diagnostic_tokens while holding analysis. No cycle exists (nothing takes analysis under diagnostic_tokens): the derived rank puts the mutexes above',
    'REPAIR (units/c28_locks/proposed_fix_lock_order.diff, 9 files, not applied): F1 use the held guard (`workspace.add_update_emmyrc_task(..)`); F2 read `client_id` from workspace_manager as a '
    'statement-scoped temporary BEFORE analysis.read() in the seven handlers; F3 await create_progress_task before analysis.write(). On a tree with the diff applied the unit exits 0',
]

UNIT = {
    'findings': FINDINGS,
    'template_text': _TEMPLATE,
    'items': ITEMS,
    'extra_rules': EXTRA_RULES,
    'allow': [r'external_body', r'uninterp', r'assume_specification<T>\[ Option::<T>::replace \]'],
    'min_obligations': 60,
    'inventory': INVENTORY,
    'trusted': TRUSTED,
    'not_covered': NOT_COVERED,
    'samples': SAMPLES,
    'mutants': MUTANTS,
}
