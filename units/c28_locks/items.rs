//@@ FileDiagnostic
//@@ ServerContextInner
//@@ ServerContext
//@@ ClientProxy
//@@ ClientConfig
//@@ StatusBar
//@@ WorkspaceManager

// ---- handlers/text_document/text_document_handler.rs ------------------------------------------------------------------
//@@ on_did_open_text_document
//@@ on_did_save_text_document
//@@ on_did_change_text_document
//@@ on_did_close_document

// ---- handlers/text_document/watched_file_handler.rs ---------------------------------------------------------------------
//@@ on_did_change_watched_files
//@@ WatchedFileType

// ---- context/file_diagnostic.rs -------------------------------------------------------------------------------------------
impl FileDiagnostic {
    //@@ FileDiagnostic::add_diagnostic_task
    //@@ FileDiagnostic::add_files_diagnostic_task
    //@@ FileDiagnostic::cancel_workspace_diagnostic
}
//@@ FileDiagnostic::add_diagnostic_task::task
impl FileDiagnostic {
    //@@ FileDiagnostic::add_workspace_diagnostic_task
    //@@ FileDiagnostic::cancel_all
    //@@ FileDiagnostic::pull_file_diagnostics
    //@@ FileDiagnostic::pull_workspace_diagnostics_slow
    //@@ FileDiagnostic::pull_workspace_diagnostics_fast
}
//@@ FileDiagnostic::add_workspace_diagnostic_task::task
//@@ FileDiagnostic::pull_workspace_diagnostics_fast::task
//@@ push_workspace_diagnostic
//@@ push_workspace_diagnostic::task

// ---- context/client.rs, context/status_bar.rs -------------------------------------------------------------------------------
impl ClientProxy {
    //@@ ClientProxy::send_request
    //@@ ClientProxy::on_response
    //@@ ClientProxy::get_configuration
    //@@ ClientProxy::show_message_request
    //@@ ClientProxy::apply_edit
}
impl StatusBar {
    //@@ StatusBar::create_progress_task
}

// ---- handlers/initialized/mod.rs ----------------------------------------------------------------------------------------------
//@@ initialized_handler
//@@ init_analysis
//@@ init_std_lib

// ---- context/workspace_manager.rs -----------------------------------------------------------------------------------------------
//@@ ReloadTaskHandles
//@@ OpenFilesSnapshot
//@@ OpenFileSyncAction
//@@ refresh_workspace_diagnostics
//@@ apply_workspace_reload
//@@ sync_reloaded_open_files
//@@ apply_open_file_sync
//@@ reindex_workspace::task
//@@ add_update_emmyrc_task::task
//@@ spawn_workspace_reload_task::task

// ---- handlers/text_document/register_file_watch.rs ----------------------------------------------------------------------------------
//@@ WatchRegistrationPlan
//@@ register_files_watch
//@@ register_files_watch_use_fsnotify
//@@ register_files_watch_use_fsnotify::task

// ---- context/mod.rs -----------------------------------------------------------------------------------------------------------------
impl ServerContext {
    //@@ ServerContext::task::register
    //@@ ServerContext::cancel
    //@@ ServerContext::close
    //@@ ServerContext::send_response
}
//@@ ServerContext::task::finish

// ---- handlers/configuration, handlers/workspace/did_rename_files.rs --------------------------------------------------------------------
//@@ on_did_change_configuration
//@@ on_did_rename_files_handler

// ---- request handlers that take two locks (statement slices: from the first acquisition to the last; the rest of each fn is await-free,
// ---- checked by unit.py, except where unit.py lists the remaining awaits) --------------------------------------------------------------
//@@ on_completion_resolve_handler
//@@ on_semantic_token_handler
//@@ on_resolve_code_lens_handler
//@@ on_folding_range_handler
//@@ on_inlay_hint_handler
//@@ on_formatting_handler
//@@ on_range_formatting_handler
//@@ on_pull_workspace_diagnostic
//@@ on_pull_document_diagnostic
//@@ add_doc_tag
//@@ add_disable_project

// ---- handlers/initialized/client_config/{mod.rs, default_config.rs, vscode_config.rs} ----------------------------------------------------
//@@ get_client_config
//@@ get_client_config_default
//@@ get_client_config_vscode
//@@ AutoRequireCommand::handle
//@@ AutoRequireCommand::handle::task
