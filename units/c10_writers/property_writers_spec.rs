// ---- property index, writer side: vocabulary and lemmas (bodies verified) -----------------------------------
pub type PomMap = Map<LuaSemanticDeclId, LuaPropertyId>;
pub type PinfMap = Map<FileId, HashSet<LuaSemanticDeclId>>;
/// the file an owner id belongs to: members, declarations and signatures carry their file; a type declaration id does not
/// (a type can be declared in several files)
pub open spec fn sem_file(o: LuaSemanticDeclId) -> Option<FileId> {
    match o {
        LuaSemanticDeclId::TypeDecl(_) => None,
        LuaSemanticDeclId::Member(id) => Some(id.file_id),
        LuaSemanticDeclId::LuaDecl(id) => Some(id.file_id),
        LuaSemanticDeclId::Signature(id) => Some(id.file_id),
    }
}
/// owner o is listed under file f
pub open spec fn pinf_has(inf: PinfMap, f: FileId, o: LuaSemanticDeclId) -> bool { inf.contains_key(f) && inf[f]@.contains(o) }
/// owner o, if it carries a file, is listed under that file: `remove(that file)` will find and drop its entry
pub open spec fn owner_swept(inf: PinfMap, o: LuaSemanticDeclId) -> bool { sem_file(o) matches Some(f) ==> pinf_has(inf, f, o) }
/// index invariant that `LuaPropertyIndex::remove` relies on (unit c10_remove proves: every owner LISTED under the removed file
/// loses its property_owners_map entry): every key of property_owners_map that carries a file is listed under that file
pub open spec fn prop_wf(pom: PomMap, inf: PinfMap) -> bool {
    forall|o: LuaSemanticDeclId| #[trigger] pom.contains_key(o) ==> owner_swept(inf, o)
}
/// what `in_filed_owner.entry(f).or_default().insert(o)` does
pub open spec fn pinf_added(inf0: PinfMap, inf1: PinfMap, f: FileId, o: LuaSemanticDeclId) -> bool {
    &&& inf1.contains_key(f) && inf1[f]@ == (if inf0.contains_key(f) { inf0[f]@ } else { Set::empty() }).insert(o)
    &&& forall|g: FileId| g != f ==> #[trigger] inf1.contains_key(g) == inf0.contains_key(g) && (inf0.contains_key(g) ==> inf1[g] == inf0[g])
}
/// what `get_or_create_property(o)` does to property_owners_map: nothing if o has a property already, else o gets a fresh id
pub open spec fn pom_got(pom0: PomMap, pom1: PomMap, o: LuaSemanticDeclId) -> bool {
    if pom0.contains_key(o) { pom1 == pom0 } else { pom1.contains_key(o) && pom1 == pom0.insert(o, pom1[o]) }
}
/// an `add_*(file_id, owner_id, ..)` writer keeps the invariant PROVIDED an owner that carries a file is annotated from its own file
pub proof fn lemma_prop_add(pom0: PomMap, pom1: PomMap, inf0: PinfMap, inf1: PinfMap, f: FileId, o: LuaSemanticDeclId)
    requires prop_wf(pom0, inf0), pom_got(pom0, pom1, o), pinf_added(inf0, inf1, f, o), sem_file(o) matches Some(g) ==> g == f,
    ensures prop_wf(pom1, inf1), pinf_has(inf1, f, o),
{
    assert forall|g: FileId, x: LuaSemanticDeclId| pinf_has(inf0, g, x) implies pinf_has(inf1, g, x) by {
        if g != f { assert(inf1.contains_key(g) == inf0.contains_key(g)); }
    }
    assert forall|x: LuaSemanticDeclId| #[trigger] pom1.contains_key(x) implies owner_swept(inf1, x) by {
        if x != o { assert(pom0.contains_key(x)); assert(owner_swept(inf0, x)); }
    }
}
