"""unit c10_writers — the writers of the member / operator / type / metatable indexes establish the invariants that
`remove` (unit c10_remove2) relies on (C10)."""
SRC = 'crates/emmylua_code_analysis/src/'
DB = SRC + 'db_index/'

HASH = 'broadcast use vstd::std_specs::hash::group_hash_axioms;'


def st(file, name, attrs=None, **kw):
    d = {'src': {'file': DB + file, 'kind': 'struct', 'name': name}, 'rules': [('struct-fields', kw)]}
    if attrs: d['attrs'] = attrs
    return d


def fn(file, impl, name, **kw):
    d = {'src': {'file': DB + file, 'kind': 'fn', 'impl': impl, 'name': name}}
    d.update(kw)
    return d


MB = 'member/mod.rs'
OM = 'member/lua_owner_members.rs'
MEM_FRAME = 'final(self).members == old(self).members'
OWN_FRAME = 'final(self).owner_members == old(self).owner_members'
MCO_FRAME = 'final(self).member_current_owner == old(self).member_current_owner'
INF_FRAME = 'final(self).in_filed == old(self).in_filed'
OLD4 = 'old(self).members@, old(self).member_current_owner@, old(self).owner_members@, old(self).in_filed@'

ITEMS = {
    'FileId': {'src': {'file': SRC + 'vfs/file_id.rs', 'kind': 'struct', 'name': 'FileId', 'drop_attrs': False}, 'attrs': '#[derive(Structural)]'},
    'InFiled': {'src': {'file': SRC + 'vfs/file_id.rs', 'kind': 'struct', 'name': 'InFiled', 'drop_attrs': False}},
    'LuaDeclId': {'src': {'file': DB + 'declaration/decl_id.rs', 'kind': 'struct', 'name': 'LuaDeclId', 'drop_attrs': False}, 'attrs': '#[derive(Structural)]'},
    'WorkspaceId': {'src': {'file': DB + 'module/workspace.rs', 'kind': 'struct', 'name': 'WorkspaceId', 'drop_attrs': False}, 'attrs': '#[derive(Structural)]'},
    'LuaTypeIdentifier': {'src': {'file': DB + 'type/type_decl.rs', 'kind': 'enum', 'name': 'LuaTypeIdentifier'}, 'attrs': '#[derive(PartialEq, Eq, Hash)]'},
    'LuaOperatorId': {'src': {'file': DB + 'operators/lua_operator.rs', 'kind': 'struct', 'name': 'LuaOperatorId', 'drop_attrs': False}, 'attrs': '#[derive(Structural)]'},
    'LuaOperatorMetaMethod': {'src': {'file': DB + 'operators/lua_operator_meta_method.rs', 'kind': 'enum', 'name': 'LuaOperatorMetaMethod', 'drop_attrs': False}},
    'LuaOperatorOwner': {'src': {'file': DB + 'operators/lua_operator.rs', 'kind': 'enum', 'name': 'LuaOperatorOwner'},
                         'attrs': '#[derive(PartialEq, Eq, Hash)]'},
    'LuaOperator': st('operators/lua_operator.rs', 'LuaOperator', keep=['owner', 'op', 'file_id', 'range']),
    'LuaOperator::get_owner': fn('operators/lua_operator.rs', 'LuaOperator', 'get_owner', ret='r', ensures='*r == self.owner'),
    'LuaOperator::get_op': fn('operators/lua_operator.rs', 'LuaOperator', 'get_op', ret='r', ensures='r == self.op'),
    'LuaOperator::get_id': fn('operators/lua_operator.rs', 'LuaOperator', 'get_id', ret='r',
                              ensures='r == (LuaOperatorId { file_id: self.file_id, position: self.range.start })'),
    # ---- member index
    'LuaMemberFeature': {'src': {'file': DB + 'member/lua_member_feature.rs', 'kind': 'enum', 'name': 'LuaMemberFeature'}, 'attrs': '#[derive(Clone, Copy)]'},
    'LuaMemberFeature::is_decl': fn('member/lua_member_feature.rs', 'LuaMemberFeature', 'is_decl'),
    'LuaMemberId': st('member/lua_member.rs', 'LuaMemberId', attrs='#[derive(Clone, Copy, PartialEq, Eq, Hash)]'),
    'LuaMember': st('member/lua_member.rs', 'LuaMember'),
    'LuaMember::get_key': fn('member/lua_member.rs', 'LuaMember', 'get_key', ret='r', ensures='*r == self.key'),
    'LuaMember::get_file_id': fn('member/lua_member.rs', 'LuaMember', 'get_file_id', ret='r', ensures='r == self.member_id.file_id'),
    'LuaMember::get_id': fn('member/lua_member.rs', 'LuaMember', 'get_id', ret='r', ensures='r == self.member_id'),
    'LuaMember::get_feature': fn('member/lua_member.rs', 'LuaMember', 'get_feature', ret='r', ensures='r == self.feature'),
    'LuaMemberIndexItem': {'src': {'file': DB + 'member/lua_member_item.rs', 'kind': 'enum', 'name': 'LuaMemberIndexItem'}},
    'LuaMemberOwner': {'src': {'file': DB + 'member/lua_member_owner.rs', 'kind': 'enum', 'name': 'LuaMemberOwner'}, 'attrs': '#[derive(PartialEq, Eq, Hash)]'},
    'LuaMemberOwner::is_unknown': fn('member/lua_member_owner.rs', 'LuaMemberOwner', 'is_unknown', ret='r',
                                     ensures='r == (*self is LocalUnresolve)'),
    'MemberOrOwner': {'src': {'file': DB + MB, 'kind': 'enum', 'name': 'MemberOrOwner'}, 'attrs': '#[derive(PartialEq, Eq, Hash)]', 'rules': ['vis-pub']},
    'OwnerMemberStatus': {'src': {'file': DB + OM, 'kind': 'enum', 'name': 'OwnerMemberStatus'}},
    'LuaOwnerMembers': st(OM, 'LuaOwnerMembers'),
    'LuaOwnerMembers::new': fn(OM, 'LuaOwnerMembers', 'new', ret='r', ensures='r.members@ == Map::<LuaMemberKey, LuaMemberIndexItem>::empty()'),
    'LuaOwnerMembers::add_member': fn(OM, 'LuaOwnerMembers', 'add_member', requires='keys_ok()', vac=False, body_first=HASH,
                                      ensures='final(self).members@ == old(self).members@.insert(key, item), final(self).resolve_state == old(self).resolve_state'),
    'LuaOwnerMembers::get_member': fn(OM, 'LuaOwnerMembers', 'get_member', requires='keys_ok()', vac=False, body_first=HASH, ret='r',
                                      ensures='r matches Some(v) ==> self.members@.contains_key(*key) && *v == self.members@[*key], r is None ==> !self.members@.contains_key(*key)'),
    'LuaOwnerMembers::contains_member': fn(OM, 'LuaOwnerMembers', 'contains_member', requires='keys_ok()', vac=False, body_first=HASH, ret='r',
                                           ensures='r == self.members@.contains_key(*key)'),
    'LuaOwnerMembers::get_member_mut': fn(OM, 'LuaOwnerMembers', 'get_member_mut', requires='keys_ok()', vac=False, body_first=HASH, ret='r',
                                          ensures='''final(self).resolve_state == old(self).resolve_state,
            match r {
                Some(v) => old(self).members@.contains_key(*key) && *v == old(self).members@[*key] && final(self).members@ == old(self).members@.insert(*key, *final(v)),
                None => !old(self).members@.contains_key(*key) && final(self).members@ == old(self).members@,
            }'''),
    'LuaMemberIndex': st(MB, 'LuaMemberIndex'),
    'LuaMemberIndex::new': fn(MB, 'LuaMemberIndex', 'new', ret='r',
                              ensures='mwf(&r) /*@C10.member.writer-wf.new*/, r.members@.len() == 0 && r.in_filed@.len() == 0 && r.owner_members@.len() == 0 && r.member_current_owner@.len() == 0'),
    'LuaMemberIndex::get_member': fn(MB, 'LuaMemberIndex', 'get_member', requires='keys_ok()', vac=False, body_first=HASH, ret='r',
                                     ensures='r matches Some(v) ==> self.members@.contains_key(*id) && *v == self.members@[*id], r is None ==> !self.members@.contains_key(*id)'),
    'LuaMemberIndex::add_in_file_object': fn(
        MB, 'LuaMemberIndex', 'add_in_file_object', requires='keys_ok()', vac=False, body_first=HASH,
        ensures=', '.join([MEM_FRAME, OWN_FRAME, MCO_FRAME]) + ''',
            // the file's bookkeeping set gains exactly this object; every other file's set is untouched
            inf_added(old(self).in_filed@, final(self).in_filed@, file_id, member_or_owner) /*@C10.member.bookkeeping-records-object-under-file*/'''),
    'LuaMemberIndex::set_member_owner': fn(
        MB, 'LuaMemberIndex', 'set_member_owner', body_first=HASH,
        requires='''keys_ok(), mwf(old(self)),
            // the member is known to the index (call sites: ids taken from `members` / just added); without this the new
            // `member_current_owner` entry is one that `remove` never sweeps (see the unit's findings)
            inf_has(old(self).in_filed@, id.file_id, MemberOrOwner::Member(id))''',
        proof=[(r'self\.add_in_file_object\(file_id, MemberOrOwner::Owner\(owner\)\);', 'before',
                '''let ghost mco1 = self.member_current_owner@; let ghost inf0 = self.in_filed@;
        proof { lemma_wf_set_current_owner(old(self).members@, old(self).member_current_owner@, old(self).owner_members@, inf0, id, owner); }'''),
               (r'self\.add_in_file_object\(file_id, MemberOrOwner::Owner\(owner\)\);', 'after',
                'proof { lemma_wf_record_owner(self.members@, mco1, self.owner_members@, inf0, self.in_filed@, file_id, owner); }')],
        ensures=', '.join([MEM_FRAME, OWN_FRAME]) + ''',
            mwf(final(self)) /*@C10.member.writer-wf.set_member_owner*/,
            inf_has(final(self).in_filed@, file_id, MemberOrOwner::Owner(owner)) /*@C10.member.writer-records-owner-for-file.set_member_owner*/,
            forall|g: FileId, x: MemberOrOwner| inf_has(old(self).in_filed@, g, x) ==> inf_has(final(self).in_filed@, g, x)'''),
}

ITEMS.update({
    'LuaMemberIndex::add_member_to_owner': fn(
        MB, 'LuaMemberIndex', 'add_member_to_owner', body_first=HASH,
        requires='''keys_ok(), mwf(old(self)),
            // Owner(owner) is recorded under the member's own file BEFORE the id is filed under the owner (add_member and every
            // set_member_owner(owner, member_id.file_id, member_id) + add_member_to_owner(owner, member_id) pair do that)
            inf_has(old(self).in_filed@, id.file_id, MemberOrOwner::Owner(owner))''',
        ensures=', '.join([MEM_FRAME, MCO_FRAME, INF_FRAME]) + ''',
            own_ext(old(self).owner_members@, final(self).owner_members@, owner, id) /*@C10.member.add_member_to_owner.touches-only-that-owner*/,
            mwf(final(self)) /*@C10.member.every-item-is-swept*/'''),
    'LuaMemberIndex::add_member': fn(
        MB, 'LuaMemberIndex', 'add_member', body_first=HASH + ' let ghost m0 = member;', ret='r',
        requires='keys_ok(), mwf(old(self))',
        proof=[
            (r'self\.add_in_file_object\(file_id, MemberOrOwner::Member\(id\)\);', 'after',
             'proof { lemma_wf_record_member(' + OLD4 + ', self.in_filed@, id, m0); }'),
            (r'self\.member_current_owner\.insert\(id, owner\.clone\(\)\);', 'after',
             '''let ghost inf1 = self.in_filed@;
            proof { lemma_wf_set_current_owner(self.members@, old(self).member_current_owner@, self.owner_members@, inf1, id, owner); }'''),
            (r'self\.add_in_file_object\(file_id, MemberOrOwner::Owner\(owner\.clone\(\)\)\);', 'after',
             'proof { lemma_wf_record_owner(self.members@, self.member_current_owner@, self.owner_members@, inf1, self.in_filed@, file_id, owner); }'),
        ],
        ensures='''r == member.member_id,
            mwf(final(self)) /*@C10.member.writer-wf.add_member*/,
            inf_has(final(self).in_filed@, r.file_id, MemberOrOwner::Member(r)) /*@C10.member.writer-records-member-for-file*/,
            !(owner is LocalUnresolve) ==> inf_has(final(self).in_filed@, r.file_id, MemberOrOwner::Owner(owner)) /*@C10.member.writer-records-owner-for-file*/'''),
})

TY = 'type/mod.rs'
ITEMS.update({
    'LuaTypeOwner': {'src': {'file': DB + 'type/type_owner.rs', 'kind': 'enum', 'name': 'LuaTypeOwner'}, 'attrs': '#[derive(PartialEq, Eq, Hash)]'},
    'LuaTypeOwner::get_file_id': fn('type/type_owner.rs', 'LuaTypeOwner', 'get_file_id', ret='r', ensures='r == owner_file(*self)'),
    'LuaDeclLocation': st('type/type_decl.rs', 'LuaDeclLocation', keep=['file_id', 'range']),
    'LuaTypeDecl': st('type/type_decl.rs', 'LuaTypeDecl', keep=['simple_name', 'locations', 'id']),
    'LuaTypeIndex': st(TY, 'LuaTypeIndex'),
})

UNIT = {
    'items': ITEMS,
    'extra_rules': [],
    'allow': [r'external_body', r'uninterp spec fn (ident|text)\(&self\)',
              r'assume_specification<\'a, K: Eq \+ Hash \+ Borrow<Q>, V, S: BuildHasher, A: Allocator, Q: Hash \+ Eq \+ \?Sized>\[ HashMap::<K, V, S, A>::get_mut \]',
              r'assume_specification<\'a, K, V: Default> \[Entry::<\'a, K, V>::or_default\]',
              r'assume_specification<\'a, K, V, A: Allocator, F: FnOnce\(\) -> V> \[Entry::<\'a, K, V, A>::or_insert_with\]',
              r'assume_specification<T: PartialEq> \[<\[T\]>::contains\]'],
    'min_obligations': 20,
    'mutants': [],
    'trusted': [],
    'not_covered': [],
    'samples': [],
}
