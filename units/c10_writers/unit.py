"""unit c10_writers — the writers of the member / operator / type / metatable indexes establish the invariants that
`remove` (unit c10_remove2) relies on (C10)."""
import os
SRC = 'crates/emmylua_code_analysis/src/'

DB = SRC + 'db_index/'

HASH = 'broadcast use vstd::std_specs::hash::group_hash_axioms;'
SPIN = '#[verifier::spinoff_prover]'


def st(file, name, attrs=None, **kw):
    d = {'src': {'file': DB + file, 'kind': 'struct', 'name': name}, 'rules': [('struct-fields', kw)]}
    if attrs: d['attrs'] = attrs
    return d


def fn(file, impl, name, **kw):
    d = {'src': {'file': DB + file, 'kind': 'fn', 'impl': impl, 'name': name}}
    d.update(kw)
    return d


MB = 'member/mod.rs'
OM = 'member/lua_owner_members.rs'
MEM_FRAME = 'final(self).members == old(self).members'
OWN_FRAME = 'final(self).owner_members == old(self).owner_members'
MCO_FRAME = 'final(self).member_current_owner == old(self).member_current_owner'
INF_FRAME = 'final(self).in_filed == old(self).in_filed'
OLD4 = 'old(self).members@, old(self).member_current_owner@, old(self).owner_members@, old(self).in_filed@'

ITEMS = {
    'FileId': {'src': {'file': SRC + 'vfs/file_id.rs', 'kind': 'struct', 'name': 'FileId', 'drop_attrs': False}, 'attrs': '#[derive(Structural)]'},
    'InFiled': {'src': {'file': SRC + 'vfs/file_id.rs', 'kind': 'struct', 'name': 'InFiled', 'drop_attrs': False}},
    'LuaDeclId': {'src': {'file': DB + 'declaration/decl_id.rs', 'kind': 'struct', 'name': 'LuaDeclId', 'drop_attrs': False}, 'attrs': '#[derive(Structural)]'},
    'WorkspaceId': {'src': {'file': DB + 'module/workspace.rs', 'kind': 'struct', 'name': 'WorkspaceId', 'drop_attrs': False}, 'attrs': '#[derive(Structural)]'},
    'LuaTypeIdentifier': {'src': {'file': DB + 'type/type_decl.rs', 'kind': 'enum', 'name': 'LuaTypeIdentifier'}, 'attrs': '#[derive(PartialEq, Eq, Hash)]'},
    'LuaOperatorId': {'src': {'file': DB + 'operators/lua_operator.rs', 'kind': 'struct', 'name': 'LuaOperatorId', 'drop_attrs': False}, 'attrs': '#[derive(Structural)]'},
    'LuaOperatorMetaMethod': {'src': {'file': DB + 'operators/lua_operator_meta_method.rs', 'kind': 'enum', 'name': 'LuaOperatorMetaMethod', 'drop_attrs': False}},
    'LuaOperatorOwner': {'src': {'file': DB + 'operators/lua_operator.rs', 'kind': 'enum', 'name': 'LuaOperatorOwner'},
                         'attrs': '#[derive(PartialEq, Eq, Hash)]'},
    'LuaOperator': st('operators/lua_operator.rs', 'LuaOperator', keep=['owner', 'op', 'file_id', 'range']),
    'LuaOperator::get_owner': fn('operators/lua_operator.rs', 'LuaOperator', 'get_owner', ret='r', ensures='*r == self.owner'),
    'LuaOperator::get_op': fn('operators/lua_operator.rs', 'LuaOperator', 'get_op', ret='r', ensures='r == self.op'),
    'LuaOperator::get_id': fn('operators/lua_operator.rs', 'LuaOperator', 'get_id', ret='r',
                              ensures='r == (LuaOperatorId { file_id: self.file_id, position: self.range.start })'),
    # ---- member index
    'LuaMemberFeature': {'src': {'file': DB + 'member/lua_member_feature.rs', 'kind': 'enum', 'name': 'LuaMemberFeature'}, 'attrs': '#[derive(Clone, Copy)]'},
    'LuaMemberFeature::is_decl': fn('member/lua_member_feature.rs', 'LuaMemberFeature', 'is_decl'),
    'LuaMemberId': st('member/lua_member.rs', 'LuaMemberId', attrs='#[derive(Clone, Copy, PartialEq, Eq, Hash)]'),
    'LuaMember': st('member/lua_member.rs', 'LuaMember'),
    'LuaMember::get_key': fn('member/lua_member.rs', 'LuaMember', 'get_key', ret='r', ensures='*r == self.key'),
    'LuaMember::get_file_id': fn('member/lua_member.rs', 'LuaMember', 'get_file_id', ret='r', ensures='r == self.member_id.file_id'),
    'LuaMember::get_id': fn('member/lua_member.rs', 'LuaMember', 'get_id', ret='r', ensures='r == self.member_id'),
    'LuaMember::get_feature': fn('member/lua_member.rs', 'LuaMember', 'get_feature', ret='r', ensures='r == self.feature'),
    'LuaMemberIndexItem': {'src': {'file': DB + 'member/lua_member_item.rs', 'kind': 'enum', 'name': 'LuaMemberIndexItem'}},
    'LuaMemberOwner': {'src': {'file': DB + 'member/lua_member_owner.rs', 'kind': 'enum', 'name': 'LuaMemberOwner'}, 'attrs': '#[derive(PartialEq, Eq, Hash)]'},
    'LuaMemberOwner::is_unknown': fn('member/lua_member_owner.rs', 'LuaMemberOwner', 'is_unknown', ret='r',
                                     ensures='r == (*self is LocalUnresolve)'),
    'MemberOrOwner': {'src': {'file': DB + MB, 'kind': 'enum', 'name': 'MemberOrOwner'}, 'attrs': '#[derive(PartialEq, Eq, Hash)]', 'rules': ['vis-pub']},
    'OwnerMemberStatus': {'src': {'file': DB + OM, 'kind': 'enum', 'name': 'OwnerMemberStatus'}},
    'LuaOwnerMembers': st(OM, 'LuaOwnerMembers'),
    'LuaOwnerMembers::new': fn(OM, 'LuaOwnerMembers', 'new', ret='r', ensures='r.members@ == Map::<LuaMemberKey, LuaMemberIndexItem>::empty()'),
    'LuaOwnerMembers::add_member': fn(OM, 'LuaOwnerMembers', 'add_member', requires='keys_ok()', vac=False, body_first=HASH,
                                      ensures='final(self).members@ == old(self).members@.insert(key, item), final(self).resolve_state == old(self).resolve_state'),
    'LuaOwnerMembers::get_member': fn(OM, 'LuaOwnerMembers', 'get_member', requires='keys_ok()', vac=False, body_first=HASH, ret='r',
                                      ensures='r matches Some(v) ==> self.members@.contains_key(*key) && *v == self.members@[*key], r is None ==> !self.members@.contains_key(*key)'),
    'LuaOwnerMembers::contains_member': fn(OM, 'LuaOwnerMembers', 'contains_member', requires='keys_ok()', vac=False, body_first=HASH, ret='r',
                                           ensures='r == self.members@.contains_key(*key)'),
    'LuaOwnerMembers::get_member_mut': fn(OM, 'LuaOwnerMembers', 'get_member_mut', requires='keys_ok()', vac=False, body_first=HASH, ret='r',
                                          ensures='''final(self).resolve_state == old(self).resolve_state,
            match r {
                Some(v) => old(self).members@.contains_key(*key) && *v == old(self).members@[*key] && final(self).members@ == old(self).members@.insert(*key, *final(v)),
                None => !old(self).members@.contains_key(*key) && final(self).members@ == old(self).members@,
            }'''),
    'LuaMemberIndex': st(MB, 'LuaMemberIndex'),
    'LuaMemberIndex::new': fn(MB, 'LuaMemberIndex', 'new', ret='r',
                              ensures='mwf(&r) /*@C10.member.writer-wf.new*/, r.members@.len() == 0 && r.in_filed@.len() == 0 && r.owner_members@.len() == 0 && r.member_current_owner@.len() == 0'),
    'LuaMemberIndex::get_member': fn(MB, 'LuaMemberIndex', 'get_member', requires='keys_ok()', vac=False, body_first=HASH, ret='r',
                                     ensures='r matches Some(v) ==> self.members@.contains_key(*id) && *v == self.members@[*id], r is None ==> !self.members@.contains_key(*id)'),
    'LuaMemberIndex::add_in_file_object': fn(
        MB, 'LuaMemberIndex', 'add_in_file_object', requires='keys_ok()', vac=False, body_first=HASH,
        ensures=', '.join([MEM_FRAME, OWN_FRAME, MCO_FRAME]) + ''',
            // the file's bookkeeping set gains exactly this object; every other file's set is untouched
            inf_added(old(self).in_filed@, final(self).in_filed@, file_id, member_or_owner) /*@C10.member.bookkeeping-records-object-under-file*/'''),
    'LuaMemberIndex::set_member_owner': fn(
        MB, 'LuaMemberIndex', 'set_member_owner', body_first=HASH, attrs=SPIN,
        requires='''keys_ok(), mwf(old(self)),
            // the bookkeeping file is the member id's own file (every call site passes `member_id.file_id`): Member(id) may only be
            // recorded under the file its id names (member_wf clause 3), and that is where `remove` looks for it
            file_id == id.file_id''',
        proof=[(r'self\.add_in_file_object\([^;]*MemberOrOwner::Member\(id\)\);', 'after',
                '''let ghost inf1 = self.in_filed@;
        proof {
            lemma_wf_record_member_only(old(self).members@, old(self).member_current_owner@, old(self).owner_members@, old(self).in_filed@, inf1, id); /*@C10.member.writer-wf.set_member_owner.step-member*/
            lemma_wf_set_current_owner(old(self).members@, old(self).member_current_owner@, old(self).owner_members@, inf1, id, owner); /*@C10.member.writer-wf.set_member_owner.step-current-owner*/
        }'''),
               (r'self\.add_in_file_object\(file_id, MemberOrOwner::Owner\(owner\)\);', 'after',
                'proof { lemma_wf_record_owner(self.members@, self.member_current_owner@, self.owner_members@, inf1, self.in_filed@, file_id, owner); /*@C10.member.writer-wf.set_member_owner.step-owner*/ }')],
        ensures=', '.join([MEM_FRAME, OWN_FRAME]) + ''',
            mwf(final(self)) /*@C10.member.writer-wf.set_member_owner*/,
            // the new member_current_owner entry is swept with the file: Member(id) is recorded under it, whether or not `members` knows the id
            inf_has(final(self).in_filed@, file_id, MemberOrOwner::Member(id)) /*@C10.member.writer-records-member-for-file.set_member_owner*/,
            inf_has(final(self).in_filed@, file_id, MemberOrOwner::Owner(owner)) /*@C10.member.writer-records-owner-for-file.set_member_owner*/,
            forall|g: FileId, x: MemberOrOwner| inf_has(old(self).in_filed@, g, x) ==> inf_has(final(self).in_filed@, g, x)'''),
}

ITEMS.update({
    'LuaMemberIndex::add_member_to_owner': fn(
        MB, 'LuaMemberIndex', 'add_member_to_owner', body_first=HASH + ' broadcast use lemma_wf_own_ext_b;', attrs=SPIN,
        requires='''keys_ok(), mwf(old(self)),
            // Owner(owner) is recorded under the member's own file BEFORE the id is filed under the owner (add_member and every
            // set_member_owner(owner, member_id.file_id, member_id) + add_member_to_owner(owner, member_id) pair do that)
            inf_has(old(self).in_filed@, id.file_id, MemberOrOwner::Owner(owner))''',
        ensures=', '.join([MEM_FRAME, MCO_FRAME, INF_FRAME]) + ''',
            own_ext(old(self).owner_members@, final(self).owner_members@, owner, id) /*@C10.member.add_member_to_owner.touches-only-that-owner*/,
            mwf(final(self)) /*@C10.member.every-item-is-swept*/'''),
    'LuaMemberIndex::add_member': fn(
        MB, 'LuaMemberIndex', 'add_member', body_first=HASH + ' let ghost m0 = member;', ret='r', attrs=SPIN,
        requires='keys_ok(), mwf(old(self))',
        proof=[
            (r'self\.add_in_file_object\(file_id, MemberOrOwner::Member\(id\)\);', 'after',
             'proof { lemma_wf_record_member(' + OLD4 + ', self.in_filed@, id, m0); /*@C10.member.writer-wf.add_member.step-member*/ }'),
            (r'self\.member_current_owner\.insert\(id, owner\.clone\(\)\);', 'after',
             '''let ghost inf1 = self.in_filed@;
            proof { lemma_wf_set_current_owner(self.members@, old(self).member_current_owner@, self.owner_members@, inf1, id, owner); /*@C10.member.writer-wf.add_member.step-current-owner*/ }'''),
            (r'self\.add_in_file_object\(file_id, MemberOrOwner::Owner\(owner\.clone\(\)\)\);', 'after',
             'proof { lemma_wf_record_owner(self.members@, self.member_current_owner@, self.owner_members@, inf1, self.in_filed@, file_id, owner); /*@C10.member.writer-wf.add_member.step-owner*/ }'),
        ],
        ensures='''r == member.member_id,
            mwf(final(self)) /*@C10.member.writer-wf.add_member*/,
            inf_has(final(self).in_filed@, r.file_id, MemberOrOwner::Member(r)) /*@C10.member.writer-records-member-for-file*/,
            !(owner is LocalUnresolve) ==> inf_has(final(self).in_filed@, r.file_id, MemberOrOwner::Owner(owner)) /*@C10.member.writer-records-owner-for-file*/'''),
})

TY = 'type/mod.rs'
ITEMS.update({
    'LuaTypeOwner': {'src': {'file': DB + 'type/type_owner.rs', 'kind': 'enum', 'name': 'LuaTypeOwner'}, 'attrs': '#[derive(PartialEq, Eq, Hash)]'},
    'LuaTypeOwner::get_file_id': fn('type/type_owner.rs', 'LuaTypeOwner', 'get_file_id', ret='r', ensures='r == owner_file(*self) /*@C10.type.owner-file-is-the-file-of-its-id*/'),
    'LuaDeclTypeKind': {'src': {'file': DB + 'type/type_decl.rs', 'kind': 'enum', 'name': 'LuaDeclTypeKind'}, 'attrs': '#[derive(Clone, Copy)]'},
    'LuaTypeExtra': {'src': {'file': DB + 'type/type_decl.rs', 'kind': 'enum', 'name': 'LuaTypeExtra'}},
    'LuaDeclLocation': st('type/type_decl.rs', 'LuaDeclLocation'),
    'LuaTypeDecl': st('type/type_decl.rs', 'LuaTypeDecl'),
    'LuaTypeDecl::new': fn('type/type_decl.rs', 'LuaTypeDecl', 'new', ret='r',
                           ensures='r.locations@.len() == 1 && r.locations@[0].file_id == file_id && r.locations@[0].range == range /*@C10.type.new-decl-has-one-location-of-its-file*/, r.id == id, r.simple_name == name'),
    'LuaTypeIndex': st(TY, 'LuaTypeIndex'),
})

OP = 'operators/mod.rs'
OP_ID = '(LuaOperatorId { file_id: operator.file_id, position: operator.range.start })'
ITEMS.update({
    'LuaOperatorIndex': st(OP, 'LuaOperatorIndex'),
    'LuaOperatorIndex::new': fn(OP, 'LuaOperatorIndex', 'new', ret='r',
                                ensures='owf(&r) && table_owners_cofiled(r.type_operators_map@) /*@C10.operator.writer-wf.new*/'),
    'LuaOperatorIndex::add_operator': fn(
        OP, 'LuaOperatorIndex', 'add_operator', attrs=SPIN, body_first=HASH + ' let ghost op0 = operator;',
        requires='''keys_ok(), owf(old(self)),
            // the operator id (file + start offset of the tag / field / name token) is new, or is re-registered for the same owner and
            // meta method: otherwise the old (owner, op) vector keeps an id that `remove` never cleans (see lemma_op_add)
            old(self).operators@.contains_key(%(id)s) ==> old(self).operators@[%(id)s].owner == operator.owner && old(self).operators@[%(id)s].op == operator.op''' % {'id': OP_ID},
        proof=[(r'\}\s*$', 'before', '''proof {
            lemma_op_add(old(self).operators@, old(self).type_operators_map@, old(self).in_filed_operator_map@,
                self.type_operators_map@, self.in_filed_operator_map@, id, op0); /*@C10.operator.writer-wf.step*/
            let l = self.in_filed_operator_map@[id.file_id]@; assert(l[l.len() - 1] == id);
        }''')],
        ensures='''
            owf(final(self)) /*@C10.operator.writer-wf*/,
            final(self).in_filed_operator_map@.contains_key(operator.file_id)
                && final(self).in_filed_operator_map@[operator.file_id]@.contains(%(id)s) /*@C10.operator.writer-records-id-for-file*/,
            // operators of a setmetatable table stay in the table's file when the caller registers them there
            table_owners_cofiled(old(self).type_operators_map@) && (operator.owner matches LuaOperatorOwner::Table(x) ==> x.file_id == operator.file_id)
                ==> table_owners_cofiled(final(self).type_operators_map@) /*@C10.operator.writer-table-owners-cofiled*/''' % {'id': OP_ID}),
})

NAMES3 = 'old(self).global_name_type_map@, final(self).global_name_type_map@, old(self).internal_name_type_map@, final(self).internal_name_type_map@, old(self).local_name_type_map@, final(self).local_name_type_map@'
TWINV = 'keys_ok(), type_winv(old(self))'
ITEMS.update({
    'InFiled::new': {'src': {'file': SRC + 'vfs/file_id.rs', 'kind': 'fn', 'impl': 'InFiled', 'name': 'new'}, 'ret': 'r',
                     'ensures': 'r.file_id == file_id && r.value == value'},
    'LuaTypeDecl::get_id': fn('type/type_decl.rs', 'LuaTypeDecl', 'get_id', ret='r', ensures='r == self.id'),
    'LuaTypeDecl::merge_decl': fn('type/type_decl.rs', 'LuaTypeDecl', 'merge_decl', rules=[('vec-extend-vec', {'count': 1})],
                                  ensures='final(self).locations@ == old(self).locations@ + other.locations@, final(self).simple_name == old(self).simple_name, final(self).id == old(self).id'),
    'LuaTypeIndex::new': fn(TY, 'LuaTypeIndex', 'new', ret='r', ensures='type_winv(&r) && supers_listed(&r) /*@C10.type.writer-wf.new*/'),
    'LuaTypeIndex::add_file_namespace': fn(
        TY, 'LuaTypeIndex', 'add_file_namespace', requires=TWINV, body_first=HASH,
        ensures='''type_winv(final(self)) /*@C10.type.writer-wf.add_file_namespace*/, supers_listed(old(self)) ==> supers_listed(final(self)) /*@C10.type.writer-keeps-supers-listed*/,
            final(self).file_namespace@ == old(self).file_namespace@.insert(file_id, namespace) /*@C10.type.namespace-keyed-by-its-file*/,
            names_frame(old(self), final(self)),
            final(self).file_using_namespace == old(self).file_using_namespace && final(self).file_types == old(self).file_types'''),
    'LuaTypeIndex::add_file_using_namespace': fn(
        TY, 'LuaTypeIndex', 'add_file_using_namespace', requires=TWINV, body_first=HASH,
        ensures='''type_winv(final(self)) /*@C10.type.writer-wf.add_file_using_namespace*/, supers_listed(old(self)) ==> supers_listed(final(self)) /*@C10.type.writer-keeps-supers-listed*/,
            final(self).file_using_namespace@.contains_key(file_id)
                && forall|g: FileId| g != file_id ==> #[trigger] final(self).file_using_namespace@.contains_key(g) == old(self).file_using_namespace@.contains_key(g)
                    && (old(self).file_using_namespace@.contains_key(g) ==> final(self).file_using_namespace@[g] == old(self).file_using_namespace@[g]) /*@C10.type.using-namespace-keyed-by-its-file*/,
            names_frame(old(self), final(self)), final(self).file_namespace == old(self).file_namespace && final(self).file_types == old(self).file_types'''),
    'LuaTypeIndex::index_type_decl_name': fn(
        TY, 'LuaTypeIndex', 'index_type_decl_name', requires='keys_ok()', vac=False, body_first=HASH, attrs=SPIN,
        rules=[('c10w-declid-closure-contract', {'count': 3}), ('c10w-hoist-entry-key', {'count': 3})],
        proof=[(r'(?s)self\s*\.global_name_type_map.*?\}\);', 'after', 'proof { assert(self.global_name_type_map@.contains_key(__gk)); }'),
               (r'(?s)self\s*\.internal_name_type_map.*?\}\);', 'after', 'proof { assert(self.internal_name_type_map@[*workspace_id]@.contains_key(__gk)); }'),
               (r'(?s)self\s*\.local_name_type_map.*?\}\);', 'after', 'proof { assert(self.local_name_type_map@[*file_id]@.contains_key(__gk)); }')],
        ensures='''type_other_fields_same(old(self), final(self)),
            // a name with the declaration's text is registered in the map of its scope (for this id unless the text was taken), nothing else changes
            itdn_post(%s, *decl_id) /*@C10.type.name-registered-in-its-scope*/''' % NAMES3),
    'LuaTypeIndex::add_type_decl': fn(
        TY, 'LuaTypeIndex', 'add_type_decl', attrs=SPIN, body_first=HASH + ' let ghost d0 = type_decl;',
        requires=TWINV + ''',
            // the declaration handed in lives in `file_id` (LuaTypeDecl::new(file_id, ..) makes exactly one location, of that file) and a
            // file-scoped id (`LuaTypeDeclId::file(file_id, ..)`) is declared in its own file: the one call site (decl/docs.rs add_type_decl) does both
            type_decl.locations@.len() > 0, locs_in(type_decl, file_id),
            type_decl.id.ident() matches LuaTypeIdentifier::File(g, _) ==> g == file_id''',
        proof=[(r'self\.index_type_decl_name\(&id\);', 'before', 'let ghost gid = id;'),
               (r'\}\s*$', 'before', '''proof {
            lemma_ft_added(old(self).file_types@, self.file_types@, file_id, gid); /*@C10.type.writer-records-decl-for-file.step*/
            lemma_add_type_decl(old(self), self, file_id, gid, d0); /*@C10.type.writer-wf.step*/
        }''')],
        ensures='''type_winv(final(self)) /*@C10.type.writer-wf*/, supers_listed(old(self)) ==> supers_listed(final(self)) /*@C10.type.writer-keeps-supers-listed*/,
            ft_listed(final(self).file_types@, file_id, type_decl.id) /*@C10.type.writer-records-decl-for-file*/'''),
    'LuaTypeIndex::add_generic_params': fn(
        TY, 'LuaTypeIndex', 'add_generic_params', body_first=HASH,
        requires=TWINV + ', old(self).full_name_type_map@.contains_key(decl_id)',
        ensures='''type_winv(final(self)) /*@C10.type.writer-wf.add_generic_params*/, supers_listed(old(self)) ==> supers_listed(final(self)) /*@C10.type.writer-keeps-supers-listed*/,
            final(self).generic_params@ == old(self).generic_params@.insert(decl_id, params)'''),
    'LuaTypeIndex::add_super_type': fn(
        TY, 'LuaTypeIndex', 'add_super_type', attrs=SPIN, body_first=HASH,
        requires=TWINV,
        proof=[(r'\}\s*$', 'before', '''proof {
            let v = self.supers@[decl_id]@; assert(v.drop_last() =~= (if old(self).supers@.contains_key(decl_id) { old(self).supers@[decl_id]@ } else { Seq::empty() }));
            lemma_add_super(old(self), self, decl_id, file_id); /*@C10.type.writer-wf.add_super_type.step*/
        }''')],
        ensures='''
            // what it does: the super list of decl_id (created if need be) gains one entry, InFiled { file_id, .. }, at its end; nothing else changes
            super_added(old(self), final(self), decl_id, file_id) /*@C10.type.super-recorded-with-its-file*/,
            type_winv(final(self)) /*@C10.type.writer-wf.add_super_type*/,
            // the entry is filed under a class LISTED under file_id — where today's `remove(file_id)` looks for it — only if the caller
            // makes it so; the real call sites do not always (findings T1/T2: the removal of such entries is the job of the sweep over
            // all super lists that is being added to `remove`, clause C10.type.no-super-of-removed-file-anywhere of unit c10_remove2)
            supers_listed(old(self)) && ft_listed(old(self).file_types@, file_id, decl_id) ==> supers_listed(final(self)) /*@C10.type.super-of-a-listed-class-stays-listed*/'''),
    'LuaTypeIndex::bind_type': fn(
        TY, 'LuaTypeIndex', 'bind_type', attrs=SPIN, body_first=HASH + ' let ghost c0 = cache;',
        requires=TWINV,
        proof=[(r'\}\s*$', 'before', 'proof { lemma_bind_type(old(self), self, owner, c0); /*@C10.type.writer-wf.bind_type.step*/ }')],
        ensures='''type_winv(final(self)) /*@C10.type.writer-wf.bind_type*/, supers_listed(old(self)) ==> supers_listed(final(self)) /*@C10.type.writer-keeps-supers-listed*/,
            final(self).types@.contains_key(owner),
            final(self).in_filed_type_owner@.contains_key(owner_file(owner)) && final(self).in_filed_type_owner@[owner_file(owner)]@.contains(owner) /*@C10.type.writer-records-owner-for-file*/'''),
})

MT = 'metatable/mod.rs'
ITEMS.update({
    'LuaMetatableIndex': st(MT, 'LuaMetatableIndex'),
    'LuaMetatableIndex::new': fn(MT, 'LuaMetatableIndex', 'new', ret='r', ensures='metatable_cofiled(r.metatables@) /*@C10.metatable.writer-cofiled.new*/'),
    'LuaMetatableIndex::add': fn(
        MT, 'LuaMetatableIndex', 'add', body_first=HASH,
        requires='''keys_ok(), metatable_cofiled(old(self).metatables@),
            // the only call site (analyze_setmetatable) builds both arguments with InFiled::new(file_id, ..) of one and the same file_id
            table.file_id == metatable.file_id''',
        ensures='''metatable_cofiled(final(self).metatables@) /*@C10.metatable.writer-cofiled*/,
            final(self).metatables@ == old(self).metatables@.insert(table, metatable)'''),
})

LUA_AN = SRC + 'compilation/analyzer/lua/'
ITEMS.update({
    'DbIndex': {'src': {'file': DB + 'mod.rs', 'kind': 'struct', 'name': 'DbIndex'},
                'rules': [('struct-fields', {'keep': ['types_index', 'members_index', 'operator_index', 'metatable_index']})]},
    'DbIndex::get_metatable_index_mut': fn('mod.rs', 'DbIndex', 'get_metatable_index_mut', ret='r',
        ensures='*r == old(self).metatable_index, final(self).metatable_index == *final(r), final(self).types_index == old(self).types_index, '
                'final(self).members_index == old(self).members_index, final(self).operator_index == old(self).operator_index'),
    'LuaAnalyzer': {'src': {'file': LUA_AN + 'mod.rs', 'kind': 'struct', 'name': 'LuaAnalyzer'}, 'rules': [('struct-fields', {'keep': ['file_id', 'db']}), 'vis-pub']},
    'analyze_setmetatable::register': {
        'src': {'kind': 'slice', 'name': 'register', 'in': {'file': LUA_AN + 'metatable.rs', 'kind': 'fn', 'name': 'analyze_setmetatable'},
                'from': r'let file_id = analyzer\.file_id;', 'to': r'InFiled::new\(file_id, metatable\.get_range\(\)\),\s*\);',
                'head': 'pub fn register(analyzer: &mut LuaAnalyzer<\'_>, table: LuaExpr, metatable: LuaTableExpr)', 'tail': ''},
        'requires': 'keys_ok(), metatable_cofiled(old(analyzer).db.metatable_index.metatables@)',
        'body_first': HASH,
        'ensures': '''
            // the only writer of the metatable index registers a table and its metatable under one and the same file: the invariant
            // that c10_remove2's clause C10.metatable.no-value-points-to-removed-file assumes is kept
            metatable_cofiled(final(analyzer).db.metatable_index.metatables@) /*@C10.metatable.call-site-keeps-cofiled*/'''},
})

PR = 'property/mod.rs'
P_FRAME = 'final(self).in_filed_owner == old(self).in_filed_owner'
OWN_FILE = 'sem_file(owner_id) matches Some(g) ==> g == file_id'
def prop_writer(name):
    return fn(PR, 'LuaPropertyIndex', name, body_first=HASH, attrs=SPIN,
              requires='''keys_ok(), pwf(old(self)), old(self).id_count < u32::MAX,
            // an owner id that carries a file (member / declaration / signature) is annotated from its own file
            ''' + OWN_FILE,
              proof=[(r'Some\(\(\)\)\s*\}\s*$', 'before',
                      'proof { lemma_prop_add(old(self).property_owners_map@, pom1, old(self).in_filed_owner@, self.in_filed_owner@, file_id, owner_id); /*@C10.property.every-owner-is-swept.step*/ }'),
                     (r'self\.in_filed_owner\s*\.entry\(', 'before', 'let ghost pom1 = self.property_owners_map@;')],
              ensures='''pwf(final(self)) /*@C10.property.every-owner-is-swept*/,
            r is Some ==> pinf_has(final(self).in_filed_owner@, file_id, owner_id) /*@C10.property.writer-records-owner-for-file*/''', ret='r')
ITEMS.update({
    'LuaSignatureId': st('signature/signature.rs', 'LuaSignatureId', attrs='#[derive(Clone, Copy, PartialEq, Eq, Hash)]'),
    'LuaPropertyId': st('property/property.rs', 'LuaPropertyId', attrs='#[derive(Clone, Copy, PartialEq, Eq, Hash, Structural)]'),
    'LuaPropertyId::new': fn('property/property.rs', 'LuaPropertyId', 'new', ret='r', ensures='r.id == id'),
    'LuaSemanticDeclId': {'src': {'file': DB + 'semantic_decl.rs', 'kind': 'enum', 'name': 'LuaSemanticDeclId'}, 'attrs': '#[derive(PartialEq, Eq, Hash)]'},
    'LuaCommonProperty': st('property/property.rs', 'LuaCommonProperty', keep=['visibility']),
    'LuaPropertyIndex': st(PR, 'LuaPropertyIndex'),
    'LuaPropertyIndex::new': fn(PR, 'LuaPropertyIndex', 'new', ret='r', ensures='pwf(&r) /*@C10.property.every-owner-is-swept.new*/, r.id_count == 0'),
    'LuaPropertyIndex::get_or_create_property': fn(
        PR, 'LuaPropertyIndex', 'get_or_create_property', body_first=HASH, ret='r', attrs=SPIN,
        rules=[('option-map-match', {'count': 2})],
        requires='keys_ok(), old(self).id_count < u32::MAX',
        ensures=P_FRAME + ''',
            pom_got(old(self).property_owners_map@, final(self).property_owners_map@, owner_id) /*@C10.property.get-or-create-touches-only-that-owner*/,
            r is None ==> final(self).property_owners_map@ == old(self).property_owners_map@,
            final(self).id_count >= old(self).id_count'''),
})
for _n in ('add_description', 'add_visibility', 'add_source', 'add_deprecated', 'add_version', 'add_see', 'add_other', 'add_decl_feature', 'add_attribute_use'):
    ITEMS['LuaPropertyIndex::' + _n] = prop_writer(_n)
ITEMS['LuaPropertyIndex::add_see']['rules'] = [('string-add-assign-push-str', {'count': 2})]
ITEMS['LuaPropertyIndex::add_owner_map'] = fn(PR, 'LuaPropertyIndex', 'add_owner_map', body_first=HASH, attrs=SPIN, ret='r',
    requires='''keys_ok(), pwf(old(self)), old(self).id_count < u32::MAX,
            // both call sites (decl/stats.rs: analyze_func_stat, analyze_local_func_stat) pass a declaration / member and the signature of
            // its closure, both of the file being analysed
            (sem_file(source_owner_id) matches Some(g) ==> g == file_id) && (sem_file(same_property_owner_id) matches Some(g) ==> g == file_id)''',
    ensures='''
            // every owner with a property_owners_map entry that carries a file is recorded under that file — BOTH owners that share the property
            pwf(final(self)) /*@C10.property.every-owner-is-swept*/,
            r is Some ==> pinf_has(final(self).in_filed_owner@, file_id, source_owner_id) /*@C10.property.add_owner_map.records-source-owner*/''',
    proof=[(r'Some\(\(\)\)\s*\}\s*$', 'before', '''proof {
            assert forall|g: FileId, x: LuaSemanticDeclId| pinf_has(old(self).in_filed_owner@, g, x) implies pinf_has(self.in_filed_owner@, g, x) by {
                if g != file_id { assert(self.in_filed_owner@.contains_key(g) == old(self).in_filed_owner@.contains_key(g)); }
            }
        }''')])

ITEMS.update({
    'add_type_decl::register': {
        'src': {'kind': 'slice', 'name': 'register_decl', 'in': {'file': SRC + 'compilation/analyzer/decl/docs.rs', 'kind': 'fn', 'name': 'add_type_decl'},
                'from': r'let id = if flag\.contains\(LuaTypeFlag::File\)', 'to': r'id\.clone\(\),\s*\),\s*\);',
                'head': 'pub fn register_decl(type_index: &mut LuaTypeIndex, flag: FlagSet<LuaTypeFlag>, file_id: FileId, workspace_id: WorkspaceId, '
                        'full_name: String, range: TextRange, kind: LuaDeclTypeKind) -> LuaTypeDeclId', 'tail': 'id'},
        'ret': 'r', 'body_first': HASH,
        'requires': 'keys_ok(), type_winv(old(type_index))',
        'ensures': '''
            // the only call site of LuaTypeIndex::add_type_decl establishes its preconditions (one location, of the analysed file; a
            // file-scoped id names that same file): the invariant is kept with no further assumption
            type_winv(final(type_index)) /*@C10.type.call-site-keeps-writer-wf*/,
            supers_listed(old(type_index)) ==> supers_listed(final(type_index)),
            ft_listed(final(type_index).file_types@, file_id, r) /*@C10.type.call-site-records-decl-for-file*/'''},
})

ITEMS.update({
    'DbIndex::get_member_index_mut': fn('mod.rs', 'DbIndex', 'get_member_index_mut', ret='r',
        ensures='*r == old(self).members_index, final(self).members_index == *final(r), final(self).types_index == old(self).types_index, '
                'final(self).metatable_index == old(self).metatable_index, final(self).operator_index == old(self).operator_index'),
    'common::add_member': {
        'src': {'file': SRC + 'compilation/analyzer/common/mod.rs', 'kind': 'fn', 'name': 'add_member'},
        'requires': 'keys_ok(), mwf(&old(db).members_index)', 'body_first': HASH, 'ret': 'r',
        'ensures': '''
            // the re-owning pair set_member_owner(owner, member_id.file_id, member_id) + add_member_to_owner(owner, member_id) as the analyzers issue
            // it (this fn; the same two lines in unresolve/resolve.rs:160-163 and common/migrate_global_member.rs:40-41, 61-62): the member
            // invariant is kept with no further assumption, whether or not the member exists
            mwf(&final(db).members_index) /*@C10.member.call-site-keeps-writer-wf*/,
            inf_has(final(db).members_index.in_filed@, member_id.file_id, MemberOrOwner::Owner(owner)) /*@C10.member.call-site-records-owner-for-file*/'''},
})

UNIT = {
    'items': ITEMS,
    'extra_rules': [
        ('vec-extend-vec', r'self\.locations\.extend\(other\.locations\)', 'vx_vec_extend(&mut self.locations, other.locations)',
         'V.extend(W) with V, W: Vec<T> -> vx_vec_extend(&mut V, W), whose body is that very call; it only attaches the std contract '
         '(the elements of W are appended in order) that vstd lacks for the generic Extend::extend'),
        ('option-map-match', r'(self\.properties\s*\.get_mut\(&?\w+\))\s*\.map\(\|prop\| \(prop, (\*?\w+)\)\)',
         r'(match \1 { Some(prop) => Some((prop, \2)), None => None })',
         'O.map(|x| E) -> match O { Some(x) => Some(E), None => None } (std definition of Option::map; the closure is called at most once, with the payload)'),
        ('string-add-assign-push-str', r'see_content \+= ("[^"]*"|&\w+);', r'see_content.push_str(\1);',
         'S += X (S: String, X: &str) -> S.push_str(X): std, impl AddAssign<&str> for String: "This has the same behavior as the push_str method"; '
         'the text of the `see` tag is not part of any claimed clause'),
        ('c10w-hoist-entry-key', r'(self\s*\.\w+(?:\s*\.entry\([^()]*\)\s*\.or_default\(\))?)\s*\.entry\(name\.to_string\(\)\)',
         r'let __key = name.to_string(); let ghost __gk = __key;\n                \1.entry(__key)',
         'M[.entry(*S).or_default()].entry(name.to_string())... -> let __key = name.to_string(); M[...].entry(__key)...: the key expression is '
         'evaluated into a local first (it reads only `name`, a SmolStr borrowed from the id, and is independent of the map), so that the '
         'contract overlay can name the key; `let ghost __gk` is a Verus ghost copy (no run-time meaning)'),
        ('c10w-declid-closure-contract', r'\|\| decl_id\.clone\(\)', '|| -> (c: LuaTypeDeclId) ensures c == *decl_id { decl_id.clone() }',
         'contract overlay on the closure handed to Entry::or_insert_with: named result and `ensures` are added, the body expression is '
         'kept verbatim and Verus checks the ensures against it (clone of the interned id returns an equal id)'),
    ],
    'allow': [r'external_body', r'uninterp spec fn (ident|text)\(&self\)', r'uninterp spec fn smol_of\(s: Seq<char>\)',
              r'assume_specification<\'a, K: Eq \+ Hash \+ Borrow<Q>, V, S: BuildHasher, A: Allocator, Q: Hash \+ Eq \+ \?Sized>\[ HashMap::<K, V, S, A>::get_mut \]',
              r'assume_specification<\'a, K, V: Default> \[Entry::<\'a, K, V>::or_default\]',
              r'assume_specification<\'a, K, V, A: Allocator, F: FnOnce\(\) -> V> \[Entry::<\'a, K, V, A>::or_insert_with\]',
              r'assume_specification<T: PartialEq> \[<\[T\]>::contains\]'],
    'min_obligations': 100,
    'mutants': [
        # the seeded defect of the independent reviewer: Owner(owner) recorded under the file only when the owner is new
        {'name': 'member-owner-recorded-only-when-new', 'item': 'LuaMemberIndex::add_member',
         'pattern': r'self\.add_in_file_object\(file_id, MemberOrOwner::Owner\(owner\.clone\(\)\)\);',
         'repl': 'if !self.owner_members.contains_key(&owner) { self.add_in_file_object(file_id, MemberOrOwner::Owner(owner.clone())); }',
         'expect': r'C10\.member\.writer-records-owner-for-file'},
        {'name': 'member-recorded-under-file-0', 'item': 'LuaMemberIndex::add_member',
         'pattern': r'let file_id = member\.get_file_id\(\);', 'repl': 'let file_id = FileId { id: 0 };',
         'expect': r'C10\.member\.writer-records-member-for-file'},
        {'name': 'set-member-owner-records-nothing', 'item': 'LuaMemberIndex::set_member_owner',
         'pattern': r'self\.add_in_file_object\(file_id, MemberOrOwner::Owner\(owner\)\);',
         'repl': 'if false { self.add_in_file_object(file_id, MemberOrOwner::Owner(owner)); }',
         'expect': r'C10\.member\.writer-records-owner-for-file\.set_member_owner'},
        # the defect repaired by /repo 5c59cf7: the member_current_owner entry is not recorded under the file
        {'name': 'set-member-owner-records-member-under-file-0', 'item': 'LuaMemberIndex::set_member_owner',
         'pattern': r'self\.add_in_file_object\(file_id, MemberOrOwner::Member\(id\)\);',
         'repl': 'self.add_in_file_object(FileId { id: 0 }, MemberOrOwner::Member(id));',
         'expect': r'C10\.member\.(writer-wf\.set_member_owner|writer-records-member-for-file\.set_member_owner)'},
        {'name': 'add-member-to-owner-leaves-empty-owner', 'item': 'LuaMemberIndex::add_member_to_owner',
         'pattern': r'member_map\.add_member\(key, LuaMemberIndexItem::One\(id\)\);\s*return Some\(\(\)\);', 'repl': 'return Some(());',
         'expect': r'C10\.member\.(every-item-is-swept|add_member_to_owner\.touches-only-that-owner)'},
        {'name': 'add-member-to-owner-empties-list', 'item': 'LuaMemberIndex::add_member_to_owner',
         'pattern': r'ids\.push\(id\);\s*\}\s*\}\s*\}\s*\} else \{', 'repl': 'ids.clear(); } } } } else {',
         'expect': r'C10\.member\.(every-item-is-swept|add_member_to_owner\.touches-only-that-owner)'},
        {'name': 'operator-not-listed-under-file', 'item': 'LuaOperatorIndex::add_operator',
         'pattern': r'self\.in_filed_operator_map\s*\.entry\(id\.file_id\)\s*\.or_default\(\)\s*\.push\(id\);', 'repl': '',
         'expect': r'C10\.operator\.(writer-wf|writer-records-id-for-file)'},
        {'name': 'operator-listed-under-file-0', 'item': 'LuaOperatorIndex::add_operator',
         'pattern': r'\.entry\(id\.file_id\)', 'repl': '.entry(FileId { id: 0 })',
         'expect': r'C10\.operator\.(writer-wf|writer-records-id-for-file)'},
        {'name': 'operator-not-filed-under-owner', 'item': 'LuaOperatorIndex::add_operator',
         'pattern': r'\.entry\(op\)\s*\.or_default\(\)\s*\.push\(id\);', 'repl': '.entry(op).or_default();',
         'expect': r'C10\.operator\.writer-wf'},
        {'name': 'type-decl-not-listed-under-file', 'item': 'LuaTypeIndex::add_type_decl',
         'pattern': r'self\.file_types\.entry\(file_id\)\.or_default\(\)\.push\(id\.clone\(\)\);', 'repl': '',
         'expect': r'C10\.type\.(writer-wf|writer-records-decl-for-file)'},
        {'name': 'type-decl-listed-under-file-0', 'item': 'LuaTypeIndex::add_type_decl',
         'pattern': r'self\.file_types\.entry\(file_id\)', 'repl': 'self.file_types.entry(FileId { id: 0 })',
         'expect': r'C10\.type\.(writer-wf|writer-records-decl-for-file)'},
        {'name': 'bind-type-owner-not-listed-under-file', 'item': 'LuaTypeIndex::bind_type',
         'pattern': r'self\.in_filed_type_owner\s*\.entry\(owner\.get_file_id\(\)\)\s*\.or_default\(\)\s*\.insert\(owner\);', 'repl': '',
         'expect': r'C10\.type\.(writer-wf\.bind_type|writer-records-owner-for-file)'},
        {'name': 'bind-type-owner-listed-under-file-0', 'item': 'LuaTypeIndex::bind_type',
         'pattern': r'\.entry\(owner\.get_file_id\(\)\)', 'repl': '.entry(FileId { id: 0 })',
         'expect': r'C10\.type\.(writer-wf\.bind_type|writer-records-owner-for-file)'},
        {'name': 'type-owner-file-of-wrong-variant', 'item': 'LuaTypeOwner::get_file_id',
         'pattern': r'LuaTypeOwner::Member\(id\) => id\.file_id', 'repl': 'LuaTypeOwner::Member(id) => FileId { id: 0 }',
         'expect': r'C10\.type\.owner-file-is-the-file-of-its-id'},
        {'name': 'super-recorded-with-file-0', 'item': 'LuaTypeIndex::add_super_type',
         'pattern': r'InFiled::new\(file_id, super_type\)', 'repl': 'InFiled::new(FileId { id: 0 }, super_type)',
         'expect': r'C10\.type\.super-recorded-with-its-file'},
        {'name': 'file-scoped-name-registered-under-file-0', 'item': 'LuaTypeIndex::index_type_decl_name',
         'pattern': r'\.entry\(\*file_id\)', 'repl': '.entry(FileId { id: 0 })',
         'expect': r'C10\.type\.name-registered-in-its-scope'},
        {'name': 'property-description-owner-not-recorded', 'item': 'LuaPropertyIndex::add_description',
         'pattern': r'(self\.in_filed_owner\s*\.entry\(file_id\)\s*\.or_default\(\))\s*\.insert\(owner_id\);', 'repl': r'\1;',
         'expect': r'C10\.property\.(every-owner-is-swept|writer-records-owner-for-file)'},
        {'name': 'property-attribute-owner-recorded-under-file-0', 'item': 'LuaPropertyIndex::add_attribute_use',
         'pattern': r'self\.in_filed_owner\s*\.entry\(file_id\)', 'repl': 'self.in_filed_owner.entry(FileId { id: 0 })',
         'expect': r'C10\.property\.(every-owner-is-swept|writer-records-owner-for-file)'},
        # valid on a tree with the repair of FINDING_property.md applied (the pattern is the repaired text): reverting the repair
        {'name': 'property-owner-map-records-only-source-owner', 'item': 'LuaPropertyIndex::add_owner_map',
         'pattern': r'owners\.insert\(same_property_owner_id\);', 'repl': '',
         'expect': r'C10\.property\.every-owner-is-swept'},
        {'name': 'property-get-or-create-registers-other-owner', 'item': 'LuaPropertyIndex::get_or_create_property',
         'pattern': r'self\.property_owners_map\.insert\(owner_id\.clone\(\), id\);',
         'repl': 'self.property_owners_map.insert(LuaSemanticDeclId::LuaDecl(LuaDeclId { file_id: FileId { id: 0 }, position: TextSize { raw: 0 } }), id);',
         'expect': r'C10\.property\.get-or-create-touches-only-that-owner'},
        {'name': 'bookkeeping-replaces-the-files-set', 'item': 'LuaMemberIndex::add_in_file_object',
         'pattern': r'self\.in_filed\s*\.entry\(file_id\)\s*\.or_default\(\)\s*\.insert\(member_or_owner\);',
         'repl': 'let mut s = HashSet::new(); s.insert(member_or_owner); self.in_filed.insert(file_id, s);',
         'expect': r'C10\.member\.bookkeeping-records-object-under-file'},
    ],
    'trusted': [
        'hashbrown::{HashMap,HashSet} -> std::collections (same API subset and documented behaviour for new/insert/get/get_mut/contains_key/entry; order never relied on)',
        'vstd specifications of HashMap::{new,insert,get,contains_key,entry}, Entry::or_insert (shape reused), HashSet::{new,insert,default}, Vec::{new,push}, vec![..], HashMap/Vec::default',
        'HashMap::get_mut: std doc contract as assume_specification (text of unit c10_remove2)',
        'Entry::or_default: std doc contract as assume_specification (text of unit c20_globals); Entry::or_insert_with: std doc contract as assume_specification '
        '(the function is called only for a vacant entry; the entry then holds its result)',
        '<[T]>::contains (Vec::contains through deref): assume_specification WITHOUT contract (the invariants hold whatever it answers); likewise the derived '
        '`!=` / `==` on LuaMemberId (not Structural: an opaque LuaSyntaxId inside) has no specified meaning and none is used',
        'vx_vec_extend (external_body, body = v.extend(w)): Vec::extend with a Vec appends its elements in order (rule vec-extend-vec, LuaTypeDecl::merge_decl)',
        'derive(PartialEq) is field-wise equality (Verus `Structural`) on FileId, LuaDeclId, LuaOperatorId, WorkspaceId, LuaPropertyId (repository derive lists kept); derive lists '
        're-attached by hand on LuaMemberId, LuaOperatorOwner, LuaMemberOwner, MemberOrOwner, LuaTypeIdentifier, LuaTypeOwner, LuaSemanticDeclId, LuaSignatureId (only hashed as keys)',
        'derived Clone returns an equal value: hand-written `impl Clone` shims (external_body, ensures r == *self) for LuaMemberOwner, LuaOperatorOwner, LuaTypeOwner, LuaTypeDeclId '
        '(clone of the ArcIntern), LuaMemberKey, SmolStr, LuaSemanticDeclId; LuaMemberIndexItem::clone: same variant with the same ids',
        'obeys_key_model for every key type (keys_ok(): derived Hash/Eq, String)',
        'text-size TextSize/TextRange transcribed as plain structs, TextRange::start() = the field (text-size: `pub const fn start(self) -> TextSize { self.start }`); '
        'rowan/smol_str/internment/flagset payloads opaque: SmolStr::{as_str,to_string} -> uninterp text(), SmolStr::new -> uninterp smol_of(text), LuaTypeDeclId::get_id -> uninterp ident(), '
        'LuaTypeDeclId::{global,file,internal}: the interned identifier is the one built (shims with that ensures), get_simple_name / FlagSet::contains / AST get_range: no contract; '
        '`enum LuaTypeFlag` = the enum the flagset `flags!` macro generates (variant list transcribed)',
        'LuaMemberIndex::is_item_only_meta: shim WITHOUT contract (read-only `&self`; it consults the features of other members; its answer only selects which ids are merged)',
        'LuaCommonProperty: projected to `visibility`; its constructor and setters (add_extra_*, add_decl_feature, add_attribute_use) are shims without contract (they write one property value only)',
        'struct projections: LuaOperator (func dropped), LuaCommonProperty, DbIndex (to types_index, members_index, operator_index, metatable_index), LuaAnalyzer (to file_id, db): dropped fields are never '
        'read or written by the code under proof',
        'input assumption: fewer than 2^32 - 1 properties were ever created (`id_count: u32` is incremented per new property; `old(self).id_count < u32::MAX` is a precondition of the property writers)',
        'PRECONDITIONS of the writers = obligations of their call sites. Discharged here for: LuaMetatableIndex::add (slice analyze_setmetatable::register), LuaTypeIndex::add_type_decl '
        '(slice add_type_decl::register of decl/docs.rs), set_member_owner + add_member_to_owner (the real common::add_member). NOT discharged (basis: reading of the call sites): '
        'add_operator (the id is new or re-registered for the same owner and meta method: ids are file + start offset of distinct tags / fields / name tokens; set_signature_to_default_call checks '
        'get_operators(..).is_some() first; Table owners are registered from their own file by analyze_metable_field), add_generic_params (ids of declared types, doc/type_generic_header.rs), '
        'the property writers (an owner id that carries a file is annotated from that file), add_member_to_owner / set_member_owner at the four call sites that repeat common::add_member\'s two lines '
        '(unresolve/resolve.rs:160-163, common/migrate_global_member.rs:40-41 and 61-62, lua/stats.rs:265: all pass member_id.file_id)',
        'unit c10_remove2\'s post-state of LuaTypeIndex::remove (`type_remove_post` = the hypotheses of its lemma_type_final) is TAKEN from that unit: lemma_remove_keeps_type_winv / '
        'lemma_remove_keeps_supers_listed are about that relation; when `remove` gets the sweep over all super lists (proposed_fix_supers_sweep.diff of c10_remove2) the supers part of that relation '
        'changes and the two lemmas must be re-based on the new clauses',
    ],
    'not_covered': [
        'type_wf clause 2 (`supers_listed`: a super of file g is filed under a class listed under g) is NOT an invariant of the real code: add_super_type is called for classes that the file does not '
        'declare (findings T1: doc/type_def_tags.rs analyze_class resolves the class by name, `---@using` makes that another file\'s class; T2: unresolve/resolve.rs try_resolve_class_constructor '
        'adds a root class with the file of the call). add_super_type is proved to keep it only for a listed class; removing such entries is the job of the sweep over all super lists being added to '
        '`remove` (clause C10.type.no-super-of-removed-file-anywhere of unit c10_remove2)',
        'L5 (open known finding): common::bind_type -> merge_def_type_with_table -> common::add_member files members of another file\'s table under Type(class of file A) and records that under the member\'s '
        'file; after remove(A) owner_members[Type(class)] and member_current_owner still name the removed class. member_wf (about member ids) is kept; no writer contract can make `remove` clean it, '
        'because LuaMemberIndex::remove sweeps by member-id file only (c10_remove2 not_covered: "LuaMemberOwner owners that name a file-local type")',
        'LuaPropertyIndex: only clause "every owner that carries a file is listed under it" (what c10_remove\'s C10.property.owners-of-file-gone needs). NOT stated: a property shared by owners listed under '
        'different files, or annotated from several files (TypeDecl owners), is dropped by the first `remove` that visits one of its owners ("a property stays while any file still contributes to it" is not '
        'what `remove` does); property_owners_map values always name a live property (`remove` of one sharer leaves the other\'s id dangling unless both are listed under the same file, which add_owner_map now does)',
        'LuaGlobalIndex::add_global_decl: no contract — c10_remove2\'s clauses for LuaGlobalIndex::remove have no wf-style precondition',
        'table_owners_cofiled: add_operator is proved to keep it when the caller registers a Table-owned operator from the table\'s file; the call site (analyze_metable_field: LuaOperator::new with the '
        'analyzer\'s file_id for the owner built in analyze_setmetatable from the same file_id) is not extracted (LuaOperator is projected without `func`)',
        'call sites of add_operator / add_generic_params / bind_type / the property writers / the other four re-owning sites: not extracted (AST plumbing); see `trusted`',
        'LuaMemberIndex::{get_member_mut, get_members, ...}, LuaOwnerMembers::{set_resolved, set_unresolved}: `get_member_mut` hands out `&mut LuaMember`: a caller could change member_id through it '
        '(fields are private to member/lua_member.rs and no setter for member_id exists: Rust privacy, not proved)',
        'clear() of the five indexes (empties every map: trivially re-establishes the invariants) is not extracted',
    ],
    'samples': [
        'LuaMemberIndex::add_member: member_wf kept; Member(id) and (owner not LocalUnresolve) Owner(owner) recorded under the member\'s own file',
        'LuaMemberIndex::add_member_to_owner: under "Owner(owner) is recorded under id.file_id": only owner\'s entry changes, it is non-empty, each of its items holds `id` and ids the same key held before, '
        'no empty list; member_wf kept at all eight exits',
        'LuaMemberIndex::set_member_owner (file_id == id.file_id): member_wf kept; Member(id) and Owner(owner) recorded under file_id; common::add_member: member_wf kept without any assumption',
        'LuaOperatorIndex::add_operator (id new or same owner/op): op_wf kept, id listed under operator.file_id, table_owners_cofiled kept for own-file registrations',
        'LuaTypeIndex::add_type_decl (locations in file_id, file-scoped id of file_id): type_winv kept, id listed under file_id; the decl/docs.rs call site establishes the preconditions',
        'LuaTypeIndex::{add_super_type, bind_type, add_generic_params, add_file_namespace, add_file_using_namespace, index_type_decl_name}: exact effect + type_winv kept',
        'lemma_winv_wf: type_winv && supers_listed ==> type_wf;  lemma_remove_keeps_type_winv / _supers_listed: c10_remove2\'s post-state of remove(f) re-establishes them',
        'LuaPropertyIndex::add_owner_map / add_* / get_or_create_property: every property_owners_map key that carries a file is listed under it',
        'LuaMetatableIndex::add + analyze_setmetatable::register: metatable_cofiled kept',
    ],
    'findings': [
        'P (repaired, /repo d4b0e6c): add_owner_map recorded only source_owner_id under the file -> property_owners_map kept Signature(removed file) -> id; see FINDING_property.md',
        'M (repaired, /repo 5c59cf7): set_member_owner for an id without member (`t[k] = 1`, expression key) left member_current_owner[id] unswept',
        'T1/T2 (open, sweep in remove pending): supers[class of another file] keeps InFiled{removed file, ..}',
        'L5 (open known finding): members re-owned to a class of the removed file',
        'all replayed on the real crate: /verif/replay/c10_writers_demo (exit 1 while a trace remains)',
    ],
}
