// ---- member index, writer side: vocabulary and lemmas (bodies verified) ------------------------------------
/// the per-file bookkeeping set of file f (nothing recorded = empty)
pub open spec fn inf_set(inf: InfMoMap, f: FileId) -> Set<MemberOrOwner> { if inf.contains_key(f) { inf[f]@ } else { Set::empty() } }
/// `x` is recorded under file f
pub open spec fn inf_has(inf: InfMoMap, f: FileId, x: MemberOrOwner) -> bool { inf.contains_key(f) && inf[f]@.contains(x) }
/// what `add_in_file_object(f, x)` does to `in_filed`: file f's set gains exactly x, every other file's set is untouched
pub open spec fn inf_added(inf0: InfMoMap, inf1: InfMoMap, f: FileId, x: MemberOrOwner) -> bool {
    &&& inf1.contains_key(f) && inf1[f]@ == inf_set(inf0, f).insert(x)
    &&& forall|g: FileId| g != f ==> #[trigger] inf1.contains_key(g) == inf0.contains_key(g) && (inf0.contains_key(g) ==> inf1[g] == inf0[g])
}
/// recording an owner under a file keeps the invariant (owner records are never constrained)
pub proof fn lemma_wf_record_owner(mem: MemMap, mco: McoMap, own: OwnMap, inf0: InfMoMap, inf1: InfMoMap, f: FileId, o: LuaMemberOwner)
    requires member_wf(mem, mco, own, inf0), inf_added(inf0, inf1, f, MemberOrOwner::Owner(o)),
    ensures member_wf(mem, mco, own, inf1), forall|g: FileId, x: MemberOrOwner| inf_has(inf0, g, x) ==> inf_has(inf1, g, x),
{
    assert forall|g: FileId, x: MemberOrOwner| inf_has(inf0, g, x) implies inf_has(inf1, g, x) by {
        if g != f { assert(inf1.contains_key(g) == inf0.contains_key(g)); }
    }
    assert forall|id: LuaMemberId| #[trigger] mem.contains_key(id) implies inf1.contains_key(id.file_id) && inf1[id.file_id]@.contains(MemberOrOwner::Member(id)) by {
        assert(inf_has(inf0, id.file_id, MemberOrOwner::Member(id)));
    }
    assert forall|id: LuaMemberId| #[trigger] mco.contains_key(id) implies inf1.contains_key(id.file_id) && inf1[id.file_id]@.contains(MemberOrOwner::Member(id)) by {
        assert(inf_has(inf0, id.file_id, MemberOrOwner::Member(id)));
    }
    assert forall|g: FileId, id: LuaMemberId| inf1.contains_key(g) && #[trigger] inf1[g]@.contains(MemberOrOwner::Member(id)) implies id.file_id == g by {
        if g != f { assert(inf1.contains_key(g) == inf0.contains_key(g)); } else { assert(inf_set(inf0, f).contains(MemberOrOwner::Member(id))); }
    }
    assert forall|o2: LuaMemberOwner, k: LuaMemberKey, id: LuaMemberId| own.contains_key(o2) && own[o2].members@.contains_key(k) && #[trigger] item_has(own[o2].members@[k], id)
        implies inf1.contains_key(id.file_id) && inf1[id.file_id]@.contains(MemberOrOwner::Owner(o2)) by {
        assert(inf_has(inf0, id.file_id, MemberOrOwner::Owner(o2)));
    }
}
/// `members.insert(id, m)` + recording Member(id) under the id's OWN file keeps the invariant
pub proof fn lemma_wf_record_member(mem: MemMap, mco: McoMap, own: OwnMap, inf0: InfMoMap, inf1: InfMoMap, id: LuaMemberId, m: LuaMember)
    requires member_wf(mem, mco, own, inf0), inf_added(inf0, inf1, id.file_id, MemberOrOwner::Member(id)),
    ensures member_wf(mem.insert(id, m), mco, own, inf1), forall|g: FileId, x: MemberOrOwner| inf_has(inf0, g, x) ==> inf_has(inf1, g, x),
{
    let f = id.file_id; let mem1 = mem.insert(id, m);
    assert forall|g: FileId, x: MemberOrOwner| inf_has(inf0, g, x) implies inf_has(inf1, g, x) by {
        if g != f { assert(inf1.contains_key(g) == inf0.contains_key(g)); }
    }
    assert forall|x: LuaMemberId| #[trigger] mem1.contains_key(x) implies inf1.contains_key(x.file_id) && inf1[x.file_id]@.contains(MemberOrOwner::Member(x)) by {
        if x != id { assert(mem.contains_key(x)); assert(inf_has(inf0, x.file_id, MemberOrOwner::Member(x))); }
    }
    assert forall|x: LuaMemberId| #[trigger] mco.contains_key(x) implies inf1.contains_key(x.file_id) && inf1[x.file_id]@.contains(MemberOrOwner::Member(x)) by {
        assert(inf_has(inf0, x.file_id, MemberOrOwner::Member(x)));
    }
    assert forall|g: FileId, x: LuaMemberId| inf1.contains_key(g) && #[trigger] inf1[g]@.contains(MemberOrOwner::Member(x)) implies x.file_id == g by {
        if g != f { assert(inf1.contains_key(g) == inf0.contains_key(g)); }
        else if x != id { assert(inf_set(inf0, f).contains(MemberOrOwner::Member(x))); }
    }
    assert forall|o2: LuaMemberOwner, k: LuaMemberKey, x: LuaMemberId| own.contains_key(o2) && own[o2].members@.contains_key(k) && #[trigger] item_has(own[o2].members@[k], x)
        implies inf1.contains_key(x.file_id) && inf1[x.file_id]@.contains(MemberOrOwner::Owner(o2)) by {
        assert(inf_has(inf0, x.file_id, MemberOrOwner::Owner(o2)));
    }
}
/// recording Member(id) under the id's OWN file keeps the invariant (whether or not `members` holds the id)
pub proof fn lemma_wf_record_member_only(mem: MemMap, mco: McoMap, own: OwnMap, inf0: InfMoMap, inf1: InfMoMap, id: LuaMemberId)
    requires member_wf(mem, mco, own, inf0), inf_added(inf0, inf1, id.file_id, MemberOrOwner::Member(id)),
    ensures member_wf(mem, mco, own, inf1), inf_has(inf1, id.file_id, MemberOrOwner::Member(id)),
        forall|g: FileId, x: MemberOrOwner| inf_has(inf0, g, x) ==> inf_has(inf1, g, x),
{
    let f = id.file_id;
    assert forall|g: FileId, x: MemberOrOwner| inf_has(inf0, g, x) implies inf_has(inf1, g, x) by {
        if g != f { assert(inf1.contains_key(g) == inf0.contains_key(g)); }
    }
    assert forall|x: LuaMemberId| #[trigger] mem.contains_key(x) implies inf1.contains_key(x.file_id) && inf1[x.file_id]@.contains(MemberOrOwner::Member(x)) by {
        assert(inf_has(inf0, x.file_id, MemberOrOwner::Member(x)));
    }
    assert forall|x: LuaMemberId| #[trigger] mco.contains_key(x) implies inf1.contains_key(x.file_id) && inf1[x.file_id]@.contains(MemberOrOwner::Member(x)) by {
        assert(inf_has(inf0, x.file_id, MemberOrOwner::Member(x)));
    }
    assert forall|g: FileId, x: LuaMemberId| inf1.contains_key(g) && #[trigger] inf1[g]@.contains(MemberOrOwner::Member(x)) implies x.file_id == g by {
        if g != f { assert(inf1.contains_key(g) == inf0.contains_key(g)); }
        else if x != id { assert(inf_set(inf0, f).contains(MemberOrOwner::Member(x))); }
    }
    assert forall|o2: LuaMemberOwner, k: LuaMemberKey, x: LuaMemberId| own.contains_key(o2) && own[o2].members@.contains_key(k) && #[trigger] item_has(own[o2].members@[k], x)
        implies inf1.contains_key(x.file_id) && inf1[x.file_id]@.contains(MemberOrOwner::Owner(o2)) by {
        assert(inf_has(inf0, x.file_id, MemberOrOwner::Owner(o2)));
    }
}
/// `member_current_owner.insert(id, o)` keeps the invariant PROVIDED Member(id) is recorded under the id's own file
/// (true right after `add_member`, and for every member that is in `members`)
pub proof fn lemma_wf_set_current_owner(mem: MemMap, mco: McoMap, own: OwnMap, inf: InfMoMap, id: LuaMemberId, o: LuaMemberOwner)
    requires member_wf(mem, mco, own, inf), inf_has(inf, id.file_id, MemberOrOwner::Member(id)),
    ensures member_wf(mem, mco.insert(id, o), own, inf),
{
    let mco1 = mco.insert(id, o);
    assert forall|x: LuaMemberId| #[trigger] mco1.contains_key(x) implies inf.contains_key(x.file_id) && inf[x.file_id]@.contains(MemberOrOwner::Member(x)) by {
        if x != id { assert(mco.contains_key(x)); }
    }
}

/// the ids of the item filed under key k of owner o, before `add_member_to_owner`
pub open spec fn old_item_has(own0: OwnMap, o: LuaMemberOwner, k: LuaMemberKey, x: LuaMemberId) -> bool {
    own0.contains_key(o) && own0[o].members@.contains_key(k) && item_has(own0[o].members@[k], x)
}
/// an item of owner o after `add_member_to_owner(o, id)`: its ids are `id` and ids the same key of o held before; a list is never empty
pub open spec fn item_ext(own0: OwnMap, o: LuaMemberOwner, k: LuaMemberKey, it: LuaMemberIndexItem, id: LuaMemberId) -> bool {
    &&& it matches LuaMemberIndexItem::Many(v) ==> v@.len() > 0
    &&& forall|x: LuaMemberId| #[trigger] item_has(it, x) ==> x == id || old_item_has(own0, o, k, x)
}
/// what `add_member_to_owner(o, id)` may do to `owner_members`: only owner o's entry is touched; it exists afterwards only
/// with at least one item; each of its items is as `item_ext` says
pub open spec fn own_ext(own0: OwnMap, own1: OwnMap, o: LuaMemberOwner, id: LuaMemberId) -> bool {
    &&& forall|o2: LuaMemberOwner| o2 != o ==> #[trigger] own1.contains_key(o2) == own0.contains_key(o2) && (own0.contains_key(o2) ==> own1[o2] == own0[o2])
    &&& own1.contains_key(o) ==> !own1[o].members@.is_empty()
    &&& forall|k: LuaMemberKey| own1.contains_key(o) && #[trigger] own1[o].members@.contains_key(k) ==> item_ext(own0, o, k, own1[o].members@[k], id)
}
/// ... keeps the invariant PROVIDED Owner(o) is recorded under the id's own file (what `add_member` / `set_member_owner` do first)
pub proof fn lemma_wf_own_ext(mem: MemMap, mco: McoMap, own0: OwnMap, own1: OwnMap, inf: InfMoMap, o: LuaMemberOwner, id: LuaMemberId)
    requires member_wf(mem, mco, own0, inf), own_ext(own0, own1, o, id), inf_has(inf, id.file_id, MemberOrOwner::Owner(o)),
    ensures member_wf(mem, mco, own1, inf),
{
    assert forall|o2: LuaMemberOwner, k: LuaMemberKey, x: LuaMemberId| own1.contains_key(o2) && own1[o2].members@.contains_key(k) && #[trigger] item_has(own1[o2].members@[k], x)
        implies inf.contains_key(x.file_id) && inf[x.file_id]@.contains(MemberOrOwner::Owner(o2)) by {
        if o2 != o {
            assert(own1.contains_key(o2) == own0.contains_key(o2));
            assert(item_has(own0[o2].members@[k], x));
        } else {
            assert(item_ext(own0, o, k, own1[o].members@[k], id));
            if x != id { assert(old_item_has(own0, o, k, x)); assert(item_has(own0[o].members@[k], x)); }
        }
    }
    assert forall|o2: LuaMemberOwner| #[trigger] own1.contains_key(o2) implies !own1[o2].members@.is_empty() by {
        if o2 != o { assert(own1.contains_key(o2) == own0.contains_key(o2)); }
    }
    assert forall|o2: LuaMemberOwner, k: LuaMemberKey| own1.contains_key(o2) && #[trigger] own1[o2].members@.contains_key(k) implies
        (own1[o2].members@[k] matches LuaMemberIndexItem::Many(v) ==> v@.len() > 0) by {
        if o2 != o { assert(own1.contains_key(o2) == own0.contains_key(o2)); }
        else { assert(item_ext(own0, o, k, own1[o].members@[k], id)); }
    }
}
/// the same as a broadcast fact (instantiated wherever both hypotheses occur): used at the eight exits of add_member_to_owner
pub broadcast proof fn lemma_wf_own_ext_b(mem: MemMap, mco: McoMap, own0: OwnMap, own1: OwnMap, inf: InfMoMap, o: LuaMemberOwner, id: LuaMemberId)
    requires #[trigger] member_wf(mem, mco, own0, inf), #[trigger] own_ext(own0, own1, o, id), inf_has(inf, id.file_id, MemberOrOwner::Owner(o)),
    ensures member_wf(mem, mco, own1, inf),
{
    lemma_wf_own_ext(mem, mco, own0, own1, inf, o, id);
}
