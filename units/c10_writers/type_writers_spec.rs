// ---- type index, writer side: vocabulary and lemmas (bodies verified) --------------------------------------
pub type FtMap = Map<FileId, Vec<LuaTypeDeclId>>;
pub type ToMap = Map<FileId, HashSet<LuaTypeOwner>>;
/// every location of the declaration is in file g
pub open spec fn locs_in(d: LuaTypeDecl, g: FileId) -> bool {
    forall|i: int| 0 <= i < d.locations@.len() ==> (#[trigger] d.locations@[i]).file_id == g
}
/// declaration id `id` is listed under file g
pub open spec fn ft_listed(ft: FtMap, g: FileId, id: LuaTypeDeclId) -> bool { ft.contains_key(g) && ft[g]@.contains(id) }
/// what `add_type_decl` does to `file_types`: file f's list gains id at its end, every other file's list is untouched
pub open spec fn ft_added(ft0: FtMap, ft1: FtMap, f: FileId, id: LuaTypeDeclId) -> bool {
    &&& ft1.contains_key(f) && ft1[f]@ == (if ft0.contains_key(f) { ft0[f]@ } else { Seq::empty() }).push(id)
    &&& forall|g: FileId| g != f ==> #[trigger] ft1.contains_key(g) == ft0.contains_key(g) && (ft0.contains_key(g) ==> ft1[g] == ft0[g])
}
pub proof fn lemma_ft_added(ft0: FtMap, ft1: FtMap, f: FileId, id: LuaTypeDeclId)
    requires ft_added(ft0, ft1, f, id),
    ensures ft_listed(ft1, f, id), forall|g: FileId, x: LuaTypeDeclId| ft_listed(ft0, g, x) ==> ft_listed(ft1, g, x),
{
    assert(ft1[f]@[ft1[f]@.len() - 1] == id);
    assert forall|g: FileId, x: LuaTypeDeclId| ft_listed(ft0, g, x) implies ft_listed(ft1, g, x) by {
        if g != f { assert(ft1.contains_key(g) == ft0.contains_key(g)); }
        else { let j = choose|j: int| 0 <= j < ft0[f]@.len() && ft0[f]@[j] == x; assert(ft1[f]@[j] == x); }
    }
}
/// what `index_type_decl_name` does to one name map: a name with text `txt` is registered afterwards — for `id` unless the text
/// was taken already (`or_insert_with` keeps the first registration); every other registration is untouched
pub open spec fn name_indexed(o: NameMap, n: NameMap, txt: Seq<char>, id: LuaTypeDeclId) -> bool {
    &&& forall|s: String| #[trigger] o.contains_key(s) ==> n.contains_key(s) && n[s] == o[s]
    &&& forall|s: String| #[trigger] n.contains_key(s) ==> o.contains_key(s) || (s@ == txt && n[s] == id)
    &&& exists|s: String| s@ == txt && #[trigger] n.contains_key(s)
}
pub open spec fn names_or_empty<K>(o: ScopedNames<K>, k: K) -> NameMap { if o.contains_key(k) { o[k]@ } else { Map::empty() } }
pub open spec fn scoped_name_indexed<K>(o: ScopedNames<K>, n: ScopedNames<K>, k: K, txt: Seq<char>, id: LuaTypeDeclId) -> bool {
    &&& forall|k2: K| k2 != k ==> #[trigger] n.contains_key(k2) == o.contains_key(k2) && (o.contains_key(k2) ==> n[k2] == o[k2])
    &&& n.contains_key(k) && name_indexed(names_or_empty(o, k), n[k]@, txt, id)
}
/// what `index_type_decl_name(id)` does to the three name maps (the counterpart of c10_remove2's `rtdn_post`)
pub open spec fn itdn_post(g1: NameMap, g2: NameMap, i1: ScopedNames<WorkspaceId>, i2: ScopedNames<WorkspaceId>, l1: ScopedNames<FileId>, l2: ScopedNames<FileId>, id: LuaTypeDeclId) -> bool {
    match id.ident() {
        LuaTypeIdentifier::Global(name) => name_indexed(g1, g2, name.text(), id) && i2 == i1 && l2 == l1,
        LuaTypeIdentifier::Internal(ws, name) => scoped_name_indexed(i1, i2, ws, name.text(), id) && g2 == g1 && l2 == l1,
        LuaTypeIdentifier::File(fid, name) => scoped_name_indexed(l1, l2, fid, name.text(), id) && g2 == g1 && i2 == i1,
    }
}

/// the writer-side invariant of LuaTypeIndex. `type_wf` of unit c10_remove2 = clauses (1)..(8) below; its clause (2) —
/// "a super contributed by file g is filed under a class that is LISTED under g" (`supers_listed`) — is NOT maintained by the real
/// call sites of `add_super_type` (see the unit's findings T1/T2), so it is kept apart: `type_winv` is what every writer and
/// `remove` maintain unconditionally, `supers_listed` what they maintain as long as supers are only added for listed classes, and
/// lemma_winv_wf: type_winv && supers_listed ==> type_wf. On top of type_wf's clauses type_winv has: file-scoped declarations live in
/// their own file, generic params belong to a live declaration, every globally / per-workspace registered name names a live
/// declaration of that scope and text.
pub open spec fn decls_listed(s: &LuaTypeIndex) -> bool {
    // (1) a declaration contributed by file g is listed under g
    forall|id: LuaTypeDeclId, i: int| s.full_name_type_map@.contains_key(id) && 0 <= i < s.full_name_type_map@[id].locations@.len() ==>
        s.file_types@.contains_key((#[trigger] s.full_name_type_map@[id].locations@[i]).file_id)
        && s.file_types@[s.full_name_type_map@[id].locations@[i].file_id]@.contains(id)
}
pub open spec fn supers_listed(s: &LuaTypeIndex) -> bool {
    // (2) a super contributed by file g is filed under a class listed under g
    forall|id: LuaTypeDeclId, i: int| s.supers@.contains_key(id) && 0 <= i < s.supers@[id]@.len() ==>
        s.file_types@.contains_key((#[trigger] s.supers@[id]@[i]).file_id) && s.file_types@[s.supers@[id]@[i].file_id]@.contains(id)
}
pub open spec fn lists_nonempty(s: &LuaTypeIndex) -> bool {
    // (3), (4) declarations and super lists are never empty
    &&& forall|id: LuaTypeDeclId| #[trigger] s.full_name_type_map@.contains_key(id) ==> s.full_name_type_map@[id].locations@.len() > 0
    &&& forall|id: LuaTypeDeclId| #[trigger] s.supers@.contains_key(id) ==> s.supers@[id]@.len() > 0
}
pub open spec fn owners_listed(s: &LuaTypeIndex) -> bool {
    // (5), (6) a bound type is listed under its owner's file, and only there
    &&& forall|o: LuaTypeOwner| #[trigger] s.types@.contains_key(o) ==> s.in_filed_type_owner@.contains_key(owner_file(o)) && s.in_filed_type_owner@[owner_file(o)]@.contains(o)
    &&& forall|g: FileId, o: LuaTypeOwner| s.in_filed_type_owner@.contains_key(g) && #[trigger] s.in_filed_type_owner@[g]@.contains(o) ==> owner_file(o) == g
}
pub open spec fn local_names_ok(s: &LuaTypeIndex) -> bool {
    // (7), (8) file-scoped names: registered under their own file, for a live declaration that lives in that file only; no empty scope map
    &&& forall|g: FileId, nm: String| s.local_name_type_map@.contains_key(g) && #[trigger] s.local_name_type_map@[g]@.contains_key(nm) ==> {
            let x = s.local_name_type_map@[g]@[nm];
            sel_file(x.ident()) == Some((g, nm@)) && s.full_name_type_map@.contains_key(x)
            && forall|i: int| 0 <= i < s.full_name_type_map@[x].locations@.len() ==> (#[trigger] s.full_name_type_map@[x].locations@[i]).file_id == g }
    &&& forall|g: FileId| #[trigger] s.local_name_type_map@.contains_key(g) ==> !s.local_name_type_map@[g]@.is_empty()
}
pub open spec fn names_live(s: &LuaTypeIndex) -> bool {
    &&& forall|nm: String| #[trigger] s.global_name_type_map@.contains_key(nm) ==>
            sel_global(s.global_name_type_map@[nm].ident()) == Some(((), nm@)) && s.full_name_type_map@.contains_key(s.global_name_type_map@[nm])
    &&& forall|w: WorkspaceId, nm: String| s.internal_name_type_map@.contains_key(w) && #[trigger] s.internal_name_type_map@[w]@.contains_key(nm) ==>
            sel_internal(s.internal_name_type_map@[w]@[nm].ident()) == Some((w, nm@)) && s.full_name_type_map@.contains_key(s.internal_name_type_map@[w]@[nm])
    &&& forall|w: WorkspaceId| #[trigger] s.internal_name_type_map@.contains_key(w) ==> !s.internal_name_type_map@[w]@.is_empty()
}
pub open spec fn file_decls_local(full: FullMap) -> bool {
    forall|id: LuaTypeDeclId| #[trigger] full.contains_key(id) ==> (id.ident() matches LuaTypeIdentifier::File(g, _) ==> locs_in(full[id], g))
}
pub open spec fn type_winv(s: &LuaTypeIndex) -> bool {
    &&& decls_listed(s) &&& lists_nonempty(s) &&& owners_listed(s) &&& local_names_ok(s)
    &&& file_decls_local(s.full_name_type_map@)
    &&& forall|id: LuaTypeDeclId| #[trigger] s.generic_params@.contains_key(id) ==> s.full_name_type_map@.contains_key(id)
    &&& names_live(s)
}
/// the writer-side invariant (with the supers clause) implies the invariant unit c10_remove2 assumes for `remove`
pub proof fn lemma_winv_wf(s: &LuaTypeIndex)
    requires type_winv(s), supers_listed(s),
    ensures type_wf(s),
{}

/// fields `add_type_decl` does not touch
pub open spec fn decl_frame(o: &LuaTypeIndex, n: &LuaTypeIndex) -> bool {
    &&& n.file_namespace == o.file_namespace &&& n.file_using_namespace == o.file_using_namespace
    &&& n.generic_params == o.generic_params &&& n.supers == o.supers &&& n.types == o.types &&& n.in_filed_type_owner == o.in_filed_type_owner
}
/// the declaration stored under `id` after `add_type_decl`: the old locations (if any) followed by the new ones
pub open spec fn full_added(full0: FullMap, full1: FullMap, id: LuaTypeDeclId, decl: LuaTypeDecl) -> bool {
    &&& full1.contains_key(id)
    &&& forall|x: LuaTypeDeclId| x != id ==> #[trigger] full1.contains_key(x) == full0.contains_key(x) && (full0.contains_key(x) ==> full1[x] == full0[x])
    &&& full1[id].locations@ == (if full0.contains_key(id) { full0[id].locations@ } else { Seq::empty() }) + decl.locations@
}
pub proof fn lemma_name_indexed_live(o: NameMap, n: NameMap, txt: Seq<char>, id: LuaTypeDeclId, s: String)
    requires name_indexed(o, n, txt, id), n.contains_key(s),
    ensures (o.contains_key(s) && n[s] == o[s]) || (s@ == txt && n[s] == id),
{}
/// `add_type_decl(file_id, decl)` keeps the invariant PROVIDED the declaration's locations are in `file_id` (LuaTypeDecl::new
/// makes exactly one, of the file it is given) and a file-scoped id is declared in its own file
pub proof fn lemma_add_type_decl(o: &LuaTypeIndex, n: &LuaTypeIndex, file_id: FileId, id: LuaTypeDeclId, decl: LuaTypeDecl)
    requires
        type_winv(o), decl_frame(o, n),
        itdn_post(o.global_name_type_map@, n.global_name_type_map@, o.internal_name_type_map@, n.internal_name_type_map@,
                  o.local_name_type_map@, n.local_name_type_map@, id),
        ft_added(o.file_types@, n.file_types@, file_id, id),
        full_added(o.full_name_type_map@, n.full_name_type_map@, id, decl),
        decl.locations@.len() > 0, locs_in(decl, file_id),
        id.ident() matches LuaTypeIdentifier::File(g, _) ==> g == file_id,
    ensures type_winv(n), supers_listed(o) ==> supers_listed(n),
{
    let full0 = o.full_name_type_map@; let full1 = n.full_name_type_map@;
    let ft0 = o.file_types@; let ft1 = n.file_types@;
    lemma_ft_added(ft0, ft1, file_id, id);
    let old_locs = if full0.contains_key(id) { full0[id].locations@ } else { Seq::<LuaDeclLocation>::empty() };
    // every location of every declaration of the new state is listed
    assert forall|x: LuaTypeDeclId, i: int| full1.contains_key(x) && 0 <= i < full1[x].locations@.len() implies
        ft1.contains_key((#[trigger] full1[x].locations@[i]).file_id) && ft1[full1[x].locations@[i].file_id]@.contains(x) by {
        if x != id {
            assert(full1.contains_key(x) == full0.contains_key(x));
            assert(ft_listed(ft0, full0[x].locations@[i].file_id, x));
        } else if i < old_locs.len() {
            assert(full1[id].locations@[i] == full0[id].locations@[i]);
            assert(ft_listed(ft0, full0[id].locations@[i].file_id, id));
        } else {
            assert(full1[id].locations@[i] == decl.locations@[i - old_locs.len()]);
            assert(ft_listed(ft1, file_id, id));
        }
    }
    if supers_listed(o) {
        assert forall|x: LuaTypeDeclId, i: int| n.supers@.contains_key(x) && 0 <= i < n.supers@[x]@.len() implies
            ft1.contains_key((#[trigger] n.supers@[x]@[i]).file_id) && ft1[n.supers@[x]@[i].file_id]@.contains(x) by {
            assert(ft_listed(ft0, o.supers@[x]@[i].file_id, x));
        }
    }
    assert forall|x: LuaTypeDeclId| #[trigger] full1.contains_key(x) implies full1[x].locations@.len() > 0 by {
        if x != id { assert(full1.contains_key(x) == full0.contains_key(x)); }
    }
    // file-scoped declarations stay in their own file
    assert(file_decls_local(full1)) by {
        assert forall|x: LuaTypeDeclId| #[trigger] full1.contains_key(x) implies (x.ident() matches LuaTypeIdentifier::File(g, _) ==> locs_in(full1[x], g)) by {
            if x != id { assert(full1.contains_key(x) == full0.contains_key(x)); }
            else if let LuaTypeIdentifier::File(g, _) = id.ident() {
                assert forall|i: int| 0 <= i < full1[id].locations@.len() implies (#[trigger] full1[id].locations@[i]).file_id == g by {
                    if i < old_locs.len() { assert(full0.contains_key(id)); assert(locs_in(full0[id], g)); assert(full1[id].locations@[i] == full0[id].locations@[i]); }
                    else { assert(full1[id].locations@[i] == decl.locations@[i - old_locs.len()]); }
                }
            }
        }
    }
    assert forall|x: LuaTypeDeclId| #[trigger] n.generic_params@.contains_key(x) implies full1.contains_key(x) by {
        assert(o.generic_params@.contains_key(x));
        if x != id { assert(full1.contains_key(x) == full0.contains_key(x)); }
    }
    // liveness of registered declarations carries over: full only grew
    assert forall|x: LuaTypeDeclId| full0.contains_key(x) implies full1.contains_key(x) by {
        if x != id { assert(full1.contains_key(x) == full0.contains_key(x)); }
    }
    lemma_add_type_decl_names(o, n, file_id, id);
}
/// the name-map part of lemma_add_type_decl (T7/T8 of type_wf and names_live)
pub proof fn lemma_add_type_decl_names(o: &LuaTypeIndex, n: &LuaTypeIndex, file_id: FileId, id: LuaTypeDeclId)
    requires
        type_winv(o),
        itdn_post(o.global_name_type_map@, n.global_name_type_map@, o.internal_name_type_map@, n.internal_name_type_map@,
                  o.local_name_type_map@, n.local_name_type_map@, id),
        n.full_name_type_map@.contains_key(id),
        forall|x: LuaTypeDeclId| o.full_name_type_map@.contains_key(x) ==> n.full_name_type_map@.contains_key(x),
        forall|x: LuaTypeDeclId| x != id && o.full_name_type_map@.contains_key(x) ==> n.full_name_type_map@[x] == o.full_name_type_map@[x],
        file_decls_local(n.full_name_type_map@),
    ensures
        names_live(n), local_names_ok(n),
{
    let full0 = o.full_name_type_map@; let full1 = n.full_name_type_map@;
    let g0 = o.global_name_type_map@; let g1 = n.global_name_type_map@;
    let i0 = o.internal_name_type_map@; let i1 = n.internal_name_type_map@;
    let l0 = o.local_name_type_map@; let l1 = n.local_name_type_map@;
    // global names
    assert forall|nm: String| #[trigger] g1.contains_key(nm) implies sel_global(g1[nm].ident()) == Some(((), nm@)) && full1.contains_key(g1[nm]) by {
        match id.ident() {
            LuaTypeIdentifier::Global(name) => { if g0.contains_key(nm) { assert(g1[nm] == g0[nm]); } }
            _ => {}
        }
    }
    // per-workspace names
    assert forall|w: WorkspaceId, nm: String| i1.contains_key(w) && #[trigger] i1[w]@.contains_key(nm) implies
        sel_internal(i1[w]@[nm].ident()) == Some((w, nm@)) && full1.contains_key(i1[w]@[nm]) by {
        match id.ident() {
            LuaTypeIdentifier::Internal(ws, name) => {
                if w != ws { assert(i1.contains_key(w) == i0.contains_key(w)); assert(i1[w] == i0[w]); }
                else if names_or_empty(i0, ws).contains_key(nm) { assert(i0.contains_key(ws) && i0[ws]@.contains_key(nm)); assert(i1[ws]@[nm] == i0[ws]@[nm]); }
            }
            _ => {}
        }
    }
    assert forall|w: WorkspaceId| #[trigger] i1.contains_key(w) implies !i1[w]@.is_empty() by {
        match id.ident() {
            LuaTypeIdentifier::Internal(ws, name) => {
                if w != ws { assert(i1.contains_key(w) == i0.contains_key(w)); assert(i1[w] == i0[w]); }
                else { let s = choose|s: String| s@ == name.text() && #[trigger] i1[ws]@.contains_key(s); assert(i1[ws]@.dom().contains(s)); }
            }
            _ => {}
        }
    }
    // file-scoped names
    assert forall|g: FileId, nm: String| l1.contains_key(g) && #[trigger] l1[g]@.contains_key(nm) implies ({
            let x = l1[g]@[nm];
            sel_file(x.ident()) == Some((g, nm@)) && full1.contains_key(x)
            && forall|i: int| 0 <= i < full1[x].locations@.len() ==> (#[trigger] full1[x].locations@[i]).file_id == g }) by {
        let x = l1[g]@[nm];
        let is_old = l0.contains_key(g) && l0[g]@.contains_key(nm) && l0[g]@[nm] == x;
        match id.ident() {
            LuaTypeIdentifier::File(fid, name) => {
                if g != fid { assert(l1.contains_key(g) == l0.contains_key(g)); assert(l1[g] == l0[g]); assert(is_old); }
                else if names_or_empty(l0, fid).contains_key(nm) { assert(l0.contains_key(fid) && l0[fid]@.contains_key(nm)); assert(l1[fid]@[nm] == l0[fid]@[nm]); assert(is_old); }
                else { assert(x == id); assert(locs_in(full1[id], fid)); }
            }
            _ => { assert(is_old); }
        }
        if is_old {
            assert(sel_file(x.ident()) == Some((g, nm@)) && full0.contains_key(x));
            assert(locs_in(full1[x], g));
        }
    }
    assert forall|g: FileId| #[trigger] l1.contains_key(g) implies !l1[g]@.is_empty() by {
        match id.ident() {
            LuaTypeIdentifier::File(fid, name) => {
                if g != fid { assert(l1.contains_key(g) == l0.contains_key(g)); assert(l1[g] == l0[g]); }
                else { let s = choose|s: String| s@ == name.text() && #[trigger] l1[fid]@.contains_key(s); assert(l1[fid]@.dom().contains(s)); }
            }
            _ => {}
        }
    }
}

/// what `add_super_type(id, f, ..)` does: the super list of id — created if need be — gains one entry of file f at its end;
/// nothing else changes
pub open spec fn super_added(o: &LuaTypeIndex, n: &LuaTypeIndex, id: LuaTypeDeclId, f: FileId) -> bool {
    &&& n.file_namespace == o.file_namespace &&& n.file_using_namespace == o.file_using_namespace &&& n.file_types == o.file_types
    &&& n.full_name_type_map == o.full_name_type_map &&& n.generic_params == o.generic_params &&& n.types == o.types &&& n.in_filed_type_owner == o.in_filed_type_owner
    &&& n.global_name_type_map == o.global_name_type_map &&& n.internal_name_type_map == o.internal_name_type_map &&& n.local_name_type_map == o.local_name_type_map
    &&& n.supers@.contains_key(id)
    &&& forall|x: LuaTypeDeclId| x != id ==> #[trigger] n.supers@.contains_key(x) == o.supers@.contains_key(x) && (o.supers@.contains_key(x) ==> n.supers@[x] == o.supers@[x])
    &&& n.supers@[id]@.len() > 0 && n.supers@[id]@.last().file_id == f
    &&& n.supers@[id]@.drop_last() == (if o.supers@.contains_key(id) { o.supers@[id]@ } else { Seq::empty() })
}
/// `add_super_type` keeps the writer invariant; it keeps `supers_listed` PROVIDED the class is listed under that file (it is declared there)
pub proof fn lemma_add_super(o: &LuaTypeIndex, n: &LuaTypeIndex, id: LuaTypeDeclId, f: FileId)
    requires type_winv(o), super_added(o, n, id, f),
    ensures type_winv(n), supers_listed(o) && ft_listed(o.file_types@, f, id) ==> supers_listed(n),
{
    let s0 = o.supers@; let s1 = n.supers@;
    assert forall|x: LuaTypeDeclId| #[trigger] s1.contains_key(x) implies s1[x]@.len() > 0 by {
        if x != id { assert(s1.contains_key(x) == s0.contains_key(x)); assert(s1[x] == s0[x]); }
    }
    if supers_listed(o) && ft_listed(o.file_types@, f, id) {
        assert forall|x: LuaTypeDeclId, i: int| s1.contains_key(x) && 0 <= i < s1[x]@.len() implies
            n.file_types@.contains_key((#[trigger] s1[x]@[i]).file_id) && n.file_types@[s1[x]@[i].file_id]@.contains(x) by {
            if x != id { assert(s1.contains_key(x) == s0.contains_key(x)); assert(s1[x] == s0[x]); }
            else if i < s1[id]@.len() - 1 { assert(s1[id]@.drop_last().len() == s1[id]@.len() - 1); assert(s1[id]@.drop_last()[i] == s1[id]@[i]); assert(s0.contains_key(id)); assert(s0[id]@[i] == s1[id]@[i]); }
            else { assert(s1[id]@[i] == s1[id]@.last()); }
        }
    }
}

/// what `bind_type(owner, ..)` does to `in_filed_type_owner` when the owner had no type yet
pub open spec fn to_added(m0: ToMap, m1: ToMap, f: FileId, w: LuaTypeOwner) -> bool {
    &&& m1.contains_key(f) && m1[f]@ == (if m0.contains_key(f) { m0[f]@ } else { Set::empty() }).insert(w)
    &&& forall|g: FileId| g != f ==> #[trigger] m1.contains_key(g) == m0.contains_key(g) && (m0.contains_key(g) ==> m1[g] == m0[g])
}
pub proof fn lemma_bind_type(o: &LuaTypeIndex, n: &LuaTypeIndex, w: LuaTypeOwner, c: LuaTypeCache)
    requires
        type_winv(o), n.types@ == o.types@.insert(w, c), to_added(o.in_filed_type_owner@, n.in_filed_type_owner@, owner_file(w), w),
        n.file_namespace == o.file_namespace, n.file_using_namespace == o.file_using_namespace, n.file_types == o.file_types,
        n.full_name_type_map == o.full_name_type_map, n.generic_params == o.generic_params, n.supers == o.supers,
        n.global_name_type_map == o.global_name_type_map, n.internal_name_type_map == o.internal_name_type_map, n.local_name_type_map == o.local_name_type_map,
    ensures type_winv(n), supers_listed(o) ==> supers_listed(n),
{
    let m0 = o.in_filed_type_owner@; let m1 = n.in_filed_type_owner@; let f = owner_file(w);
    assert forall|x: LuaTypeOwner| #[trigger] n.types@.contains_key(x) implies m1.contains_key(owner_file(x)) && m1[owner_file(x)]@.contains(x) by {
        if x != w {
            assert(o.types@.contains_key(x));
            let g = owner_file(x);
            if g != f { assert(m1.contains_key(g) == m0.contains_key(g)); }
        }
    }
    assert forall|g: FileId, x: LuaTypeOwner| m1.contains_key(g) && #[trigger] m1[g]@.contains(x) implies owner_file(x) == g by {
        if g != f { assert(m1.contains_key(g) == m0.contains_key(g)); }
    }
}

// ---- `remove` re-establishes the invariant (the gap c10_remove2 lists under not_covered) ------------------------
/// post-state of `LuaTypeIndex::remove(f)` exactly as unit c10_remove2 proves it WITHOUT assuming any invariant (its clauses
/// C10.type.per-file-maps, C10.type.decls-of-file, C10.type.types-of-file-gone, C10.type.names-of-removed-decls = the
/// hypotheses of its lemma_type_final)
pub open spec fn type_remove_post(o: &LuaTypeIndex, n: &LuaTypeIndex, f: FileId) -> bool {
    &&& dropped(o.file_namespace@, n.file_namespace@, f) &&& dropped(o.file_using_namespace@, n.file_using_namespace@, f)
    &&& dropped(o.file_types@, n.file_types@, f) &&& dropped(o.in_filed_type_owner@, n.in_filed_type_owner@, f)
    &&& ty_inv(o.full_name_type_map@, n.full_name_type_map@, o.supers@, n.supers@, o.generic_params@, n.generic_params@, ty_listed(o, f), ty_listed(o, f).len() as int, f)
    &&& names_inv(o.full_name_type_map@, ty_listed(o, f), ty_listed(o, f).len() as int, f, o.global_name_type_map@, n.global_name_type_map@,
                  o.internal_name_type_map@, n.internal_name_type_map@, o.local_name_type_map@, n.local_name_type_map@)
    &&& forall|w: LuaTypeOwner| #[trigger] n.types@.contains_key(w) <==> o.types@.contains_key(w) && !ty_owners(o, f).contains(w)
    &&& forall|w: LuaTypeOwner| #[trigger] n.types@.contains_key(w) ==> n.types@[w] == o.types@[w]
}
/// a declaration that survives `remove(f)` keeps a non-empty sub-list of its old locations, none of them in f
pub proof fn lemma_remove_decl_locs(o: &LuaTypeIndex, n: &LuaTypeIndex, f: FileId, id: LuaTypeDeclId)
    requires type_remove_post(o, n, f), type_winv(o), n.full_name_type_map@.contains_key(id),
    ensures
        o.full_name_type_map@.contains_key(id), n.full_name_type_map@[id].locations@.len() > 0,
        forall|i: int| 0 <= i < n.full_name_type_map@[id].locations@.len() ==>
            (#[trigger] n.full_name_type_map@[id].locations@[i]).file_id != f && o.full_name_type_map@[id].locations@.contains(n.full_name_type_map@[id].locations@[i]),
{
    let ids = ty_listed(o, f); let len = ids.len() as int;
    let full0 = o.full_name_type_map@; let full1 = n.full_name_type_map@;
    lemma_in_pref_full(ids);
    if in_pref(ids, len, id) {
        assert(decl_rel(full0[id], full1[id], f));
        lemma_filter_mem(full0[id].locations@, loc_not_file(f));
    } else {
        assert(full1[id] == full0[id]);
        assert forall|i: int| 0 <= i < full0[id].locations@.len() implies (#[trigger] full0[id].locations@[i]).file_id != f by {
            if full0[id].locations@[i].file_id == f { assert(o.file_types@[f]@.contains(id)); assert(ids.to_set().contains(id)); }
        }
    }
}
/// a super list that survives `remove(f)` is not empty (whether or not its class is listed under f)
pub proof fn lemma_remove_super_nonempty(o: &LuaTypeIndex, n: &LuaTypeIndex, f: FileId, id: LuaTypeDeclId)
    requires type_remove_post(o, n, f), type_winv(o), n.supers@.contains_key(id),
    ensures o.supers@.contains_key(id), n.supers@[id]@.len() > 0,
{
    let ids = ty_listed(o, f); let len = ids.len() as int;
    if !in_pref(ids, len, id) { assert(n.supers@[id] == o.supers@[id]); }
}
pub proof fn lemma_remove_super_locs(o: &LuaTypeIndex, n: &LuaTypeIndex, f: FileId, id: LuaTypeDeclId)
    requires type_remove_post(o, n, f), type_winv(o), supers_listed(o), n.supers@.contains_key(id),
    ensures
        o.supers@.contains_key(id), n.supers@[id]@.len() > 0,
        forall|i: int| 0 <= i < n.supers@[id]@.len() ==> (#[trigger] n.supers@[id]@[i]).file_id != f && o.supers@[id]@.contains(n.supers@[id]@[i]),
{
    let ids = ty_listed(o, f); let len = ids.len() as int;
    let s0 = o.supers@; let s1 = n.supers@;
    lemma_in_pref_full(ids);
    if in_pref(ids, len, id) {
        assert(s1[id]@ == s0[id]@.filter(sup_not_file(f)));
        lemma_filter_mem(s0[id]@, sup_not_file(f));
    } else {
        assert(s1[id] == s0[id]);
        assert forall|i: int| 0 <= i < s0[id]@.len() implies (#[trigger] s0[id]@[i]).file_id != f by {
            if s0[id]@[i].file_id == f { assert(o.file_types@[f]@.contains(id)); assert(ids.to_set().contains(id)); }
        }
    }
}
/// a declaration named by a registration that survives `remove(f)` was not removed
pub proof fn lemma_remove_named_live<K>(o: &LuaTypeIndex, n: &LuaTypeIndex, f: FileId, sel: spec_fn(LuaTypeIdentifier) -> Option<(K, Seq<char>)>, k: K, txt: Seq<char>, x: LuaTypeDeclId)
    requires type_remove_post(o, n, f), o.full_name_type_map@.contains_key(x), sel(x.ident()) == Some((k, txt)),
        !nm_hit(o.full_name_type_map@, ty_listed(o, f), ty_listed(o, f).len() as int, f, sel, k, txt),
    ensures n.full_name_type_map@.contains_key(x),
{
    let ids = ty_listed(o, f); let len = ids.len() as int;
    if !n.full_name_type_map@.contains_key(x) {
        assert(ty_rm(o.full_name_type_map@, ids, len, f, x) && sel(x.ident()) == Some((k, txt)));
    }
}
/// a scope map that survives `remove(f)` is not empty
pub proof fn lemma_remove_scope_nonempty<K>(full0: FullMap, ids: Seq<LuaTypeDeclId>, len: int, f: FileId, sel: spec_fn(LuaTypeIdentifier) -> Option<(K, Seq<char>)>,
                                            m0: ScopedNames<K>, m: ScopedNames<K>, k: K)
    requires snames_inv(full0, ids, len, f, sel, m0, m), m.contains_key(k), !m0[k]@.is_empty(),
    ensures !m[k]@.is_empty(),
{
    assert(m0.contains_key(k));
    if nm_touched(full0, ids, len, f, sel, k) {
        assert(!all_hit(full0, ids, len, f, sel, k, m0[k]@));
        let s = choose|s: String| #[trigger] m0[k]@.contains_key(s) && !nm_hit(full0, ids, len, f, sel, k, s@);
        assert(m[k]@.contains_key(s)); assert(m[k]@.dom().contains(s));
    } else {
        lemma_map_not_empty_has_key(m0[k]@);
        let s = choose|s: String| m0[k]@.contains_key(s);
        if nm_hit(full0, ids, len, f, sel, k, s@) {
            let x = choose|x: LuaTypeDeclId| ty_rm(full0, ids, len, f, x) && #[trigger] sel(x.ident()) == Some((k, s@));
            assert(ty_rm(full0, ids, len, f, x) && (sel(x.ident()) matches Some(p) && p.0 == k));
        }
        assert(m[k]@.contains_key(s)); assert(m[k]@.dom().contains(s));
    }
}
/// `remove(f)` keeps the supers clause (as long as it held before)
pub proof fn lemma_remove_keeps_supers_listed(o: &LuaTypeIndex, n: &LuaTypeIndex, f: FileId)
    requires type_remove_post(o, n, f), type_winv(o), supers_listed(o),
    ensures supers_listed(n),
{
    assert forall|id: LuaTypeDeclId, i: int| n.supers@.contains_key(id) && 0 <= i < n.supers@[id]@.len() implies
        n.file_types@.contains_key((#[trigger] n.supers@[id]@[i]).file_id) && n.file_types@[n.supers@[id]@[i].file_id]@.contains(id) by {
        lemma_remove_super_locs(o, n, f, id);
        let s = n.supers@[id]@[i];
        let j = choose|j: int| 0 <= j < o.supers@[id]@.len() && o.supers@[id]@[j] == s;
        assert(o.file_types@.contains_key(o.supers@[id]@[j].file_id));
    }
}
pub proof fn lemma_remove_keeps_type_wf_part(o: &LuaTypeIndex, n: &LuaTypeIndex, f: FileId)
    requires type_remove_post(o, n, f), type_winv(o),
    ensures decls_listed(n), lists_nonempty(n), owners_listed(n), local_names_ok(n),
{
    let ids = ty_listed(o, f); let len = ids.len() as int;
    let full0 = o.full_name_type_map@; let full1 = n.full_name_type_map@;
    assert forall|id: LuaTypeDeclId, i: int| full1.contains_key(id) && 0 <= i < full1[id].locations@.len() implies
        n.file_types@.contains_key((#[trigger] full1[id].locations@[i]).file_id) && n.file_types@[full1[id].locations@[i].file_id]@.contains(id) by {
        lemma_remove_decl_locs(o, n, f, id);
        let loc = full1[id].locations@[i];
        let j = choose|j: int| 0 <= j < full0[id].locations@.len() && full0[id].locations@[j] == loc;
        assert(o.file_types@.contains_key(full0[id].locations@[j].file_id));
    }
    assert forall|id: LuaTypeDeclId| #[trigger] full1.contains_key(id) implies full1[id].locations@.len() > 0 by { lemma_remove_decl_locs(o, n, f, id); }
    assert forall|id: LuaTypeDeclId| #[trigger] n.supers@.contains_key(id) implies n.supers@[id]@.len() > 0 by { lemma_remove_super_nonempty(o, n, f, id); }
    assert forall|w: LuaTypeOwner| #[trigger] n.types@.contains_key(w) implies
        n.in_filed_type_owner@.contains_key(owner_file(w)) && n.in_filed_type_owner@[owner_file(w)]@.contains(w) by {
        assert(o.types@.contains_key(w) && !ty_owners(o, f).contains(w));
        if owner_file(w) == f { assert(o.in_filed_type_owner@[f]@.contains(w)); }
    }
    assert forall|g: FileId, w: LuaTypeOwner| n.in_filed_type_owner@.contains_key(g) && #[trigger] n.in_filed_type_owner@[g]@.contains(w) implies owner_file(w) == g by {
        assert(g != f && o.in_filed_type_owner@.contains_key(g));
    }
    let l0 = o.local_name_type_map@; let l1 = n.local_name_type_map@;
    assert forall|g: FileId, nm: String| l1.contains_key(g) && #[trigger] l1[g]@.contains_key(nm) implies ({
            let x = l1[g]@[nm];
            sel_file(x.ident()) == Some((g, nm@)) && full1.contains_key(x)
            && forall|i: int| 0 <= i < full1[x].locations@.len() ==> (#[trigger] full1[x].locations@[i]).file_id == g }) by {
        let x = l1[g]@[nm];
        assert(l0.contains_key(g));
        assert(l0[g]@.contains_key(nm) && !nm_hit(full0, ids, len, f, sel_f(), g, nm@) && x == l0[g]@[nm]);
        assert(sel_f()(x.ident()) == Some((g, nm@)));
        lemma_remove_named_live(o, n, f, sel_f(), g, nm@, x);
        lemma_remove_decl_locs(o, n, f, x);
        assert forall|i: int| 0 <= i < full1[x].locations@.len() implies (#[trigger] full1[x].locations@[i]).file_id == g by {
            let loc = full1[x].locations@[i];
            let j = choose|j: int| 0 <= j < full0[x].locations@.len() && full0[x].locations@[j] == loc;
            assert(full0[x].locations@[j].file_id == g);
        }
    }
    assert forall|g: FileId| #[trigger] l1.contains_key(g) implies !l1[g]@.is_empty() by {
        assert(l0.contains_key(g));
        lemma_remove_scope_nonempty(full0, ids, len, f, sel_f(), l0, l1, g);
    }
}
/// `remove(f)` re-establishes the whole writer-side invariant (hence, with lemma_remove_keeps_supers_listed and lemma_winv_wf, type_wf:
/// the gap unit c10_remove2 lists under not_covered)
pub proof fn lemma_remove_keeps_type_winv(o: &LuaTypeIndex, n: &LuaTypeIndex, f: FileId)
    requires type_remove_post(o, n, f), type_winv(o),
    ensures type_winv(n),
{
    let ids = ty_listed(o, f); let len = ids.len() as int;
    let full0 = o.full_name_type_map@; let full1 = n.full_name_type_map@;
    lemma_remove_keeps_type_wf_part(o, n, f);
    assert(file_decls_local(full1)) by {
        assert forall|id: LuaTypeDeclId| #[trigger] full1.contains_key(id) implies (id.ident() matches LuaTypeIdentifier::File(g, _) ==> locs_in(full1[id], g)) by {
            lemma_remove_decl_locs(o, n, f, id);
            if let LuaTypeIdentifier::File(g, _) = id.ident() {
                assert(locs_in(full0[id], g));
                assert forall|i: int| 0 <= i < full1[id].locations@.len() implies (#[trigger] full1[id].locations@[i]).file_id == g by {
                    let loc = full1[id].locations@[i];
                    let j = choose|j: int| 0 <= j < full0[id].locations@.len() && full0[id].locations@[j] == loc;
                    assert(full0[id].locations@[j].file_id == g);
                }
            }
        }
    }
    assert forall|id: LuaTypeDeclId| #[trigger] n.generic_params@.contains_key(id) implies full1.contains_key(id) by {
        assert(o.generic_params@.contains_key(id));
        assert(full0.contains_key(id));
    }
    let g0 = o.global_name_type_map@; let g1 = n.global_name_type_map@;
    let i0 = o.internal_name_type_map@; let i1 = n.internal_name_type_map@;
    assert forall|nm: String| #[trigger] g1.contains_key(nm) implies sel_global(g1[nm].ident()) == Some(((), nm@)) && full1.contains_key(g1[nm]) by {
        assert(g0.contains_key(nm) && !nm_hit(full0, ids, len, f, sel_g(), (), nm@) && g1[nm] == g0[nm]);
        assert(sel_g()(g0[nm].ident()) == Some(((), nm@)));
        lemma_remove_named_live(o, n, f, sel_g(), (), nm@, g0[nm]);
    }
    assert forall|w: WorkspaceId, nm: String| i1.contains_key(w) && #[trigger] i1[w]@.contains_key(nm) implies
        sel_internal(i1[w]@[nm].ident()) == Some((w, nm@)) && full1.contains_key(i1[w]@[nm]) by {
        assert(i0.contains_key(w));
        assert(i0[w]@.contains_key(nm) && !nm_hit(full0, ids, len, f, sel_i(), w, nm@) && i1[w]@[nm] == i0[w]@[nm]);
        assert(sel_i()(i0[w]@[nm].ident()) == Some((w, nm@)));
        lemma_remove_named_live(o, n, f, sel_i(), w, nm@, i0[w]@[nm]);
    }
    assert forall|w: WorkspaceId| #[trigger] i1.contains_key(w) implies !i1[w]@.is_empty() by {
        assert(i0.contains_key(w));
        lemma_remove_scope_nonempty(full0, ids, len, f, sel_i(), i0, i1, w);
    }
}
