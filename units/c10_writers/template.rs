// unit c10_writers — C10 "Removed files leave no trace": the WRITERS of the member / operator / type / metatable indexes
// establish and preserve the representation invariants (`member_wf`, `op_wf`, `type_wf`, `metatable_cofiled`,
// `table_owners_cofiled`) that unit c10_remove2 ASSUMES for the property-level clauses of `remove`.
// The invariants are the very spec fn texts of c10_remove2 (`//@@include c10_remove2/*.rs`, not copied, not edited).
// hashbrown -> std::collections. Payloads the writers never inspect are opaque.
#![feature(allocator_api)]
use vstd::prelude::*;
use std::collections::{HashMap, HashSet};
use std::collections::hash_map::Entry;
use std::alloc::Allocator;
use std::hash::{Hash, BuildHasher};
use std::borrow::Borrow;
use vstd::std_specs::hash::EntrySpecFns;
verus! {

// ---- extracted from /repo: the id types (derive lists re-attached; `Structural` = derived PartialEq is
// field-wise equality, std doc of derive(PartialEq)) — same shims as unit c10_remove2 ------------------------
//@@ FileId
//@@ InFiled

/// text-size 1.1.1: `pub struct TextSize { raw: u32 }`, `pub struct TextRange { start, end }`, both derive PartialEq/Eq/Hash
#[derive(Debug, Clone, Copy, PartialEq, Eq, Hash, Structural)]
pub struct TextSize { pub raw: u32 }
#[derive(Debug, Clone, Copy, PartialEq, Eq, Hash, Structural)]
pub struct TextRange { pub start: TextSize, pub end: TextSize }
impl TextRange {
    /// text-size: `pub const fn start(self) -> TextSize { self.start }`
    pub fn start(self) -> (r: TextSize) ensures r == self.start { self.start }
}

#[verifier::external_body] #[derive(PartialEq, Eq, Hash)] pub struct GlobalId { _p: () }
/// LuaTypeDeclId = ArcIntern<LuaTypeIdentifier>: opaque; `get_id` (`self.id.as_ref()`) hands out the interned identifier;
/// derived Clone (clone of the Arc) returns an equal id
#[verifier::external_body] #[derive(PartialEq, Eq, Hash)] pub struct LuaTypeDeclId { _p: () }
//@@ WorkspaceId
//@@ LuaTypeIdentifier
impl LuaTypeDeclId {
    pub uninterp spec fn ident(&self) -> LuaTypeIdentifier;
    #[verifier::external_body] pub fn get_id(&self) -> (r: &LuaTypeIdentifier) ensures *r == self.ident() { unimplemented!() }
}
impl Clone for LuaTypeDeclId { #[verifier::external_body] fn clone(&self) -> (r: Self) ensures r == *self { unimplemented!() } }
#[verifier::external_body] #[derive(Clone, Copy, PartialEq, Eq, Hash)] pub struct LuaSyntaxId { _p: () }
#[verifier::external_body] #[derive(PartialEq, Eq, Hash)] pub struct LuaMemberKey { _p: () }
#[verifier::external_body] #[derive(PartialEq, Eq, Hash)] pub struct SmolStr { _p: () }
impl Clone for LuaMemberKey { #[verifier::external_body] fn clone(&self) -> (r: Self) ensures r == *self { unimplemented!() } }
impl SmolStr {
    pub uninterp spec fn text(&self) -> Seq<char>;
    #[verifier::external_body] pub fn as_str(&self) -> (r: &str) ensures r@ == self.text() { unimplemented!() }
    /// `ToString for SmolStr` (through Display): the String with the same text
    #[verifier::external_body] pub fn to_string(&self) -> (r: String) ensures r@ == self.text() { unimplemented!() }
}
impl Clone for SmolStr { #[verifier::external_body] fn clone(&self) -> (r: Self) ensures r == *self { unimplemented!() } }
/// `SmolStr::new(s)`: the SmolStr with the text of `s` (a function of the text only)
pub uninterp spec fn smol_of(s: Seq<char>) -> SmolStr;
/// the three constructors of LuaTypeDeclId (`ArcIntern::new(LuaTypeIdentifier::X(.., SmolStr::new(str)))`): the interned identifier is the one built
impl LuaTypeDeclId {
    #[verifier::external_body] pub fn global(str: &str) -> (r: Self) ensures r.ident() == LuaTypeIdentifier::Global(smol_of(str@)) { unimplemented!() }
    #[verifier::external_body] pub fn file(file_id: FileId, str: &str) -> (r: Self) ensures r.ident() == LuaTypeIdentifier::File(file_id, smol_of(str@)) { unimplemented!() }
    #[verifier::external_body] pub fn internal(workspace_id: WorkspaceId, str: &str) -> (r: Self) ensures r.ident() == LuaTypeIdentifier::Internal(workspace_id, smol_of(str@)) { unimplemented!() }
    /// text after the last `.` of the name: NO contract
    #[verifier::external_body] pub fn get_simple_name(&self) -> &str { unimplemented!() }
}
//@@ LuaDeclId
//@@ LuaOperatorId
//@@ LuaOperatorMetaMethod
//@@ LuaOperatorOwner
impl Clone for LuaOperatorOwner { #[verifier::external_body] fn clone(&self) -> (r: Self) ensures r == *self { unimplemented!() } }
// type index: opaque payloads
#[verifier::external_body] pub struct LuaTypeCache { _p: () }
#[verifier::external_body] pub struct GenericParam { _p: () }
#[verifier::external_body] pub struct LuaType { _p: () }
// member index
//@@ LuaMemberFeature
impl LuaMemberFeature {
    //@@ LuaMemberFeature::is_decl
}
//@@ LuaMemberId
//@@ LuaMember
impl LuaMember {
    //@@ LuaMember::get_key
    //@@ LuaMember::get_file_id
    //@@ LuaMember::get_id
    //@@ LuaMember::get_feature
}
//@@ LuaMemberIndexItem
/// derived Clone of `enum { One(LuaMemberId), Many(Vec<LuaMemberId>) }` with LuaMemberId: Copy — the same variant with the same ids
impl Clone for LuaMemberIndexItem {
    #[verifier::external_body] fn clone(&self) -> (r: Self)
        ensures match *self {
            LuaMemberIndexItem::One(a) => r matches LuaMemberIndexItem::One(b) && a == b,
            LuaMemberIndexItem::Many(a) => r matches LuaMemberIndexItem::Many(b) && a@ == b@ }
    { unimplemented!() }
}
//@@ LuaMemberOwner
impl Clone for LuaMemberOwner { #[verifier::external_body] fn clone(&self) -> (r: Self) ensures r == *self { unimplemented!() } }
impl LuaMemberOwner {
    //@@ LuaMemberOwner::is_unknown
}
//@@ MemberOrOwner
//@@ OwnerMemberStatus
//@@ LuaOperator
impl LuaOperator {
    //@@ LuaOperator::get_owner
    //@@ LuaOperator::get_op
    //@@ LuaOperator::get_id
}

pub open spec fn keys_ok() -> bool {
    &&& vstd::std_specs::hash::obeys_key_model::<FileId>()
    &&& vstd::std_specs::hash::obeys_key_model::<InFiled<TextRange>>()
    &&& vstd::std_specs::hash::obeys_key_model::<GlobalId>()
    &&& vstd::std_specs::hash::obeys_key_model::<LuaOperatorId>()
    &&& vstd::std_specs::hash::obeys_key_model::<LuaOperatorOwner>()
    &&& vstd::std_specs::hash::obeys_key_model::<LuaOperatorMetaMethod>()
    &&& vstd::std_specs::hash::obeys_key_model::<LuaMemberKey>()
    &&& vstd::std_specs::hash::obeys_key_model::<SmolStr>()
    &&& vstd::std_specs::hash::obeys_key_model::<LuaMemberId>()
    &&& vstd::std_specs::hash::obeys_key_model::<LuaMemberOwner>()
    &&& vstd::std_specs::hash::obeys_key_model::<MemberOrOwner>()
    &&& vstd::std_specs::hash::obeys_key_model::<LuaTypeDeclId>()
    &&& vstd::std_specs::hash::obeys_key_model::<LuaTypeOwner>()
    &&& vstd::std_specs::hash::obeys_key_model::<WorkspaceId>()
    &&& vstd::std_specs::hash::obeys_key_model::<String>()
    &&& vstd::std_specs::hash::obeys_key_model::<LuaPropertyId>()
    &&& vstd::std_specs::hash::obeys_key_model::<LuaSemanticDeclId>()
}

// ---- std contracts (trusted, restated from the std documentation) ---------------------------------
/// (text of unit c10_remove2, needed by its lemmas.rs) the elements of `s` whose flag in `keep` is set, in order
pub open spec fn filter_by<T>(s: Seq<T>, keep: Seq<bool>) -> Seq<T>
    decreases s.len()
{
    if s.len() == 0 || keep.len() != s.len() { Seq::empty() }
    else if keep.last() { filter_by(s.drop_last(), keep.drop_last()).push(s.last()) }
    else { filter_by(s.drop_last(), keep.drop_last()) }
}

/// HashMap::get_mut (text of unit c10_remove2): "Returns a mutable reference to the value corresponding to the key." For a
/// present key the reference points at the stored value (`*v` is the old value) and whatever is written through it is the
/// value stored under that same key when the borrow ends (`final(v)`); every other entry is untouched. An absent key gives
/// None and leaves the map alone. `kk` is the stored key that `k` borrows-equals (K = Q at every call site here).
pub assume_specification<'a, K: Eq + Hash + Borrow<Q>, V, S: BuildHasher, A: Allocator, Q: Hash + Eq + ?Sized>[ HashMap::<K, V, S, A>::get_mut ](m: &'a mut HashMap<K, V, S, A>, k: &Q) -> (r: Option<&'a mut V>)
    ensures
        vstd::std_specs::hash::obeys_key_model::<K>() && vstd::std_specs::hash::builds_valid_hashers::<S>() ==> match r {
            Some(v) => vstd::std_specs::hash::contains_borrowed_key(old(m)@, k)
                && vstd::std_specs::hash::maps_borrowed_key_to_value(old(m)@, k, *v)
                && exists|kk: K| #[trigger] old(m)@.contains_key(kk) && old(m)@[kk] == *v
                    && vstd::std_specs::hash::contains_borrowed_key(Map::<K, V>::empty().insert(kk, *v), k)
                    && final(m)@ == old(m)@.insert(kk, *final(v)),
            None => !vstd::std_specs::hash::contains_borrowed_key(old(m)@, k) && final(m)@ == old(m)@,
        };

/// std (`Entry::or_default`): "Ensures a value is in the entry by inserting the default value if empty, and returns a
/// mutable reference to the value in the entry." Same shape as vstd's specification of `Entry::or_insert`, with the
/// inserted value being whatever `V::default()` returns (text of unit c20_globals).
pub assume_specification<'a, K, V: Default> [Entry::<'a, K, V>::or_default] (entry: Entry<'a, K, V>) -> (value: &'a mut V)
    ensures
        match entry.value() { Some(v) => *value == v, None => call_ensures(V::default, (), *value) },
        entry.final_value() == Some(*final(value));

/// std (`Entry::or_insert_with`): "Ensures a value is in the entry by inserting the result of the default function if
/// empty, and returns a mutable reference to the value in the entry." The function is called only for a vacant entry.
pub assume_specification<'a, K, V, A: Allocator, F: FnOnce() -> V> [Entry::<'a, K, V, A>::or_insert_with] (entry: Entry<'a, K, V, A>, f: F) -> (value: &'a mut V)
    requires
        entry.value() is None ==> call_requires(f, ()),
    ensures
        match entry.value() { Some(v) => *value == v, None => call_ensures(f, (), *value) },
        entry.final_value() == Some(*final(value));

/// `<[T]>::contains` (through Vec's deref): NO contract — the writers' invariants hold whatever it answers
pub assume_specification<T: PartialEq> [<[T]>::contains] (s: &[T], x: &T) -> bool;

//@@include c10_remove2/lemmas.rs
//@@include c10_remove2/operator_spec.rs
//@@include c10_remove2/reference_spec.rs
//@@ LuaOwnerMembers
impl LuaOwnerMembers {
    //@@ LuaOwnerMembers::new
    //@@ LuaOwnerMembers::add_member
    //@@ LuaOwnerMembers::get_member
    //@@ LuaOwnerMembers::contains_member
    //@@ LuaOwnerMembers::get_member_mut
}
//@@include c10_remove2/member_spec.rs
//@@include c10_writers/member_writers_spec.rs
//@@ LuaTypeOwner
impl Clone for LuaTypeOwner { #[verifier::external_body] fn clone(&self) -> (r: Self) ensures r == *self { unimplemented!() } }
impl LuaTypeOwner {
    //@@ LuaTypeOwner::get_file_id
}
/// flagset crate: `FlagSet<F>` is a Copy bit set over the `flags!`-generated enum F; `contains` without contract
#[verifier::external_body] #[verifier::reject_recursive_types(F)] pub struct FlagSet<F> { _p: std::marker::PhantomData<F> }
impl<F> Clone for FlagSet<F> { #[verifier::external_body] fn clone(&self) -> Self { unimplemented!() } }
impl<F> Copy for FlagSet<F> {}
/// the enum that `flags! { pub enum LuaTypeFlag: u8 { Key, Partial, Exact, Meta, Constructor, Public, Internal, File } }` generates
#[derive(Clone, Copy)] pub enum LuaTypeFlag { Key, Partial, Exact, Meta, Constructor, Public, Internal, File }
impl<F> FlagSet<F> { #[verifier::external_body] pub fn contains(self, rhs: F) -> bool { unimplemented!() } }
//@@ LuaDeclTypeKind
//@@ LuaTypeExtra
//@@ LuaDeclLocation
//@@ LuaTypeDecl
/// helper of rule `vec-extend-vec`. std (`impl Extend<T> for Vec<T>`, `IntoIterator for Vec<T>`): "Extends a collection with the
/// contents of an iterator"; a Vec is iterated front to back, each element once: the elements of `w` are appended in order
#[verifier::external_body]
pub fn vx_vec_extend<T>(v: &mut Vec<T>, w: Vec<T>)
    ensures final(v)@ == old(v)@ + w@,
{ v.extend(w) }
impl LuaTypeDecl {
    //@@ LuaTypeDecl::new
    //@@ LuaTypeDecl::get_id
    //@@ LuaTypeDecl::merge_decl
}
//@@include c10_remove2/type_spec.rs
//@@ LuaTypeIndex
//@@include c10_remove2/type_post.rs
//@@include c10_writers/type_writers_spec.rs
pub open spec fn names_frame(o: &LuaTypeIndex, n: &LuaTypeIndex) -> bool {
    n.global_name_type_map == o.global_name_type_map && n.internal_name_type_map == o.internal_name_type_map && n.local_name_type_map == o.local_name_type_map
}
impl<N> InFiled<N> {
    //@@ InFiled::new
}
//@@ add_type_decl::register
impl LuaTypeIndex {
    //@@ LuaTypeIndex::new
    //@@ LuaTypeIndex::add_file_namespace
    //@@ LuaTypeIndex::add_file_using_namespace
    //@@ LuaTypeIndex::index_type_decl_name
    //@@ LuaTypeIndex::add_type_decl
    //@@ LuaTypeIndex::add_generic_params
    //@@ LuaTypeIndex::add_super_type
    //@@ LuaTypeIndex::bind_type
}

// ---- extracted from /repo: the member index and its writers --------------------------------------------
//@@ LuaMemberIndex
pub open spec fn mo_listed(s: &LuaMemberIndex, f: FileId) -> Set<MemberOrOwner> {
    if s.in_filed@.contains_key(f) { s.in_filed@[f]@ } else { Set::empty() }
}
pub open spec fn mwf(s: &LuaMemberIndex) -> bool { member_wf(s.members@, s.member_current_owner@, s.owner_members@, s.in_filed@) }
impl LuaMemberIndex {
    //@@ LuaMemberIndex::new
    //@@ LuaMemberIndex::get_member
    /// `is_item_only_meta(&self, item)` consults the features of the members named by the item: read-only (`&self`, no
    /// interior mutability in the index), NO contract on its answer
    #[verifier::external_body] pub fn is_item_only_meta(&self, item: &LuaMemberIndexItem) -> bool { unimplemented!() }
    //@@ LuaMemberIndex::add_in_file_object
    //@@ LuaMemberIndex::set_member_owner
    //@@ LuaMemberIndex::add_member_to_owner
    //@@ LuaMemberIndex::add_member
}

// ---- extracted from /repo: the operator index and its writer ---------------------------------------------
//@@include c10_writers/operator_writers_spec.rs
//@@ LuaOperatorIndex
pub open spec fn owf(s: &LuaOperatorIndex) -> bool { op_wf(s.operators@, s.type_operators_map@, s.in_filed_operator_map@) }
impl LuaOperatorIndex {
    //@@ LuaOperatorIndex::new
    //@@ LuaOperatorIndex::add_operator
}

// ---- extracted from /repo: the metatable index and its writer ----------------------------------------------
/// (text of unit c10_remove2) metatable index invariant established by its only writer (`analyze_setmetatable` adds
/// `InFiled::new(file_id, table_range) -> InFiled::new(file_id, metatable_range)` with one and the same file_id)
pub open spec fn metatable_cofiled(m: Map<InFiled<TextRange>, InFiled<TextRange>>) -> bool {
    forall|k: InFiled<TextRange>| #[trigger] m.contains_key(k) ==> m[k].file_id == k.file_id
}
//@@ LuaMetatableIndex
impl LuaMetatableIndex {
    //@@ LuaMetatableIndex::new
    //@@ LuaMetatableIndex::add
}
// the call site of `LuaMetatableIndex::add`: the statement slice of `analyze_setmetatable` that registers the pair
/// emmylua_parser AST nodes: opaque; `get_range` (rowan text range of the node) without contract
#[verifier::external_body] pub struct LuaExpr { _p: () }
#[verifier::external_body] pub struct LuaTableExpr { _p: () }
impl LuaExpr { #[verifier::external_body] pub fn get_range(&self) -> TextRange { unimplemented!() } }
impl LuaTableExpr { #[verifier::external_body] pub fn get_range(&self) -> TextRange { unimplemented!() } }
#[verifier::external_body] pub struct AnalyzeContext { _p: () }
//@@ DbIndex
impl DbIndex {
    //@@ DbIndex::get_metatable_index_mut
    //@@ DbIndex::get_member_index_mut
}
// the call site of the re-owning pair: the real `compilation::analyzer::common::add_member`
//@@ common::add_member
//@@ LuaAnalyzer
//@@ analyze_setmetatable::register

// ---- extracted from /repo: the property index and its writers ----------------------------------------------
//@@ LuaSignatureId
//@@ LuaPropertyId
impl LuaPropertyId {
    //@@ LuaPropertyId::new
}
//@@ LuaSemanticDeclId
impl Clone for LuaSemanticDeclId { #[verifier::external_body] fn clone(&self) -> (r: Self) ensures r == *self { unimplemented!() } }
// payloads of a property: opaque
#[verifier::external_body] #[derive(Clone, Copy)] pub struct VisibilityKind { _p: () }
#[verifier::external_body] pub struct LuaVersionCondition { _p: () }
#[verifier::external_body] pub struct PropertyDeclFeature { _p: () }
#[verifier::external_body] pub struct LuaAttributeUse { _p: () }
//@@ LuaCommonProperty
/// the setters of one property value: they write that value only (`&mut self` of LuaCommonProperty): NO contract
impl LuaCommonProperty {
    #[verifier::external_body] pub fn new() -> Self { unimplemented!() }
    #[verifier::external_body] pub fn add_extra_description(&mut self, description: String) { unimplemented!() }
    #[verifier::external_body] pub fn add_extra_source(&mut self, source: String) { unimplemented!() }
    #[verifier::external_body] pub fn add_extra_deprecated(&mut self, message: Option<String>) { unimplemented!() }
    #[verifier::external_body] pub fn add_extra_version_cond(&mut self, conds: Vec<LuaVersionCondition>) { unimplemented!() }
    #[verifier::external_body] pub fn add_extra_tag(&mut self, tag: String, content: String) { unimplemented!() }
    #[verifier::external_body] pub fn add_decl_feature(&mut self, feature: PropertyDeclFeature) { unimplemented!() }
    #[verifier::external_body] pub fn add_attribute_use(&mut self, attribute_use: LuaAttributeUse) { unimplemented!() }
}
//@@include c10_writers/property_writers_spec.rs
//@@ LuaPropertyIndex
pub open spec fn pwf(s: &LuaPropertyIndex) -> bool { prop_wf(s.property_owners_map@, s.in_filed_owner@) }
impl LuaPropertyIndex {
    //@@ LuaPropertyIndex::new
    //@@ LuaPropertyIndex::get_or_create_property
    //@@ LuaPropertyIndex::add_owner_map
    //@@ LuaPropertyIndex::add_description
    //@@ LuaPropertyIndex::add_visibility
    //@@ LuaPropertyIndex::add_source
    //@@ LuaPropertyIndex::add_deprecated
    //@@ LuaPropertyIndex::add_version
    //@@ LuaPropertyIndex::add_see
    //@@ LuaPropertyIndex::add_other
    //@@ LuaPropertyIndex::add_decl_feature
    //@@ LuaPropertyIndex::add_attribute_use
}

} // verus!
fn main() {}
