// ---- operator index, writer side: vocabulary and lemmas (bodies verified) ----------------------------------
pub open spec fn tv_or_empty(t: OpMap, o: LuaOperatorOwner, p: LuaOperatorMetaMethod) -> Seq<LuaOperatorId> {
    if tv_has(t, o, p) { tv(t, o, p) } else { Seq::empty() }
}
/// what `add_operator` does to `type_operators_map`: the vector at (o, p) — created with its inner map if need be — gains id
/// at its end; every other vector, inner map and owner is untouched
pub open spec fn tm_added(t0: OpMap, t1: OpMap, o: LuaOperatorOwner, p: LuaOperatorMetaMethod, id: LuaOperatorId) -> bool {
    &&& forall|o2: LuaOperatorOwner| o2 != o ==> #[trigger] t1.contains_key(o2) == t0.contains_key(o2) && (t0.contains_key(o2) ==> t1[o2] == t0[o2])
    &&& t1.contains_key(o)
    &&& forall|p2: LuaOperatorMetaMethod| p2 != p ==> #[trigger] t1[o]@.contains_key(p2) == (t0.contains_key(o) && t0[o]@.contains_key(p2))
            && (t1[o]@.contains_key(p2) ==> t1[o]@[p2] == t0[o]@[p2])
    &&& t1[o]@.contains_key(p) && t1[o]@[p]@ == tv_or_empty(t0, o, p).push(id)
}
/// what `add_operator` does to `in_filed_operator_map`: file f's list gains id at its end, every other file's list is untouched
pub open spec fn inf_op_added(inf0: InfMap, inf1: InfMap, f: FileId, id: LuaOperatorId) -> bool {
    &&& inf1.contains_key(f) && inf1[f]@ == (if inf0.contains_key(f) { inf0[f]@ } else { Seq::empty() }).push(id)
    &&& forall|g: FileId| g != f ==> #[trigger] inf1.contains_key(g) == inf0.contains_key(g) && (inf0.contains_key(g) ==> inf1[g] == inf0[g])
}
pub proof fn lemma_map_has_key_len<K, V>(m: Map<K, V>, k: K)
    requires m.contains_key(k),
    ensures m.len() > 0,
{
    if m.len() == 0 { m.dom().lemma_len0_is_empty(); assert(m.dom().contains(k)); }
}
/// `add_operator(operator)` keeps the operator invariant PROVIDED the id (file + start offset) is new, or is re-registered
/// for the same owner and meta method. (With another owner / meta method the old vector would keep an id whose operator
/// now says otherwise, and `remove` — which follows `operators[id]` — would never clean that vector.)
pub proof fn lemma_op_add(ops0: OpsMap, t0: OpMap, inf0: InfMap, t1: OpMap, inf1: InfMap, id: LuaOperatorId, operator: LuaOperator)
    requires
        op_wf(ops0, t0, inf0), tm_added(t0, t1, operator.owner, operator.op, id), inf_op_added(inf0, inf1, id.file_id, id),
        ops0.contains_key(id) ==> ops0[id].owner == operator.owner && ops0[id].op == operator.op,
    ensures
        op_wf(ops0.insert(id, operator), t1, inf1),
        table_owners_cofiled(t0) && (operator.owner matches LuaOperatorOwner::Table(x) ==> x.file_id == id.file_id) ==> table_owners_cofiled(t1),
{
    let ops1 = ops0.insert(id, operator); let o = operator.owner; let p = operator.op; let f = id.file_id;
    // tv_has / tv of the new map in terms of the old one
    assert forall|o2: LuaOperatorOwner, p2: LuaOperatorMetaMethod| !(o2 == o && p2 == p) implies
        #[trigger] tv_has(t1, o2, p2) == tv_has(t0, o2, p2) && (tv_has(t0, o2, p2) ==> tv(t1, o2, p2) == tv(t0, o2, p2)) by {
        if o2 != o { assert(t1.contains_key(o2) == t0.contains_key(o2)); }
        else { assert(t1[o]@.contains_key(p2) == (t0.contains_key(o) && t0[o]@.contains_key(p2))); }
    }
    assert(tv_has(t1, o, p) && tv(t1, o, p) == tv_or_empty(t0, o, p).push(id));
    assert forall|x: LuaOperatorId| #[trigger] ops1.contains_key(x) implies inf1.contains_key(x.file_id) && inf1[x.file_id]@.contains(x) by {
        if x == id {
            assert(inf1[f]@[inf1[f]@.len() - 1] == id);
        } else {
            assert(ops0.contains_key(x));
            let g = x.file_id;
            let j = choose|j: int| 0 <= j < inf0[g]@.len() && inf0[g]@[j] == x;
            if g != f { assert(inf1.contains_key(g) == inf0.contains_key(g)); } else { assert(inf1[f]@[j] == x); }
        }
    }
    assert forall|g: FileId, i: int| inf1.contains_key(g) && 0 <= i < inf1[g]@.len() implies (#[trigger] inf1[g]@[i]).file_id == g by {
        if g != f { assert(inf1.contains_key(g) == inf0.contains_key(g)); }
        else if i < inf1[f]@.len() - 1 { assert(inf0.contains_key(f)); assert(inf1[f]@[i] == inf0[f]@[i]); }
    }
    assert forall|o2: LuaOperatorOwner, p2: LuaOperatorMetaMethod, i: int| tv_has(t1, o2, p2) && 0 <= i < tv(t1, o2, p2).len() implies
        ops1.contains_key(#[trigger] tv(t1, o2, p2)[i]) && ops1[tv(t1, o2, p2)[i]].owner == o2 && ops1[tv(t1, o2, p2)[i]].op == p2 by {
        let x = tv(t1, o2, p2)[i];
        if o2 == o && p2 == p {
            if i < tv(t1, o, p).len() - 1 { assert(tv_has(t0, o, p)); assert(x == tv(t0, o, p)[i]); assert(ops0.contains_key(tv(t0, o, p)[i])); }
        } else {
            assert(tv_has(t0, o2, p2) && tv(t1, o2, p2) == tv(t0, o2, p2));
            assert(ops0.contains_key(tv(t0, o2, p2)[i]));
            // x == id would make the old operator of that id one of (o2, p2) != (o, p): excluded by the precondition
        }
    }
    assert(no_empty(t1)) by {
        assert forall|o2: LuaOperatorOwner| #[trigger] t1.contains_key(o2) implies t1[o2]@.len() > 0
            && forall|p2: LuaOperatorMetaMethod| #[trigger] t1[o2]@.contains_key(p2) ==> t1[o2]@[p2]@.len() > 0 by {
            if o2 != o { assert(t1.contains_key(o2) == t0.contains_key(o2)); }
            else {
                lemma_map_has_key_len(t1[o]@, p);
                assert forall|p2: LuaOperatorMetaMethod| #[trigger] t1[o]@.contains_key(p2) implies t1[o]@[p2]@.len() > 0 by {
                    if p2 != p { assert(tv_has(t0, o, p2)); assert(t0[o]@[p2]@.len() > 0); }
                }
            }
        }
    }
    if table_owners_cofiled(t0) && (operator.owner matches LuaOperatorOwner::Table(x) ==> x.file_id == id.file_id) {
        assert forall|o2: LuaOperatorOwner, p2: LuaOperatorMetaMethod, i: int| tv_has(t1, o2, p2) && 0 <= i < tv(t1, o2, p2).len() implies
            (o2 matches LuaOperatorOwner::Table(x) ==> (#[trigger] tv(t1, o2, p2)[i]).file_id == x.file_id) by {
            if o2 == o && p2 == p {
                if i < tv(t1, o, p).len() - 1 { assert(tv_has(t0, o, p)); assert(tv(t1, o, p)[i] == tv(t0, o, p)[i]); }
            } else {
                assert(tv_has(t0, o2, p2) && tv(t1, o2, p2) == tv(t0, o2, p2));
            }
        }
    }
}
