// ---- shims / placement file of the expr side (specification only; the `//@@` items are extracted from the repository) ------------
impl LuaOpKind {
    //@@ LuaOpKind::to_unary_operator
    //@@ LuaOpKind::to_binary_operator
}

impl BinaryOperator {
    /// `&PRIORITY[*self as usize]` (kind/lua_operator_kind.rs): PRIORITY has 25 entries, BinaryOperator 24 field-less variants, so the
    /// index is in range (by inspection; an enum-to-integer cast is outside the verifier's dialect). The priorities themselves are
    /// left uninterpreted: no proof here (termination of the operator loop included) depends on them.
    #[verifier::external_body]
    pub fn get_priority(&self) -> (r: &PriorityTable)
    { unimplemented!() }
}
