// ---- placement file of the expr side: the `//@@` items are extracted from the repository (kind/mod.rs, kind/lua_operator_kind.rs) ----
impl LuaOpKind {
    //@@ LuaOpKind::to_unary_operator
    //@@ LuaOpKind::to_binary_operator
}

impl BinaryOperator {
    //@@ BinaryOperator::get_priority
}
