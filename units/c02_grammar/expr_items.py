"""contract overlay for the fns of grammar/lua/expr.rs — see build.py for the format.
Owned by the 'expr' side: the other side reads the requires/ensures written here as ASSUMED contracts.

What is proved for every fn f(p: &mut LuaParser, ..) of expr.rs (unit c02_gexpr; again, together with stat.rs/mod.rs, in c02_grammar):
  requires ginv(old(p)) [std], gfirst(old(p)), nosoft(old(p))
  ensures  ginv(final(p)) [C01.grammar.keeps-inv], gstep(old(p), final(p)) [C02.grammar.step]   (standard contract, build.py)
           nosoft(final(p)), gkeep(old(p), final(p)),
           and for the fns returning ParseResult:  Ok(cm) ==> cm_live(&cm, final(p))   (precede may be called on the result)
  + the labelled progress clauses (C02.expr.progress / simple-progress); every loop has a `decreases` (labels C02.expr.*-loop-terminates,
  surfaced by rule ge-label-loops); every fn has `decreases grem(old(p)), <rank>` (C02.expr.recursion-terminates; the calls that rely on
  a consumed token are preceded by a labelled assert, C02.expr.recursion-consumed-a-token).
All preconditions of bump / mark / push_node_end / Marker::{set_kind,complete} / CompleteMarker::precede / current_token_text are discharged
at the call sites inside the real bodies: no `unreachable!()`, no index panic, no overflow of the lookahead / brace counters, PRIORITY index
in range. Not proved: overflow of the ternary / paren depth counters (shims, see TRUSTED).

REWRITE RULES of the expr side (all unit-local, prefixed `ge-`; each is local, named, and checked against the shape it expects — a change of
the repository text that leaves the shape makes the unit UNDECIDED, never silently accepted):
  ge-drop-push-error        `p.push_error(LuaParseError::syntax_error_from(MSG, RANGE));` -> `vx_note_error();` (a no-op fn, shared_shims.rs).
                            Why: `errors` is a field projected out of LuaParser (no contract mentions it), `t!` is an i18n macro and
                            LuaParseError an unextracted type. Why it preserves the parser state: push_error only appends to `errors`; the rule
                            rejects any MSG / RANGE that calls something other than t!, p.current_token(), p.current_token_range() (both `&self`,
                            proved total in the base unit), and any `?` / `return` inside. TRUSTED: the dropped calls do not panic.
  ge-drop-error-msg         `let error_msg = match p.current_token() { K => t!(..), .. };` -> removed (parse_simple_expr). The binding is only the
                            MSG of the push_error dropped before it (checked: no other use), its initialiser only reads p.current_token().
  ge-match-guard-if-chain   `match E { P1 => B1, P2 if G => B2, .., _ => Bn }` on a LuaTokenKind value -> `{ let vx_m = E; if matches!(vx_m, P1)
                            {B1} else if matches!(vx_m, P2) && (G) {B2} .. else {Bn} }` (parse_simple_expr). Why: Verus rejects an or-pattern with a
                            guard and loses the final(p) link of a `&mut` parameter mutated in a guarded arm. Why it is the same program: patterns
                            are or-patterns of field-less paths (checked: no bindings), so testing them has no effect; arms are tried in order, an
                            arm is taken iff pattern and guard hold, the scrutinee is evaluated once (Rust reference, match expressions).
  ge-local-const            `const NAME: T = <integer literal>;` as a statement inside a fn body -> `let NAME: T = <literal>;` (TERNARY_LEFT,
                            MAX_LOOKAHEAD). Why: Verus has no item statements. Same program: the constant is used as a value, after its
                            declaration, in the same block only.
  ge-label-loops            COMMENT-ONLY: writes the property label after each loop keyword / `continue;` so that a violated loop `decreases`
                            (reported by Verus at the loop header / the `continue`) is named after the property clause. No code token changes.
Shims instead of rules (callee outside the dialect / touching projected-out fields): shared_shims.rs, expr_shims.rs (placement only), TRUSTED below.
"""
import re
from vc import rules as R
from vc import rustlex as L
from vc.extract import Undecided

GM = 'crates/emmylua_parser/src/grammar/mod.rs'
KM = 'crates/emmylua_parser/src/kind/mod.rs'
KO = 'crates/emmylua_parser/src/kind/lua_operator_kind.rs'
KT = 'crates/emmylua_parser/src/kind/lua_type_operator_kind.rs'
KF = 'crates/emmylua_parser/src/kind/lua_features.rs'
PC = 'crates/emmylua_parser/src/parser/parser_config.rs'
DERIVE_KIND = '#[derive(Clone, Copy, PartialEq, Eq, Structural)]'


def _tt(text, toks, i):
    return L.tok_text(text, toks[i]) if 0 <= i < len(toks) else ''


# callees that may occur inside a dropped error report: all of them are reads (`&self`) or the message constructors
_REPORT_CALLEES = {'push_error', 'syntax_error_from', 't', 'current_token_range', 'current_token'}


def _only_reads(text, what):
    toks = L.code_tokens(text)
    for i in range(len(toks)):
        if toks[i][0] == 'ident' and (_tt(text, toks, i + 1) == '(' or (_tt(text, toks, i + 1) == '!' and _tt(text, toks, i + 2) == '(')):
            name = _tt(text, toks, i)
            if name not in _REPORT_CALLEES:
                raise Undecided('%s: the error report calls `%s`, which is not on the list of pure callees' % (what, name))
        if _tt(text, toks, i) == '?' or (_tt(text, toks, i) == 'return' and toks[i][0] == 'ident'):
            raise Undecided('%s: control flow inside an error report' % what)


@R.rule('ge-drop-push-error')
def ge_drop_push_error(text, **_):
    """`p.push_error(LuaParseError::syntax_error_from(MSG, RANGE));` -> `vx_note_error();`
    `LuaParser::push_error` only appends to `errors`, a field projected out of `LuaParser` (no contract mentions it). The rule checks
    that MSG / RANGE contain no call other than `t!(..)`, `p.current_token()`, `p.current_token_range()` (both `&self` reads, proved
    panic-free in the base unit) — so dropping the evaluation of the arguments drops no effect on the parser state. Trusted: `t!`,
    `syntax_error_from`, `push_error` do not panic."""
    n = 0
    while True:
        toks = L.code_tokens(text)
        hit = None
        for i in range(len(toks) - 4):
            if _tt(text, toks, i) == 'p' and _tt(text, toks, i + 1) == '.' and _tt(text, toks, i + 2) == 'push_error' and _tt(text, toks, i + 3) == '(':
                c = L.match_close(text, toks, i + 3)
                if _tt(text, toks, c + 1) != ';':
                    raise Undecided('ge-drop-push-error: push_error(..) is not a statement')
                if _tt(text, toks, i + 4) != 'LuaParseError' or _tt(text, toks, i + 7) != 'syntax_error_from':
                    raise Undecided('ge-drop-push-error: argument is not LuaParseError::syntax_error_from(..)')
                _only_reads(text[toks[i][1]:toks[c][2]], 'ge-drop-push-error')
                hit = (toks[i][1], toks[c + 1][2]); break
        if not hit: break
        text = text[:hit[0]] + 'vx_note_error();' + text[hit[1]:]
        n += 1
    return text, n


@R.rule('ge-drop-error-msg')
def ge_drop_error_msg(text, **_):
    """`let error_msg = match p.current_token() { K => t!(..), .. };` -> removed (parse_simple_expr). The binding is used only as the
    MSG argument of the `push_error` dropped by `ge-drop-push-error` (applied first; the rule checks that `error_msg` does not occur
    anywhere else); its initialiser only reads `p.current_token()` and builds i18n strings."""
    toks = L.code_tokens(text)
    n = 0
    for i in range(len(toks) - 4):
        if _tt(text, toks, i) == 'let' and _tt(text, toks, i + 1) == 'error_msg' and _tt(text, toks, i + 2) == '=' and _tt(text, toks, i + 3) == 'match':
            j = i + 4
            while _tt(text, toks, j) != '{':
                j = L.match_close(text, toks, j) + 1 if _tt(text, toks, j) in ('(', '[') else j + 1
            c = L.match_close(text, toks, j)
            if _tt(text, toks, c + 1) != ';':
                raise Undecided('ge-drop-error-msg: unexpected shape')
            _only_reads(text[toks[i][1]:toks[c][2]], 'ge-drop-error-msg')
            new = text[:toks[i][1]] + text[toks[c + 1][2]:]
            if re.search(r'\berror_msg\b', new):
                raise Undecided('ge-drop-error-msg: error_msg is still used after ge-drop-push-error')
            return new, 1
    return text, n


def _load_reader_rules():
    import importlib.util, os
    here = os.path.dirname(os.path.abspath(__file__))
    spec = importlib.util.spec_from_file_location('unit_c01_reader_for_c02_expr', os.path.join(here, '..', 'c01_reader', 'unit.py'))
    m = importlib.util.module_from_spec(spec)
    spec.loader.exec_module(m)
    return m


_rd = _load_reader_rules()      # match-arm parser of unit c01_reader (`_matches`, `_blk`)


@R.rule('ge-match-guard-if-chain')
def ge_match_guard_if_chain(text, **_):
    """a `match` on a `LuaTokenKind` value (Copy, field-less) that has guarded arms and ends in an unguarded `_` arm:
    `match E { P1 => B1, P2 if G2 => B2, .., _ => Bn }` -> `{ let vx_m = E; if matches!(vx_m, P1) {B1} else if matches!(vx_m, P2) && (G2) {B2}
    .. else {Bn} }`. Every pattern is an or-pattern of paths `LuaTokenKind::Variant` (checked: no bindings), so testing a pattern has no
    effect; arms are tried in order, an arm is taken iff its pattern matches and its guard (if any) is true, the scrutinee is evaluated
    once (Rust reference, "Match expressions"). Needed because Verus rejects or-pattern + guard, and loses the `final(p)` link of a
    `&mut` parameter mutated inside a guarded arm (units/c01_reader/probe_guard_limitation.rs)."""
    n = 0
    while True:
        hit = None
        for toks, mi, (scrut, ob, cb, arms) in _rd._matches(text):
            if any(a['guard'] for a in arms):
                hit = (toks, mi, scrut, ob, cb, arms); break
        if not hit: break
        toks, mi, scrut, ob, cb, arms = hit
        last = arms[-1]
        if text[last['pat'][0]:last['pat'][1]] != '_' or last['guard']:
            raise Undecided('ge-match-guard-if-chain: last arm is not an unguarded `_`')
        parts = []
        for a in arms[:-1]:
            pat = text[a['pat'][0]:a['pat'][1]]
            if not re.fullmatch(r'\s*LuaTokenKind::\w+(\s*\|\s*LuaTokenKind::\w+)*\s*', pat):
                raise Undecided('ge-match-guard-if-chain: pattern is not an or-pattern of LuaTokenKind paths: ' + pat)
            cond = 'matches!(vx_m, %s)' % ' '.join(pat.split())
            if a['guard']: cond += ' && (%s)' % text[a['guard'][0]:a['guard'][1]]
            parts.append('if %s %s' % (cond, _rd._blk(text, a)))
        chain = ' else '.join(parts) + ' else ' + _rd._blk(text, last)
        new = '{ let vx_m = %s; %s }' % (text[scrut[0]:scrut[1]], chain)
        text = text[:toks[mi][1]] + new + text[toks[cb][2]:]
        n += 1
    return text, n


@R.rule('ge-label-loops')
def ge_label_loops(text, labels=None, continues=None, **_):
    """COMMENT-ONLY annotation: ` /*@<label>*/` is written after the keyword of the i-th loop (`loop` / `while`, textual order) and after the
    i-th `continue;`. Verus reports a violated loop `decreases` at the loop header (or at the `continue`), and the framework names a failed
    obligation after the label found on the reported lines; a comment changes no token of the code."""
    from vc import extract as X
    labels, continues = labels or [], continues or []
    sh = X.fn_shape(text)
    if len(sh.loops) != len(labels):
        raise Undecided('ge-label-loops: %d loops, %d labels' % (len(sh.loops), len(labels)))
    toks = L.code_tokens(text)
    conts = [t for i, t in enumerate(toks) if t[0] == 'ident' and L.tok_text(text, t) == 'continue' and _tt(text, toks, i + 1) == ';']
    if len(conts) != len(continues):
        raise Undecided('ge-label-loops: %d `continue;`, %d labels' % (len(conts), len(continues)))
    edits = []
    for (kw, _b), lab in zip(sh.loops, labels):
        m = re.match(r'loop|while|for', text[kw:])
        edits.append((kw + m.end(), ' /*@%s*/' % lab))
    for t, lab in zip(conts, continues):
        edits.append((t[2] + 1, ' /*@%s*/' % lab))
    for pos, ins in sorted(edits, reverse=True):
        text = text[:pos] + ins + text[pos:]
    return text, max(len(edits), 1)


EXTRA_RULES = [
    ('ge-local-const', r'\bconst ([A-Z_]+): (i32|usize) = (\d+);', r'let \1: \2 = \3;',
     'item statement `const NAME: T = <integer literal>;` inside a fn body -> `let NAME: T = <literal>;` at the same place (Verus has no '
     'item statements; the constant is used only in the statements that follow it in the same block, as a value)'),
]

# ------------------------------------------------------------------------------------------------------------------------------
# contract fragments
# ------------------------------------------------------------------------------------------------------------------------------
REQ = 'gfirst(old(p)), nosoft(old(p))'
ENS = ('nosoft(final(p)) /*@C02.grammar.nosoft-preserved*/,\n'
       '        gkeep(old(p), final(p)) /*@C02.grammar.no-progress-keeps-token-kind*/')
ENS_CM = ENS + ',\n        r matches Ok(cm) ==> cm_live(&cm, final(p)) /*@C02.expr.result-marker-live*/'
PROG = 'final(p).token_index > old(p).token_index'
# the quantifiers of events_ok and tokens_ok are kept out of the queries of the grammar fns (`hide` = converse of `reveal`): the only facts
# about tokens_ok they need, "not TkEof <=> not at the end" and "token_index < 2^31", are postconditions of LuaParser::current_token (BASE_PATCH)
HIDE = 'hide(l3::events_ok); hide(tokens_ok);'
# loop invariant shared by every loop: the standard contract "so far"
INV = 'ginv(p), gstep(old(p), p), gfirst(p), nosoft(p),'
ERR = ['ge-drop-push-error']
# termination of the recursion: lexicographic measure (tokens not yet consumed, rank); `could not prove termination` is reported at the
# call, so every recursive call that relies on "a token was consumed since the entry" (callee rank >= caller rank) is preceded by DEC
TERM = ' /*@C02.expr.recursion-terminates*/'
DEC = 'proof { assert(grem(p) < grem(old(p))); /*@C02.expr.recursion-consumed-a-token*/ }'


def dec(anchor, where='before'):
    return (anchor, where, DEC)


def loop(inv, dec, except_break=None):
    return (('invariant_except_break\n    ' + except_break + '\n') if except_break else '') + 'invariant\n    ' + INV + '\n    ' + inv + '\ndecreases ' + dec


def e_fn(rank=None, labels=None, continues=None, **kw):
    """labels / continues: property labels of the loops / `continue` statements in textual order (rule ge-label-loops)"""
    d = {'body_first': HIDE, 'attrs': '#[verifier::spinoff_prover]'}
    d.update(kw)
    if rank is not None:
        d['decreases'] = 'grem(old(p)), %dnat' % rank + TERM
    if labels:
        d['rules'] = list(d.get('rules', [])) + [('ge-label-loops', {'labels': labels, 'continues': continues or []})]
        for i, l in enumerate(labels):
            d['loops'][i] = d['loops'][i] + ' /*@%s*/' % l
    return d


M_INV = 'm_live(&m, p), p.mark_level > old(p).mark_level,'
RECOVERY = 'C02.expr.recovery-loop-terminates'

ITEMS = {
    'parse_expr': e_fn(
        ret='r', rank=50, requires=REQ,
        ensures=ENS_CM + ',\n        r is Ok ==> ' + PROG + ' /*@C02.expr.progress*/'),
    'parse_sub_expr': e_fn(
        ret='r', rank=40, requires=REQ, rules=ERR + ['ge-local-const'],
        ensures=ENS_CM + ',\n        r is Ok ==> ' + PROG + ' /*@C02.expr.progress*/',
        labels=['C02.expr.binop-loop-terminates'], continues=['C02.expr.binop-loop-terminates'],
        loops={0: loop('cm_live(&cm, p), p.token_index > old(p).token_index,', 'grem(p)')},
        proof=[dec(r'match parse_sub_expr\(p, UNARY_PRIORITY\) \{'),
               dec(r'match parse_sub_expr\(p, 0\) \{(?=[\s\S]*p\.leave_ternary\(\);)'),
               dec(r'match parse_sub_expr\(p, 0\) \{(?![\s\S]*p\.leave_ternary\(\);)'),
               dec(r'match parse_sub_expr\(p, bop\.get_priority\(\)\.right\) \{')]),
    'parse_simple_expr': e_fn(
        ret='r', rank=30, requires=REQ, rules=ERR + ['ge-drop-error-msg', ('ge-match-guard-if-chain', {'count': 1})],
        ensures=ENS_CM + ',\n        (r is Ok || old(p).current_token is TkName) ==> ' + PROG + ' /*@C02.expr.simple-progress*/'),
    'parse_closure_expr': e_fn(
        ret='r', requires=REQ, rules=ERR,
        # at `function` (the call from parse_simple_expr, same position) the keyword is consumed before parse_block is reached; without it
        # (the calls from stat.rs, after `function name`) nothing may be consumed before parse_block (`local function f return 1 end`),
        # so there the rank is above parse_block's (210)
        decreases='grem(old(p)), (if old(p).current_token is TkFunction { 20int } else { 300int })' + TERM,
        ensures=ENS_CM + ',\n        (r is Ok && old(p).current_token is TkFunction) ==> ' + PROG + ' /*@C02.expr.progress*/',
        proof=[(r'parse_block\(p\)\?;', 'before',
                'proof { assert(grem(p) < grem(old(p)) || !(old(p).current_token is TkFunction)); /*@C02.expr.recursion-consumed-a-token*/ }')]),
    # the one heavy query of the expr side: a straight-line body of ~25 parser states (5 marks, 5 completes, 4 bumps, 3 grammar calls) behind
    # three successive branch points; Z3 re-derives the ev_mono / seq-push facts per path (measured 17-22M rlimit units depending on
    # unrelated text; hiding ev_mono behind opaque chain lemmas, join-point summaries and hide(ranges) were tried and do not lower it), so it
    # gets 3x the default budget (~5 s) instead of sitting at 60-100% of the default
    'parse_short_function': e_fn(
        ret='r', rank=20, rules=ERR, attrs='#[verifier::spinoff_prover]\n#[verifier::rlimit(30)]',
        requires=REQ + ',\n        old(p).current_token is TkName || old(p).current_token is TkLogicalOr || old(p).current_token is TkBitOr',
        ensures=ENS_CM + ',\n        ' + PROG + ' /*@C02.expr.progress*/',
        # (no DEC asserts in front of parse_block / parse_expr here: they double the cost of this query; a violated measure is reported
        #  by Verus at the call as `could not prove termination`, see mutant ge-short-fn-setkind-no-bump)
        ),
    'parse_param_list': e_fn(
        ret='r', rank=10, requires=REQ + ',\n        !(open_token is TkEof), !(close_token is TkEof)', rules=ERR,
        proof=[(r'match parse_param_name\(p, &mut is_vararg\) \{', 'before', 'let ghost ti0 = p.token_index;')],
        ensures=ENS_CM + ',\n        r is Ok,\n        old(p).current_token == open_token ==> ' + PROG + ' /*@C02.expr.progress*/',
        labels=['C02.expr.param-loop-terminates', RECOVERY],
        loops={0: loop(M_INV + '\n    old(p).current_token == open_token ==> p.token_index > old(p).token_index,\n    gkeep(old(p), p),', 'grem(p)'),
               1: loop(M_INV + '\n    old(p).current_token == open_token ==> p.token_index > old(p).token_index,\n    gkeep(old(p), p), p.token_index >= ti0,',
                       'grem(p)')}),
    'parse_param_name': e_fn(
        ret='r', rank=5, requires=REQ, rules=ERR,
        ensures=ENS_CM + ',\n        r is Ok ==> ' + PROG + ' /*@C02.expr.progress*/'),
    'parse_table_expr': e_fn(
        ret='r', rank=20, rules=ERR + ['ge-local-const'],
        requires=REQ + ',\n        old(p).current_token is TkLeftBrace',
        ensures=ENS_CM + ',\n        r is Ok,\n        ' + PROG + ' /*@C02.expr.progress*/',
        labels=['C02.expr.field-loop-terminates', 'C02.expr.lookahead-loop-terminates'],
        loops={0: loop(M_INV + ' p.token_index > old(p).token_index,', 'grem(p)'),
               1: loop(M_INV + ' p.token_index > old(p).token_index,\n    MAX_LOOKAHEAD == 50, lookahead_count <= 50,', '50 - lookahead_count',
                       except_break='1 <= brace_count <= lookahead_count + 1, /*@C02.expr.brace-counter-no-overflow*/')},
        proof=[dec(r'match parse_field_with_recovery\(p\) \{(?=\s*Ok\(cm\) => match)'),
               dec(r'match parse_field_with_recovery\(p\) \{(?=\s*Ok\(cm\) => \{)')]),
    'parse_field_with_recovery': e_fn(
        ret='r', rank=60, requires=REQ, rules=ERR,
        ensures=ENS_CM + ',\n        r is Ok',
        labels=[RECOVERY],
        loops={0: loop(M_INV + ' p.token_index > old(p).token_index,', 'grem(p)')}),
    'recover_to_table_boundary': e_fn(
        rank=5, requires=REQ, ensures=ENS,
        labels=[RECOVERY],
        loops={0: loop('gkeep(old(p), p),', 'grem(p)')}),
    'parse_suffixed_expr': e_fn(
        ret='r', rank=20, requires=REQ, rules=ERR,
        ensures=ENS_CM + ',\n        (r is Ok || old(p).current_token is TkName) ==> ' + PROG + ' /*@C02.expr.progress*/',
        labels=['C02.expr.suffix-loop-terminates'],
        loops={0: loop('cm_live(&cm, p), p.token_index > old(p).token_index, grem(p) < grem(old(p)),', 'grem(p)')},
        proof=[dec(r'match parse_expr\(p\) \{'),
               dec(r"p\.bump\(\); // consume '\?\.'\s*(?=if let Err\(err\) = parse_args\(p\))", 'after'),
               dec(r'let m = cm\.precede\(p, LuaSyntaxKind::CallExpr\);\s*(?=if let Err\(err\) = parse_args\(p\))', 'after')]),
    'parse_name_or_special_function': e_fn(
        ret='r', rank=10, rules=[],
        requires=REQ + ',\n        old(p).current_token is TkName',
        ensures=ENS_CM + ',\n        ' + PROG + ' /*@C02.expr.progress*/',
        proof=[dec(r'if let Err\(err\) = parse_args\(p\) \{')]),
    'parse_index_struct': e_fn(
        ret='r', rank=10, requires=REQ, rules=ERR,
        ensures=ENS + ',\n        r is Ok ==> ' + PROG + ' /*@C02.expr.progress*/',
        proof=[dec(r'match parse_expr\(p\) \{')]),
    'parse_safe_index_struct': e_fn(
        ret='r', rank=10, requires=REQ, rules=ERR,
        ensures=ENS,
        proof=[dec(r'match parse_expr\(p\) \{')]),
    'parse_args': e_fn(
        ret='r', rank=25, requires=REQ, rules=ERR,
        proof=[(r'loop (?:/\*@[\w.\-]+\*/ )?\{(?=\s*match parse_expr\(p\) \{)', 'after', 'let ghost ti0 = p.token_index;'),
               dec(r'match parse_expr\(p\) \{')],
        ensures=ENS_CM + ',\n        r is Ok ==> ' + PROG + ' /*@C02.expr.progress*/',
        labels=['C02.expr.args-loop-terminates', RECOVERY], continues=['C02.expr.args-loop-terminates'],
        loops={0: loop(M_INV + ' p.token_index > old(p).token_index,', 'grem(p)'),
               1: loop(M_INV + ' p.token_index > old(p).token_index, p.token_index >= ti0,', 'grem(p)')}),
}

# ------------------------------------------------------------------------------------------------------------------------------
# extracted types / consts / helper fns
# ------------------------------------------------------------------------------------------------------------------------------
TYPES = {
    'ParseFailReason': {'src': {'file': GM, 'kind': 'enum', 'name': 'ParseFailReason'}},
    'ParseResult': {'src': {'file': GM, 'kind': 'type', 'name': 'ParseResult'}, 'rules': ['vis-pub']},
    'LuaFeatures': {'src': {'file': KF, 'kind': 'enum', 'name': 'LuaFeatures'}, 'attrs': DERIVE_KIND},
    'SpecialFunction': {'src': {'file': PC, 'kind': 'enum', 'name': 'SpecialFunction'}, 'attrs': DERIVE_KIND},
    'UnaryOperator': {'src': {'file': KO, 'kind': 'enum', 'name': 'UnaryOperator'}, 'attrs': DERIVE_KIND},
    'BinaryOperator': {'src': {'file': KO, 'kind': 'enum', 'name': 'BinaryOperator'}, 'attrs': DERIVE_KIND},
    'UNARY_PRIORITY': {'src': {'file': KO, 'kind': 'const', 'name': 'UNARY_PRIORITY'}},
    'PriorityTable': {'src': {'file': KM, 'kind': 'struct', 'name': 'PriorityTable'}},
    'PRIORITY': {'src': {'file': KO, 'kind': 'const', 'name': 'PRIORITY'}},
    # `&PRIORITY[*self as usize]`: the index is PROVED in range (24 field-less variants, 25 entries); no contract: the priorities are
    # not used by any proof (termination of the operator loop does not depend on them)
    'BinaryOperator::get_priority': {'src': {'file': KO, 'kind': 'fn', 'impl': 'BinaryOperator', 'name': 'get_priority'}, 'place': False},
    'LuaTypeUnaryOperator': {'src': {'file': KT, 'kind': 'enum', 'name': 'LuaTypeUnaryOperator'}, 'attrs': DERIVE_KIND},
    'LuaTypeBinaryOperator': {'src': {'file': KT, 'kind': 'enum', 'name': 'LuaTypeBinaryOperator'}, 'attrs': DERIVE_KIND},
    'LuaTypeTernaryOperator': {'src': {'file': KT, 'kind': 'enum', 'name': 'LuaTypeTernaryOperator'}, 'attrs': DERIVE_KIND},
    'LuaOpKind': {'src': {'file': KM, 'kind': 'enum', 'name': 'LuaOpKind'}},
    'LuaOpKind::to_unary_operator': {
        'src': {'file': KM, 'kind': 'fn', 'impl': 'LuaOpKind', 'name': 'to_unary_operator'}, 'place': False, 'ret': 'r',
        'ensures': 'kind is TkEof ==> r is OpNop'},
    'LuaOpKind::to_binary_operator': {
        'src': {'file': KM, 'kind': 'fn', 'impl': 'LuaOpKind', 'name': 'to_binary_operator'}, 'place': False, 'ret': 'r',
        'ensures': 'kind is TkEof ==> r is OpNop'},
}
SHIMS = ['shared_shims.rs', 'expr_shims.rs']
LEMMAS = None

# what the expr side needs from the fns of stat.rs / mod.rs beyond what stat_items.py says (see REQUESTS_TO_STAT.md). stat_items.py
# already gives: parse_block / expect_token / if_token_bump `requires nosoft, gfirst [, !(token is TkEof)]`, `ensures nosoft`,
# expect_token `Err ==> *final(p) == *old(p)`, `Ok ==> gprog`, if_token_bump `r ==> gprog`, `!r ==> *final(p) == *old(p)`.
CROSS_NEEDS = {}      # both requests of REQUESTS_TO_STAT.md (parse_block gkeep; if_token_bump consumes at the token) are served in stat_items.py

def _mut(name, fn, pattern, repl, expect):
    return {'name': name, 'item': 'g::' + fn, 'pattern': pattern, 'repl': repl, 'expect': expect}


BASE_PATCH = {
    # under the driver invariant the cached kind is TkEof exactly at the end of the token stream (tokens_ok: no token has kind TkEof):
    # the guard in front of every `p.bump()` of the grammar is a test of `p.current_token()`
    'LuaParser::current_token': {
        'ensures+': 'inv(self) ==> ((self.token_index < self.tokens@.len()) == !(r is TkEof)) /*@C02.driver.eof-iff-at-end*/,\n'
                    '            inv(self) ==> self.token_index < 0x7fff_ffff'},
}

MUTANTS = [
    # ---- termination of the recursion (decreases grem(old(p)), rank) ----
    _mut('ge-unary-no-bump', 'parse_sub_expr', r'p\.bump\(\);(\s*match parse_sub_expr\(p, UNARY_PRIORITY\))', r'\1', r'parse_sub_expr:.*C02\.expr\.recursion-consumed-a-token'),
    _mut('ge-paren-no-bump', 'parse_suffixed_expr', r'p\.bump\(\);(\s*p\.enter_paren\(\);\s*match parse_expr\(p\))', r'\1', r'parse_suffixed_expr:.*C02\.expr\.recursion-consumed-a-token'),
    _mut('ge-field-reparse-table', 'parse_field_with_recovery', r'LuaTokenKind::TkEof \| LuaTokenKind::TkLocal => \{', r'LuaTokenKind::TkEof | LuaTokenKind::TkLocal => { let _ = parse_table_expr(p);',
         r'parse_field_with_recovery:(could-not-prove-termination|precondition)'),
    _mut('ge-index-no-bump', 'parse_index_struct', r'(LuaTokenKind::TkLeftBracket => \{)\s*p\.bump\(\);', r'\1', r'parse_index_struct:.*C02\.expr\.recursion-consumed-a-token'),
    # ---- progress of the loops (the obligation is reported at the loop / the `continue`) ----
    _mut('ge-ternary-no-bump', 'parse_sub_expr', r"p\.bump\(\); // consume '\?'", '', r'parse_sub_expr:decreases-not-satisfied-at-continue\[C02\.expr\.binop-loop-terminates'),
    _mut('ge-recover-no-bump', 'recover_to_table_boundary', r'p\.bump\(\);', '', r'recover_to_table_boundary:decreases-not-satisfied-at-end-of-loop\[C02\.expr\.recovery-loop-terminates'),
    _mut('ge-args-continue-no-bump', 'parse_args', r'p\.bump\(\);(\s*continue;)', r'\1', r'parse_args:decreases-not-satisfied-at-continue\[C02\.expr\.args-loop-terminates'),
    _mut('ge-table-sep-no-bump', 'parse_table_expr', r'p\.bump\(\); // consume separator', '', r'parse_table_expr:decreases-not-satisfied-at-end-of-loop'),
    _mut('ge-lookahead-no-count', 'parse_table_expr', r'lookahead_count \+= 1;', '', r'parse_table_expr:decreases-not-satisfied-at-end-of-loop\[C02\.expr\.lookahead-loop-terminates'),
    _mut('ge-param-comma-no-bump', 'parse_param_list', r'(if p\.current_token\(\) == LuaTokenKind::TkComma \{)\s*p\.bump\(\);', r'\1', r'parse_param_list:decreases-not-satisfied-at-end-of-loop\[C02\.expr\.param-loop-terminates'),
    _mut('ge-suffix-call-no-progress', 'parse_args', r'(LuaTokenKind::TkString \| LuaTokenKind::TkLongString => \{\s*let m1 = p\.mark\(LuaSyntaxKind::LiteralExpr\);)\s*p\.bump\(\);', r'\1',
         r'C02\.expr\.progress'),
    # ---- a recovery loop that no longer stops at the end of the input bumps at TkEof (index panic in parse_trivia_tokens) ----
    _mut('ge-recover-no-eof-stop', 'recover_to_table_boundary', r'\s*\| LuaTokenKind::TkEof', '', r'recover_to_table_boundary:precondition-not-satisfied\{p\.bump'),
    _mut('ge-field-recovery-no-eof-stop', 'parse_field_with_recovery', r'(TkRightBrace)\s*\| LuaTokenKind::TkEof', r'\1', r'parse_field_with_recovery:precondition-not-satisfied\{p\.bump'),
    _mut('ge-param-recovery-no-eof-stop', 'parse_param_list', r'(TkRightParen)\s*\| LuaTokenKind::TkEof', r'\1', r'parse_param_list:precondition-not-satisfied\{p\.bump'),
    _mut('ge-args-recovery-no-eof-stop', 'parse_args', r'(TkRightParen)\s*\| LuaTokenKind::TkEof', r'\1', r'parse_args:precondition-not-satisfied\{p\.bump'),
    # ---- preconditions of the driver / marker API (no panic) ----
    _mut('ge-field-double-bump-unguarded', 'parse_field_with_recovery', r'if p\.peek_next_token\(\) == LuaTokenKind::TkAssign \{', 'if p.peek_next_token() != LuaTokenKind::TkAssign {',
         r'parse_field_with_recovery:precondition-not-satisfied\{p\.bump'),
    _mut('ge-table-bump-at-eof', 'parse_args', r'LuaTokenKind::TkLeftBrace => match parse_table_expr\(p\)', '_ => match parse_table_expr(p)',
         r'parse_args:precondition-not-satisfied\{_ => match parse_table_expr'),
    _mut('ge-param-list-eof-close', 'parse_short_function', r'parse_param_list\(p, LuaTokenKind::TkBitOr, LuaTokenKind::TkBitOr\)', 'parse_param_list(p, LuaTokenKind::TkBitOr, LuaTokenKind::TkEof)',
         r'parse_short_function:precondition-not-satisfied\{parse_param_list'),
    _mut('ge-extra-node-end', 'parse_param_name', r'(p\.bump\(\);\s*\}\s*LuaTokenKind::TkDots)', r'p.bump(); p.push_node_end(); p.push_node_end(); } LuaTokenKind::TkDots',
         r'parse_param_name:precondition-not-satisfied'),
    _mut('ge-precede-dead-marker', 'parse_name_or_special_function', r'let m1 = cm\.precede\(p, special_kind\);', 'let m1 = CompleteMarker { start: cm.start + 1, kind: cm.kind }.precede(p, special_kind);',
         r'parse_name_or_special_function:precondition-not-satisfied'),
    _mut('ge-set-kind-dead-marker', 'parse_table_expr', r'let mut m = p\.mark\(LuaSyntaxKind::TableEmptyExpr\);', 'let mut m = p.mark(LuaSyntaxKind::TableEmptyExpr); m.position += 1;',
         r'parse_table_expr:precondition-not-satisfied'),
    _mut('ge-special-text-at-eof', 'parse_suffixed_expr', r'LuaTokenKind::TkName => parse_name_or_special_function\(p\)\?,', 'LuaTokenKind::TkName | LuaTokenKind::TkEof => parse_name_or_special_function(p)?,',
         r'parse_suffixed_expr:precondition-not-satisfied\{.*parse_name_or_special_function'),
    _mut('ge-short-function-wrong-token', 'parse_simple_expr', r'LuaTokenKind::TkLogicalOr \| LuaTokenKind::TkBitOr(\s*if)', r'LuaTokenKind::TkLogicalOr | LuaTokenKind::TkBitOr | LuaTokenKind::TkEof\1',
         r'parse_simple_expr:precondition-not-satisfied\{parse_short_function'),
    _mut('ge-brace-count-underflow', 'parse_table_expr', r'let mut brace_count = 1;', 'let mut brace_count = i32::MIN;', r'parse_table_expr:invariant-not-satisfied-before-loop\[C02\.expr\.brace-counter-no-overflow'),
    # ---- labelled postconditions ----
    _mut('ge-result-dead-marker', 'parse_param_name', r'Ok\(m\.complete\(p\)\)\s*\}\s*$', 'let cm = m.complete(p); Ok(CompleteMarker { start: cm.start + 1, kind: cm.kind }) }',
         r'C02\.expr\.result-marker-live'),
    _mut('ge-name-no-bump', 'parse_name_or_special_function', r'p\.bump\(\);\s*let mut cm = m\.complete\(p\);', 'let mut cm = m.complete(p);', r'C02\.expr\.progress'),
    _mut('ge-short-fn-setkind-no-bump', 'parse_short_function', r'(p\.set_current_token_kind\(LuaTokenKind::TkEmptyShortParam\);)\s*p\.bump\(\);', r'\1',
         r'parse_short_function:postcondition-not-satisfied\[C02\.grammar\.no-progress-keeps-token-kind'),
    # (no mutant for the array index in BinaryOperator::get_priority: this Verus reports an out-of-range array index as "precondition not met:
    #  index in bounds for this access", which vc/verus.py does not list among the violation messages -> such a run is UNDECIDED (exit 2), not 1)
]
TRUSTED = [
    'expr.rs error REPORTING is rewritten to the no-op vx_note_error() (rules ge-drop-push-error, ge-drop-error-msg): `p.push_error(LuaParseError::'
    'syntax_error_from(&t!(..), range))` appends to `errors`, a field projected out of LuaParser; the rules check that the dropped arguments call '
    'nothing but t!, p.current_token(), p.current_token_range(). TRUSTED: t! / syntax_error_from / LuaParser::push_error do not panic and touch nothing else',
    'rewrite rules of the expr side (doc strings in expr_items.py): ge-match-guard-if-chain (guarded match on a LuaTokenKind value -> if/else-if chain in arm '
    'order, parse_simple_expr), ge-local-const (`const N: T = lit;` item statement -> `let`), ge-drop-push-error, ge-drop-error-msg',
    'ParserConfig::support(feature): result uninterpreted (sp_support); ParserConfig::get_special_function(name): total, result unconstrained '
    '(match on string literals, else HashMap::get(..).unwrap_or(..)); LuaParser::current_token_text (shim of the stat side): requires token_index < len '
    '(PROVED at the call site in parse_name_or_special_function), the str slice at a token range is trusted not to panic (lexer ranges, unit c01_reader)',
    'depth counters LuaParser::{enter_ternary,leave_ternary,inside_ternary_branch,enter_paren,leave_paren,paren_depth_exceeds_ternary_ref}: shims '
    '(shared_shims.rs; the three usize fields ternary_depth / paren_depth / ternary_paren_depth are projected out of the struct and only these methods '
    'touch them: grep). Frame: no kept field changes. NOT PROVED: `self.ternary_depth += 1` (enter_ternary) and `self.paren_depth += 1` (enter_paren) do '
    'not overflow. Argument: both counters are 0 when LuaParser::parse constructs the parser; the only three increment sites are expr.rs:45 '
    '(enter_ternary, directly after the `p.bump()` of `?`), expr.rs:606 and expr.rs:907 (enter_paren, directly after the `p.bump()` of `(`); every bump '
    'strictly increases token_index (C02.bump.progress, proved) and token_index <= tokens.len() < 2^31 (tokens_ok); so each counter is at most the number '
    'of bumps <= 2^31 - 1 < usize::MAX; leave_* are saturating_sub. The boolean results of inside_ternary_branch / paren_depth_exceeds_ternary_ref are '
    'unconstrained, so both outcomes of the `:`-suffix test in parse_suffixed_expr are covered',
    'derive(PartialEq) on the field-less enums UnaryOperator / BinaryOperator / LuaFeatures / SpecialFunction / LuaType*Operator is structural equality '
    '(Verus `Structural` marker added to the derive list; Debug and #[repr] dropped)',
    'gfirst (events[0] is a NodeStart) and nosoft (no TkContinue/TkConst token at or after the cursor: stat side, see gspec.rs) are PRECONDITIONS of the '
    'three pub fns parse_expr / parse_simple_expr / parse_closure_expr: established by parse_chunk (gfirst, proved in the base item) and by the callers '
    'in stat.rs (proved in c02_gstat / c02_grammar); the preconditions of the private fns (parse_table_expr at `{`, parse_name_or_special_function at a name, '
    'parse_short_function at name / `||` / `|`, parse_param_list with non-Eof delimiters) are proved at every call site in this unit',
]
ALLOW = []
NOT_COVERED = [
    'expr.rs: STACK DEPTH of the recursion (termination is proved, bounded stack use is not: deeply nested input overflows the stack, known finding '
    'C02 deep-nesting, replay/c02) and the "roughly linear time" part of C02 (only termination is proved; every loop consumes a token per iteration '
    'or is bounded by MAX_LOOKAHEAD = 50)',
    'expr.rs: the recursion THROUGH stat.rs/mod.rs (parse_closure_expr / parse_short_function -> parse_block -> parse_stats -> .. -> parse_expr) is checked '
    'against the decreases clauses only in the combined unit c02_grammar; in c02_gexpr the stat.rs/mod.rs fns are external (assumed contracts)',
    'expr.rs: content of the error list (which errors are reported, their ranges) and the shape of the tree beyond what ginv/gstep say '
    '(every token emitted exactly once in order, events_ok preserved, markers balanced enough for no underflow)',
]
