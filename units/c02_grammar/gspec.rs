// ---- shared specification vocabulary of the Lua-grammar units (c02_gexpr / c02_gstat / c02_grammar) -------------------------
// Hand-written SPECIFICATION only. The standard contract of every grammar fn `f(p: &mut LuaParser, ..)` is
//     requires ginv(old(p))     ensures ginv(final(p)), gstep(old(p), final(p))
// (added mechanically by units/c02_grammar/build.py); it is exactly what unit c01_parser used to ASSUME for `parse_stats`.

/// what the grammar may rely on and must re-establish: the struct invariant of the parser driver (unit c01_parser)
pub open spec fn ginv(p: &LuaParser) -> bool { inv(p) }

/// what any amount of grammar code does to the parser state: the cursor never moves backwards, the token stream keeps its
/// length and ranges (only `set_current_token_kind` writes a token, and only its kind), the configuration is untouched, events
/// only grow and `NodeStart`s stay `NodeStart`s (live markers stay valid), `mark_level` does not drop below its entry value,
/// and `l3::events_ok` (C02 / H-EV, precondition of the tree builder) is preserved.
pub open spec fn gstep(a: &LuaParser, b: &LuaParser) -> bool {
    &&& b.token_index >= a.token_index
    &&& b.tokens@.len() == a.tokens@.len()
    &&& ranges(b.tokens@) == ranges(a.tokens@)
    // (was `b.parse_config == a.parse_config`: not derivable after any marker call, because the generic marker API (P: MarkerEventContainer)
    //  frames only sp_rest(), whose `doc` component is sp_support_doc(&parse_config); doc_mode is all parse_chunk's proof uses)
    &&& doc_mode(b) == doc_mode(a)
    &&& ev_mono(a.events@, b.events@)
    &&& b.mark_level >= a.mark_level
    &&& (l3::events_ok(a.events@) ==> l3::events_ok(b.events@))
}

/// number of tokens not yet consumed: the first component of every termination measure of the grammar
/// (`decreases grem(old(p)), <rank>`; ranks: expr.rs 0..99, stat.rs 100..199, mod.rs 200..)
pub open spec fn grem(p: &LuaParser) -> nat { (p.tokens@.len() - p.token_index) as nat }

/// a live marker: its position holds a `NodeStart`
pub open spec fn m_live(m: &Marker, p: &LuaParser) -> bool {
    m.position < p.events@.len() && p.events@[m.position as int] is NodeStart
}

pub proof fn lemma_gstep_refl(a: &LuaParser)
    ensures gstep(a, a),
{
}

pub proof fn lemma_gstep_trans(a: &LuaParser, b: &LuaParser, c: &LuaParser)
    requires gstep(a, b), gstep(b, c),
    ensures gstep(a, c),
{
    assert(ranges(c.tokens@) == ranges(a.tokens@));
    assert forall|i: int| 0 <= i < a.events@.len() && (#[trigger] a.events@[i]) is NodeStart implies c.events@[i] is NodeStart by {
        assert(b.events@[i] is NodeStart);
    }
}

/// a marker that is live stays live across any grammar step
pub proof fn lemma_live_step(m: &Marker, a: &LuaParser, b: &LuaParser)
    requires m_live(m, a), gstep(a, b),
    ensures m_live(m, b),
{
}

// ---- appended by the stat side (c02_gstat) --------------------------------------------------------------------------------
/// first index >= i that does not hold a trivia token (`i` itself at or past the end): what `LuaParser::skip_trivia` computes
pub open spec fn next_nt(t: Seq<LuaTokenData>, i: int) -> int
    decreases t.len() - i
{
    if i >= t.len() { i } else if sp_trivia(t[i].kind) { next_nt(t, i + 1) } else { i }
}

/// result of `LuaParser::peek_next_token` at cursor `i`: kind of the next non-trivia token, `None` at the end of the stream
pub open spec fn sp_peek(t: Seq<LuaTokenData>, i: int) -> LuaTokenKind {
    let n = next_nt(t, i + 1);
    if 0 <= n < t.len() { t[n].kind } else { LuaTokenKind::None }
}

/// uniqueness of what the contract of `skip_trivia` describes
pub proof fn lemma_next_nt(t: Seq<LuaTokenData>, a: int, b: int)
    requires
        0 <= a <= b,
        forall|j: int| a <= j < b ==> sp_trivia(#[trigger] t[j].kind),
        b < t.len() ==> !sp_trivia(t[b].kind),
        a >= t.len() ==> b == a,
        a < t.len() ==> b <= t.len(),
    ensures
        next_nt(t, a) == b,
    decreases b - a,
{
    if a < b {
        assert(sp_trivia(t[a].kind));
        lemma_next_nt(t, a + 1, b);
    }
}

/// `next_nt` looks at the tokens from `i` on only
pub proof fn lemma_next_nt_frame(t: Seq<LuaTokenData>, u: Seq<LuaTokenData>, i: int)
    requires
        t.len() == u.len(),
        0 <= i,
        forall|j: int| i <= j < t.len() ==> #[trigger] u[j] == t[j],
    ensures
        next_nt(u, i) == next_nt(t, i),
        i <= next_nt(t, i),
        i < t.len() ==> next_nt(t, i) <= t.len(),
    decreases t.len() - i,
{
    if i < t.len() {
        assert(u[i] == t[i]);
        if sp_trivia(t[i].kind) {
            lemma_next_nt_frame(t, u, i + 1);
        }
    }
}

/// GLOBAL INVARIANT of the grammar (requires + ensures of every grammar fn): no token at or after the cursor has one of the two
/// soft-keyword kinds that `parse_stat` dispatches on without a guarantee of progress (`TkContinue`, `TkConst`). The lexer never
/// emits them; the grammar writes them with `set_current_token_kind` immediately before the `bump` that consumes the token.
pub open spec fn nosoft(p: &LuaParser) -> bool { nosoft_at(p.tokens@, p.token_index as int) }

// `soft_kind`, `no_soft_kinds`, `nosoft_at`, `tok_soft`: shared with units c01_reader / c01_compose (same text)
//@@include c02_grammar/nosoft_iface.rs

pub proof fn lemma_nosoft_mono(t: Seq<LuaTokenData>, i: int, j: int)
    requires
        nosoft_at(t, i),
        i <= j,
    ensures
        nosoft_at(t, j),
{
}

/// under the parser invariant the current token itself is not one of the two kinds
pub proof fn lemma_nosoft_cur(p: &LuaParser)
    requires ginv(p), nosoft(p),
    ensures !(p.current_token is TkContinue), !(p.current_token is TkConst),
{
    if p.token_index < p.tokens@.len() {
        assert(!tok_soft(p.tokens@, p.token_index as int));
    }
}

/// no progress => the kind of the current token is unchanged (every `set_current_token_kind` is followed by a `bump`)
pub open spec fn gkeep(a: &LuaParser, b: &LuaParser) -> bool {
    b.token_index == a.token_index ==> b.current_token == a.current_token
}

/// the variant set of `is_statement_start_token`, spelled out
pub open spec fn sp_stat_start(k: LuaTokenKind) -> bool {
    k is TkLocal || k is TkFunction || k is TkIf || k is TkFor || k is TkWhile || k is TkDo || k is TkName || k is TkReturn
        || k is TkBreak || k is TkContinue
}

/// the variant set of `block_follow`, spelled out
pub open spec fn sp_block_follow(k: LuaTokenKind) -> bool {
    k is TkElse || k is TkElseIf || k is TkEnd || k is TkEof || k is TkUntil
}

/// strict progress: at least one token consumed
pub open spec fn gprog(a: &LuaParser, b: &LuaParser) -> bool { b.token_index > a.token_index }

/// under the parser invariant, "not at the end of the token stream" is the same as "the current token is not TkEof"
pub proof fn lemma_not_eof(p: &LuaParser)
    requires ginv(p),
    ensures (p.token_index < p.tokens@.len()) == !(p.current_token is TkEof),
{
}

// ---- appended by the expr side (c02_gexpr) --------------------------------------------------------------------------------
/// the event list starts with a `NodeStart` (the `Block` marker of `parse_chunk`): `CompleteMarker::precede` on an INVALID
/// CompleteMarker (`start == 0`: result of completing an empty node, or `CompleteMarker::empty()`) rewrites `events[0]`.
/// Established by `parse_chunk` before it calls the grammar, preserved by `gstep` (`ev_mono`): a precondition of the grammar fns.
pub open spec fn gfirst(p: &LuaParser) -> bool {
    p.events@.len() > 0 && p.events@[0] is NodeStart
}

/// a CompleteMarker on which `precede` may be called: `events[start]` is a `NodeStart`
pub open spec fn cm_live(cm: &CompleteMarker, p: &LuaParser) -> bool {
    cm.start < p.events@.len() && p.events@[cm.start as int] is NodeStart
}

pub proof fn lemma_first_step(a: &LuaParser, b: &LuaParser)
    requires gfirst(a), gstep(a, b),
    ensures gfirst(b),
{
}

pub proof fn lemma_cm_live_step(cm: &CompleteMarker, a: &LuaParser, b: &LuaParser)
    requires cm_live(cm, a), gstep(a, b),
    ensures cm_live(cm, b),
{
}

/// for function bodies that `hide(tokens_ok)` (its quantifier over all tokens is expensive in long bodies): the two arithmetic facts
/// of the parser invariant that grammar code needs
pub proof fn lemma_tok_bound(p: &LuaParser)
    requires ginv(p),
    ensures p.tokens@.len() < 0x7fff_ffff, p.token_index <= p.tokens@.len(),
{
}
