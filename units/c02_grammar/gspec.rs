// ---- shared specification vocabulary of the Lua-grammar units (c02_gexpr / c02_gstat / c02_grammar) -------------------------
// Hand-written SPECIFICATION only. The standard contract of every grammar fn `f(p: &mut LuaParser, ..)` is
//     requires ginv(old(p))     ensures ginv(final(p)), gstep(old(p), final(p))
// (added mechanically by units/c02_grammar/build.py); it is exactly what unit c01_parser used to ASSUME for `parse_stats`.

/// what the grammar may rely on and must re-establish: the struct invariant of the parser driver (unit c01_parser)
pub open spec fn ginv(p: &LuaParser) -> bool { inv(p) }

/// what any amount of grammar code does to the parser state: the cursor never moves backwards, the token stream keeps its
/// length and ranges (only `set_current_token_kind` writes a token, and only its kind), the configuration is untouched, events
/// only grow and `NodeStart`s stay `NodeStart`s (live markers stay valid), `mark_level` does not drop below its entry value,
/// and `l3::events_ok` (C02 / H-EV, precondition of the tree builder) is preserved.
pub open spec fn gstep(a: &LuaParser, b: &LuaParser) -> bool {
    &&& b.token_index >= a.token_index
    &&& b.tokens@.len() == a.tokens@.len()
    &&& ranges(b.tokens@) == ranges(a.tokens@)
    &&& b.parse_config == a.parse_config
    &&& ev_mono(a.events@, b.events@)
    &&& b.mark_level >= a.mark_level
    &&& (l3::events_ok(a.events@) ==> l3::events_ok(b.events@))
}

/// number of tokens not yet consumed: the first component of every termination measure of the grammar
/// (`decreases grem(old(p)), <rank>`; ranks: expr.rs 0..99, stat.rs 100..199, mod.rs 200..)
pub open spec fn grem(p: &LuaParser) -> nat { (p.tokens@.len() - p.token_index) as nat }

/// a live marker: its position holds a `NodeStart`
pub open spec fn m_live(m: &Marker, p: &LuaParser) -> bool {
    m.position < p.events@.len() && p.events@[m.position as int] is NodeStart
}

pub proof fn lemma_gstep_refl(a: &LuaParser)
    ensures gstep(a, a),
{
}

pub proof fn lemma_gstep_trans(a: &LuaParser, b: &LuaParser, c: &LuaParser)
    requires gstep(a, b), gstep(b, c),
    ensures gstep(a, c),
{
    assert(ranges(c.tokens@) == ranges(a.tokens@));
    assert forall|i: int| 0 <= i < a.events@.len() && (#[trigger] a.events@[i]) is NodeStart implies c.events@[i] is NodeStart by {
        assert(b.events@[i] is NodeStart);
    }
}

/// a marker that is live stays live across any grammar step
pub proof fn lemma_live_step(m: &Marker, a: &LuaParser, b: &LuaParser)
    requires m_live(m, a), gstep(a, b),
    ensures m_live(m, b),
{
}
