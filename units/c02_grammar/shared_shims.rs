// ---- shared hand-written shims of the Lua-grammar units (c02_gexpr / c02_gstat / c02_grammar): SPECIFICATION only ----------------
// (created by the expr side; both sides list this file in SHIMS, build.py includes it once)

/// Target of the error-report rewrite rules (`ge-drop-push-error`, `gs-...`): `p.push_error(LuaParseError::syntax_error_from(&t!(..), range))`
/// only appends to `errors`, a field projected out of `LuaParser` (no contract mentions it); the message/range arguments are pure
/// reads (`t!`, `p.current_token()`, `p.current_token_range()`, locals). What is TRUSTED: `t!`, `syntax_error_from` and
/// `LuaParser::push_error` (iterator chain over `errors` + `Vec::push`) do not panic.
pub fn vx_note_error() {}

/// `ParserConfig::support(feature)` (= `self.lexer_config.support(symbol)`, a bit test on a u64 set): result uninterpreted
pub uninterp spec fn sp_support(c: &ParserConfig, f: LuaFeatures) -> bool;

impl<'cache> ParserConfig<'cache> {
    #[verifier::external_body]
    pub fn support(&self, symbol: LuaFeatures) -> (r: bool)
        ensures r == sp_support(self, symbol)
    { unimplemented!() }

    /// match on five string literals, else `HashMap::get(name).unwrap_or(&SpecialFunction::None)`: total, result unconstrained
    #[verifier::external_body]
    pub fn get_special_function(&self, name: &str) -> (r: SpecialFunction)
    { unimplemented!() }
}

/// The ternary / parenthesis depth counters of `LuaParser` (`ternary_depth`, `paren_depth`, `ternary_paren_depth`: fields projected out
/// of the struct; only these six methods touch them). Frame: none of the kept fields changes. `enter_*` are `+= 1` on a usize that
/// starts at 0 and is incremented at most once per consumed token (each call site follows a `bump`), `leave_*` are `saturating_sub(1)`:
/// the absence of overflow in `enter_*` is TRUSTED on that argument (tokens.len() < 2^31), not proved; the boolean results are unconstrained.
impl<'a> LuaParser<'a> {
    #[verifier::external_body]
    pub fn enter_ternary(&mut self)
        ensures *final(self) == *old(self)
    { unimplemented!() }

    #[verifier::external_body]
    pub fn leave_ternary(&mut self)
        ensures *final(self) == *old(self)
    { unimplemented!() }

    #[verifier::external_body]
    pub fn inside_ternary_branch(&self) -> (r: bool)
    { unimplemented!() }

    #[verifier::external_body]
    pub fn enter_paren(&mut self)
        ensures *final(self) == *old(self)
    { unimplemented!() }

    #[verifier::external_body]
    pub fn leave_paren(&mut self)
        ensures *final(self) == *old(self)
    { unimplemented!() }

    #[verifier::external_body]
    pub fn paren_depth_exceeds_ternary_ref(&self) -> (r: bool)
    { unimplemented!() }
}
