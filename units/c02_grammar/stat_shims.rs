// ---- hand-written shims of the stat side (c02_gstat): SPECIFICATION only; included in all three grammar units ------------------

impl<'a> LuaParser<'a> {
    /// `LuaParser::current_token_text` = `&self.text[range.start_offset..range.end_offset()]` with `range = &self.tokens[self.token_index].range`:
    /// `text` is a field projected out of the struct, so the fn is shimmed. The index `self.tokens[self.token_index]` panics at the end
    /// of the token stream: that is the precondition. TRUSTED: the str slice does not panic (token ranges lie inside the text on char
    /// boundaries: established by the lexer, units c01_reader). Result unconstrained.
    #[verifier::external_body]
    pub fn current_token_text(&self) -> (r: &str)
        requires
            self.token_index < self.tokens@.len(),
    { unimplemented!() }
}

/// target of rule `gs-level-ge`: `p.parse_config.level >= LuaLanguageLevel::Lua55` (derived `PartialOrd` on a field-less enum, a field
/// read of the opaque `ParserConfig`): total, result unconstrained
#[verifier::external_body]
pub fn vx_level_ge_lua55(c: &ParserConfig) -> bool { unimplemented!() }

/// `<[T]>::contains` (std: "Returns true if the slice contains an element with the given value"): total; result unconstrained here
pub assume_specification<T: PartialEq>[ <[T]>::contains ](s: &[T], x: &T) -> bool;

impl LuaTokenKind {
    //@@ LuaTokenKind::is_compound_assign_op
}
