// ---- interface "no soft-keyword token kinds" (C02): shared, SAME TEXT, by unit c01_reader (the lexer establishes it), the grammar units
// (units/c02_grammar/gspec.rs: precondition `nosoft` of parse_chunk and global invariant of the grammar) and unit c01_compose (the link).
/// the two token kinds the lexer must never produce: `parse_stat` dispatches on them (`TkContinue => try_parse_continue`,
/// `TkConst => try_parse_const`) without a guarantee of progress; the grammar itself writes them with `set_current_token_kind`
/// immediately before the `bump` that consumes the token
pub open spec fn soft_kind(k: LuaTokenKind) -> bool { k is TkContinue || k is TkConst }

/// what `LuaLexer::tokenize` ensures of its result (unit c01_reader, label C02.lexer.no-soft-keyword-kinds)
pub open spec fn no_soft_kinds(toks: Seq<LuaTokenData>) -> bool {
    forall|i: int| 0 <= i < toks.len() ==> !soft_kind((#[trigger] toks[i]).kind)
}

/// what the grammar requires from position `i` on (`nosoft(p) == nosoft_at(p.tokens@, p.token_index)`).
/// (the quantifier is triggered by the dedicated predicate `tok_soft` only, so it is not instantiated for every `tokens@[j]` term of a
/// long function body; `LuaParser::set_current_token_kind` ensures `tok_soft` is unchanged at every other position — BASE_PATCH —,
/// `bump` keeps `tokens@`, so preservation of `nosoft` needs no proof hints)
pub open spec fn nosoft_at(t: Seq<LuaTokenData>, i: int) -> bool {
    forall|j: int| i <= j < t.len() ==> !#[trigger] tok_soft(t, j)
}

pub open spec fn tok_soft(t: Seq<LuaTokenData>, j: int) -> bool { t[j].kind is TkContinue || t[j].kind is TkConst }
