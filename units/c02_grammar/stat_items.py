"""contract overlay for the fns of grammar/lua/stat.rs and grammar/lua/mod.rs (except parse_chunk) — see build.py for the format.
Owned by the 'stat' side: the other side reads the requires/ensures written here as ASSUMED contracts."""
import re
from vc import rules as R
from vc import rustlex as L
from vc.extract import Undecided

GM = 'crates/emmylua_parser/src/grammar/mod.rs'
TKF = 'crates/emmylua_parser/src/kind/lua_token_kind.rs'
LF = 'crates/emmylua_parser/src/kind/lua_features.rs'
PCF = 'crates/emmylua_parser/src/parser/parser_config.rs'


# =============================================================================================================================
# unit-local rewrite rules (all prefixed gs-)
# =============================================================================================================================
def _strip_t_macros(s):
    """remove every `t!( ... )` group (balanced) from s; returns (rest, number removed)"""
    n = 0
    while True:
        m = re.search(r'\bt!\s*\(', s)
        if not m: return s, n
        depth, j = 1, m.end()
        toks = [t for t in L.tokens(s[m.end():])]
        end = None
        for t in toks:
            tx = s[m.end() + t[1]:m.end() + t[2]]
            if t[0] == 'punct':
                if tx == '(': depth += 1
                elif tx == ')':
                    depth -= 1
                    if depth == 0:
                        end = m.end() + t[2]; break
        if end is None: raise Undecided('gs: unbalanced t!(..)')
        s = s[:m.start()] + s[end:]
        n += 1


def _pure_msg(body):
    """a message expression: `t!(..)` or `{ t!(..) }` (the i18n macro; its arguments are reads of locals / p.current_token() / the level field)"""
    b = body.strip()
    if b.startswith('{') and b.endswith('}'): b = b[1:-1].strip()
    rest, n = _strip_t_macros(b)
    return n == 1 and rest.strip() == ''


@R.rule('gs-drop-error-report')
def gs_drop_error_report(text, **_):
    """Error REPORTING only: every statement `p.push_error(LuaParseError::syntax_error_from(MSG, RANGE));` (and the one
    `p.errors.push(LuaParseError::syntax_error_from(MSG, RANGE));` of parse_attrib) becomes `vx_note_error();`. Accepted only if MSG is
    `&t!(..)` or `&error_msg` and RANGE is `p.current_token_range()` (a pure read, total: proved in c01_parser without precondition) or a
    local variable. `errors` is a field projected out of LuaParser (no contract mentions it); `push_error` / `Vec::push` touch nothing else.
    What is removed: the construction of the i18n message (`t!`: reads of locals, `p.current_token()`, `p.parse_config.level`), the call of
    `syntax_error_from` and the push. TRUSTED: these do not panic."""
    n = 0
    while True:
        m = re.search(r'\bp\s*\.\s*(?:push_error|errors\s*\.\s*push)\s*\(', text)
        if not m: break
        toks = L.code_tokens(text)
        oi = next(i for i, t in enumerate(toks) if t[2] == m.end())
        ci = L.match_close(text, toks, oi)
        if L.tok_text(text, toks[ci + 1]) != ';':
            raise Undecided('gs-drop-error-report: push_error is not a statement')
        arg = text[toks[oi][2]:toks[ci][1]].strip()
        ma = re.match(r'LuaParseError::syntax_error_from\s*\((.*)\)\s*$', arg, flags=re.S)
        if not ma: raise Undecided('gs-drop-error-report: unexpected argument: ' + arg[:60])
        rest, _k = _strip_t_macros(ma.group(1))
        if not re.match(r'^\s*&\s*(error_msg)?\s*,\s*(p\s*\.\s*current_token_range\s*\(\s*\)|[a-z_]+)\s*,?\s*$', rest, flags=re.S):
            raise Undecided('gs-drop-error-report: arguments are not (message, pure range): ' + rest[:80])
        text = text[:m.start()] + 'vx_note_error()' + text[toks[ci][2]:]
        n += 1
    return text, n


LAZY_FNS = ('push_expr_error_lazy', 'expect_keyword_with_recovery', 'expect_end_keyword')


@R.rule('gs-drop-msg-closure-arg')
def gs_drop_msg_closure_arg(text, **_):
    """call sites of push_expr_error_lazy / expect_keyword_with_recovery / expect_end_keyword: the last argument, a closure `|| t!(..)` /
    `|| { t!(..) }` that only BUILDS the i18n error message (called once by the callee to report the error; captures are reads of
    locals), is dropped together with the callee's parameter (rule gs-drop-msg-closure-param)."""
    n = 0
    pos = 0
    while True:
        m = re.compile(r'\b(%s)\s*\(' % '|'.join(LAZY_FNS)).search(text, pos)
        if not m: break
        toks = L.code_tokens(text)
        oi = next(i for i, t in enumerate(toks) if t[2] == m.end())
        if oi >= 2 and L.tok_text(text, toks[oi - 2]) == 'fn':
            pos = m.end(); continue            # the definition itself
        ci = L.match_close(text, toks, oi)
        # top-level commas
        k, depth, commas = oi + 1, 0, []
        while k < ci:
            tx = L.tok_text(text, toks[k])
            if tx in ('(', '[', '{'):
                k = L.match_close(text, toks, k) + 1; continue
            if tx == ',': commas.append(k)
            k += 1
        if commas and all(toks[j][0] in ('ws',) for j in range(commas[-1] + 1, ci)):
            commas_eff = commas[:-1]; last_end = toks[commas[-1]][1]       # trailing comma
        else:
            commas_eff = commas; last_end = toks[ci][1]
        if not commas_eff: raise Undecided('gs-drop-msg-closure-arg: call without closure argument')
        lc = commas_eff[-1]
        arg = text[toks[lc][2]:last_end].strip()
        if not arg.startswith('||'):
            pos = m.end(); continue            # already rewritten
        if not _pure_msg(arg[2:]):
            raise Undecided('gs-drop-msg-closure-arg: closure is not a pure message: ' + arg[:80])
        text = text[:toks[lc][1]] + text[toks[ci][1]:]
        n += 1
        pos = m.end()
    return text, n


@R.rule('gs-drop-msg-closure-param')
def gs_drop_msg_closure_param(text, **_):
    """definitions of push_expr_error_lazy / expect_keyword_with_recovery / expect_end_keyword: the generic parameter
    `F: FnOnce() -> std::borrow::Cow<'static, str>`, the parameter `error_msg_fn: F` and the statement `let error_msg = error_msg_fn();`
    are removed (the closure is called exactly once, only to build the message handed to push_error, which rule gs-drop-error-report
    turns into vx_note_error()). TRUSTED: the message closures (`|| t!(..)`) do not panic."""
    n_total = 0
    for pat in (r'<F>', r',?\s*error_msg_fn: F,?(?=\s*\))', r'where\s+F: FnOnce\(\) -> std::borrow::Cow<\'static, str>,',
                r'let error_msg = error_msg_fn\(\);'):
        text, k = re.subn(pat, '', text, count=1)
        if k != 1: raise Undecided('gs-drop-msg-closure-param: /%s/ not found' % pat)
        n_total += 1
    return text, n_total


@R.rule('gs-map-err-question')
def gs_map_err_question(text, **_):
    """`parse_expr(p).map_err(|_| B)?`  ->  `(match parse_expr(p) { Ok(vx_v) => vx_v, Err(_) => { return Err(B); } })`
    (std: Result::map_err applies the closure to the Err value and leaves Ok untouched; `?` returns `Err(From::from(e))`, and From is the
    identity because B has the fn's error type). The closure ignores its argument."""
    n = 0
    while True:
        m = re.search(r'parse_expr\(p\)\s*\.\s*map_err\s*\(\s*\|_\|', text)
        if not m: break
        toks = L.code_tokens(text)
        # the `(` of map_err
        oi = next(i for i, t in enumerate(toks) if L.tok_text(text, t) == '(' and i >= 1 and L.tok_text(text, toks[i - 1]) == 'map_err' and t[1] > m.start())
        ci = L.match_close(text, toks, oi)
        if L.tok_text(text, toks[ci + 1]) != '?':
            raise Undecided('gs-map-err-question: map_err not followed by ?')
        body = text[m.end():toks[ci][1]].strip()
        new = '(match parse_expr(p) { Ok(vx_v) => vx_v, Err(_) => { return Err(%s); } })' % body
        text = text[:m.start()] + new + text[toks[ci + 1][2]:]
        n += 1
    return text, n


@R.rule('gs-match-guard-if-chain')
def gs_match_guard_if_chain(text, scrutinee='keyword', **_):
    """`match X { P1 if G1 => B1, P2 if G2 => B2, .., _ => Bn }` with X a local variable, every Pi a string literal (no binding) and an
    unguarded final `_` arm  ->  `if matches!(X, P1) && (G1) { B1 } else if matches!(X, P2) && (G2) { B2 } .. else { Bn }`.
    Arms are tried in order, a guard is evaluated only when its pattern matches (`&&` short-circuits), literal patterns have no effect:
    the reference semantics of `match` with guards. (Needed because this Verus version loses the final value of a `&mut` parameter across a
    guarded match: probe in units/c02_grammar/REQUESTS_TO_EXPR.md.)"""
    m = re.search(r'\bmatch\s+%s\s*\{' % re.escape(scrutinee), text)
    if not m: return text, 0
    toks = L.code_tokens(text)
    ob = next(i for i, t in enumerate(toks) if t[2] == m.end())
    cb = L.match_close(text, toks, ob)
    arms, k = [], ob + 1
    while k < cb:
        ps = k
        while L.tok_text(text, toks[k]) not in ('if', '=') or (L.tok_text(text, toks[k]) == '=' and L.tok_text(text, toks[k + 1]) != '>'):
            k += 1
        pat = text[toks[ps][1]:toks[k - 1][2]]
        guard = None
        if L.tok_text(text, toks[k]) == 'if':
            gs_ = k + 1
            while not (L.tok_text(text, toks[k]) == '=' and L.tok_text(text, toks[k + 1]) == '>'):
                k = L.match_close(text, toks, k) + 1 if L.tok_text(text, toks[k]) in ('(', '[', '{') else k + 1
            guard = text[toks[gs_][1]:toks[k - 1][2]]
        k += 2                                   # `=>`
        if L.tok_text(text, toks[k]) == '{':
            e = L.match_close(text, toks, k)
            body = text[toks[k][1]:toks[e][2]]
            k = e + 1
        else:
            bs = k
            while k < cb and L.tok_text(text, toks[k]) != ',':
                k = L.match_close(text, toks, k) + 1 if L.tok_text(text, toks[k]) in ('(', '[', '{') else k + 1
            body = '{ ' + text[toks[bs][1]:toks[k - 1][2]] + ' }'
        if k < cb and L.tok_text(text, toks[k]) == ',': k += 1
        arms.append((pat.strip(), guard, body))
    if not arms or arms[-1][0] != '_' or arms[-1][1] is not None:
        raise Undecided('gs-match-guard-if-chain: last arm is not an unguarded `_`')
    parts = []
    for pat, guard, body in arms[:-1]:
        if not re.match(r'^"[^"\\]*"$', pat) or guard is None:
            raise Undecided('gs-match-guard-if-chain: arm is not `"literal" if guard`: ' + pat)
        parts.append('if matches!(%s, %s) && (%s) %s' % (scrutinee, pat, guard, body))
    new = ' else '.join(parts) + ' else ' + arms[-1][2]
    return text[:m.start()] + new + text[toks[cb][2]:], 1


OPT = {'optional': True}
STD_RULES = [('gs-map-err-question', OPT), ('gs-drop-msg-closure-arg', OPT), ('gs-drop-error-report', OPT), ('gs-level-ge', OPT),
             ('gs-crate-path', OPT)]

EXTRA_RULES = [
    ('gs-level-ge', r'p\.parse_config\.level >= LuaLanguageLevel::Lua55', 'vx_level_ge_lua55(&p.parse_config)',
     '`p.parse_config.level >= LuaLanguageLevel::Lua55` (field read of the opaque ParserConfig + derived PartialOrd of a field-less enum: pure, '
     'total) -> `vx_level_ge_lua55(&p.parse_config)`, an external_body fn with unconstrained result'),
    ('gs-crate-path', r'crate::text::SourceRange', 'SourceRange', 'path only: `crate::text::SourceRange` is the extracted `SourceRange` of this file'),
]

# =============================================================================================================================
# contract vocabulary
# =============================================================================================================================
# body_first of a grammar fn: the quantifiers of events_ok / tokens_ok / ev_mono stay out of the query (see stat_lemmas.rs)
HIDE = ('hide(l3::events_ok); hide(tokens_ok); hide(ev_mono);\n'
        'proof { lemma_tok_bound(p); lemma_from_refl(p.events@); assert(live_at(p.events@, 0)); }\n'
        'broadcast use gs_chain;')
HIDE_Q = HIDE
HIDE_PLAIN = 'hide(l3::events_ok);'        # bodies that keep the quantifiers (short ones; parse_func_name: two identical precede statements)
NS_REQ = 'nosoft(old(p)), gfirst(old(p))'
NS_ENS = 'nosoft(final(p))'
NOT_EOF = '!(old(p).current_token is TkEof)'
PROG = 'gprog(old(p), final(p)) /*@C02.stat.progress*/'
SAME = '*final(p) == *old(p)'
LOOP_STD = 'ginv(p), nosoft(p), gfirst(p), gstep(old(p), p), live_at(p.events@, 0), ev_from(old(p).events@, p.events@)'


def mark_live(var='m', kind=r'\w+'):
    """after `let [mut] m = p.mark(K);`: the marker is live (gives Z3 the term `p.events@[m.position]` that ev_mono propagates)"""
    return (r'let (?:mut )?%s = p\.mark\(LuaSyntaxKind::%s\);' % (var, kind), 'after',
            'proof { assert(live_at(p.events@, %s.position as int)); }' % var)


def loop_bu(header_regex):
    """loop bodies are verified in isolation: the broadcast group has to be brought into scope again at the top of the body"""
    return (header_regex + r'\s*\{', 'after', 'broadcast use gs_chain;')


W_COMMA = r'while p\.current_token\(\) == LuaTokenKind::TkComma'


def g(rank, requires=None, ensures=None, ret=None, loops=None, proof=None, rules=None, body_first=HIDE, attrs=None, ns=True, **kw):
    d = {'rank': rank, 'rules': (rules or []) + STD_RULES}
    req = ([NS_REQ] if ns else []) + ([requires] if requires else [])
    ens = ([NS_ENS] if ns else []) + ([ensures] if ensures else [])
    if req: d['requires'] = ',\n        '.join(req)
    if ens: d['ensures'] = ',\n        '.join(ens)
    if ret: d['ret'] = ret
    if loops: d['loops'] = loops
    if proof: d['proof'] = proof
    if body_first: d['body_first'] = body_first
    if attrs: d['attrs'] = attrs
    d.update(kw)
    return d


def bump_first(rank, extra_ens=None, **kw):
    """a statement parser that starts with `let m = p.mark(K); .. p.bump();`: called at a token that is not TkEof, always consumes"""
    proof = [mark_live()] + list(kw.pop('proof', []))
    ens = PROG + ((',\n        ' + extra_ens) if extra_ens else '')
    return g(rank, requires=NOT_EOF, ensures=ens, ret='r', proof=proof, **kw)


def wloop(extra='', dec='grem(p)'):
    return 'invariant\n    %s,%s\ndecreases %s' % (LOOP_STD, ('\n    ' + extra.strip().rstrip(',') + ',') if extra else '', dec)


M_INV = 'live_at(p.events@, m.position as int), p.mark_level > old(p).mark_level, gprog(old(p), p)'

ITEMS = {
    # ---------------------------------------------------------------------------------------------------------------- mod.rs
    'parse_block': g(210, ret='r', ensures='r is Ok, gkeep(old(p), final(p))', proof=[mark_live()]),
    'expect_token': g(
        201, ret='r', requires='!(token is TkEof)',
        ensures="""r is Ok ==> old(p).current_token == token && gprog(old(p), final(p))
                   && (!sp_invalid(token) ==> final(p).events@.len() > old(p).events@.len()),
        r is Err ==> """ + SAME),
    'if_token_bump': g(
        202, ret='r', requires='!(token is TkEof)',
        ensures="""r == (old(p).current_token == token),
        r ==> gprog(old(p), final(p)),
        !r ==> """ + SAME),
    'is_statement_start_token': {'ret': 'r', 'ensures': 'r == sp_stat_start(token) /*@C02.stat.start-set*/'},
    # --------------------------------------------------------------------------------------------------------------- stat.rs
    'push_expr_error_lazy': g(101, ensures=SAME, rules=['gs-drop-msg-closure-param']),
    'expect_keyword_with_recovery': g(
        102, ret='r', requires='!(expected is TkEof)', rules=['gs-drop-msg-closure-param'],
        ensures="""old(p).current_token == expected ==> r && gprog(old(p), final(p)),
        old(p).current_token != expected ==> """ + SAME + """ && r == sp_stat_start(old(p).current_token)"""),
    'expect_end_keyword': g(104, rules=['gs-drop-msg-closure-param']),
    'recover_to_block_end': g(
        103, body_first=HIDE_PLAIN,
        loops={0: wloop('0 <= depth <= 1 + (p.token_index - old(p).token_index)', 'grem(p), depth') + ' /*@C02.stat.recover-terminates*/'}),
    'recover_to_keywords': g(105, loops={0: wloop() + ' /*@C02.stat.recover-terminates*/'},
                             proof=[loop_bu(r'while p\.current_token\(\) != LuaTokenKind::TkEof')]),
    'parse_expr_list_impl': g(106, ret='r', loops={0: wloop()}, proof=[loop_bu(W_COMMA)]),
    'parse_variable_name_list': g(119, ret='r', loops={0: wloop()}, proof=[loop_bu(W_COMMA)]),
    'parse_global_name_list': g(120, ret='r', loops={0: wloop()}, proof=[loop_bu(W_COMMA)]),
    'parse_stats': g(
        190, attrs='#[verifier::spinoff_prover]', ensures='gkeep(old(p), final(p))',
        loops={
            0: wloop('gkeep(old(p), p)') + ' /*@C02.stats.terminates*/',
            1: """invariant
    """ + LOOP_STD + """,
    p.token_index == ti1, p.current_token == c1, ti1 > ti0 || !sp_stat_start(c1), gkeep(old(p), p),
    old(p).mark_level <= level <= current_level, p.mark_level + VERUS_ghost_iter.index() == current_level,
    VERUS_ghost_iter.seq().len() == current_level - level,""",
            2: """invariant
    """ + LOOP_STD + """, old(p).mark_level <= level <= p.mark_level,
    p.token_index >= ti0, can_continue ==> p.token_index > ti0, gkeep(old(p), p),
    p.token_index > ti0 || !sp_stat_start(p.current_token),
decreases grem(p) /*@C02.stats.recovery-terminates*/""",
        },
        proof=[
            (r'let level = p\.get_mark_level\(\);', 'after', 'let ghost ti0 = p.token_index;'),
            (r'let current_level = p\.get_mark_level\(\);', 'after', 'let ghost ti1 = p.token_index; let ghost c1 = p.current_token;'),
            loop_bu(r'while !block_follow\(p\)'), loop_bu(r'for _ in 0\.\.\([^{]*\)'),
            loop_bu(r'while p\.current_token\(\) != LuaTokenKind::TkEof'),
        ]),
    'block_follow': {'ret': 'r', 'ensures': 'r == sp_block_follow(p.current_token) /*@C02.stat.block-follow-set*/'},
    'parse_stat': g(
        180, ret='r', body_first=HIDE + ' proof { lemma_nosoft_cur(p); }',
        ensures="""r is Ok ==> gprog(old(p), final(p)) /*@C02.stat.progress*/,
        r is Err && !gprog(old(p), final(p)) ==> !sp_stat_start(final(p).current_token) /*@C02.stat.err-progress-or-not-a-statement-start*/,
        gkeep(old(p), final(p))"""),
    'parse_if': bump_first(140, attrs='#[verifier::spinoff_prover]', loops={0: wloop(M_INV)}, proof=[loop_bu(r'while p\.current_token\(\) == LuaTokenKind::TkElseIf')]),
    'parse_elseif_clause': bump_first(132),
    'parse_else_clause': bump_first(131),
    'parse_while': bump_first(139),
    'parse_do': bump_first(138),
    'parse_for': bump_first(137, attrs='#[verifier::spinoff_prover]', loops={0: wloop(M_INV)}, proof=[loop_bu(W_COMMA)]),
    'parse_function': bump_first(136),
    'parse_func_name': g(
        126, ret='r', body_first=HIDE_PLAIN,
        proof=[(r'let m = p\.mark\(LuaSyntaxKind::NameExpr\);', 'after', 'proof { assert(m_live(&m, p)); }')],
        loops={0: wloop('cm.start < p.events@.len(), p.events@[cm.start as int] is NodeStart')}),
    'parse_local': bump_first(135, attrs='#[verifier::spinoff_prover]'),
    'try_parse_const': g(
        149, attrs='#[verifier::spinoff_prover]', ret='r', requires=NOT_EOF, proof=[mark_live()],
        ensures="""r is Err ==> gprog(old(p), final(p)),
        r matches Ok(cm) ==> gprog(old(p), final(p)) || cm.kind is None,
        gkeep(old(p), final(p))"""),
    'parse_local_name': g(111, ret='r', proof=[mark_live()]),
    'parse_attrib': bump_first(110),
    'parse_return': bump_first(134),
    'parse_break': bump_first(130),
    'try_parse_continue': g(
        148, ret='r', requires=NOT_EOF, proof=[mark_live()],
        ensures="""r is Ok,
        r matches Ok(cm) ==> gprog(old(p), final(p)) || cm.kind is None,
        gkeep(old(p), final(p))"""),
    'parse_repeat': bump_first(133),
    'parse_goto': bump_first(129),
    'parse_empty_stat': bump_first(128),
    'try_parse_global_stat': g(
        150, attrs='#[verifier::spinoff_prover]', ret='r', requires=NOT_EOF, proof=[mark_live(), mark_live('m2')],
        ensures="""r is Err ==> gprog(old(p), final(p)),
        r matches Ok(cm) ==> gprog(old(p), final(p)) || cm.kind is None,
        gkeep(old(p), final(p))"""),
    'try_soft_keyword_stat': g(
        160, ret='r', requires=NOT_EOF, rules=['gs-match-guard-if-chain'],
        ensures="""r is Err ==> gprog(old(p), final(p)),
        r matches Ok(cm) ==> gprog(old(p), final(p)) || cm.kind is None,
        gkeep(old(p), final(p))"""),
    'parse_assign_or_expr_or_soft_keyword_stat': g(
        170, attrs='#[verifier::spinoff_prover]', ret='r', proof=[mark_live(), loop_bu(W_COMMA)],
        loops={0: wloop(M_INV)},
        ensures="""r is Ok ==> gprog(old(p), final(p)) /*@C02.stat.progress*/,
        old(p).current_token is TkName ==> gprog(old(p), final(p)) /*@C02.stat.progress*/,
        gkeep(old(p), final(p))"""),
    'is_compound_assignment_start': {'ret': 'r', 'ensures': 'r ==> !(p.current_token is TkEof)'},
    'parse_label_stat': bump_first(127),
}

# =============================================================================================================================
# additions to the base unit's items (proved in every grammar unit)
# =============================================================================================================================
BASE_PATCH = {
    'LuaParser::peek_next_token': {
        'ensures+': 'r == sp_peek(self.tokens@, self.token_index as int) /*@C02.peek.spec*/',
        'proof+': [(r'self\.skip_trivia\(&mut next_index\);', 'after',
                    'proof { lemma_next_nt(self.tokens@, self.token_index + 1, next_index as int); }')],
    },
    'LuaParser::bump': {
        'ensures+': """!(sp_peek(old(self).tokens@, old(self).token_index as int) is None)
                ==> final(self).current_token == sp_peek(old(self).tokens@, old(self).token_index as int) /*@C02.bump.lands-on-peeked-token*/,
            !sp_invalid(old(self).current_token) ==> final(self).events@.len() > old(self).events@.len() /*@C02.bump.emits-an-event*/""",
        'proof+': [(r'self\.skip_trivia\(&mut next_index\);', 'after',
                    'proof { lemma_next_nt(self.tokens@, old(self).token_index + 1, next_index as int); }')],
    },
    'LuaParser::set_current_token_kind': {
        'ensures+': """forall|j: int| 0 <= j < old(self).tokens@.len() && j != old(self).token_index ==> #[trigger] final(self).tokens@[j] == old(self).tokens@[j],
            forall|j: int| 0 <= j < old(self).tokens@.len() && j != old(self).token_index ==> #[trigger] tok_soft(final(self).tokens@, j) == tok_soft(old(self).tokens@, j),
            old(self).token_index < old(self).tokens@.len() ==> final(self).current_token == kind && final(self).tokens@[old(self).token_index as int].kind == kind,
            sp_peek(final(self).tokens@, final(self).token_index as int) == sp_peek(old(self).tokens@, old(self).token_index as int) /*@C02.set-kind.peek-unchanged*/""",
        'proof+': [(r'self\.current_token = kind;', 'after',
                    'proof { lemma_next_nt_frame(old(self).tokens@, self.tokens@, self.token_index + 1); }')],
    },
    'parse_chunk': {
        'requires+': 'nosoft(old(p))',
        'loop_invariants+': {0: 'nosoft(p)'},
    },
}

# clauses needed from expr.rs fns that are not (yet) in expr_items.py — see REQUESTS_TO_EXPR.md (all served at the moment)
CROSS_NEEDS = {}

LEMMAS = 'stat_lemmas.rs'
TYPES = {
    'ParseFailReason': {'src': {'file': GM, 'kind': 'enum', 'name': 'ParseFailReason'}},
    'ParseResult': {'src': {'file': GM, 'kind': 'type', 'name': 'ParseResult'}},
    'LuaFeatures': {'src': {'file': LF, 'kind': 'enum', 'name': 'LuaFeatures'}, 'attrs': '#[derive(Clone, Copy)]'},
    'SpecialFunction': {'src': {'file': PCF, 'kind': 'enum', 'name': 'SpecialFunction'}, 'attrs': '#[derive(Clone, Copy, PartialEq, Eq, Structural)]'},
    'LuaTokenKind::is_compound_assign_op': {
        'src': {'file': TKF, 'kind': 'fn', 'impl': 'LuaTokenKind', 'name': 'is_compound_assign_op'}, 'place': False,
        'ret': 'r', 'ensures': 'r ==> !(self is TkEof) && !(self is None)'},
}
SHIMS = ['shared_shims.rs', 'stat_shims.rs']
MUTANTS = [
    # --- progress / termination -------------------------------------------------------------------------------------------------
    {'name': 'gs-stats-recovery-no-bump', 'item': 'g::parse_stats',
     'pattern': r'(break;\s*\}\s*)p\.bump\(\);', 'repl': r'\1',
     'expect': r'g::parse_stats:decreases-not-satisfied'},      # (C02.stats.recovery-terminates: reported at the loop header)
    {'name': 'gs-stats-continue-anywhere', 'item': 'g::parse_stats',
     'pattern': r'if is_statement_start_token\(p\.current_token\(\)\) \{', 'repl': 'if true {',
     'expect': r'g::parse_stats:(loop-invariant-not-satisfied|decreases-not-satisfied)'},      # (C02.stats.terminates)
    {'name': 'gs-recover-keywords-no-bump', 'item': 'g::recover_to_keywords',
     'pattern': r'p\.bump\(\);', 'repl': '',
     'expect': r'g::recover_to_keywords:decreases-not-satisfied'},      # (C02.stat.recover-terminates)
    {'name': 'gs-recover-block-end-keeps-depth', 'item': 'g::recover_to_block_end',
     'pattern': r'(LuaTokenKind::TkEnd => \{\s*)depth -= 1;', 'repl': r'\1',
     'expect': r'g::recover_to_block_end:decreases-not-satisfied'},      # (C02.stat.recover-terminates)
    {'name': 'gs-if-no-bump', 'item': 'g::parse_if',
     'pattern': r"p\.bump\(\); // consume 'if'", 'repl': '',
     'expect': r'g::parse_if:(could-not-prove-termination|postcondition-not-satisfied\[C02\.stat\.progress\])'},
    {'name': 'gs-stat-start-set', 'item': 'g::is_statement_start_token',
     'pattern': r'\| LuaTokenKind::TkName', 'repl': '| LuaTokenKind::TkString',
     'expect': r'C02\.stat\.start-set'},
    {'name': 'gs-assign-skip-first-expr', 'item': 'g::parse_assign_or_expr_or_soft_keyword_stat',
     'pattern': r'let cm = match parse_simple_expr\(p\) \{\s*Ok\(cm\) => cm,', 'repl': 'let cm = match Ok::<CompleteMarker, ParseFailReason>(CompleteMarker::empty()) { Ok(cm) => cm,',
     'expect': r'C02\.stat\.progress'},
    # --- bump at the end of input / marker liveness / mark_level --------------------------------------------------------------------
    {'name': 'gs-const-third-bump', 'item': 'g::try_parse_const',
     'pattern': r"p\.bump\(\); // consume 'function'", 'repl': 'p.bump(); p.bump();',
     'expect': r'g::try_parse_const:precondition-not-satisfied\{p\.bump\(\)'},
    {'name': 'gs-global-peek-ignored', 'item': 'g::try_parse_global_stat',
     'pattern': r'match p\.peek_next_token\(\) \{', 'repl': 'match p.current_token() {',
     'expect': r'g::try_parse_global_stat:precondition-not-satisfied'},
    {'name': 'gs-local-dead-marker', 'item': 'g::parse_local',
     'pattern': r'(let mut m = p\.mark\(LuaSyntaxKind::LocalStat\);)', 'repl': r'\1 m = Marker::new(m.position + 1);',
     'expect': r'g::parse_local:(precondition-not-satisfied|assertion)'},
    {'name': 'gs-stats-one-node-end-too-many', 'item': 'g::parse_stats',
     'pattern': r'0\.\.\(current_level - level\)', 'repl': '0..(current_level - level + 1)',
     'expect': r'g::parse_stats'},
    {'name': 'gs-func-name-precede-stale', 'item': 'g::parse_func_name',
     'pattern': r'let mut cm = m\.complete\(p\);', 'repl': 'let mut cm = m.complete(p); cm.start = 1;',
     'expect': r'g::parse_func_name:(invariant-not-satisfied|precondition-not-satisfied)'},
    {'name': 'gs-expect-token-bumps-anyway', 'item': 'g::expect_token',
     'pattern': r'if p\.current_token\(\) == LuaTokenKind::TkEof \{\s*return Err\(ParseFailReason::Eof\);\s*\}', 'repl': 'p.bump();',
     'expect': r'g::expect_token:precondition-not-satisfied'},
    # --- base-item patches ------------------------------------------------------------------------------------------------------
    {'name': 'gs-peek-two-ahead', 'item': 'LuaParser::peek_next_token',
     'pattern': r'self\.token_index \+ 1', 'repl': 'self.token_index + 2',
     'expect': r'LuaParser::peek_next_token:(precondition-not-satisfied|postcondition-not-satisfied)'},
    {'name': 'gs-set-kind-writes-next-token', 'item': 'LuaParser::set_current_token_kind',
     'pattern': r'self\.tokens\[self\.token_index\]\.kind = kind;', 'repl': 'self.tokens[self.token_index].kind = kind; if self.token_index + 1 < self.tokens.len() { self.tokens[self.token_index + 1].kind = kind; }',
     'expect': r'LuaParser::set_current_token_kind'},
]
TRUSTED = [
    'PRECONDITION of parse_chunk added by BASE_PATCH: nosoft — no token of the stream has kind TkContinue or TkConst. DISCHARGED: unit c01_reader proves '
    '`no_soft_kinds(tokens)` as a postcondition of LuaLexer::tokenize (label C02.lexer.no-soft-keyword-kinds; name_to_kind maps "continue"/"const" to '
    'TkName), unit c01_compose proves no_soft_kinds(toks) ==> nosoft_at(toks, 0) (lemma_g4_nosoft; predicates shared through '
    'units/c02_grammar/nosoft_iface.rs). WITHOUT it parse_stats does not terminate (latent: token stream [TkContinue, TkName]); that the tokens handed '
    'to parse_chunk are the lexer output is read off LuaParser::parse (lua_parser.rs:50-72), as for tokens_ok',
    'error REPORTING is removed by rules gs-drop-error-report / gs-drop-msg-closure-arg / gs-drop-msg-closure-param (-> vx_note_error()): TRUSTED that '
    '`t!(..)` (rust-i18n), LuaParseError::syntax_error_from, LuaParser::push_error (iterator chain over `errors` + Vec::push), `p.errors.push` and the '
    'message closures `|| t!(..)` do not panic and touch nothing but `errors` (a field projected out of LuaParser)',
    'LuaParser::current_token_text (shim, stat_shims.rs): precondition token_index < tokens.len() is PROVED at its call site (try_soft_keyword_stat); '
    'TRUSTED that `&self.text[range.start_offset..range.end_offset()]` does not panic (token ranges lie inside the text on char boundaries: lexer, C01/L1)',
    'ParserConfig::support (shared_shims.rs), vx_level_ge_lua55 (`p.parse_config.level >= LuaLanguageLevel::Lua55`), `<[T]>::contains` '
    '(assume_specification, std): total, results unconstrained (every branch is verified for both answers)',
    'DISCHARGED here for every call site in grammar/lua/stat.rs and grammar/lua/mod.rs (the base unit lists them as PRECONDITION assumptions): bump is never '
    'called at the end of input; push_node_end / non-empty Marker::complete only with mark_level > 0; Marker::{set_kind,complete,undo} only on a live marker; '
    'CompleteMarker::precede only on a CompleteMarker whose start holds a NodeStart; `current_level - level` and `depth += 1` do not overflow',
]
ALLOW = [r'assume_specification<T: PartialEq>\[ <\[T\]>::contains \]']
NOT_COVERED = [
    'that a syntax error IS reported for malformed input (the `errors` list is projected out; only "no panic, terminates, invariant kept" is proved)',
    'stack depth: every recursion is proved to terminate (decreases grem, rank), but the recursion depth is bounded only by the number of tokens '
    '(deep nesting overflows the stack: known finding replay/c02)',
    '"roughly linear time": termination is proved, a complexity bound is not (recover_to_block_end decrements `depth` without consuming at an `end` '
    'token while depth > 1: bounded by tokens consumed so far, so still linear overall, not proved)',
]
