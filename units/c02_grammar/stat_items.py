"""contract overlay for the fns of grammar/lua/stat.rs and grammar/lua/mod.rs (except parse_chunk) — see build.py for the format.
Owned by the 'stat' side: the other side reads the requires/ensures written here as ASSUMED contracts."""
LEMMAS = None            # e.g. 'stat_lemmas.rs' (hand-written lemmas with verified bodies, included before the fns)
TYPES = {}               # extra extracted types / consts: key -> framework item dict
SHIMS = []               # extra hand-written shim files (specification only) under units/c02_grammar/
EXTRA_RULES = []         # (name, regex, repl, doc[, flags]) named rewrite rules
MUTANTS = []
TRUSTED = []
ALLOW = []
NOT_COVERED = []
ITEMS = {
}
