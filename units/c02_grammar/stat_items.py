"""contract overlay for the fns of grammar/lua/stat.rs and grammar/lua/mod.rs (except parse_chunk) — see build.py for the format.
Owned by the 'stat' side: the other side reads the requires/ensures written here as ASSUMED contracts."""
import re
from vc import rules as R
from vc import rustlex as L
from vc.extract import Undecided

GM = 'crates/emmylua_parser/src/grammar/mod.rs'
TKF = 'crates/emmylua_parser/src/kind/lua_token_kind.rs'
LF = 'crates/emmylua_parser/src/kind/lua_features.rs'
PCF = 'crates/emmylua_parser/src/parser/parser_config.rs'


# =============================================================================================================================
# unit-local rewrite rules (all prefixed gs-)
# =============================================================================================================================
def _strip_t_macros(s):
    """remove every `t!( ... )` group (balanced) from s; returns (rest, number removed)"""
    n = 0
    while True:
        m = re.search(r'\bt!\s*\(', s)
        if not m: return s, n
        depth, j = 1, m.end()
        toks = [t for t in L.tokens(s[m.end():])]
        end = None
        for t in toks:
            tx = s[m.end() + t[1]:m.end() + t[2]]
            if t[0] == 'punct':
                if tx == '(': depth += 1
                elif tx == ')':
                    depth -= 1
                    if depth == 0:
                        end = m.end() + t[2]; break
        if end is None: raise Undecided('gs: unbalanced t!(..)')
        s = s[:m.start()] + s[end:]
        n += 1


def _pure_msg(body):
    """a message expression: `t!(..)` or `{ t!(..) }` (the i18n macro; its arguments are reads of locals / p.current_token() / the level field)"""
    b = body.strip()
    if b.startswith('{') and b.endswith('}'): b = b[1:-1].strip()
    rest, n = _strip_t_macros(b)
    return n == 1 and rest.strip() == ''


@R.rule('gs-drop-error-report')
def gs_drop_error_report(text, **_):
    """Error REPORTING only: every statement `p.push_error(LuaParseError::syntax_error_from(MSG, RANGE));` (and the one
    `p.errors.push(LuaParseError::syntax_error_from(MSG, RANGE));` of parse_attrib) becomes `vx_note_error();`. Accepted only if MSG is
    `&t!(..)` or `&error_msg` and RANGE is `p.current_token_range()` (a pure read, total: proved in c01_parser without precondition) or a
    local variable. `errors` is a field projected out of LuaParser (no contract mentions it); `push_error` / `Vec::push` touch nothing else.
    What is removed: the construction of the i18n message (`t!`: reads of locals, `p.current_token()`, `p.parse_config.level`), the call of
    `syntax_error_from` and the push. TRUSTED: these do not panic."""
    n = 0
    while True:
        m = re.search(r'\bp\s*\.\s*(?:push_error|errors\s*\.\s*push)\s*\(', text)
        if not m: break
        toks = L.code_tokens(text)
        oi = next(i for i, t in enumerate(toks) if t[2] == m.end())
        ci = L.match_close(text, toks, oi)
        if L.tok_text(text, toks[ci + 1]) != ';':
            raise Undecided('gs-drop-error-report: push_error is not a statement')
        arg = text[toks[oi][2]:toks[ci][1]].strip()
        ma = re.match(r'LuaParseError::syntax_error_from\s*\((.*)\)\s*$', arg, flags=re.S)
        if not ma: raise Undecided('gs-drop-error-report: unexpected argument: ' + arg[:60])
        rest, _k = _strip_t_macros(ma.group(1))
        if not re.match(r'^\s*&\s*(error_msg)?\s*,\s*(p\s*\.\s*current_token_range\s*\(\s*\)|[a-z_]+)\s*,?\s*$', rest, flags=re.S):
            raise Undecided('gs-drop-error-report: arguments are not (message, pure range): ' + rest[:80])
        text = text[:m.start()] + 'vx_note_error()' + text[toks[ci][2]:]
        n += 1
    return text, n


LAZY_FNS = ('push_expr_error_lazy', 'expect_keyword_with_recovery', 'expect_end_keyword')


@R.rule('gs-drop-msg-closure-arg')
def gs_drop_msg_closure_arg(text, **_):
    """call sites of push_expr_error_lazy / expect_keyword_with_recovery / expect_end_keyword: the last argument, a closure `|| t!(..)` /
    `|| { t!(..) }` that only BUILDS the i18n error message (called once by the callee to report the error; captures are reads of
    locals), is dropped together with the callee's parameter (rule gs-drop-msg-closure-param)."""
    n = 0
    pos = 0
    while True:
        m = re.compile(r'\b(%s)\s*\(' % '|'.join(LAZY_FNS)).search(text, pos)
        if not m: break
        toks = L.code_tokens(text)
        oi = next(i for i, t in enumerate(toks) if t[2] == m.end())
        if oi >= 2 and L.tok_text(text, toks[oi - 2]) == 'fn':
            pos = m.end(); continue            # the definition itself
        ci = L.match_close(text, toks, oi)
        # top-level commas
        k, depth, commas = oi + 1, 0, []
        while k < ci:
            tx = L.tok_text(text, toks[k])
            if tx in ('(', '[', '{'):
                k = L.match_close(text, toks, k) + 1; continue
            if tx == ',': commas.append(k)
            k += 1
        if commas and all(toks[j][0] in ('ws',) for j in range(commas[-1] + 1, ci)):
            commas_eff = commas[:-1]; last_end = toks[commas[-1]][1]       # trailing comma
        else:
            commas_eff = commas; last_end = toks[ci][1]
        if not commas_eff: raise Undecided('gs-drop-msg-closure-arg: call without closure argument')
        lc = commas_eff[-1]
        arg = text[toks[lc][2]:last_end].strip()
        if not arg.startswith('||'):
            pos = m.end(); continue            # already rewritten
        if not _pure_msg(arg[2:]):
            raise Undecided('gs-drop-msg-closure-arg: closure is not a pure message: ' + arg[:80])
        text = text[:toks[lc][1]] + text[toks[ci][1]:]
        n += 1
        pos = m.end()
    return text, n


@R.rule('gs-drop-msg-closure-param')
def gs_drop_msg_closure_param(text, **_):
    """definitions of push_expr_error_lazy / expect_keyword_with_recovery / expect_end_keyword: the generic parameter
    `F: FnOnce() -> std::borrow::Cow<'static, str>`, the parameter `error_msg_fn: F` and the statement `let error_msg = error_msg_fn();`
    are removed (the closure is called exactly once, only to build the message handed to push_error, which rule gs-drop-error-report
    turns into vx_note_error()). TRUSTED: the message closures (`|| t!(..)`) do not panic."""
    n_total = 0
    for pat in (r'<F>', r',?\s*error_msg_fn: F,?(?=\s*\))', r'where\s+F: FnOnce\(\) -> std::borrow::Cow<\'static, str>,',
                r'let error_msg = error_msg_fn\(\);'):
        text, k = re.subn(pat, '', text, count=1)
        if k != 1: raise Undecided('gs-drop-msg-closure-param: /%s/ not found' % pat)
        n_total += 1
    return text, n_total


@R.rule('gs-map-err-question')
def gs_map_err_question(text, **_):
    """`parse_expr(p).map_err(|_| B)?`  ->  `(match parse_expr(p) { Ok(vx_v) => vx_v, Err(_) => { return Err(B); } })`
    (std: Result::map_err applies the closure to the Err value and leaves Ok untouched; `?` returns `Err(From::from(e))`, and From is the
    identity because B has the fn's error type). The closure ignores its argument."""
    n = 0
    while True:
        m = re.search(r'parse_expr\(p\)\s*\.\s*map_err\s*\(\s*\|_\|', text)
        if not m: break
        toks = L.code_tokens(text)
        # the `(` of map_err
        oi = next(i for i, t in enumerate(toks) if L.tok_text(text, t) == '(' and i >= 1 and L.tok_text(text, toks[i - 1]) == 'map_err' and t[1] > m.start())
        ci = L.match_close(text, toks, oi)
        if L.tok_text(text, toks[ci + 1]) != '?':
            raise Undecided('gs-map-err-question: map_err not followed by ?')
        body = text[m.end():toks[ci][1]].strip()
        new = '(match parse_expr(p) { Ok(vx_v) => vx_v, Err(_) => { return Err(%s); } })' % body
        text = text[:m.start()] + new + text[toks[ci + 1][2]:]
        n += 1
    return text, n


@R.rule('gs-match-guard-if-chain')
def gs_match_guard_if_chain(text, scrutinee='keyword', **_):
    """`match X { P1 if G1 => B1, P2 if G2 => B2, .., _ => Bn }` with X a local variable, every Pi a string literal (no binding) and an
    unguarded final `_` arm  ->  `if matches!(X, P1) && (G1) { B1 } else if matches!(X, P2) && (G2) { B2 } .. else { Bn }`.
    Arms are tried in order, a guard is evaluated only when its pattern matches (`&&` short-circuits), literal patterns have no effect:
    the reference semantics of `match` with guards. (Needed because this Verus version loses the final value of a `&mut` parameter across a
    guarded match: probe in units/c02_grammar/REQUESTS_TO_EXPR.md.)"""
    m = re.search(r'\bmatch\s+%s\s*\{' % re.escape(scrutinee), text)
    if not m: return text, 0
    toks = L.code_tokens(text)
    ob = next(i for i, t in enumerate(toks) if t[2] == m.end())
    cb = L.match_close(text, toks, ob)
    arms, k = [], ob + 1
    while k < cb:
        ps = k
        while L.tok_text(text, toks[k]) not in ('if', '=') or (L.tok_text(text, toks[k]) == '=' and L.tok_text(text, toks[k + 1]) != '>'):
            k += 1
        pat = text[toks[ps][1]:toks[k - 1][2]]
        guard = None
        if L.tok_text(text, toks[k]) == 'if':
            gs_ = k + 1
            while not (L.tok_text(text, toks[k]) == '=' and L.tok_text(text, toks[k + 1]) == '>'):
                k = L.match_close(text, toks, k) + 1 if L.tok_text(text, toks[k]) in ('(', '[', '{') else k + 1
            guard = text[toks[gs_][1]:toks[k - 1][2]]
        k += 2                                   # `=>`
        if L.tok_text(text, toks[k]) == '{':
            e = L.match_close(text, toks, k)
            body = text[toks[k][1]:toks[e][2]]
            k = e + 1
        else:
            bs = k
            while k < cb and L.tok_text(text, toks[k]) != ',':
                k = L.match_close(text, toks, k) + 1 if L.tok_text(text, toks[k]) in ('(', '[', '{') else k + 1
            body = '{ ' + text[toks[bs][1]:toks[k - 1][2]] + ' }'
        if k < cb and L.tok_text(text, toks[k]) == ',': k += 1
        arms.append((pat.strip(), guard, body))
    if not arms or arms[-1][0] != '_' or arms[-1][1] is not None:
        raise Undecided('gs-match-guard-if-chain: last arm is not an unguarded `_`')
    parts = []
    for pat, guard, body in arms[:-1]:
        if not re.match(r'^"[^"\\]*"$', pat) or guard is None:
            raise Undecided('gs-match-guard-if-chain: arm is not `"literal" if guard`: ' + pat)
        parts.append('if matches!(%s, %s) && (%s) %s' % (scrutinee, pat, guard, body))
    new = ' else '.join(parts) + ' else ' + arms[-1][2]
    return text[:m.start()] + new + text[toks[cb][2]:], 1


OPT = {'optional': True}
STD_RULES = [('gs-map-err-question', OPT), ('gs-drop-msg-closure-arg', OPT), ('gs-drop-error-report', OPT), ('gs-level-ge', OPT),
             ('gs-crate-path', OPT)]

EXTRA_RULES = [
    ('gs-level-ge', r'p\.parse_config\.level >= LuaLanguageLevel::Lua55', 'vx_level_ge_lua55(&p.parse_config)',
     '`p.parse_config.level >= LuaLanguageLevel::Lua55` (field read of the opaque ParserConfig + derived PartialOrd of a field-less enum: pure, '
     'total) -> `vx_level_ge_lua55(&p.parse_config)`, an external_body fn with unconstrained result'),
    ('gs-crate-path', r'crate::text::SourceRange', 'SourceRange', 'path only: `crate::text::SourceRange` is the extracted `SourceRange` of this file'),
]

# =============================================================================================================================
# contract vocabulary
# =============================================================================================================================
HIDE = 'hide(l3::events_ok);'
NS_REQ = 'nosoft(old(p)), gfirst(old(p))'
NS_ENS = 'nosoft(final(p))'
NOT_EOF = '!(old(p).current_token is TkEof)'
PROG = 'gprog(old(p), final(p)) /*@C02.stat.progress*/'
SAME = '*final(p) == *old(p)'
LOOP_STD = 'ginv(p), nosoft(p), gfirst(p), gstep(old(p), p)'


def mark_live(var='m', kind=r'\w+'):
    """after `let [mut] m = p.mark(K);`: the marker is live (gives Z3 the term `p.events@[m.position]` that ev_mono propagates)"""
    return (r'let (?:mut )?%s = p\.mark\(LuaSyntaxKind::%s\);' % (var, kind), 'after', 'proof { assert(m_live(&%s, p)); }' % var)


def g(rank, requires=None, ensures=None, ret=None, loops=None, proof=None, rules=None, body_first=HIDE, attrs=None, ns=True, **kw):
    d = {'rank': rank, 'rules': (rules or []) + STD_RULES}
    req = ([NS_REQ] if ns else []) + ([requires] if requires else [])
    ens = ([NS_ENS] if ns else []) + ([ensures] if ensures else [])
    if req: d['requires'] = ',\n        '.join(req)
    if ens: d['ensures'] = ',\n        '.join(ens)
    if ret: d['ret'] = ret
    if loops: d['loops'] = loops
    if proof: d['proof'] = proof
    if body_first: d['body_first'] = body_first
    if attrs: d['attrs'] = attrs
    d.update(kw)
    return d


def bump_first(rank, extra_ens=None, **kw):
    """a statement parser that starts with `let m = p.mark(K); .. p.bump();`: called at a token that is not TkEof, always consumes"""
    proof = [mark_live()] + list(kw.pop('proof', []))
    ens = PROG + ((',\n        ' + extra_ens) if extra_ens else '')
    return g(rank, requires=NOT_EOF, ensures=ens, ret='r', proof=proof, **kw)


def wloop(extra='', dec='grem(p)'):
    return 'invariant\n    %s,%s\ndecreases %s' % (LOOP_STD, ('\n    ' + extra.strip().rstrip(',') + ',') if extra else '', dec)


M_INV = 'm_live(&m, p), p.mark_level > old(p).mark_level, gprog(old(p), p)'

ITEMS = {
    # ---------------------------------------------------------------------------------------------------------------- mod.rs
    'parse_block': g(210, ret='r', ensures='r is Ok', proof=[mark_live()]),
    'expect_token': g(
        201, ret='r', requires='!(token is TkEof)',
        ensures="""r is Ok ==> old(p).current_token == token && gprog(old(p), final(p))
                   && (!sp_invalid(token) ==> final(p).events@.len() > old(p).events@.len()),
        r is Err ==> """ + SAME),
    'if_token_bump': g(
        202, ret='r', requires='!(token is TkEof)',
        ensures="""r ==> old(p).current_token == token && gprog(old(p), final(p)),
        !r ==> """ + SAME),
    'is_statement_start_token': {'ret': 'r', 'ensures': 'r == sp_stat_start(token) /*@C02.stat.start-set*/'},
    # --------------------------------------------------------------------------------------------------------------- stat.rs
    'push_expr_error_lazy': g(101, ensures=SAME, rules=['gs-drop-msg-closure-param']),
    'expect_keyword_with_recovery': g(
        102, ret='r', requires='!(expected is TkEof)', rules=['gs-drop-msg-closure-param'],
        ensures="""old(p).current_token == expected ==> r && gprog(old(p), final(p)),
        old(p).current_token != expected ==> """ + SAME + """ && r == sp_stat_start(old(p).current_token)"""),
    'expect_end_keyword': g(104, rules=['gs-drop-msg-closure-param']),
    'recover_to_block_end': g(
        103,
        loops={0: wloop('0 <= depth <= 1 + (p.token_index - old(p).token_index)', 'grem(p), depth') + ' /*@C02.stat.recover-terminates*/'}),
    'recover_to_keywords': g(105, loops={0: wloop() + ' /*@C02.stat.recover-terminates*/'}),
    'parse_expr_list_impl': g(106, ret='r', loops={0: wloop()}),
    'parse_variable_name_list': g(119, ret='r', loops={0: wloop()}),
    'parse_global_name_list': g(120, ret='r', loops={0: wloop()}),
    'parse_stats': g(
        190,
        loops={
            0: wloop() + ' /*@C02.stats.terminates*/',
            1: """invariant
    """ + LOOP_STD + """,
    p.token_index == ti1, p.current_token == c1, ti1 > ti0 || !sp_stat_start(c1),
    old(p).mark_level <= level <= current_level, p.mark_level + VERUS_ghost_iter.index() == current_level,
    VERUS_ghost_iter.seq().len() == current_level - level,""",
            2: """invariant
    """ + LOOP_STD + """, old(p).mark_level <= level <= p.mark_level,
    p.token_index >= ti0, can_continue ==> p.token_index > ti0,
    p.token_index > ti0 || !sp_stat_start(p.current_token),
decreases grem(p) /*@C02.stats.recovery-terminates*/""",
        },
        proof=[
            (r'let level = p\.get_mark_level\(\);', 'after', 'let ghost ti0 = p.token_index;'),
            (r'let current_level = p\.get_mark_level\(\);', 'after', 'let ghost ti1 = p.token_index; let ghost c1 = p.current_token;'),
        ]),
    'block_follow': {'ret': 'r', 'ensures': 'r == sp_block_follow(p.current_token) /*@C02.stat.block-follow-set*/'},
    'parse_stat': g(
        180, ret='r',
        ensures="""r is Ok ==> gprog(old(p), final(p)) /*@C02.stat.progress*/,
        r is Err && !gprog(old(p), final(p)) ==> !sp_stat_start(final(p).current_token) /*@C02.stat.err-progress-or-not-a-statement-start*/"""),
    'parse_if': bump_first(140, loops={0: wloop(M_INV)}),
    'parse_elseif_clause': bump_first(132),
    'parse_else_clause': bump_first(131),
    'parse_while': bump_first(139),
    'parse_do': bump_first(138),
    'parse_for': bump_first(137, loops={0: wloop(M_INV)}),
    'parse_function': bump_first(136),
    'parse_func_name': g(
        126, ret='r', proof=[mark_live()],
        loops={0: wloop('cm.start < p.events@.len(), p.events@[cm.start as int] is NodeStart')}),
    'parse_local': bump_first(135),
    'try_parse_const': g(
        149, ret='r', requires=NOT_EOF, proof=[mark_live()],
        ensures="""r is Err ==> gprog(old(p), final(p)),
        r matches Ok(cm) ==> gprog(old(p), final(p)) || cm.kind is None,
        gkeep(old(p), final(p))"""),
    'parse_local_name': g(111, ret='r', proof=[mark_live()]),
    'parse_attrib': bump_first(110),
    'parse_return': bump_first(134),
    'parse_break': bump_first(130),
    'try_parse_continue': g(
        148, ret='r', requires=NOT_EOF, proof=[mark_live()],
        ensures="""r is Ok,
        r matches Ok(cm) ==> gprog(old(p), final(p)) || cm.kind is None,
        gkeep(old(p), final(p))"""),
    'parse_repeat': bump_first(133),
    'parse_goto': bump_first(129),
    'parse_empty_stat': bump_first(128),
    'try_parse_global_stat': g(
        150, ret='r', requires=NOT_EOF, proof=[mark_live(), mark_live('m2')],
        ensures="""r is Err ==> gprog(old(p), final(p)),
        r matches Ok(cm) ==> gprog(old(p), final(p)) || cm.kind is None,
        gkeep(old(p), final(p))"""),
    'try_soft_keyword_stat': g(
        160, ret='r', requires=NOT_EOF, rules=['gs-match-guard-if-chain'],
        ensures="""r is Err ==> gprog(old(p), final(p)),
        r matches Ok(cm) ==> gprog(old(p), final(p)) || cm.kind is None,
        gkeep(old(p), final(p))"""),
    'parse_assign_or_expr_or_soft_keyword_stat': g(
        170, ret='r', proof=[mark_live()],
        loops={0: wloop(M_INV)},
        ensures="""r is Ok ==> gprog(old(p), final(p)) /*@C02.stat.progress*/,
        old(p).current_token is TkName ==> gprog(old(p), final(p)) /*@C02.stat.progress*/,
        gkeep(old(p), final(p))"""),
    'is_compound_assignment_start': {'ret': 'r', 'ensures': 'r ==> !(p.current_token is TkEof)'},
    'parse_label_stat': bump_first(127),
}

# =============================================================================================================================
# additions to the base unit's items (proved in every grammar unit)
# =============================================================================================================================
BASE_PATCH = {
    'LuaParser::peek_next_token': {
        'ensures+': 'r == sp_peek(self.tokens@, self.token_index as int) /*@C02.peek.spec*/',
        'proof+': [(r'self\.skip_trivia\(&mut next_index\);', 'after',
                    'proof { lemma_next_nt(self.tokens@, self.token_index + 1, next_index as int); }')],
    },
    'LuaParser::bump': {
        'ensures+': """!(sp_peek(old(self).tokens@, old(self).token_index as int) is None)
                ==> final(self).current_token == sp_peek(old(self).tokens@, old(self).token_index as int) /*@C02.bump.lands-on-peeked-token*/,
            !sp_invalid(old(self).current_token) ==> final(self).events@.len() > old(self).events@.len() /*@C02.bump.emits-an-event*/""",
        'proof+': [(r'self\.skip_trivia\(&mut next_index\);', 'after',
                    'proof { lemma_next_nt(self.tokens@, old(self).token_index + 1, next_index as int); }')],
    },
    'LuaParser::set_current_token_kind': {
        'ensures+': """forall|j: int| 0 <= j < old(self).tokens@.len() && j != old(self).token_index ==> #[trigger] final(self).tokens@[j] == old(self).tokens@[j],
            old(self).token_index < old(self).tokens@.len() ==> final(self).current_token == kind && final(self).tokens@[old(self).token_index as int].kind == kind,
            sp_peek(final(self).tokens@, final(self).token_index as int) == sp_peek(old(self).tokens@, old(self).token_index as int) /*@C02.set-kind.peek-unchanged*/""",
        'proof+': [(r'self\.current_token = kind;', 'after',
                    'proof { lemma_next_nt_frame(old(self).tokens@, self.tokens@, self.token_index + 1); }')],
    },
    'parse_chunk': {
        'requires+': 'nosoft(old(p))',
        'loop_invariants+': {0: 'nosoft(p)'},
    },
}

# clauses needed from expr.rs fns that are not (yet) in expr_items.py — see REQUESTS_TO_EXPR.md
CROSS_NEEDS = {
    'parse_expr': {'ret': 'r', 'ensures': NS_ENS},
    'parse_closure_expr': {'ret': 'r', 'ensures': NS_ENS},
    'parse_simple_expr': {
        'ret': 'r',
        'ensures': NS_ENS + """,
        (r is Ok || old(p).current_token is TkName) ==> gprog(old(p), final(p)) /*@C02.expr.simple-progress*/,
        gkeep(old(p), final(p))"""},
}

LEMMAS = None
TYPES = {
    'ParseFailReason': {'src': {'file': GM, 'kind': 'enum', 'name': 'ParseFailReason'}},
    'ParseResult': {'src': {'file': GM, 'kind': 'type', 'name': 'ParseResult'}},
    'LuaFeatures': {'src': {'file': LF, 'kind': 'enum', 'name': 'LuaFeatures'}, 'attrs': '#[derive(Clone, Copy)]'},
    'SpecialFunction': {'src': {'file': PCF, 'kind': 'enum', 'name': 'SpecialFunction'}, 'attrs': '#[derive(Clone, Copy, PartialEq, Eq, Structural)]'},
    'LuaTokenKind::is_compound_assign_op': {
        'src': {'file': TKF, 'kind': 'fn', 'impl': 'LuaTokenKind', 'name': 'is_compound_assign_op'}, 'place': False,
        'ret': 'r', 'ensures': 'r ==> !(self is TkEof) && !(self is None)'},
}
SHIMS = ['shared_shims.rs', 'stat_shims.rs']
MUTANTS = []
TRUSTED = []
ALLOW = [r'assume_specification<T: PartialEq>\[ <\[T\]>::contains \]']
NOT_COVERED = []
