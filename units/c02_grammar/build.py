"""Builder of the Lua-grammar units (C02 grammar part; discharges the contract unit c01_parser ASSUMES for parse_stats).

Three units are generated from the same sources:
  c02_gexpr    every fn of grammar/lua/expr.rs proved; the fns of stat.rs / mod.rs it calls are ASSUMED (external_body) with
               the contract text written in stat_items.py (proved in c02_gstat / c02_grammar)
  c02_gstat    every fn of grammar/lua/stat.rs and grammar/lua/mod.rs (except parse_chunk, proved in the base) proved; the fns of
               expr.rs are ASSUMED with the contract text written in expr_items.py
  c02_grammar  everything proved in one file (no assumed grammar contract is left; the recursion through both files is checked
               against the `decreases` clauses)
All three extend unit c01_parser: its items (real parser driver + marker API, re-verified here) and its template, from which the
hand-written ASSUMED shim of `parse_stats` is cut out and replaced by the real grammar.

expr_items.py / stat_items.py:  ITEMS = { '<fn name>': { overlay ... } }   one entry per fn of the file (a fn of the file without
an entry makes the unit UNDECIDED, so a new grammar function cannot escape the proof), LEMMAS = '<file included before the fns>'.
Overlay keys are those of units/README.md plus:
  'std': False      do not add the standard grammar contract (for helpers without a `p: &mut LuaParser` parameter)
  'rank': n         position in the termination order (see gspec.rs); used as `decreases grem(old(p)), n`
Module-level names of an items file besides ITEMS / LEMMAS / TYPES / SHIMS / EXTRA_RULES / MUTANTS / TRUSTED / ALLOW / NOT_COVERED:
  CROSS_NEEDS = {'<fn of the OTHER side>': 'extra ensures text' | {'requires': .., 'ensures': .., 'ret': ..}}   added to the ASSUMED version of that fn (this side's unit) and to its
                    PROVED version in the combined unit c02_grammar, until the other side writes the clause into its own items file
  BASE_PATCH  = {'<item key of unit c01_parser>': {'ensures+': .., 'requires+': .., 'proof+': [..], 'body_first+': .., 'rules+': [..],
                    'loops+': {..}, 'loop_invariants+': {ordinal: 'clauses'}}}   pure additions to a base item's overlay (applied in all three units; the item is re-proved)
  a TYPES entry may carry 'place': False: no placeholder is generated, one of the SHIMS files contains `//@@ <key>` (methods of an impl)
"""
import copy
import importlib.util
import os
import re

from vc import extract as X
from vc import rustlex as L
from vc.extract import Undecided
from vc.assemble import REPO, VERIF
from vc import rules as R

GDIR = 'crates/emmylua_parser/src/grammar/lua/'
FILES = {'expr': [GDIR + 'expr.rs'], 'stat': [GDIR + 'stat.rs', GDIR + 'mod.rs']}
BASE_CALLS = {'parse_stats'}    # called by the base item parse_chunk: needed in every unit
SKIP = {'parse_chunk'}          # proved in the base unit (c01_parser) against the contract of parse_stats

STD_REQ = 'ginv(old(p))'
# one clause per line, each with its property label (failed obligations are reported under the label of the clause line)
STD_ENS = 'ginv(final(p)) /*@C01.grammar.keeps-inv*/,\n        gstep(old(p), final(p)) /*@C02.grammar.step*/'


@R.rule('body-unimplemented')
def body_unimplemented(text, **_):
    """ASSUMED items only: the body of the fn is replaced by `{ unimplemented!() }` (the fn is `#[verifier::external_body]`: only its
    signature and contract are used; the same fn is proved, with its real body, in the unit named in the evidence)"""
    sh = X.fn_shape(text)
    return text[:sh.body_open] + '{ unimplemented!() }' + text[sh.body_close + 1:], 1


def _load(path, name):
    spec = importlib.util.spec_from_file_location(name, path)
    mod = importlib.util.module_from_spec(spec)
    spec.loader.exec_module(mod)
    return mod


def fns_of(repo, rel):
    """names of the top-level fns of a file, in textual order (cfg(test) modules are `mod` items and are skipped)"""
    src = X.read_source(repo, rel)
    toks = L.code_tokens(src)
    out = []
    for a, b in X._top_level_items(src, toks, 0, len(toks)):
        a2 = X._strip_attrs(src, toks, a, b)
        if a2 >= b: continue
        kind, name, _ = X._header(src, toks, a2, b)
        if kind == 'fn': out.append(name)
    return out


def _has_parser_param(repo, rel, name):
    it = X.find_item(repo, {'file': rel, 'kind': 'fn', 'name': name})
    sh = X.fn_shape(it.raw)
    return re.search(r'\bp\s*:\s*&\s*mut\s+LuaParser\b', it.raw[sh.params[0]:sh.params[1]]) is not None


def make_unit(prove, name):
    here = os.path.dirname(os.path.abspath(__file__))
    repo = os.environ.get('VERIF_REPO', REPO)
    base = _load(os.path.join(VERIF, 'units', 'c01_parser', 'unit.py'), 'c01_parser_unit_for_' + name).UNIT
    unit = copy.deepcopy({k: v for k, v in base.items() if k not in ('name', 'dir')})
    sides = {'expr': _load(os.path.join(here, 'expr_items.py'), 'c02_expr_items_' + name),
             'stat': _load(os.path.join(here, 'stat_items.py'), 'c02_stat_items_' + name)}
    with open(os.path.join(VERIF, 'units', 'c01_parser', 'template.rs'), encoding='utf-8') as f:
        tmpl = f.read()
    # cut the hand-written ASSUMED shim of parse_stats out of the base template
    cut = re.compile(r'/// ASSUMED contract of the statement grammar.*?#\[verifier::external_body\]\s*pub fn parse_stats\(p: &mut LuaParser\).*?\{ unimplemented!\(\) \}\n', re.S)
    if len(cut.findall(tmpl)) != 1:
        raise Undecided('c02_grammar: the parse_stats shim of units/c01_parser/template.rs was not found exactly once')
    tmpl = cut.sub('// (the ASSUMED shim of parse_stats is replaced by the real grammar below)\n', tmpl)
    section = ['', '// ' + '-' * 93, '// the Lua grammar (grammar/lua/{mod,stat,expr}.rs), extracted', '// ' + '-' * 93,
               '//@@include c02_grammar/gspec.rs']
    trusted, assumed_fns, proved_fns = [], [], []
    proved_src = '\n'.join(X.read_source(repo, rel) for sd in prove for rel in FILES[sd])
    for side in ('expr', 'stat'):
        mod = sides[side]
        if side in prove and getattr(mod, 'LEMMAS', None):
            section.append('//@@include c02_grammar/' + mod.LEMMAS)
        for key, cfg in getattr(mod, 'TYPES', {}).items():        # enums / structs / consts the fns need (extracted)
            if key not in unit['items']:
                cfg = copy.deepcopy(cfg)
                place = cfg.pop('place', True)      # 'place': False -> the `//@@ key` placeholder is written in one of the SHIMS files
                unit['items'][key] = cfg            # (e.g. a method that must sit inside an `impl` block)
                if place: section.append('//@@ ' + key)
        for extra in getattr(mod, 'SHIMS', []):                    # hand-written shims (specification only), one include file each
            inc = '//@@include c02_grammar/' + extra
            if inc not in section: section.append(inc)
        for rel in FILES[side]:
            names = [n for n in fns_of(repo, rel) if n not in SKIP]
            missing = [n for n in names if n not in mod.ITEMS]
            if missing and side in prove:
                raise Undecided('c02_grammar: fns of %s without an entry in %s_items.py: %s' % (rel, side, missing))
            for n in names:
                cfg = copy.deepcopy(mod.ITEMS.get(n, {}))
                std = cfg.pop('std', None)
                if std is None: std = _has_parser_param(repo, rel, n)
                rank = cfg.pop('rank', None)
                req = [cfg.get('requires', '').strip().rstrip(',')] if cfg.get('requires') else []
                ens = [cfg.get('ensures', '').strip().rstrip(',')] if cfg.get('ensures') else []
                if std:
                    req.insert(0, STD_REQ); ens.insert(0, STD_ENS)
                # CROSS_NEEDS of the OTHER side: extra postconditions it needs from this fn before they are written into this side's
                # items file. Added to the ASSUMED version (other side's unit) and to the PROVED version in the combined unit
                # c02_grammar (which fails visibly if the clause cannot be proved); not added while this side works alone.
                other = sides['stat' if side == 'expr' else 'expr']
                need = getattr(other, 'CROSS_NEEDS', {}).get(n)
                if need and (side not in prove or len(prove) == 2):
                    if isinstance(need, str): need = {'ensures': need}      # a dict may also carry 'requires' (a global invariant the
                    if need.get('requires'): req.append(need['requires'].strip().rstrip(','))   # needing side establishes at its calls)
                    if need.get('ensures'): ens.append(need['ensures'].strip().rstrip(','))
                    if need.get('ret') and not cfg.get('ret'): cfg['ret'] = need['ret']
                item = {'src': {'file': rel, 'kind': 'fn', 'name': n}}
                if cfg.get('ret'): item['ret'] = cfg['ret']
                if req: item['requires'] = ',\n        '.join(req)
                if ens: item['ensures'] = ',\n        '.join(ens)
                if side in prove:
                    for k in ('rules', 'loops', 'proof', 'body_first', 'attrs', 'iter_names', 'extra_sig', 'default_rules', 'vac'):
                        if k in cfg: item[k] = cfg[k]
                    if cfg.get('decreases'): item['decreases'] = cfg['decreases']
                    elif rank is not None and std: item['decreases'] = 'grem(old(p)), %dnat' % rank   # (a bare literal has no type in a decreases tuple)
                    proved_fns.append(n)
                else:
                    # ASSUMED side: only the fns the PROVED side's source files mention are needed (a fn of the other file that the
                    # proved code cannot call adds nothing but its signature, which may use types this unit does not have); a helper
                    # without parser access that is mentioned (e.g. is_statement_start_token) is assumed with what its entry says
                    # (nothing: result unconstrained)
                    if n not in BASE_CALLS and not re.search(r'\b%s\b' % re.escape(n), proved_src):
                        continue
                    item['rules'] = [r for r in cfg.get('sig_rules', [])] + ['body-unimplemented']
                    item['attrs'] = '#[verifier::external_body]'
                    item['vac'] = False
                    item['default_rules'] = False
                    assumed_fns.append(n)
                unit['items']['g::' + n] = item
                section.append('//@@ g::' + n)
    # BASE_PATCH (either side, applied in all three units): additions to the overlay of an item of the base unit c01_parser that the
    # grammar proofs need (e.g. a stronger postcondition of LuaParser::bump). Pure additions: '<k>+' appends to requires / ensures /
    # body_first (text), proof / rules (lists), loops (dict); the strengthened item is re-proved here like every base item.
    for side in ('expr', 'stat'):
        for key, patch in getattr(sides[side], 'BASE_PATCH', {}).items():
            if key not in unit['items']:
                raise Undecided('c02_grammar: BASE_PATCH names %s, which is not an item of the base unit' % key)
            it = unit['items'][key]
            for k, v in patch.items():
                if not k.endswith('+'):
                    raise Undecided('c02_grammar: BASE_PATCH only adds (keys end in +): %s' % k)
                k0 = k[:-1]
                if k0 in ('requires', 'ensures'):
                    it[k0] = (it[k0].strip().rstrip(',') + ',\n            ' if it.get(k0) else '') + v.strip().rstrip(',')
                elif k0 == 'body_first':
                    it[k0] = (it.get(k0, '') + '\n' + v).strip()
                elif k0 in ('proof', 'rules'):
                    it[k0] = list(it.get(k0, [])) + list(v)
                elif k0 == 'loops':
                    d = dict(it.get(k0, {}))
                    for i, inv in v.items():
                        d[i] = (d[i].rstrip() + '\n' + inv) if i in d else inv
                    it[k0] = d
                elif k0 == 'loop_invariants':      # {ordinal: 'clause, clause'} inserted right after the first `invariant` keyword
                    d = dict(it.get('loops', {}))
                    for i, inv in v.items():
                        if i not in d or not re.search(r'\binvariant\b', d[i]):
                            raise Undecided('c02_grammar: BASE_PATCH loop_invariants+: %s has no loop #%d with an invariant' % (key, i))
                        d[i] = re.sub(r'\binvariant\b', lambda m: 'invariant\n    ' + inv.strip().rstrip(',') + ',', d[i], count=1)
                    it['loops'] = d
                else:
                    raise Undecided('c02_grammar: BASE_PATCH key %s not supported' % k)
    tmpl = tmpl.replace('} // verus!', '\n'.join(section) + '\n\n} // verus!')
    if tmpl.count('//@@include c02_grammar/gspec.rs') != 1:
        raise Undecided('c02_grammar: could not place the grammar section in the base template')
    unit['template_text'] = tmpl
    for side in ('expr', 'stat'):
        mod = sides[side]
        if side in prove:
            unit['extra_rules'] = list(unit.get('extra_rules', [])) + list(getattr(mod, 'EXTRA_RULES', []))
            unit['mutants'] = list(unit.get('mutants', [])) + list(getattr(mod, 'MUTANTS', []))
            trusted += list(getattr(mod, 'TRUSTED', []))
        # the SHIMS files of BOTH sides are included in every unit, so their allow-list entries apply in every unit
        unit['allow'] = list(unit.get('allow', [])) + list(getattr(mod, 'ALLOW', []))
    # the base unit's own mutants target base items only; keep them (they still must fail here)
    base_tr = [t for t in unit.get('trusted', []) if 'parse_stats' not in t]
    if assumed_fns:
        trusted.append('ASSUMED in this unit (external_body, body replaced by unimplemented!()), PROVED with the identical contract text in unit '
                       'c02_grammar and in the sibling unit: ' + ', '.join(sorted(assumed_fns)))
    unit['trusted'] = base_tr + trusted
    unit['proved_grammar_fns'] = proved_fns
    unit['min_obligations'] = unit.get('min_obligations', 60) + len(proved_fns)
    nc = []
    for side in ('expr', 'stat'):
        if side in prove: nc += list(getattr(sides[side], 'NOT_COVERED', []))
    unit['not_covered'] = [t for t in unit.get('not_covered', []) if 'statement/expression grammar' not in t] + nc
    return unit
